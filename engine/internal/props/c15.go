package props

import (
	"fmt"
	"go/token"
	"go/types"
	"sort"

	"golang.org/x/tools/go/ssa"

	"verif/engine/internal/core"
)

func init() { register("C15", checkC15) }

const pkgEsWriter = "pkg/es/writer"

func checkC15(c *core.Ctx, r *core.Report) {
	r.Explanation = "[DEPENDS (shared with C16) — ProcessIndexRequestPle stores the batch under, and picks the timestamp key by, the index name resolved through AddAndGetRealIndexName; the extraction with that key runs for every event] [OWN — no map update is made through a value that may alias the process-wide created-item template that every successful response slot shares] [OWN — the map-building slice helpers of pkg/utils (ConvertSliceToMap builds the per-index batches of a bulk request) never append to a slice that may share their input's backing array] [POOL — an event object taken from writer.plePool carries no field value of its previous use when it is handed out: reset-on-get (Reset after Get and every other field assigned unconditionally) or reset-on-put (every Put preceded by Reset)] C15 (bulk ingest acknowledges exactly what it stored), loop discipline and error flow of HandleBulkBody only: " +
		"(1) LIVE — no value that decides an item's status (the conditions controlling which response item is stored) is carried over unchanged from the previous loop iteration (no sticky flags); " +
		"(2) one response item per action — every trip around the action loop stores an element of the items slice; once an action is counted its slot is written before the loop goes on or ends; every item store goes into a slot derived from the per-action counter (directly or remembered per event in a local map); " +
		"(3) every branch that stores a failure item makes the `errors` flag true; " +
		"(4) a failure of the store call (ProcessIndexRequestPle) influences the response (items, errors flag or the returned error), not only the log; " +
		"(5) the record-size gate dominates the parsing of a document (GetNewPLE); " +
		"(6) pooled parsed events are released once: no second ReleasePLEs of events that the deferred release already covers."
	r.NotCovered = "that a 201 item is searchable exactly once, per-line JSON validity, trailing-newline handling, the item/batch bookkeeping needed to attribute a store failure to individual items"

	checkPooledEvent(c, r)
	checkInputNotClobbered(c, r)
	checkSharedItemTemplate(c, r)
	checkIndexTimestampKey(c, r)

	fn := c.Fn(pkgEsWriter, "HandleBulkBody")
	name := shortFn(fn)
	loops := core.Loops(fn)
	c15DocumentLineConsumed(c, r, fn)

	// the items slice and the errors flag, identified through the response map
	var itemsWeb, errorsWeb map[ssa.Value]bool
	var errorsVal ssa.Value
	for _, b := range fn.Blocks {
		for _, in := range b.Instrs {
			mu, ok := in.(*ssa.MapUpdate)
			if !ok {
				continue
			}
			key, _ := core.ConstStringValue(core.Unwrap(mu.Key))
			val := core.Unwrap(mu.Value)
			switch key {
			case "items":
				if sl, ok := val.(*ssa.Slice); ok {
					itemsWeb = phiWeb(fn, sl.X)
				}
			case "errors":
				errorsVal = val
				errorsWeb = phiWeb(fn, val)
			}
		}
	}
	if itemsWeb == nil || errorsVal == nil {
		r.Undecided("TABLE", name+":response-shape", c.Pos(fn.Pos()), "response[\"items\"] / response[\"errors\"] assignments not found")
		return
	}
	// item stores
	// An item store is a store into an element of the items slice made by HandleBulkBody itself, or a call of a
	// helper of the package that makes it on HandleBulkBody's behalf (see itemStoreHelper): the call then stands
	// for a success store on the edge where the helper answered true and for a failure store on the other edge,
	// and the values it is handed decide the status like the conditions around a direct store do.
	type itemStore struct {
		st        ssa.Instruction // the store, or the helper call
		idx       ssa.Value       // the slot
		success   bool
		failStart *ssa.BasicBlock // where the walk of clause (3) starts
		deciders  []ssa.Value     // values handed to a helper that decide the status there
	}
	var stores []itemStore
	okItem := c.Global(pkgEsWriter, "resp_status_201")
	isOkItem := func(v ssa.Value) bool {
		for _, o := range c.Origins(v, 0) {
			if o.Kind == "global" && o.Obj == okItem.Object() {
				return true
			}
		}
		return false
	}
	for _, b := range fn.Blocks {
		for _, in := range b.Instrs {
			switch x := in.(type) {
			case *ssa.Store:
				ia, ok := x.Addr.(*ssa.IndexAddr)
				if !ok || !itemsWeb[ia.X] {
					continue
				}
				stores = append(stores, itemStore{st: x, idx: ia.Index, success: isOkItem(x.Val), failStart: x.Block()})
			case *ssa.Call:
				h := x.Call.StaticCallee()
				if h == nil || h.Blocks == nil || core.FnPkgPath(h) != core.FnPkgPath(fn) {
					continue
				}
				sliceIdx := -1
				for i, a := range x.Call.Args {
					if itemsWeb[a] {
						sliceIdx = i
					}
				}
				if sliceIdx < 0 {
					continue
				}
				sum, why := itemStoreHelper(h, sliceIdx, isOkItem)
				if sum == nil {
					r.Undecided("LIVE", name+":item-store-helper("+h.Name()+")", c.Pos(x.Pos()), "the items slice is handed to a helper whose stores could not be summarised: "+why)
					continue
				}
				// the edges on which the helper's answer is known
				var okSucc, failSucc *ssa.BasicBlock
				if ifi, ok := core.LastIf(x.Block()); ok && ifi.Cond == ssa.Value(x) {
					okSucc, failSucc = x.Block().Succs[0], x.Block().Succs[1]
				}
				var dec []ssa.Value
				for _, pi := range sum.deciders {
					dec = append(dec, x.Call.Args[pi])
				}
				if sum.hasSuccess {
					stores = append(stores, itemStore{st: x, idx: x.Call.Args[sum.idxParam], success: true, failStart: okSucc, deciders: dec})
				}
				if sum.hasFailure {
					stores = append(stores, itemStore{st: x, idx: x.Call.Args[sum.idxParam], success: false, failStart: failSucc, deciders: dec})
				}
			}
		}
	}
	r.Floor("LIVE", "response item stores in HandleBulkBody", len(stores), 3)
	if len(stores) == 0 {
		return
	}
	loop := core.InnermostLoop(loops, stores[0].st.Block())
	if loop == nil {
		r.Undecided("LIVE", name+":action-loop", c.Pos(fn.Pos()), "the item stores are not inside a loop")
		return
	}

	// ---------------------------------------------------------------- (1) no loop-carried decision values
	decided := map[ssa.Value]bool{}
	for _, s := range stores {
		for _, d := range s.deciders {
			decided[d] = true
		}
		for b := s.st.Block(); b != nil && b != loop.Header; b = b.Idom() {
			idom := b.Idom()
			if idom == nil || !loop.Body[idom] {
				break
			}
			if ifi, ok := core.LastIf(idom); ok {
				decided[ifi.Cond] = true
			}
		}
	}
	nCond := 0
	var conds []ssa.Value
	for cond := range decided {
		conds = append(conds, cond)
	}
	sort.Slice(conds, func(i, j int) bool { return conds[i].Pos() < conds[j].Pos() })
	anon := 0
	for _, cond := range conds {
		carried, via := loopCarried(cond, loop, map[ssa.Value]bool{}, 0)
		if !relevantCond(cond) {
			continue
		}
		nCond++
		cn := condName(cond)
		if cn == "" {
			anon++
			cn = fmt.Sprintf("comparison#%d", anon)
		}
		construct := fmt.Sprintf("%s:item-status-condition(%s)-not-loop-carried", name, cn)
		if carried {
			r.Violation("LIVE", construct, c.Pos(cond.Pos()), fmt.Sprintf("the value deciding an item's status can be the one left over from the previous action (loop-header value %s reaches it unchanged on some path): after one oversized/failed action every later item is reported with that action's status", via))
		} else {
			r.OK("LIVE", construct, c.Pos(cond.Pos()), "defined in the current iteration on every path")
		}
	}
	r.Floor("LIVE", "conditions deciding the item status", nCond, 2)

	// ---------------------------------------------------------------- (2) one item per action
	{
		isStore := map[ssa.Instruction]bool{}
		for _, s := range stores {
			isStore[s.st] = true
		}
		skipped := false
		start := loop.Header.Instrs[len(loop.Header.Instrs)-1]
		core.WalkForwardEdges(fn, start, func(in ssa.Instruction) bool { return !isStore[in] }, func(from, to *ssa.BasicBlock) bool {
			if !loop.Body[to] {
				return false
			}
			if to == loop.Header {
				skipped = true
				return false
			}
			return true
		})
		// the loop's own exit test may sit in the header or in the first body block: a trip that leaves the loop is not an action
		r.Check(!skipped, "PAIR", name+":one-response-item-per-action", c.Pos(loop.Header.Instrs[0].Pos()), "every trip around the action loop stores an element of items", "a path around the action loop stores no response item: the response has fewer items than the request has actions, or a stale item from a previous request (the slice comes from a pool)")
	}

	// ---------------------------------------------------------------- (2b) the item of an action goes into the action's own slot
	{
		// the action counter: the loop-carried integer whose increment (minus one) indexes the item stores of the loop
		var counter *ssa.Phi
		var incr *ssa.BinOp
		votes := map[*ssa.Phi]int{}
		incrOf := map[*ssa.Phi]*ssa.BinOp{}
		for _, s := range stores {
			if !loop.Body[s.st.Block()] {
				continue
			}
			idx := s.idx
			if bo, ok := idx.(*ssa.BinOp); ok && bo.Op == token.SUB {
				idx = bo.X
			}
			if bo, ok := idx.(*ssa.BinOp); ok && bo.Op == token.ADD {
				if phi, ok := bo.X.(*ssa.Phi); ok && phi.Block() == loop.Header {
					votes[phi]++
					incrOf[phi] = bo
				}
			}
		}
		for phi, n := range votes {
			if counter == nil || n > votes[counter] {
				counter, incr = phi, incrOf[phi]
			}
		}
		if counter == nil {
			r.Undecided("DEPENDS", name+":action-counter", c.Pos(fn.Pos()), "no loop-carried counter indexes the response items")
		} else {
			var fromCounter func(v ssa.Value, depth int) bool
			fromCounter = func(v ssa.Value, depth int) bool {
				if depth > 6 || v == nil {
					return false
				}
				if v == ssa.Value(counter) || v == ssa.Value(incr) {
					return true
				}
				switch x := v.(type) {
				case *ssa.BinOp:
					if _, isK := x.Y.(*ssa.Const); isK && (x.Op == token.SUB || x.Op == token.ADD) {
						return fromCounter(x.X, depth+1)
					}
				case *ssa.Convert:
					return fromCounter(x.X, depth+1)
				case *ssa.Phi:
					if len(x.Edges) == 0 {
						return false
					}
					for _, e := range x.Edges {
						if !fromCounter(e, depth+1) {
							return false
						}
					}
					return true
				case *ssa.Extract:
					return fromCounter(x.Tuple, depth+1)
				case *ssa.Lookup:
					// a slot remembered in a local map: every value put into the map must be a slot of the counter
					mm, ok := x.X.(*ssa.MakeMap)
					if !ok {
						return false
					}
					n := 0
					if refs := mm.Referrers(); refs != nil {
						for _, rf := range *refs {
							if mu, ok := rf.(*ssa.MapUpdate); ok && mu.Map == ssa.Value(mm) {
								n++
								if !fromCounter(mu.Value, depth+1) {
									return false
								}
							}
						}
					}
					return n > 0
				}
				return false
			}
			for i, s := range stores {
				idx := s.idx
				r.Check(fromCounter(idx, 0), "DEPENDS", fmt.Sprintf("%s:item-store#%d-goes-into-the-action's-own-slot", name, i+1), c.Pos(s.st.Pos()),
					"the slot is the action counter minus one (directly or remembered per event)",
					"a response item is stored into a slot that is not derived from the per-action counter (another counter skips deletes, updates and rejected documents): the status lands on a different action's item, so a stored document is reported failed and the failed one keeps its 201")
			}
			// once an action is counted its slot is written before the loop goes on or ends
			var leak ssa.Instruction
			isSlotStore := map[ssa.Instruction]bool{}
			for _, s := range stores {
				if fromCounter(s.idx, 0) {
					isSlotStore[s.st] = true
				}
			}
			core.WalkForwardEdges(fn, incr, func(in ssa.Instruction) bool {
				if isSlotStore[in] {
					return false
				}
				return true
			}, func(from, to *ssa.BasicBlock) bool {
				if !loop.Body[from] {
					return false
				}
				if to == loop.Header || !loop.Body[to] {
					// leaving by a return that reports an error is not an acknowledged action
					if len(to.Instrs) > 0 {
						if ret, ok := to.Instrs[len(to.Instrs)-1].(*ssa.Return); ok && !loop.Body[to] && core.ReturnSuccess(ret) == core.No {
							return false
						}
					}
					if leak == nil {
						leak = from.Instrs[len(from.Instrs)-1]
					}
					return false
				}
				return true
			})
			if leak != nil {
				r.Violation("PAIR", name+":counted-action-gets-its-item", c.Pos(leak.Pos()), "after an action has been counted the loop can be left or repeated without writing that action's response item: the slot keeps whatever an earlier request left in the pooled slice (normally a 201), so an action that was not processed is acknowledged as created and `errors` stays false")
			} else {
				r.OK("PAIR", name+":counted-action-gets-its-item", c.Pos(incr.Pos()), "every path from the increment of the action counter writes the action's slot before the next action or the end of the loop")
			}
		}
	}

	// ---------------------------------------------------------------- (3) failure item => errors flag
	nFail := 0
	for _, s := range stores {
		if s.success {
			continue
		}
		nFail++
		construct := fmt.Sprintf("%s:failure-item-sets-errors-flag#%d", name, nFail)
		ok, detail := false, "the helper's failure answer is not tested right after the call"
		if s.failStart != nil {
			ok, detail = failureSetsFlag(s.failStart, errorsWeb, loop)
		}
		if ok {
			r.OK("DEPENDS", construct, c.Pos(s.st.Pos()), detail)
		} else {
			r.Violation("DEPENDS", construct, c.Pos(s.st.Pos()), "a failed item is stored on this path but the `errors` flag of the response is not set: "+detail)
		}
	}
	r.Floor("DEPENDS", "failure item stores", nFail, 2)

	// ---------------------------------------------------------------- (4) store failure acknowledged
	process := c.Obj(pkgEsWriter, "ProcessIndexRequestPle")
	for _, call := range callsTo(fn, process) {
		construct := name + ":store-failure-reaches-the-response"
		errv, _ := errResultOf(call)
		if errv == nil {
			r.Violation("DEPENDS", construct, c.Pos(call.Pos()), "the error of ProcessIndexRequestPle is discarded")
			continue
		}
		influences := false
		if refs := errv.Referrers(); refs != nil {
			for _, u := range *refs {
				switch x := u.(type) {
				case *ssa.Return:
					influences = true
				case *ssa.Phi:
					// a phi that feeds the returned error
					if prefs := x.Referrers(); prefs != nil {
						for _, pu := range *prefs {
							if _, ok := pu.(*ssa.Return); ok {
								influences = true
							}
						}
					}
				}
			}
		}
		for _, b := range fn.Blocks {
			if core.NilnessAt(errv, b) != core.No {
				continue
			}
			for _, in := range b.Instrs {
				switch x := in.(type) {
				case *ssa.Store:
					if ia, ok := x.Addr.(*ssa.IndexAddr); ok && itemsWeb[ia.X] {
						influences = true
					}
				case *ssa.MapUpdate:
					influences = true
				case *ssa.Return:
					influences = true
				}
			}
			// a flag phi fed with `true` from this region
			for _, s := range b.Succs {
				for _, in := range s.Instrs {
					if p, ok := in.(*ssa.Phi); ok {
						for i, e := range p.Edges {
							if s.Preds[i] == b {
								if k, ok := e.(*ssa.Const); ok && k.Value != nil && k.Value.String() == "true" && (errorsWeb[p] || feedsReturnOrResponse(p)) {
									influences = true
								}
							}
						}
					}
				}
			}
		}
		if influences {
			r.OK("DEPENDS", construct, c.Pos(call.Pos()), "a failed store changes the response or the returned error")
		} else {
			r.Violation("DEPENDS", construct, c.Pos(call.Pos()), "when ProcessIndexRequestPle fails the error is only logged: the items of that batch were already acknowledged with 201 and `errors` stays false although nothing was stored")
		}
	}

	// ---------------------------------------------------------------- (5) size gate
	getPLE := c.Obj(pkgWriter, "GetNewPLE")
	maxRec := c.ConstVal("pkg/segment/utils", "MAX_RECORD_SIZE")
	for _, call := range callsTo(fn, getPLE) {
		gated := false
		for b := call.Block(); b != nil; b = b.Idom() {
			idom := b.Idom()
			if idom == nil {
				break
			}
			ifi, ok := core.LastIf(idom)
			if !ok || len(b.Preds) != 1 {
				continue
			}
			// either form of the gate: `if n < MAX { parse }` (true edge)
			// or `if n >= MAX { reject; break }` followed by the parse
			// (false edge)
			onTrue := idom.Succs[0] == b
			onFalse := idom.Succs[1] == b
			if bo, ok := ifi.Cond.(*ssa.BinOp); ok {
				k, isK := core.ConstIntValue(bo.Y)
				switch {
				case onTrue && (bo.Op == token.LSS || bo.Op == token.LEQ) && isK && k <= maxRec:
					gated = true
				case onFalse && (bo.Op == token.GEQ || (bo.Op == token.GTR && k < maxRec)) && isK && k <= maxRec:
					gated = true
				}
			}
		}
		r.Check(gated, "GUARD", name+":record-size-gate<GetNewPLE", c.Pos(call.Pos()), "document parsing is dominated by len(doc) < MAX_RECORD_SIZE", "a document is parsed and stored without the record-size gate: values longer than 65535 bytes are truncated by the 16-bit length fields")
	}

	// ---------------------------------------------------------------- (6) single release
	release := c.Obj(pkgWriter, "ReleasePLEs")
	var deferred, direct []ssa.CallInstruction
	fns := append([]*ssa.Function{fn}, core.Closures(fn)...)
	for _, f := range fns {
		for _, ci := range core.CallsIn(f) {
			if !core.IsCallTo(ci, release) {
				continue
			}
			_, isDefer := ci.(*ssa.Defer)
			if isDefer || f != fn {
				deferred = append(deferred, ci)
			} else {
				direct = append(direct, ci)
			}
		}
	}
	switch {
	case len(deferred)+len(direct) == 0:
		r.Violation("PAIR", name+":parsed-events-released", c.Pos(fn.Pos()), "the pooled parsed events are never released")
	case len(deferred) >= 1 && len(direct) >= 1:
		r.Violation("PAIR", name+":parsed-events-released-once", c.Pos(direct[0].Pos()), "parsed events are released here and again by the deferred release of all events of the request: the same object enters the pool twice and is later handed to two documents (one is lost, the other stored twice, both acknowledged)")
	default:
		r.OK("PAIR", name+":parsed-events-released-once", c.Pos(fn.Pos()), "one release site covers the events of the request")
	}
}

func relevantCond(v ssa.Value) bool {
	switch x := v.(type) {
	case *ssa.Phi, *ssa.UnOp:
		return true
	case *ssa.BinOp:
		_ = x
		return true
	}
	return false
}

func condName(v ssa.Value) string {
	for {
		switch x := v.(type) {
		case *ssa.UnOp:
			v = x.X
			continue
		case *ssa.Phi:
			if x.Comment != "" {
				return x.Comment
			}
		}
		break
	}
	return ""
}

// loopCarried: v can equal a value that entered the current iteration through a
// phi of the loop header (i.e. it was computed in a previous iteration).
func loopCarried(v ssa.Value, loop *core.Loop, seen map[ssa.Value]bool, depth int) (bool, string) {
	if seen[v] || depth > 8 {
		return false, ""
	}
	seen[v] = true
	switch x := v.(type) {
	case *ssa.Phi:
		if x.Block() == loop.Header {
			n := x.Comment
			if n == "" {
				n = x.Name()
			}
			return true, n
		}
		if !loop.Body[x.Block()] {
			return false, ""
		}
		for _, e := range x.Edges {
			if c, via := loopCarried(e, loop, seen, depth+1); c {
				return true, via
			}
		}
	case *ssa.UnOp:
		if x.Op == token.NOT {
			return loopCarried(x.X, loop, seen, depth+1)
		}
	}
	return false, ""
}

// failureSetsFlag: on the path that continues from the failure store to the next
// iteration, the errors-flag phi web receives the constant true.
func failureSetsFlag(start *ssa.BasicBlock, web map[ssa.Value]bool, loop *core.Loop) (bool, string) {
	// An assignment `flag = true` is not an instruction in SSA: it shows as the constant true on the edge into
	// the next join that merges the flag.  Follow every path from the store to its first such join.
	type edge struct{ from, to *ssa.BasicBlock }
	seen := map[*ssa.BasicBlock]bool{}
	work := []*ssa.BasicBlock{start}
	seen[start] = true
	checked := 0
	for len(work) > 0 {
		b := work[len(work)-1]
		work = work[:len(work)-1]
		if len(b.Succs) == 0 {
			return false, "a path from this store leaves the function before the errors flag is merged"
		}
		for _, next := range b.Succs {
			var phi *ssa.Phi
			for _, in := range next.Instrs {
				p, ok := in.(*ssa.Phi)
				if !ok {
					break
				}
				if web[p] {
					phi = p
				}
			}
			if phi == nil {
				if !seen[next] {
					seen[next] = true
					work = append(work, next)
				}
				continue
			}
			for j, pred := range next.Preds {
				if pred != b {
					continue
				}
				checked++
				e := phi.Edges[j]
				if k, ok := e.(*ssa.Const); ok && k.Value != nil {
					if k.Value.String() == "true" {
						continue
					}
					return false, "the errors flag receives false on an edge leaving this branch"
				}
				if web[e] {
					return false, "the errors flag keeps its previous value on an edge leaving this branch"
				}
				return false, "the value assigned to the errors flag on an edge leaving this branch is not the constant true"
			}
		}
	}
	if checked == 0 {
		return false, "no assignment of the errors flag follows this store (the flag is not a boolean that is set to true in the failure branches)"
	}
	return true, "the errors flag receives true on every edge from this branch into the next merge of the flag"
}

func feedsReturnOrResponse(p *ssa.Phi) bool {
	seen := map[ssa.Value]bool{}
	var rec func(v ssa.Value, d int) bool
	rec = func(v ssa.Value, d int) bool {
		if seen[v] || d > 6 {
			return false
		}
		seen[v] = true
		refs := v.Referrers()
		if refs == nil {
			return false
		}
		for _, u := range *refs {
			switch x := u.(type) {
			case *ssa.Return, *ssa.MapUpdate:
				return true
			case *ssa.If:
				// the flag decides between the success and error return
				return true
			case *ssa.Phi:
				if rec(x, d+1) {
					return true
				}
			case *ssa.MakeInterface:
				if rec(x, d+1) {
					return true
				}
			}
		}
		return false
	}
	return rec(p, 0)
}

var _ = types.Universe

// itemHelperSummary describes a helper that stores the response item of one bulk action on its caller's behalf.
type itemHelperSummary struct {
	idxParam               int   // the parameter that is the slot
	deciders               []int // the parameters the status is decided by
	hasSuccess, hasFailure bool
}

// itemStoreHelper summarises h when it is such a helper: every store into an element of its slice parameter
// uses one index parameter; every path to a return passes a store; it returns true exactly after a success
// store (the shared 201 item) and false exactly after a failure store; the conditions that choose between
// the stores are tests of its own parameters.
func itemStoreHelper(h *ssa.Function, sliceIdx int, isOkItem func(ssa.Value) bool) (*itemHelperSummary, string) {
	if sliceIdx >= len(h.Params) {
		return nil, "parameter mismatch"
	}
	slice := h.Params[sliceIdx]
	sum := &itemHelperSummary{idxParam: -1}
	type hs struct {
		st   *ssa.Store
		succ bool
	}
	var stores []hs
	paramIdx := func(v ssa.Value) int {
		for i := 0; i < 3; i++ {
			switch x := v.(type) {
			case *ssa.UnOp:
				if x.Op == token.NOT {
					v = x.X
					continue
				}
			case *ssa.Convert:
				v = x.X
				continue
			}
			break
		}
		for i, p := range h.Params {
			if ssa.Value(p) == v {
				return i
			}
		}
		return -1
	}
	for _, b := range h.Blocks {
		for _, in := range b.Instrs {
			st, ok := in.(*ssa.Store)
			if !ok {
				continue
			}
			ia, ok := st.Addr.(*ssa.IndexAddr)
			if !ok || ia.X != ssa.Value(slice) {
				continue
			}
			pi := paramIdx(ia.Index)
			if pi < 0 || (sum.idxParam >= 0 && sum.idxParam != pi) {
				return nil, "a store uses a slot that is not one index parameter"
			}
			sum.idxParam = pi
			stores = append(stores, hs{st, isOkItem(st.Val)})
			// the conditions that lead to this store are tests of parameters
			for d := b; d != nil && d.Idom() != nil; d = d.Idom() {
				ifi, ok := core.LastIf(d.Idom())
				if !ok || len(d.Preds) != 1 {
					continue
				}
				pc := paramIdx(ifi.Cond)
				if pc < 0 {
					return nil, "a condition choosing the item is not a parameter"
				}
				dup := false
				for _, e := range sum.deciders {
					if e == pc {
						dup = true
					}
				}
				if !dup {
					sum.deciders = append(sum.deciders, pc)
				}
			}
		}
	}
	if len(stores) == 0 {
		return nil, "no store into the slice parameter"
	}
	sort.Ints(sum.deciders)
	isStore := map[ssa.Instruction]*hs{}
	for i := range stores {
		isStore[stores[i].st] = &stores[i]
	}
	// every path to a return passes a store
	missed := false
	core.WalkForward(h, nil, func(in ssa.Instruction) bool {
		if isStore[in] != nil {
			return false
		}
		if _, ok := in.(*ssa.Return); ok {
			missed = true
		}
		return true
	})
	if missed {
		return nil, "a path through the helper stores no item"
	}
	// the answer tells which kind of item was stored
	for i := range stores {
		st := &stores[i]
		if st.succ {
			sum.hasSuccess = true
		} else {
			sum.hasFailure = true
		}
		bad := ""
		core.WalkForward(h, st.st, func(in ssa.Instruction) bool {
			if ret, ok := in.(*ssa.Return); ok {
				k, isK := core.RetResult(ret, 0).(*ssa.Const)
				if len(ret.Results) != 1 || !isK || k.Value == nil || (k.Value.String() == "true") != st.succ {
					bad = "the helper's answer does not tell a success item from a failure item"
				}
			}
			return true
		})
		if bad != "" {
			return nil, bad
		}
	}
	return sum, ""
}

// c15DocumentLineConsumed — clause FRAMING.  A bulk body is a sequence of lines: an action line, and for index /
// create actions the document line after it.  In HandleBulkBody the action loop reads the action line at its head
// and the document line in the arm of INDEX / CREATE.  From every entry into that arm, the read of the document line
// is passed before the loop reads the next action line (or the function returns): an arm that rejects the action
// before consuming its document leaves the document to be read as the next action — the response gets an item too
// many and every following item answers for the wrong action.
func c15DocumentLineConsumed(c *core.Ctx, r *core.Report, fn *ssa.Function) {
	name := shortFn(fn)
	readLine := c.Obj(pkgUtils, "ReadLine")
	extract := c.Obj(pkgEsWriter, "ExtractIndexAndValidateAction")
	idx, crt := c.ConstVal(pkgEsWriter, "INDEX"), c.ConstVal(pkgEsWriter, "CREATE")
	construct := name + ":document-line-consumed-before-the-next-action"
	var action ssa.Value
	for _, call := range callsTo(fn, extract) {
		if refs := call.Referrers(); refs != nil {
			for _, u := range *refs {
				if ex, ok := u.(*ssa.Extract); ok && ex.Index == 0 {
					action = ex
				}
			}
		}
	}
	reads := callsTo(fn, readLine)
	if action == nil || len(reads) < 2 {
		r.Undecided("ORDER", construct, c.Pos(fn.Pos()), "the action kind or the two line reads of the bulk loop were not found")
		return
	}
	// the read at the head of the loop dominates the action extraction; the others are document reads
	var head []*ssa.Call
	var docs []*ssa.Call
	for _, rd := range reads {
		if core.InstrDominates(rd, action.(ssa.Instruction)) {
			head = append(head, rd)
		} else {
			docs = append(docs, rd)
		}
	}
	sets := core.ConstSets(action)
	inArm := func(b *ssa.BasicBlock) bool {
		s, ok := sets[b]
		if !ok || len(s) == 0 {
			return false
		}
		for k := range s {
			if k != idx && k != crt {
				return false
			}
		}
		return true
	}
	isDoc := map[ssa.Instruction]bool{}
	for _, d := range docs {
		if inArm(d.Block()) {
			isDoc[d] = true
		}
	}
	isHead := map[ssa.Instruction]bool{}
	for _, h := range head {
		isHead[h] = true
	}
	nEntries := 0
	var bad ssa.Instruction
	for _, b := range fn.Blocks {
		if !inArm(b) {
			continue
		}
		entry := false
		for _, p := range b.Preds {
			if !inArm(p) {
				entry = true
			}
		}
		if !entry || len(b.Instrs) == 0 {
			continue
		}
		nEntries++
		// walk from the first instruction of the entry block
		first := b.Instrs[0]
		if isDoc[first] {
			continue
		}
		core.WalkForward(fn, first, func(in ssa.Instruction) bool {
			if isDoc[in] {
				return false
			}
			if (isHead[in] || isReturn(in)) && bad == nil {
				bad = in
			}
			return true
		})
	}
	if nEntries == 0 {
		r.Undecided("ORDER", construct, c.Pos(fn.Pos()), "the arm of the INDEX / CREATE actions was not found")
		return
	}
	if bad != nil {
		r.Violation("ORDER", construct, c.Pos(bad.Pos()), "the arm of an index / create action can be left without reading the action's document line: the document is then read as the next action line, the response has one item more than the request has actions and the items after it answer for the wrong actions")
	} else {
		r.OK("ORDER", construct, c.Pos(docs[0].Pos()), "every path through the index / create arm reads the document line before the next action line is read")
	}
}

func isReturn(in ssa.Instruction) bool {
	_, ok := in.(*ssa.Return)
	return ok
}
