package props

import (
	"fmt"
	"go/ast"
	"go/token"
	"go/types"
	"sort"
	"strings"

	"golang.org/x/tools/go/ssa"

	"verif/engine/internal/core"
	"verif/engine/internal/locks"
)

// (7) ADMIT — the admission loop (PullQueriesToRun) decides with canRunQuery(), which counts the entries of the
// running table, and then starts the head of the waiting queue.  The decision and the registration of the started
// query in the running table have to be one step of the loop: every path from the accepting edge of canRunQuery()
// to the next evaluation of canRunQuery() passes a SYNCHRONOUS call from which the insertion into allRunningQueries
// is reachable (or takes nothing from the waiting queue).  If the start is handed to a goroutine, the loop sees the
// old count on its next turns and admits more queries than the limit allows.
func c17Admission(c *core.Ctx, r *core.Report, sm *summaries) {
	fn := c.Fn(pkgQuery, "PullQueriesToRun")
	table := c.Global(pkgQuery, "allRunningQueries")
	waiting := c.Global(pkgQuery, "waitingQueries")
	active := c.Obj(pkgQuery, "GetActiveQueryCount")
	samePkg := func(f *ssa.Function) bool { return f != nil && f.Blocks != nil && core.FnPkgPath(f) == core.FnPkgPath(fn) }
	// functions from which an insertion into the running table is reachable over static calls
	inserts := map[*ssa.Function]bool{}
	for _, f := range c.RepoFunctions() {
		for _, b := range f.Blocks {
			for _, in := range b.Instrs {
				if mu, ok := in.(*ssa.MapUpdate); ok {
					if ld, ok := mu.Map.(*ssa.UnOp); ok && ld.X == ssa.Value(table) {
						inserts[f] = true
					}
				}
			}
		}
	}
	var seeds []types.Object
	for f := range inserts {
		top := f
		for top.Parent() != nil {
			top = top.Parent()
		}
		if o := top.Object(); o != nil {
			seeds = append(seeds, o)
		}
	}
	reach := sm.staticMayReach(objs(seeds...))

	// The three notions are named by their effects, so that the admission loop may use helpers (canRunQuery,
	// getNextWaitStateData today) or be written out:
	//   take     — the head of the waiting queue is removed: a store of waitingQueries[k:] into waitingQueries,
	//              in the loop itself or in a function of the package it calls
	//   decision — the capacity test: a boolean made from GetActiveQueryCount(), in the loop or in a boolean
	//              function of the package it calls
	//   register — a synchronous call from which the insertion into allRunningQueries is reachable
	isPop := func(in ssa.Instruction) bool {
		st, ok := in.(*ssa.Store)
		if !ok || st.Addr != ssa.Value(waiting) {
			return false
		}
		sl, ok := st.Val.(*ssa.Slice)
		if !ok || sl.Low == nil {
			return false
		}
		ld, ok := sl.X.(*ssa.UnOp)
		return ok && ld.X == ssa.Value(waiting)
	}
	// the removal itself, or a call of a function of the package that makes it (two levels: the helper the loop
	// calls may itself use a remove-at-index helper)
	var holdsPopD func(f *ssa.Function, depth int) bool
	holdsPopD = func(f *ssa.Function, depth int) bool {
		for _, b := range f.Blocks {
			for _, in := range b.Instrs {
				if isPop(in) {
					return true
				}
				if call, ok := in.(*ssa.Call); ok && depth < 2 {
					if h := call.Call.StaticCallee(); samePkg(h) && h != f && holdsPopD(h, depth+1) {
						return true
					}
				}
			}
		}
		return false
	}
	holdsPop := func(f *ssa.Function) bool { return holdsPopD(f, 0) }
	usesActive := func(f *ssa.Function) bool { return len(callsTo(f, active)) > 0 }
	// the admission step — capacity test, removal, registration — is in the loop function itself, or in one
	// function of the package that the loop calls on every turn (the `default:` arm extracted)
	hasStep := func(f *ssa.Function) bool {
		dec, take := false, false
		for _, b := range f.Blocks {
			for _, in := range b.Instrs {
				if isPop(in) {
					take = true
				}
				switch x := in.(type) {
				case *ssa.Call:
					if h := x.Call.StaticCallee(); samePkg(h) {
						if holdsPop(h) {
							take = true
						}
						if usesActive(h) {
							dec = true
						}
					}
					if core.IsCallTo(x, active) {
						dec = true
					}
				}
			}
		}
		return dec && take
	}
	if !hasStep(fn) {
		for _, ci := range core.CallsIn(fn) {
			if h := ci.Common().StaticCallee(); samePkg(h) && h.Parent() == nil && hasStep(h) {
				fn = h
				break
			}
		}
	}
	var takes []ssa.Instruction
	var decisions []ssa.Value
	for _, b := range fn.Blocks {
		for _, in := range b.Instrs {
			if isPop(in) {
				takes = append(takes, in)
			}
			switch x := in.(type) {
			case *ssa.Call:
				h := x.Call.StaticCallee()
				if samePkg(h) && holdsPop(h) {
					takes = append(takes, in)
				}
				if samePkg(h) && usesActive(h) && h.Signature.Results().Len() == 1 {
					if bt, ok := h.Signature.Results().At(0).Type().Underlying().(*types.Basic); ok && bt.Kind() == types.Bool {
						decisions = append(decisions, x)
					}
				}
			case *ssa.BinOp:
				for _, side := range []ssa.Value{x.X, x.Y} {
					v := side
					if cv, ok := v.(*ssa.Convert); ok {
						v = cv.X
					}
					if call, ok := v.(*ssa.Call); ok && core.IsCallTo(call, active) {
						decisions = append(decisions, x)
					}
				}
			}
		}
	}
	r.Floor("GUARD", "capacity tests in the admission loop", len(decisions), 1)
	r.Floor("GUARD", "removals from the waiting queue in the admission loop", len(takes), 1)
	isDecision := map[ssa.Instruction]bool{}
	for _, d := range decisions {
		isDecision[d.(ssa.Instruction)] = true
	}
	for i, tk := range takes {
		// (B) nothing is taken from the queue before it is known that it can run
		construct := fmt.Sprintf("%s:take#%d-only-where-there-is-room", shortFn(fn), i+1)
		room := false
		for _, d := range decisions {
			if core.BoolKnownAt(d, tk.Block()) == core.Yes {
				room = true
			}
		}
		r.Check(room, "GUARD", construct, c.Pos(tk.Pos()), "the head of the waiting queue is removed only where the capacity test is known true",
			"a query is removed from the waiting queue before (or without) the test that there is room in the running table: when the table is full the query is dropped — it is in neither table, gets no READY and no timeout, and cancel/delete cannot find it; the request never gets an answer")
		// (A) once a query is taken it is registered by a synchronous call before the next capacity test
		construct = fmt.Sprintf("%s:admission#%d-registers-before-the-next-decision", shortFn(fn), i+1)
		var leak ssa.Instruction
		// the pointer to what was taken: the helper's result, or — for a removal written out in the loop — the head
		// element read in the same block, and the variables (phis) it is merged into; on the edge where that pointer
		// is nil nothing was taken
		takenPtrs := map[ssa.Value]bool{}
		if call, ok := tk.(*ssa.Call); ok {
			takenPtrs[call] = true
		} else {
			for _, in := range tk.Block().Instrs {
				ld, ok := in.(*ssa.UnOp)
				if !ok || ld.Op != token.MUL {
					continue
				}
				ia, ok := ld.X.(*ssa.IndexAddr)
				if !ok {
					continue
				}
				if src, ok := ia.X.(*ssa.UnOp); ok && src.X == ssa.Value(waiting) {
					takenPtrs[ld] = true
					work := []ssa.Value{ld}
					for len(work) > 0 {
						v := work[len(work)-1]
						work = work[:len(work)-1]
						if refs := v.Referrers(); refs != nil {
							for _, u := range *refs {
								if phi, ok := u.(*ssa.Phi); ok && !takenPtrs[phi] {
									takenPtrs[phi] = true
									work = append(work, phi)
								}
							}
						}
					}
				}
			}
		}
		core.WalkForwardEdges(fn, tk, func(in ssa.Instruction) bool {
			switch x := in.(type) {
			case *ssa.Call:
				if callee := x.Call.StaticCallee(); callee != nil && (inserts[callee] || reach[callee]) {
					return false // registered synchronously
				}
			}
			if isDecision[in] && leak == nil {
				leak = in
			}
			return true
		}, func(from, to *ssa.BasicBlock) bool {
			// the edge on which the helper gave nothing (result == nil): nothing was taken
			if len(takenPtrs) > 0 {
				if ifi, ok := core.LastIf(from); ok {
					if bo, ok := ifi.Cond.(*ssa.BinOp); ok && (bo.Op == token.EQL || bo.Op == token.NEQ) && core.IsNilConst(bo.Y) && takenPtrs[bo.X] {
						nilEdge := from.Succs[0]
						if bo.Op == token.NEQ {
							nilEdge = from.Succs[1]
						}
						if to == nilEdge {
							return false
						}
					}
				}
			}
			return true
		})
		if leak != nil {
			r.Violation("GUARD", construct, c.Pos(tk.Pos()), "after a query was taken from the waiting queue the loop can evaluate the capacity test again before that query is in the running table (its start is not a synchronous call): the count the decision is based on is stale, so more queries are admitted than the configured limit")
		} else {
			r.OK("GUARD", construct, c.Pos(tk.Pos()), "every path that takes a waiting query passes a synchronous call that registers it before the next decision")
		}
	}
}

// (8) CLEANED — Cleanup of a query's processors (cancel, timeout, delete) empties the processors' state under
// processorLock and sets isCleanupCalled.  Fetch may be waiting for input at that moment; when the input arrives it
// must not hand it to the emptied processor: every call of processor.Process in DataProcessor.Fetch lies where
// isCleanupCalled, read with processorLock held, is known to be false.
func c17Cleaned(c *core.Ctx, r *core.Report, a *locks.Analysis) {
	c.Fn(pkgProcessor, "DataProcessor.Fetch")
	flag := c.Field(pkgProcessor, "DataProcessor.isCleanupCalled")
	procF := c.Field(pkgProcessor, "DataProcessor.processor")
	// every function of the package that hands a batch to DataProcessor.processor (Fetch, or a method
	// extracted from it): the guard must be in the same function, since the flag has to be read under the lock
	// that is still held at the call
	n := 0
	for _, fn := range c.RepoFunctions() {
		if core.FnPkgPath(fn) != core.ModPath+"/"+pkgProcessor {
			continue
		}
		var sites []ssa.CallInstruction
		for _, ci := range core.CallsIn(fn) {
			cc := ci.Common()
			if !cc.IsInvoke() || cc.Method.Name() != "Process" {
				continue
			}
			ld, ok := cc.Value.(*ssa.UnOp)
			if !ok {
				continue
			}
			fa, ok := ld.X.(*ssa.FieldAddr)
			if !ok || core.FieldOfAddr(fa) != procF {
				continue
			}
			sites = append(sites, ci)
		}
		if len(sites) == 0 {
			continue
		}
		ff := a.Facts[fn]
		var loads []ssa.Value
		for _, b := range fn.Blocks {
			for _, in := range b.Instrs {
				ld, ok := in.(*ssa.UnOp)
				if !ok || ld.Op != token.MUL {
					continue
				}
				fa, ok := ld.X.(*ssa.FieldAddr)
				if !ok || core.FieldOfAddr(fa) != flag {
					continue
				}
				held := false
				if ff != nil {
					for _, h := range ff.MustAt[in] {
						if strings.HasSuffix(h.Class.Name, "processorLock") {
							held = true
						}
					}
				}
				if held {
					loads = append(loads, ld)
				}
			}
		}
		for i, ci := range sites {
			n++
			ok := false
			for _, l := range loads {
				if core.BoolKnownAt(l, ci.Block()) == core.No {
					ok = true
				}
			}
			r.Check(ok, "GUARD", fmt.Sprintf("%s:Process#%d-not-after-Cleanup", shortFn(fn), i+1), c.Pos(ci.Pos()),
				"the processor is used only where isCleanupCalled, read under processorLock, is known false",
				"Fetch hands a batch to the processor without having seen, under processorLock, that Cleanup has not run: a cancel or timeout that lands while Fetch waits for input empties the processor, the late batch is processed on nil state and the query goroutine panics (there is no recover), which takes the server down")
		}
	}
	r.Floor("GUARD", "calls of processor.Process in DataProcessor.Fetch", n, 1)
}

// (9) TERMINAL — the coordinator loop (RunQueryForNewPipeline) reads query states from the multiplexer's unbuffered
// output; in the arms where it returns it stops reading.  The multiplexer goroutine must stop in those states too
// (close its output and end), otherwise it blocks forever on its next send, one goroutine and one pinned query per
// request.  The set of states in whose arm the consumer's switch contains a return is a subset of the states in whose
// arm the multiplexer's switch closes its output (or ends its own handling with a return / errorAndClose).
func c17TerminalStates(c *core.Ctx, r *core.Report) {
	isState := isNamedType("pkg/segment/query", "QueryState")
	cons := c.Fn("pkg/ast/pipesearch", "RunQueryForNewPipeline")
	mux := c.Fn("pkg/ast/pipesearch/multiplexer", "QueryStateMultiplexer.handleData")
	cfd, mfd := funcDeclOf(cons), funcDeclOf(mux)
	if cfd == nil || mfd == nil {
		r.Undecided("TABLE", "terminal-states", "-", "no syntax for the consumer or the multiplexer")
		return
	}
	armsWith := func(fd *ast.FuncDecl, info *types.Info, pred func(n ast.Node) bool) (map[string]bool, int) {
		out := map[string]bool{}
		total := 0
		for _, arms := range core.SwitchArms(info, fd.Body, isState) {
			for name, stmts := range arms {
				total++
				hit := false
				for _, st := range stmts {
					ast.Inspect(st, func(n ast.Node) bool {
						if _, isLit := n.(*ast.FuncLit); isLit {
							return false
						}
						if n != nil && pred(n) {
							hit = true
						}
						return true
					})
				}
				if hit {
					out[name] = true
				}
			}
		}
		return out, total
	}
	consStops, nc := armsWith(cfd, c.Pkg("pkg/ast/pipesearch").TypesInfo, func(n ast.Node) bool {
		_, ok := n.(*ast.ReturnStmt)
		return ok
	})
	muxCloses, nm := armsWith(mfd, c.Pkg("pkg/ast/pipesearch/multiplexer").TypesInfo, func(n ast.Node) bool {
		if _, isRet := n.(*ast.ReturnStmt); isRet {
			return true // the multiplexer leaves its state handler early: it ends its own loop for this state (COMPLETE)
		}
		call, ok := n.(*ast.CallExpr)
		if !ok {
			return false
		}
		switch f := call.Fun.(type) {
		case *ast.Ident:
			return f.Name == "close"
		case *ast.SelectorExpr:
			return strings.Contains(f.Sel.Name, "Close")
		}
		return false
	})
	r.Floor("TABLE", "state arms of the consumer's switch", nc, 6)
	r.Floor("TABLE", "state arms of the multiplexer's switch", nm, 6)
	var names []string
	for n := range consStops {
		names = append(names, n)
	}
	sort.Strings(names)
	for _, n := range names {
		if n == "default" {
			continue
		}
		r.Check(muxCloses[n], "TABLE", "terminal-state("+n+")-ends-the-multiplexer-too", c.Pos(cons.Pos()),
			"the consumer can stop reading in this state and the multiplexer closes its output in it",
			"the coordinator loop can return (stop reading) when it sees "+n+", but the multiplexer does not close its output in that state: it goes on to send the next state into a channel nobody reads and blocks forever, leaking the goroutine and the query state of every request that ends this way")
	}
}

// c17SingleAdmitter — clause ADMIT (C).  The admission loop tests the capacity and registers the query in two steps
// that are not one critical section; that is sound only as long as the loop is the only place that admits by
// capacity.  An admitter is a function of the package in which a test of the running table's size (len of
// allRunningQueries, GetActiveQueryCount(), or a boolean helper made from them) decides whether a call from which the
// insertion into the table is reachable is made.  Either there is exactly one admitter, or every admitter makes its
// test and its registering call with arqMapLock held (in the function or by all its callers).  A second admitter next
// to the loop — a fast path that runs a query at once when a slot is free — can land between the loop's test and its
// registration: both see the last free slot, and the table holds one query more than the limit.
func c17SingleAdmitter(c *core.Ctx, r *core.Report, a *locks.Analysis, sm *summaries) {
	table := c.Global(pkgQuery, "allRunningQueries")
	active := c.Obj(pkgQuery, "GetActiveQueryCount")
	arq := locks.ClassOf(c.Global(pkgQuery, "arqMapLock"))
	pkgPath := core.ModPath + "/" + pkgQuery
	callers := c.StaticCallers()
	// functions from which the insertion is reachable
	inserts := map[*ssa.Function]bool{}
	var seeds []types.Object
	for _, f := range c.RepoFunctions() {
		for _, b := range f.Blocks {
			for _, in := range b.Instrs {
				if mu, ok := in.(*ssa.MapUpdate); ok {
					if ld, ok := mu.Map.(*ssa.UnOp); ok && ld.X == ssa.Value(table) {
						inserts[f] = true
						top := f
						for top.Parent() != nil {
							top = top.Parent()
						}
						if o := top.Object(); o != nil {
							seeds = append(seeds, o)
						}
					}
				}
			}
		}
	}
	reach := sm.staticMayReach(objs(seeds...))
	// capacity measures: len(allRunningQueries), GetActiveQueryCount()
	isMeasure := func(v ssa.Value) bool {
		for d := 0; d < 3; d++ {
			switch x := v.(type) {
			case *ssa.Convert:
				v = x.X
				continue
			case *ssa.Call:
				if core.IsCallTo(x, active) {
					return true
				}
				if bi, ok := x.Call.Value.(*ssa.Builtin); ok && bi.Name() == "len" {
					if ld, ok := x.Call.Args[0].(*ssa.UnOp); ok && ld.X == ssa.Value(table) {
						return true
					}
				}
			}
			break
		}
		return false
	}
	// boolean helpers made from a measure (canRunQuery)
	boolHelper := map[*ssa.Function]bool{}
	for _, f := range c.RepoFunctions() {
		if core.FnPkgPath(f) != pkgPath || f.Blocks == nil || f.Signature.Results().Len() != 1 || f.Object() == active {
			continue
		}
		if bt, ok := f.Signature.Results().At(0).Type().Underlying().(*types.Basic); !ok || bt.Kind() != types.Bool {
			continue
		}
		if len(f.Params) > 0 && inserts[f] {
			continue
		}
		uses := false
		for _, b := range f.Blocks {
			for _, in := range b.Instrs {
				if bo, ok := in.(*ssa.BinOp); ok && (isMeasure(bo.X) || isMeasure(bo.Y)) {
					uses = true
				}
			}
		}
		// a helper that itself registers is an admitter, not a test
		if uses && !reach[f] && !inserts[f] {
			boolHelper[f] = true
		}
	}
	type admitter struct {
		fn       *ssa.Function
		decision ssa.Instruction
		reg      ssa.Instruction
	}
	var adm []admitter
	for _, f := range c.RepoFunctions() {
		if core.FnPkgPath(f) != pkgPath || f.Blocks == nil {
			continue
		}
		var decisions []ssa.Value
		for _, b := range f.Blocks {
			for _, in := range b.Instrs {
				switch x := in.(type) {
				case *ssa.BinOp:
					if isMeasure(x.X) || isMeasure(x.Y) {
						decisions = append(decisions, x)
					}
				case *ssa.Call:
					if h := x.Call.StaticCallee(); h != nil && boolHelper[h] {
						decisions = append(decisions, x)
					}
				}
			}
		}
		if len(decisions) == 0 {
			continue
		}
		for _, ci := range core.CallsIn(f) {
			callee := ci.Common().StaticCallee()
			if callee == nil || !(inserts[callee] || reach[callee]) {
				continue
			}
			for _, d := range decisions {
				// the registering call lies after the test (in the arm the test guards, or — where the test
				// guards the removal from the waiting queue and the registration is made for what was removed —
				// anywhere the test's outcome flows to)
				after := core.BoolKnownAt(d, ci.Block()) != core.Maybe
				if !after {
					core.WalkForward(f, d.(ssa.Instruction), func(in ssa.Instruction) bool {
						if in == ssa.Instruction(ci) {
							after = true
							return false
						}
						return true
					})
				}
				if after {
					adm = append(adm, admitter{f, d.(ssa.Instruction), ci})
					break
				}
			}
		}
	}
	fns := map[*ssa.Function]bool{}
	for _, x := range adm {
		fns[x.fn] = true
	}
	r.Floor("GUARD", "functions that admit a query by the capacity of the running table", len(fns), 1)
	construct := "query:one-admitter-or-test-and-registration-in-one-critical-section"
	if len(fns) <= 1 {
		r.OK("GUARD", construct, "-", fmt.Sprintf("%d admitter(s)", len(fns)))
		return
	}
	held := func(in ssa.Instruction) bool {
		f := in.Parent()
		// the measure read closest to the decision: use the registering call and the decision's block head
		if ff := a.Facts[f]; ff != nil && ff.MustHold(in, arq, false) {
			return true
		}
		ok, _ := callersHold(c, a, callers, f, arq, false, map[*ssa.Function]bool{}, 0)
		return ok
	}
	for _, x := range adm {
		if !held(x.reg) {
			var names []string
			for f := range fns {
				names = append(names, shortFn(f))
			}
			sort.Strings(names)
			r.Violation("GUARD", construct, c.Pos(x.reg.Pos()), fmt.Sprintf("%d functions admit queries by testing the capacity of the running table (%s), and in %s the test and the registration are not one critical section of arqMapLock: an admission by one of them can land between the other's test and its registration, both see the last free slot, and more queries run than the limit allows", len(fns), strings.Join(names, ", "), shortFn(x.fn)))
			return
		}
	}
	r.OK("GUARD", construct, "-", fmt.Sprintf("%d admitters, each testing and registering under arqMapLock", len(fns)))
}
