package props

import (
	"fmt"
	"go/ast"
	"go/token"
	"go/types"
	"sort"
	"strings"

	"golang.org/x/tools/go/ssa"

	"verif/engine/internal/core"
	"verif/engine/internal/locks"
)

// (7) ADMIT — the admission loop (PullQueriesToRun) decides with canRunQuery(), which counts the entries of the
// running table, and then starts the head of the waiting queue.  The decision and the registration of the started
// query in the running table have to be one step of the loop: every path from the accepting edge of canRunQuery()
// to the next evaluation of canRunQuery() passes a SYNCHRONOUS call from which the insertion into allRunningQueries
// is reachable (or takes nothing from the waiting queue).  If the start is handed to a goroutine, the loop sees the
// old count on its next turns and admits more queries than the limit allows.
func c17Admission(c *core.Ctx, r *core.Report, sm *summaries) {
	fn := c.Fn(pkgQuery, "PullQueriesToRun")
	canRun := c.Obj(pkgQuery, "canRunQuery")
	next := c.Obj(pkgQuery, "getNextWaitStateData")
	table := c.Global(pkgQuery, "allRunningQueries")
	// functions from which an insertion into the running table is reachable over static calls
	inserts := map[*ssa.Function]bool{}
	for _, f := range c.RepoFunctions() {
		for _, b := range f.Blocks {
			for _, in := range b.Instrs {
				if mu, ok := in.(*ssa.MapUpdate); ok {
					if ld, ok := mu.Map.(*ssa.UnOp); ok && ld.X == ssa.Value(table) {
						inserts[f] = true
					}
				}
			}
		}
	}
	var seeds []types.Object
	for f := range inserts {
		top := f
		for top.Parent() != nil {
			top = top.Parent()
		}
		if o := top.Object(); o != nil {
			seeds = append(seeds, o)
		}
	}
	reach := sm.staticMayReach(objs(seeds...))
	checks := callsTo(fn, canRun)
	r.Floor("GUARD", "evaluations of canRunQuery in the admission loop", len(checks), 1)
	for i, chk := range checks {
		construct := fmt.Sprintf("%s:admission#%d-registers-before-the-next-decision", shortFn(fn), i+1)
		// start: the accepting edge
		var start *ssa.BasicBlock
		for _, b := range fn.Blocks {
			if ifi, ok := core.LastIf(b); ok {
				cond, neg := ifi.Cond, false
				if u, ok := cond.(*ssa.UnOp); ok && u.Op == token.NOT {
					cond, neg = u.X, true
				}
				if cond == ssa.Value(chk) {
					start = b.Succs[0]
					if neg {
						start = b.Succs[1]
					}
				}
			}
		}
		if start == nil {
			r.Undecided("GUARD", construct, c.Pos(chk.Pos()), "the result of canRunQuery() is not branched on directly")
			continue
		}
		// walk from the accepting edge; stop at synchronous registering calls and at paths that took nothing
		var leak ssa.Instruction
		took := false
		type bt struct {
			b *ssa.BasicBlock
			t bool
		}
		var walk func(b *ssa.BasicBlock, took bool, seen map[bt]bool)
		walk = func(b *ssa.BasicBlock, took bool, seen map[bt]bool) {
			if seen[bt{b, took}] || leak != nil {
				return
			}
			seen[bt{b, took}] = true
			for _, in := range b.Instrs {
				switch x := in.(type) {
				case *ssa.Go:
					// asynchronous: does not register before the loop goes on
					if callee := x.Call.StaticCallee(); callee != nil && (inserts[callee] || reach[callee]) {
						took = true
					}
				case *ssa.Call:
					if core.IsCallTo(x, next) {
						took = true
					}
					if callee := x.Call.StaticCallee(); callee != nil && (inserts[callee] || reach[callee]) {
						return // registered synchronously
					}
					if x == chk && took {
						leak = in
						return
					}
					if x == chk {
						return
					}
				}
			}
			// on the edge where the queue gave nothing (result == nil), nothing was taken
			if ifi, ok := core.LastIf(b); ok {
				if bo, ok := ifi.Cond.(*ssa.BinOp); ok && (bo.Op == token.EQL || bo.Op == token.NEQ) && core.IsNilConst(bo.Y) {
					if call, ok := bo.X.(*ssa.Call); ok && core.IsCallTo(call, next) {
						nilEdge, otherEdge := b.Succs[0], b.Succs[1]
						if bo.Op == token.NEQ {
							nilEdge, otherEdge = otherEdge, nilEdge
						}
						walk(nilEdge, false, seen)
						walk(otherEdge, took, seen)
						return
					}
				}
			}
			for _, s := range b.Succs {
				walk(s, took, seen)
			}
		}
		_ = took
		walk(start, false, map[bt]bool{})
		if leak != nil {
			r.Violation("GUARD", construct, c.Pos(chk.Pos()), "after a query was taken from the waiting queue the loop can evaluate canRunQuery() again before that query is in the running table (its start is not a synchronous call): the count the decision is based on is stale, so more queries are admitted than the configured limit")
		} else {
			r.OK("GUARD", construct, c.Pos(chk.Pos()), "every path that takes a waiting query passes a synchronous call that registers it before the next decision")
		}
	}
}

// (8) CLEANED — Cleanup of a query's processors (cancel, timeout, delete) empties the processors' state under
// processorLock and sets isCleanupCalled.  Fetch may be waiting for input at that moment; when the input arrives it
// must not hand it to the emptied processor: every call of processor.Process in DataProcessor.Fetch lies where
// isCleanupCalled, read with processorLock held, is known to be false.
func c17Cleaned(c *core.Ctx, r *core.Report, a *locks.Analysis) {
	c.Fn(pkgProcessor, "DataProcessor.Fetch")
	flag := c.Field(pkgProcessor, "DataProcessor.isCleanupCalled")
	procF := c.Field(pkgProcessor, "DataProcessor.processor")
	// every function of the package that hands a batch to DataProcessor.processor (Fetch, or a method
	// extracted from it): the guard must be in the same function, since the flag has to be read under the lock
	// that is still held at the call
	n := 0
	for _, fn := range c.RepoFunctions() {
		if core.FnPkgPath(fn) != core.ModPath+"/"+pkgProcessor {
			continue
		}
		var sites []ssa.CallInstruction
		for _, ci := range core.CallsIn(fn) {
			cc := ci.Common()
			if !cc.IsInvoke() || cc.Method.Name() != "Process" {
				continue
			}
			ld, ok := cc.Value.(*ssa.UnOp)
			if !ok {
				continue
			}
			fa, ok := ld.X.(*ssa.FieldAddr)
			if !ok || core.FieldOfAddr(fa) != procF {
				continue
			}
			sites = append(sites, ci)
		}
		if len(sites) == 0 {
			continue
		}
		ff := a.Facts[fn]
		var loads []ssa.Value
		for _, b := range fn.Blocks {
			for _, in := range b.Instrs {
				ld, ok := in.(*ssa.UnOp)
				if !ok || ld.Op != token.MUL {
					continue
				}
				fa, ok := ld.X.(*ssa.FieldAddr)
				if !ok || core.FieldOfAddr(fa) != flag {
					continue
				}
				held := false
				if ff != nil {
					for _, h := range ff.MustAt[in] {
						if strings.HasSuffix(h.Class.Name, "processorLock") {
							held = true
						}
					}
				}
				if held {
					loads = append(loads, ld)
				}
			}
		}
		for i, ci := range sites {
			n++
			ok := false
			for _, l := range loads {
				if core.BoolKnownAt(l, ci.Block()) == core.No {
					ok = true
				}
			}
			r.Check(ok, "GUARD", fmt.Sprintf("%s:Process#%d-not-after-Cleanup", shortFn(fn), i+1), c.Pos(ci.Pos()),
				"the processor is used only where isCleanupCalled, read under processorLock, is known false",
				"Fetch hands a batch to the processor without having seen, under processorLock, that Cleanup has not run: a cancel or timeout that lands while Fetch waits for input empties the processor, the late batch is processed on nil state and the query goroutine panics (there is no recover), which takes the server down")
		}
	}
	r.Floor("GUARD", "calls of processor.Process in DataProcessor.Fetch", n, 1)
}

// (9) TERMINAL — the coordinator loop (RunQueryForNewPipeline) reads query states from the multiplexer's unbuffered
// output; in the arms where it returns it stops reading.  The multiplexer goroutine must stop in those states too
// (close its output and end), otherwise it blocks forever on its next send, one goroutine and one pinned query per
// request.  The set of states in whose arm the consumer's switch contains a return is a subset of the states in whose
// arm the multiplexer's switch closes its output (or ends its own handling with a return / errorAndClose).
func c17TerminalStates(c *core.Ctx, r *core.Report) {
	isState := isNamedType("pkg/segment/query", "QueryState")
	cons := c.Fn("pkg/ast/pipesearch", "RunQueryForNewPipeline")
	mux := c.Fn("pkg/ast/pipesearch/multiplexer", "QueryStateMultiplexer.handleData")
	cfd, mfd := funcDeclOf(cons), funcDeclOf(mux)
	if cfd == nil || mfd == nil {
		r.Undecided("TABLE", "terminal-states", "-", "no syntax for the consumer or the multiplexer")
		return
	}
	armsWith := func(fd *ast.FuncDecl, info *types.Info, pred func(n ast.Node) bool) (map[string]bool, int) {
		out := map[string]bool{}
		total := 0
		for _, arms := range core.SwitchArms(info, fd.Body, isState) {
			for name, stmts := range arms {
				total++
				hit := false
				for _, st := range stmts {
					ast.Inspect(st, func(n ast.Node) bool {
						if _, isLit := n.(*ast.FuncLit); isLit {
							return false
						}
						if n != nil && pred(n) {
							hit = true
						}
						return true
					})
				}
				if hit {
					out[name] = true
				}
			}
		}
		return out, total
	}
	consStops, nc := armsWith(cfd, c.Pkg("pkg/ast/pipesearch").TypesInfo, func(n ast.Node) bool {
		_, ok := n.(*ast.ReturnStmt)
		return ok
	})
	muxCloses, nm := armsWith(mfd, c.Pkg("pkg/ast/pipesearch/multiplexer").TypesInfo, func(n ast.Node) bool {
		if _, isRet := n.(*ast.ReturnStmt); isRet {
			return true // the multiplexer leaves its state handler early: it ends its own loop for this state (COMPLETE)
		}
		call, ok := n.(*ast.CallExpr)
		if !ok {
			return false
		}
		switch f := call.Fun.(type) {
		case *ast.Ident:
			return f.Name == "close"
		case *ast.SelectorExpr:
			return strings.Contains(f.Sel.Name, "Close")
		}
		return false
	})
	r.Floor("TABLE", "state arms of the consumer's switch", nc, 6)
	r.Floor("TABLE", "state arms of the multiplexer's switch", nm, 6)
	var names []string
	for n := range consStops {
		names = append(names, n)
	}
	sort.Strings(names)
	for _, n := range names {
		if n == "default" {
			continue
		}
		r.Check(muxCloses[n], "TABLE", "terminal-state("+n+")-ends-the-multiplexer-too", c.Pos(cons.Pos()),
			"the consumer can stop reading in this state and the multiplexer closes its output in it",
			"the coordinator loop can return (stop reading) when it sees "+n+", but the multiplexer does not close its output in that state: it goes on to send the next state into a channel nobody reads and blocks forever, leaking the goroutine and the query state of every request that ends this way")
	}
}
