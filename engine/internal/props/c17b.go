package props

import (
	"fmt"
	"go/token"
	"go/types"
	"strings"

	"golang.org/x/tools/go/ssa"

	"verif/engine/internal/core"
	"verif/engine/internal/locks"
)

// (7) ADMIT — the admission loop (PullQueriesToRun) decides with canRunQuery(), which counts the entries of the
// running table, and then starts the head of the waiting queue.  The decision and the registration of the started
// query in the running table have to be one step of the loop: every path from the accepting edge of canRunQuery()
// to the next evaluation of canRunQuery() passes a SYNCHRONOUS call from which the insertion into allRunningQueries
// is reachable (or takes nothing from the waiting queue).  If the start is handed to a goroutine, the loop sees the
// old count on its next turns and admits more queries than the limit allows.
func c17Admission(c *core.Ctx, r *core.Report, sm *summaries) {
	fn := c.Fn(pkgQuery, "PullQueriesToRun")
	canRun := c.Obj(pkgQuery, "canRunQuery")
	next := c.Obj(pkgQuery, "getNextWaitStateData")
	table := c.Global(pkgQuery, "allRunningQueries")
	// functions from which an insertion into the running table is reachable over static calls
	inserts := map[*ssa.Function]bool{}
	for _, f := range c.RepoFunctions() {
		for _, b := range f.Blocks {
			for _, in := range b.Instrs {
				if mu, ok := in.(*ssa.MapUpdate); ok {
					if ld, ok := mu.Map.(*ssa.UnOp); ok && ld.X == ssa.Value(table) {
						inserts[f] = true
					}
				}
			}
		}
	}
	var seeds []types.Object
	for f := range inserts {
		top := f
		for top.Parent() != nil {
			top = top.Parent()
		}
		if o := top.Object(); o != nil {
			seeds = append(seeds, o)
		}
	}
	reach := sm.staticMayReach(objs(seeds...))
	checks := callsTo(fn, canRun)
	r.Floor("GUARD", "evaluations of canRunQuery in the admission loop", len(checks), 1)
	for i, chk := range checks {
		construct := fmt.Sprintf("%s:admission#%d-registers-before-the-next-decision", shortFn(fn), i+1)
		// start: the accepting edge
		var start *ssa.BasicBlock
		for _, b := range fn.Blocks {
			if ifi, ok := core.LastIf(b); ok {
				cond, neg := ifi.Cond, false
				if u, ok := cond.(*ssa.UnOp); ok && u.Op == token.NOT {
					cond, neg = u.X, true
				}
				if cond == ssa.Value(chk) {
					start = b.Succs[0]
					if neg {
						start = b.Succs[1]
					}
				}
			}
		}
		if start == nil {
			r.Undecided("GUARD", construct, c.Pos(chk.Pos()), "the result of canRunQuery() is not branched on directly")
			continue
		}
		// walk from the accepting edge; stop at synchronous registering calls and at paths that took nothing
		var leak ssa.Instruction
		took := false
		type bt struct {
			b *ssa.BasicBlock
			t bool
		}
		var walk func(b *ssa.BasicBlock, took bool, seen map[bt]bool)
		walk = func(b *ssa.BasicBlock, took bool, seen map[bt]bool) {
			if seen[bt{b, took}] || leak != nil {
				return
			}
			seen[bt{b, took}] = true
			for _, in := range b.Instrs {
				switch x := in.(type) {
				case *ssa.Go:
					// asynchronous: does not register before the loop goes on
					if callee := x.Call.StaticCallee(); callee != nil && (inserts[callee] || reach[callee]) {
						took = true
					}
				case *ssa.Call:
					if core.IsCallTo(x, next) {
						took = true
					}
					if callee := x.Call.StaticCallee(); callee != nil && (inserts[callee] || reach[callee]) {
						return // registered synchronously
					}
					if x == chk && took {
						leak = in
						return
					}
					if x == chk {
						return
					}
				}
			}
			// on the edge where the queue gave nothing (result == nil), nothing was taken
			if ifi, ok := core.LastIf(b); ok {
				if bo, ok := ifi.Cond.(*ssa.BinOp); ok && (bo.Op == token.EQL || bo.Op == token.NEQ) && core.IsNilConst(bo.Y) {
					if call, ok := bo.X.(*ssa.Call); ok && core.IsCallTo(call, next) {
						nilEdge, otherEdge := b.Succs[0], b.Succs[1]
						if bo.Op == token.NEQ {
							nilEdge, otherEdge = otherEdge, nilEdge
						}
						walk(nilEdge, false, seen)
						walk(otherEdge, took, seen)
						return
					}
				}
			}
			for _, s := range b.Succs {
				walk(s, took, seen)
			}
		}
		_ = took
		walk(start, false, map[bt]bool{})
		if leak != nil {
			r.Violation("GUARD", construct, c.Pos(chk.Pos()), "after a query was taken from the waiting queue the loop can evaluate canRunQuery() again before that query is in the running table (its start is not a synchronous call): the count the decision is based on is stale, so more queries are admitted than the configured limit")
		} else {
			r.OK("GUARD", construct, c.Pos(chk.Pos()), "every path that takes a waiting query passes a synchronous call that registers it before the next decision")
		}
	}
}

// (8) CLEANED — Cleanup of a query's processors (cancel, timeout, delete) empties the processors' state under
// processorLock and sets isCleanupCalled.  Fetch may be waiting for input at that moment; when the input arrives it
// must not hand it to the emptied processor: every call of processor.Process in DataProcessor.Fetch lies where
// isCleanupCalled, read with processorLock held, is known to be false.
func c17Cleaned(c *core.Ctx, r *core.Report, a *locks.Analysis) {
	fn := c.Fn(pkgProcessor, "DataProcessor.Fetch")
	flag := c.Field(pkgProcessor, "DataProcessor.isCleanupCalled")
	procF := c.Field(pkgProcessor, "DataProcessor.processor")
	ff := a.Facts[fn]
	var loads []ssa.Value
	for _, b := range fn.Blocks {
		for _, in := range b.Instrs {
			ld, ok := in.(*ssa.UnOp)
			if !ok || ld.Op != token.MUL {
				continue
			}
			fa, ok := ld.X.(*ssa.FieldAddr)
			if !ok || core.FieldOfAddr(fa) != flag {
				continue
			}
			held := false
			if ff != nil {
				for _, h := range ff.MustAt[in] {
					if strings.HasSuffix(h.Class.Name, "processorLock") {
						held = true
					}
				}
			}
			if held {
				loads = append(loads, ld)
			}
		}
	}
	n := 0
	for _, ci := range core.CallsIn(fn) {
		cc := ci.Common()
		if !cc.IsInvoke() || cc.Method.Name() != "Process" {
			continue
		}
		ld, ok := cc.Value.(*ssa.UnOp)
		if !ok {
			continue
		}
		fa, ok := ld.X.(*ssa.FieldAddr)
		if !ok || core.FieldOfAddr(fa) != procF {
			continue
		}
		n++
		ok = false
		for _, l := range loads {
			if core.BoolKnownAt(l, ci.Block()) == core.No {
				ok = true
			}
		}
		r.Check(ok, "GUARD", fmt.Sprintf("%s:Process#%d-not-after-Cleanup", shortFn(fn), n), c.Pos(ci.Pos()),
			"the processor is used only where isCleanupCalled, read under processorLock, is known false",
			"Fetch hands a batch to the processor without having seen, under processorLock, that Cleanup has not run: a cancel or timeout that lands while Fetch waits for input empties the processor, the late batch is processed on nil state and the query goroutine panics (there is no recover), which takes the server down")
	}
	r.Floor("GUARD", "calls of processor.Process in DataProcessor.Fetch", n, 1)
}
