package props

import (
	"fmt"
	"go/token"
	"go/types"
	"sort"
	"strings"

	"golang.org/x/tools/go/ssa"

	"verif/engine/internal/core"
)

// (6) NARROWSUM — in the file decoders a length read from the file (a 1/2/4-byte unsigned field) is added to or
// multiplied with something and only THEN widened for a bounds check or a slice bound: the arithmetic is done in the
// narrow type and wraps (uint16(0xFFF8) + 12 == 4), so a damaged length near the top of the type's range passes the
// check that should have rejected it and the decoder slices past the data it has.  Every widening conversion in the
// reader packages whose operand is a sum or product computed in a narrower unsigned type from a decoded length is a
// violation; the sound form widens the operands first.
func c18NarrowSum(c *core.Ctx, r *core.Report) {
	scope := []string{"pkg/segment/reader", "pkg/segment/pqmr", "pkg/segment/sortindex", "pkg/segment/metadata", "pkg/segment/writer", "pkg/segment/search", "pkg/segment/query", "pkg/segment/results", "pkg/utils"}
	width := func(t types.Type) (int, bool) {
		b, ok := t.Underlying().(*types.Basic)
		if !ok || b.Info()&types.IsInteger == 0 {
			return 0, false
		}
		switch b.Kind() {
		case types.Uint8, types.Int8:
			return 8, b.Info()&types.IsUnsigned != 0
		case types.Uint16, types.Int16:
			return 16, b.Info()&types.IsUnsigned != 0
		case types.Uint32, types.Int32:
			return 32, b.Info()&types.IsUnsigned != 0
		default:
			return 64, b.Info()&types.IsUnsigned != 0
		}
	}
	var decoded func(v ssa.Value, depth int) bool
	decoded = func(v ssa.Value, depth int) bool {
		if depth > 4 {
			return false
		}
		switch x := v.(type) {
		case *ssa.Call:
			if f := core.CalleeFunc(x); f != nil && (strings.HasPrefix(f.Name(), "BytesToUint") || strings.HasPrefix(f.Name(), "Uint16") || strings.HasPrefix(f.Name(), "Uint32") || f.Name() == "ReadByte") {
				return true
			}
		case *ssa.BinOp:
			return decoded(x.X, depth+1) || decoded(x.Y, depth+1)
		case *ssa.Convert:
			return decoded(x.X, depth+1)
		case *ssa.Phi:
			for _, e := range x.Edges {
				if decoded(e, depth+1) {
					return true
				}
			}
		case *ssa.UnOp:
			// a byte of the buffer: buf[i]
			if x.Op == token.MUL {
				if _, ok := x.X.(*ssa.IndexAddr); ok {
					if w, _ := width(x.Type()); w == 8 {
						return true
					}
				}
			}
		}
		return false
	}
	type hit struct {
		fn *ssa.Function
		cv *ssa.Convert
	}
	var hits []hit
	nConv := 0
	for _, fn := range c.RepoFunctions() {
		in := c.Tier == "thorough" // the thorough tier looks at every package
		for _, p := range scope {
			if strings.HasPrefix(core.FnPkgPath(fn), core.ModPath+"/"+p) {
				in = true
			}
		}
		if !in {
			continue
		}
		for _, b := range fn.Blocks {
			for _, ins := range b.Instrs {
				cv, ok := ins.(*ssa.Convert)
				if !ok {
					continue
				}
				fw, funs := width(cv.X.Type())
				tw, _ := width(cv.Type())
				if fw == 0 || tw == 0 || tw <= fw || !funs {
					continue
				}
				nConv++
				bo, ok := cv.X.(*ssa.BinOp)
				if !ok || (bo.Op != token.ADD && bo.Op != token.MUL && bo.Op != token.SHL) {
					continue
				}
				if decoded(bo, 0) {
					hits = append(hits, hit{fn, cv})
				}
			}
		}
	}
	sort.Slice(hits, func(i, j int) bool {
		if hits[i].fn.String() != hits[j].fn.String() {
			return hits[i].fn.String() < hits[j].fn.String()
		}
		return hits[i].cv.Pos() < hits[j].cv.Pos()
	})
	per := map[string]int{}
	for _, h := range hits {
		name := shortFn(h.fn)
		per[name]++
		r.Violation("BOUND", fmt.Sprintf("%s:decoded-length-arithmetic#%d-is-done-in-the-wide-type", name, per[name]), c.Pos(h.cv.Pos()), "a length decoded from the file is added to / multiplied with another value in its narrow unsigned type and widened afterwards: for lengths near the top of the narrow range the result wraps to a small number, the bounds check built on it accepts a damaged file, and the decoder reads past the data (panic, or silently wrong metadata)")
	}
	r.Count("widening_conversions_in_decoders", nConv)
	if len(hits) == 0 {
		r.OK("BOUND", "decoders:no-narrow-arithmetic-on-decoded-lengths-before-widening", "-", fmt.Sprintf("%d widening conversions of unsigned values in the reader packages, none of a sum/product computed in the narrow type from a decoded length", nConv))
	}
	r.Floor("BOUND", "widening conversions of unsigned values in the decoders", nConv, 20)
}

// (7) DRAIN — a worker goroutine that is fed through an UNBUFFERED channel by a producer that sends without a
// select (and closes the channel when it has sent everything) has to keep receiving until the channel is closed: if
// the worker returns from inside its receive loop, the producer's next send blocks forever once all workers are gone,
// and the goroutine that waits for the producer (a query holding a search permit) hangs.  For every `go f(ch, ...)`
// whose channel argument is made without a buffer in the spawning function and sent to there outside a select: in f,
// no return is reachable from the body of the loop that receives from that parameter without going back through the
// loop's receive.
func c18Drain(c *core.Ctx, r *core.Report) {
	n := 0
	for _, fn := range c.RepoFunctions() {
		if fn.Blocks == nil {
			continue
		}
		// unbuffered channels made here and sent to outside a select
		unbuffered := map[ssa.Value]bool{}
		for _, b := range fn.Blocks {
			for _, in := range b.Instrs {
				if mc, ok := in.(*ssa.MakeChan); ok {
					if k, ok := core.ConstIntValue(mc.Size); ok && k == 0 {
						unbuffered[mc] = true
					}
				}
			}
		}
		if len(unbuffered) == 0 {
			continue
		}
		sent := map[ssa.Value]bool{}
		for _, b := range fn.Blocks {
			for _, in := range b.Instrs {
				if s, ok := in.(*ssa.Send); ok && unbuffered[s.Chan] {
					sent[s.Chan] = true
				}
			}
		}
		for _, b := range fn.Blocks {
			for _, in := range b.Instrs {
				g, ok := in.(*ssa.Go)
				if !ok {
					continue
				}
				target := g.Call.StaticCallee()
				type chanIn struct{ v ssa.Value }
				var ins []chanIn
				if mc, ok := g.Call.Value.(*ssa.MakeClosure); ok {
					// a closure worker: the channel is a captured variable
					target, _ = mc.Fn.(*ssa.Function)
					if target != nil {
						for bi, bnd := range mc.Bindings {
							if bi >= len(target.FreeVars) {
								continue
							}
							if sent[bnd] {
								ins = append(ins, chanIn{target.FreeVars[bi]})
							}
							// captured by reference: the binding is the address of a local that holds the channel
							if al, ok := bnd.(*ssa.Alloc); ok && al.Referrers() != nil {
								for _, u := range *al.Referrers() {
									if st, ok := u.(*ssa.Store); ok && st.Addr == ssa.Value(al) && sent[st.Val] {
										ins = append(ins, chanIn{target.FreeVars[bi]})
									}
								}
							}
						}
					}
				}
				if target == nil || target.Blocks == nil {
					continue
				}
				for ai, a := range g.Call.Args {
					if sent[a] && ai < len(target.Params) {
						ins = append(ins, chanIn{target.Params[ai]})
					}
				}
				for _, ci := range ins {
					param := ci.v
					// receive loops on the parameter
					for _, lp := range core.Loops(target) {
						var recv *ssa.UnOp
						for _, hin := range lp.Header.Instrs {
							if u, ok := hin.(*ssa.UnOp); ok && u.Op == token.ARROW {
								if u.X == param {
									recv = u
								} else if ld, ok := u.X.(*ssa.UnOp); ok && ld.Op == token.MUL && ld.X == param {
									recv = u
								}
							}
						}
						if recv == nil {
							continue
						}
						n++
						construct := fmt.Sprintf("%s:worker(%s)-receives-until-the-channel-is-closed", shortFn(fn), shortFn(target))
						// a return reachable from a body block without passing the header
						var early *ssa.Return
						seen := map[*ssa.BasicBlock]bool{}
						var work []*ssa.BasicBlock
						for _, s := range lp.Header.Succs {
							if lp.Body[s] {
								work = append(work, s)
								seen[s] = true
							}
						}
						for len(work) > 0 {
							x := work[len(work)-1]
							work = work[:len(work)-1]
							if x == lp.Header {
								continue
							}
							if len(x.Instrs) > 0 {
								if ret, ok := x.Instrs[len(x.Instrs)-1].(*ssa.Return); ok && early == nil {
									early = ret
								}
								if _, ok := x.Instrs[len(x.Instrs)-1].(*ssa.Panic); ok {
									continue
								}
							}
							for _, s := range x.Succs {
								if !seen[s] {
									seen[s] = true
									work = append(work, s)
								}
							}
						}
						if early != nil {
							r.Violation("LIVE", construct, c.Pos(early.Pos()), "the worker returns from inside its receive loop while its producer sends on an unbuffered channel without a select: when every worker has left, the producer's next send never completes, and the goroutine waiting for the producer hangs for good (with whatever permits and locks it holds)")
						} else {
							r.OK("LIVE", construct, c.Pos(recv.Pos()), "the only way out of the receive loop is the closed channel")
						}
					}
				}
			}
		}
	}
	r.Floor("LIVE", "workers fed through an unbuffered channel", n, 1)
	_ = types.Typ
}

// c18ShortReads — clause SHORTREAD.  (*os.File).Read may return fewer bytes than asked for together with a nil error
// (the file ends inside the range; ReadAt, by the io.ReaderAt contract, reports an error in that case).  In the reader packages of the segment files a call of one of them whose
// byte count is discarded decodes whatever was in the buffer before — stale or zero bytes — as file content when the
// file is truncated, and reports no error: the count is used (compared, sliced with, returned), or the read is made
// through io.ReadFull / binary.Read / the checksummed reader, which turn a short read into an error.
func c18ShortReads(c *core.Ctx, r *core.Report) {
	scope := []string{"pkg/segment/reader", "pkg/segment/pqmr", "pkg/segment/sortindex", "pkg/segment/metadata/segmentmicroindex"}
	osRead := c.ExtObj("os", "File.Read")
	osReadAt := c.ExtObj("os", "File.ReadAt")
	n, bad := 0, 0
	for _, fn := range c.RepoFunctions() {
		in := false
		for _, p := range scope {
			if strings.HasPrefix(core.FnPkgPath(fn), core.ModPath+"/"+p) {
				in = true
			}
		}
		if !in || fn.Blocks == nil {
			continue
		}
		k := 0
		for _, ci := range core.CallsIn(fn) {
			call, ok := ci.(*ssa.Call)
			// ReadAt is bound by the io.ReaderAt contract to report an error with a short count; Read is not
			if !ok || !core.IsCallTo(call, osRead) {
				continue
			}
			_ = osReadAt
			n++
			k++
			used := false
			if refs := call.Referrers(); refs != nil {
				for _, u := range *refs {
					if ex, ok := u.(*ssa.Extract); ok && ex.Index == 0 {
						if er := ex.Referrers(); er != nil {
							for _, x := range *er {
								if _, dbg := x.(*ssa.DebugRef); !dbg {
									used = true
								}
							}
						}
					}
				}
			}
			construct := fmt.Sprintf("%s:file-read#%d-uses-the-byte-count", shortFn(fn), k)
			if used {
				r.OK("GUARD", construct, c.Pos(call.Pos()), "the number of bytes read is used")
			} else {
				bad++
				r.Violation("GUARD", construct, c.Pos(call.Pos()), "the byte count of a raw file read is discarded and only the error is looked at: a file that ends inside the requested range gives a short count with a nil error, so a truncated file is decoded from the bytes the buffer held before and wrong values are served without an error")
			}
		}
	}
	r.Count("raw_file_reads_in_reader_packages", n)
	if bad == 0 {
		r.OK("GUARD", "reader-packages:no-raw-file-read-discards-its-byte-count", "-", fmt.Sprintf("%d raw (*os.File).Read calls in the reader packages, every count used", n))
	}
}
