package props

import (
	"fmt"
	"go/ast"
	"go/constant"
	"go/token"
	"go/types"
	"sort"
	"strconv"
	"strings"

	"golang.org/x/tools/go/ssa"

	"verif/engine/internal/core"
)

func init() { register("C01", checkC01) }

// canonical encoded width (tag byte included) of the fixed-width TLV tags; 0 = length-prefixed (3 + u16)
var tlvWidth = map[string]int{
	"VALTYPE_ENC_BOOL": 2, "VALTYPE_ENC_UINT8": 2, "VALTYPE_ENC_INT8": 2,
	"VALTYPE_ENC_UINT16": 3, "VALTYPE_ENC_INT16": 3,
	"VALTYPE_ENC_UINT32": 5, "VALTYPE_ENC_INT32": 5,
	"VALTYPE_ENC_UINT64": 9, "VALTYPE_ENC_INT64": 9, "VALTYPE_ENC_FLOAT64": 9,
	"VALTYPE_ENC_BACKFILL":     1,
	"VALTYPE_ENC_SMALL_STRING": 0, "VALTYPE_ENC_LARGE_STRING": 0, "VALTYPE_DICT_ARRAY": 0, "VALTYPE_RAW_JSON": 0,
}

// the little-endian decoder that matches each fixed-width tag
var tlvDecodeFn = map[string]string{
	"VALTYPE_ENC_BOOL":   "BytesToBoolLittleEndian",
	"VALTYPE_ENC_UINT16": "BytesToUint16LittleEndian", "VALTYPE_ENC_INT16": "BytesToInt16LittleEndian",
	"VALTYPE_ENC_UINT32": "BytesToUint32LittleEndian", "VALTYPE_ENC_INT32": "BytesToInt32LittleEndian",
	"VALTYPE_ENC_UINT64": "BytesToUint64LittleEndian", "VALTYPE_ENC_INT64": "BytesToInt64LittleEndian",
	"VALTYPE_ENC_FLOAT64": "BytesToFloat64LittleEndian",
}

func checkC01(c *core.Ctx, r *core.Report) {
	r.Explanation = "C01 (log ingest-to-query round trip is lossless), structural clauses of the column format only: " +
		"(1) TAGWIDTH — in every switch / if-chain over a TLV tag byte (writer, reader, search) the record length an arm assigns, the byte ranges it slices and the little-endian decoder it calls are those of the arm's tag (1, 2, 3, 5, 9 bytes or 3+u16), so all decoders agree with each other and with the encoders on where a value ends; " +
		"(2) EMIT/HANDLE — every tag the production ingest path can emit (with constant propagation of the number-kind selector) is handled by every decoder whose domain contains it (all tags: record length / value readers; dictionary tags: the dictionary block reader and its two result builders; per-block type consolidation); " +
		"(3) ACCOUNT — wherever encoded bytes are appended to a column buffer the write cursor cbufidx advances by exactly the number of bytes appended (constant or symbolic), in every encoder of the writer package; " +
		"(4) KEYUNIQ — the JSON array flattener gives every element its own index on every path through the per-element callback; " +
		"(5) BACKFILL — after a record's own columns are written, every other column of the open block receives exactly one backfill byte (the loop visits all columns, no path skips the append); " +
		"(6) BLOCKRESET — per-block writer state is wholly reset between blocks: the column offset/length table (all entries, before the columns of the block are filled in), every column buffer, cursor and dictionary, the present-columns set and the block summary counters; " +
		"(7) TSWIDTH — the timestamp block uses the width its type byte announces on both sides, and the type is chosen by the matching bound of the block's time span; " +
		"(8) BOUND — a value length that is narrowed to the 16-bit TLV length field is bounded by a dominating comparison (a longer value is rejected, not truncated); " +
		"(9) OWNSTR — a zero-copy string made from bytes the function does not own (utils.UnsafeByteSliceToString of a read buffer) is not kept: not stored into a field, element or global, not inserted into a map, not returned or sent, also through repository callees (depth 3); sites accepted by reading are listed with their reason; " +
		"(11) NARROWINDEX — no index, slice bound or widened operand anywhere in the repository is a product or left shift computed in an 8/16-bit unsigned type from a non-constant value (a record number times an element width wraps); " +
		"(12b) CONSTSIZE — a constant encoded length is recorded in the store's size table (which lets the reader seek by multiplication) only where the record count is known to be zero, the twin of the backfill predicate; " +
		"(12) MIDBLOCK — the backfill of a column that first appears in the middle of a block is governed only by the column's absence from the block and a non-zero record count (not by the type of its first value); " +
		"(13) FLATTEN (shared with C16) — the per-key callback of the JSON flattener hands every key's value to a value handler on every successful path (no key, and for an object or array no subtree, is silently dropped from the stored event); " +
		"(10) OPENSEG — the per-block bookkeeping of the open segment (column set, block summaries, block metadata) is extended on every call of updateUnrotatedBlockInfo, not only where the segment's record is created."
	r.NotCovered = "value equality of the round trip, alignment of record i across columns as an outcome, dictionary cut-over at the cardinality limit, block/segment boundary handling, JSON flattening semantics (names, escapes), number/string consolidation results, zstd and checksum layers (C18)"
	c01DictionaryComplete(c, r)

	tags := c01TagArms(c, r)
	c01EmitHandle(c, r, tags)
	c01Account(c, r)
	c01ArrayIndex(c, r)
	c01Backfill(c, r)
	c01BlockReset(c, r)
	c01Timestamps(c, r)
	c01LenBound(c, r)
	c01OwnStrings(c, r)
	c01NarrowIndex(c, r)
	c01MidBlockBackfill(c, r)
	c01ConstantSize(c, r)
	c01OpenSegmentBookkeeping(c, r)
	checkFlattenerDispatch(c, r)
}

// ---------------------------------------------------------------------------------------------- tag arms

type tagArm struct {
	fn     string // enclosing function (pkgname.Func)
	pkg    string
	tags   []string
	body   []ast.Stmt
	pos    token.Pos
	info   *types.Info
	inDict bool // lexically inside an arm for VALTYPE_DICT_ARRAY (entries are type + u16 + text)
	sw     ast.Node
}

// tagOfExpr: e is VALTYPE_X[0] (or VALTYPE_X[:], VALTYPE_X) of pkg/segment/utils.
func tagOfExpr(info *types.Info, e ast.Expr) string {
	for {
		switch x := e.(type) {
		case *ast.ParenExpr:
			e = x.X
			continue
		case *ast.IndexExpr:
			e = x.X
			continue
		case *ast.SliceExpr:
			e = x.X
			continue
		}
		break
	}
	var id *ast.Ident
	switch x := e.(type) {
	case *ast.Ident:
		id = x
	case *ast.SelectorExpr:
		id = x.Sel
	default:
		return ""
	}
	o, ok := info.Uses[id].(*types.Var)
	if !ok || o.Pkg() == nil || !strings.HasSuffix(o.Pkg().Path(), "/"+pkgSutils) || !strings.HasPrefix(o.Name(), "VALTYPE_") {
		return ""
	}
	if o.Parent() != o.Pkg().Scope() {
		return ""
	}
	return o.Name()
}

func enclosingFuncName(pkgName string, fd *ast.FuncDecl) string {
	name := fd.Name.Name
	if fd.Recv != nil && len(fd.Recv.List) == 1 {
		t := fd.Recv.List[0].Type
		if st, ok := t.(*ast.StarExpr); ok {
			t = st.X
		}
		if id, ok := t.(*ast.Ident); ok {
			name = id.Name + "." + name
		}
	}
	return pkgName + "." + name
}

// collectTagArms finds every arm keyed by a TLV tag in the repository.
func collectTagArms(c *core.Ctx) []tagArm {
	var out []tagArm
	for _, p := range c.RepoPackages() {
		for _, f := range p.Syntax {
			for _, d := range f.Decls {
				fd, ok := d.(*ast.FuncDecl)
				if !ok || fd.Body == nil {
					continue
				}
				fname := enclosingFuncName(p.Types.Name(), fd)
				var walk func(n ast.Node, inDict bool)
				walk = func(n ast.Node, inDict bool) {
					ast.Inspect(n, func(x ast.Node) bool {
						if x == n {
							return true
						}
						switch s := x.(type) {
						case *ast.SwitchStmt:
							if s.Tag == nil {
								return true
							}
							isTag := false
							for _, cl := range s.Body.List {
								for _, e := range cl.(*ast.CaseClause).List {
									if tagOfExpr(p.TypesInfo, e) != "" {
										isTag = true
									}
								}
							}
							if !isTag {
								return true
							}
							for _, cl := range s.Body.List {
								cc := cl.(*ast.CaseClause)
								var tags []string
								for _, e := range cc.List {
									if t := tagOfExpr(p.TypesInfo, e); t != "" {
										tags = append(tags, t)
									}
								}
								if len(tags) == 0 {
									continue
								}
								out = append(out, tagArm{fn: fname, pkg: p.PkgPath, tags: tags, body: cc.Body, pos: cc.Pos(), info: p.TypesInfo, inDict: inDict, sw: s})
								dict := inDict
								for _, t := range tags {
									if t == "VALTYPE_DICT_ARRAY" {
										dict = true
									}
								}
								for _, st := range cc.Body {
									walk(st, dict)
								}
							}
							// the tag expression and default arm are not descended into separately
							for _, cl := range s.Body.List {
								cc := cl.(*ast.CaseClause)
								if cc.List == nil {
									for _, st := range cc.Body {
										walk(st, inDict)
									}
								}
							}
							return false
						case *ast.IfStmt:
							be, ok := s.Cond.(*ast.BinaryExpr)
							if !ok || be.Op != token.EQL {
								return true
							}
							t := tagOfExpr(p.TypesInfo, be.X)
							if t == "" {
								t = tagOfExpr(p.TypesInfo, be.Y)
							}
							if t == "" {
								return true
							}
							out = append(out, tagArm{fn: fname, pkg: p.PkgPath, tags: []string{t}, body: s.Body.List, pos: s.Pos(), info: p.TypesInfo, inDict: inDict, sw: s})
							for _, st := range s.Body.List {
								walk(st, inDict || t == "VALTYPE_DICT_ARRAY")
							}
							if s.Else != nil {
								// wrap so that an else-if is visited as a child (and matched as an IfStmt itself)
								walk(&ast.BlockStmt{List: []ast.Stmt{s.Else}}, inDict)
							}
							return false
						}
						return true
					})
				}
				// walk needs to visit the root's children including a root IfStmt/SwitchStmt itself
				walk(&ast.BlockStmt{List: []ast.Stmt{&ast.BlockStmt{List: fd.Body.List}}}, false)
			}
		}
	}
	return out
}

func constIntOf(info *types.Info, e ast.Expr) (int64, bool) {
	tv, ok := info.Types[e]
	if !ok || tv.Value == nil {
		return 0, false
	}
	v, exact := constant.Int64Val(constant.ToInt(tv.Value))
	return v, exact
}

func stripConv(info *types.Info, e ast.Expr) ast.Expr {
	for {
		switch x := e.(type) {
		case *ast.ParenExpr:
			e = x.X
			continue
		case *ast.CallExpr:
			if len(x.Args) == 1 {
				if tv, ok := info.Types[x.Fun]; ok && tv.IsType() {
					e = x.Args[0]
					continue
				}
			}
		}
		return e
	}
}

// widthExpr classifies the right-hand side of a length assignment:
// (k, "const") | (k, "k+var") | (0, "other")
func widthExpr(info *types.Info, e ast.Expr) (int64, string) {
	if k, ok := constIntOf(info, e); ok {
		return k, "const"
	}
	e = stripConv(info, e)
	if be, ok := e.(*ast.BinaryExpr); ok && be.Op == token.ADD {
		if k, ok := constIntOf(info, be.X); ok {
			return k, "k+var"
		}
		if k, ok := constIntOf(info, be.Y); ok {
			return k, "k+var"
		}
	}
	return 0, "other"
}

func isIntegerExpr(info *types.Info, e ast.Expr) bool {
	t := info.TypeOf(e)
	if t == nil {
		return false
	}
	// plain integers only: named integer types are enumerations (Dtype, ...), not lengths
	b, ok := t.(*types.Basic)
	return ok && b.Info()&types.IsInteger != 0
}

func c01TagArms(c *core.Ctx, r *core.Report) []tagArm {
	arms := collectTagArms(c)
	// group by switch
	bySwitch := map[ast.Node][]int{}
	var order []ast.Node
	for i, a := range arms {
		if _, ok := bySwitch[a.sw]; !ok {
			order = append(order, a.sw)
		}
		bySwitch[a.sw] = append(bySwitch[a.sw], i)
	}
	nSw, nArms, nWidth, nSlice, nDecode := 0, 0, 0, 0, 0
	perFn := map[string]int{}
	for _, sw := range order {
		idxs := bySwitch[sw]
		first := arms[idxs[0]]
		if _, isIf := sw.(*ast.IfStmt); !isIf {
			nSw++
		}
		perFn[first.fn]++
		swName := fmt.Sprintf("%s:tag-switch#%d", first.fn, perFn[first.fn])
		// length variables: integer lvalues assigned a constant or k+var at the top level of >= 2 arms
		cand := map[string]int{}
		for _, i := range idxs {
			seen := map[string]bool{}
			for _, st := range arms[i].body {
				as, ok := st.(*ast.AssignStmt)
				if !ok || len(as.Lhs) != 1 || len(as.Rhs) != 1 || !isIntegerExpr(arms[i].info, as.Lhs[0]) {
					continue
				}
				if as.Tok != token.ASSIGN && as.Tok != token.ADD_ASSIGN {
					continue
				}
				if _, kind := widthExpr(arms[i].info, as.Rhs[0]); kind == "other" {
					continue
				}
				l := types.ExprString(as.Lhs[0])
				if !seen[l] {
					seen[l] = true
					cand[l]++
				}
			}
		}
		lenVar := map[string]bool{}
		for l, n := range cand {
			if n >= 2 {
				lenVar[l] = true
			}
		}
		// per length variable: the total advance of each arm, as a linear form
		type armLen struct {
			arm  int
			tag  string
			sum  lin
			pos  token.Pos
			base int64
		}
		perVar := map[string][]armLen{}
		for _, i := range idxs {
			a := arms[i]
			if a.inDict {
				continue
			}
			ac := &accountCtx{info: a.info, defs: map[types.Object]ast.Expr{}}
			sums := map[string]lin{}
			first := map[string]token.Pos{}
			for _, st := range a.body {
				as, ok := st.(*ast.AssignStmt)
				if !ok || len(as.Lhs) != 1 || len(as.Rhs) != 1 || !lenVar[types.ExprString(as.Lhs[0])] {
					continue
				}
				l := types.ExprString(as.Lhs[0])
				v := ac.linOf(as.Rhs[0], 0)
				switch as.Tok {
				case token.ASSIGN:
					sums[l] = v
				case token.ADD_ASSIGN:
					if cur, ok := sums[l]; ok {
						sums[l] = cur.add(v, 1)
					} else {
						sums[l] = v
					}
				default:
					continue
				}
				if _, ok := first[l]; !ok {
					first[l] = as.Pos()
				}
			}
			for l, sum := range sums {
				for _, tag := range a.tags {
					if _, known := tlvWidth[tag]; known && tag != "VALTYPE_DICT_ARRAY" && tag != "VALTYPE_RAW_JSON" {
						perVar[l] = append(perVar[l], armLen{arm: i, tag: tag, sum: sum, pos: first[l]})
					}
				}
			}
		}
		var lvs []string
		for l := range perVar {
			lvs = append(lvs, l)
		}
		sort.Strings(lvs)
		for _, l := range lvs {
			als := perVar[l]
			// base: 1 when the tag byte was consumed before the switch, 0 otherwise — the same for every arm
			tally := map[int64]int{}
			for k := range als {
				w := int64(tlvWidth[als[k].tag])
				if w == 0 {
					w = 3
				}
				als[k].base = w - als[k].sum.k
				tally[als[k].base]++
			}
			ref := int64(0)
			if tally[1] > tally[0] {
				ref = 1
			}
			for _, al := range als {
				nWidth++
				w := tlvWidth[al.tag]
				construct := fmt.Sprintf("%s:%s:length(%s)", swName, strings.TrimPrefix(al.tag, "VALTYPE_"), l)
				switch {
				case al.sum.bad:
					r.Undecided("TAGWIDTH", construct, c.Pos(al.pos), "length is not a linear form the rule understands")
				case w > 0 && len(al.sum.syms) > 0:
					r.Violation("TAGWIDTH", construct, c.Pos(al.pos), fmt.Sprintf("a fixed-width %s value (%d bytes) is given the data-dependent length %s", al.tag, w, al.sum))
				case w == 0 && len(al.sum.syms) == 0:
					r.Violation("TAGWIDTH", construct, c.Pos(al.pos), fmt.Sprintf("a length-prefixed %s value is given the fixed length %d", al.tag, al.sum.k))
				case al.base != ref:
					want := int64(w) - ref
					if w == 0 {
						want = 3 - ref
					}
					r.Violation("TAGWIDTH", construct, c.Pos(al.pos), fmt.Sprintf("this arm advances %s by %s for a %s value; the encoded width is %d%s, so it should advance by %d%s: every following value of the column is read from the wrong offset", l, al.sum, al.tag, map[bool]int{true: 3, false: w}[w == 0], map[bool]string{true: " + u16 length", false: ""}[w == 0], want, map[bool]string{true: " + length", false: ""}[w == 0]))
				default:
					r.OK("TAGWIDTH", construct, c.Pos(al.pos), fmt.Sprintf("advance %s (tag byte %s)", al.sum, map[int64]string{0: "included", 1: "consumed before the switch"}[ref]))
				}
			}
		}
		for _, i := range idxs {
			a := arms[i]
			nArms++
			if a.inDict {
				continue // entries of a dict array are tag + u16 length + text for every tag
			}
			for _, tag := range a.tags {
				w, known := tlvWidth[tag]
				if !known {
					continue
				}
				construct := fmt.Sprintf("%s:%s", swName, strings.TrimPrefix(tag, "VALTYPE_"))
				if w <= 1 || len(a.tags) > 1 && !sameWidth(a.tags) {
					continue
				}
				// (b) byte ranges x[1:K] / Slice(o+1, o+K) and (c) decoder functions, only for fixed-width tags
				for _, st := range a.body {
					ast.Inspect(st, func(n ast.Node) bool {
						switch x := n.(type) {
						case *ast.SwitchStmt:
							// nested tag switches are examined on their own
							for _, cl := range x.Body.List {
								for _, e := range cl.(*ast.CaseClause).List {
									if tagOfExpr(a.info, e) != "" {
										return false
									}
								}
							}
						case *ast.SliceExpr:
							if x.Low == nil || x.High == nil {
								return true
							}
							lo, ok1 := constIntOf(a.info, x.Low)
							hi, ok2 := constIntOf(a.info, x.High)
							if ok1 && ok2 && lo == 1 {
								nSlice++
								r.Check(int(hi) == w, "TAGWIDTH", construct+":value-bytes", c.Pos(x.Pos()), fmt.Sprintf("value bytes [1:%d]", w), fmt.Sprintf("the value bytes of a %s are taken as [1:%d], they are [1:%d]", tag, hi, w))
							}
						case *ast.CallExpr:
							name := ""
							switch f := x.Fun.(type) {
							case *ast.SelectorExpr:
								name = f.Sel.Name
							case *ast.Ident:
								name = f.Name
							}
							if name == "Slice" && len(x.Args) == 2 {
								// Slice(o+1, o+K)
								lo, okl := offsetConst(a.info, x.Args[0])
								hi, okh := offsetConst(a.info, x.Args[1])
								if okl && okh && lo == 1 {
									nSlice++
									r.Check(int(hi) == w, "TAGWIDTH", construct+":value-bytes", c.Pos(x.Pos()), fmt.Sprintf("value bytes [+1:+%d]", w), fmt.Sprintf("the value bytes of a %s are taken as [+1:+%d], they are [+1:+%d]", tag, hi, w))
								}
							}
							if strings.HasPrefix(name, "BytesTo") && strings.HasSuffix(name, "LittleEndian") {
								want := map[string]bool{}
								for _, t := range a.tags {
									if fn, ok := tlvDecodeFn[t]; ok {
										want[fn] = true
									}
								}
								if len(want) > 0 {
									nDecode++
									r.Check(want[name], "TAGWIDTH", construct+":decoder", c.Pos(x.Pos()), name, fmt.Sprintf("a %s value is decoded with %s", tag, name))
								}
							}
						}
						return true
					})
				}
			}
		}
	}
	r.Floor("TAGWIDTH", "switches over a TLV tag byte", nSw, 14)
	r.Floor("TAGWIDTH", "tag arms", nArms, 120)
	r.Floor("TAGWIDTH", "length assignments in tag arms", nWidth, 60)
	r.Floor("TAGWIDTH", "value byte ranges in tag arms", nSlice, 10)
	r.Floor("TAGWIDTH", "little-endian decoder calls in tag arms", nDecode, 25)
	return arms
}

func sameWidth(tags []string) bool {
	w := -1
	for _, t := range tags {
		if w == -1 {
			w = tlvWidth[t]
		} else if tlvWidth[t] != w {
			return false
		}
	}
	return true
}

// offsetConst: e is `x + K` (or K) -> K.
func offsetConst(info *types.Info, e ast.Expr) (int64, bool) {
	e = stripConv(info, e)
	if be, ok := e.(*ast.BinaryExpr); ok && be.Op == token.ADD {
		if k, ok := constIntOf(info, be.Y); ok {
			if _, isK := constIntOf(info, be.X); !isK {
				return k, true
			}
		}
	}
	return 0, false
}

// ---------------------------------------------------------------------------------------------- emit / handle

func c01EmitHandle(c *core.Ctx, r *core.Report, arms []tagArm) {
	// production ingest cone: functions of the writer package reachable from the ingest entry points
	entry := []*ssa.Function{c.Fn(pkgWriter, "GetNewPLE"), c.Fn(pkgWriter, "SegStore.AddEntry"), c.Fn(pkgWriter, "SegStore.AppendWipToSegfile")}
	cone := map[*ssa.Function]bool{}
	var work []*ssa.Function
	for _, e := range entry {
		cone[e] = true
		work = append(work, e)
	}
	for len(work) > 0 {
		f := work[len(work)-1]
		work = work[:len(work)-1]
		add := func(g *ssa.Function) {
			if g != nil && !cone[g] && core.FnPkgPath(g) == core.ModPath+"/"+pkgWriter {
				cone[g] = true
				work = append(work, g)
			}
		}
		for _, ci := range core.CallsIn(f) {
			add(ci.Common().StaticCallee())
			for _, a := range ci.Common().Args {
				if mc, ok := a.(*ssa.MakeClosure); ok {
					add(mc.Fn.(*ssa.Function))
				}
			}
		}
		for _, an := range f.AnonFuncs {
			add(an)
		}
	}
	coneByPos := map[token.Pos]*ssa.Function{}
	for f := range cone {
		if f.Syntax() != nil {
			coneByPos[f.Syntax().Pos()] = f
		}
	}
	// emission sites in the cone: copy(dst, TAG[:]) or x.Append(TAG[:])
	emitted := map[string]string{} // tag -> first site
	unreachable := map[string]string{}
	wp := c.Pkg(pkgWriter)
	callers := c.StaticCallers()
	for _, f := range wp.Syntax {
		for _, d := range f.Decls {
			fd, ok := d.(*ast.FuncDecl)
			if !ok || fd.Body == nil {
				continue
			}
			fn := coneByPos[fd.Pos()]
			if fn == nil {
				continue
			}
			// switch arms over a parameter, with the constants callers pass
			var visit func(n ast.Node, dead bool)
			visit = func(n ast.Node, dead bool) {
				ast.Inspect(n, func(x ast.Node) bool {
					if x == n {
						return true
					}
					switch s := x.(type) {
					case *ast.SwitchStmt:
						id, ok := s.Tag.(*ast.Ident)
						pIdx := -1
						if ok {
							for i, p := range fn.Params {
								if p.Object() != nil && wp.TypesInfo.Uses[id] == p.Object() {
									pIdx = i
								}
							}
						}
						if pIdx < 0 {
							return true
						}
						passed := map[int64]bool{}
						allConst := len(callers[fn]) > 0
						for _, ci := range callers[fn] {
							if k, ok := core.ConstIntValue(ci.Common().Args[pIdx]); ok {
								passed[k] = true
							} else {
								allConst = false
							}
						}
						for _, cl := range s.Body.List {
							cc := cl.(*ast.CaseClause)
							armDead := dead
							if allConst && len(cc.List) > 0 {
								armDead = true
								for _, e := range cc.List {
									if k, ok := constIntOf(wp.TypesInfo, e); ok && passed[k] {
										armDead = dead
									}
								}
							}
							for _, st := range cc.Body {
								visit(st, armDead)
							}
						}
						return false
					case *ast.CallExpr:
						name := ""
						switch f := s.Fun.(type) {
						case *ast.Ident:
							name = f.Name
						case *ast.SelectorExpr:
							name = f.Sel.Name
						}
						if name != "copy" && name != "Append" {
							return true
						}
						for _, a := range s.Args {
							if _, isSlice := a.(*ast.SliceExpr); !isSlice {
								continue
							}
							if t := tagOfExpr(wp.TypesInfo, a); t != "" {
								if _, isValueTag := tlvWidth[t]; !isValueTag {
									continue // range-index number-kind bytes share the prefix but are not TLV value tags
								}
								if dead {
									if _, ok := unreachable[t]; !ok {
										unreachable[t] = c.Pos(s.Pos())
									}
								} else if _, ok := emitted[t]; !ok {
									emitted[t] = c.Pos(s.Pos())
								}
							}
						}
					}
					return true
				})
			}
			visit(fd.Body, false)
		}
	}
	var em []string
	for t := range emitted {
		em = append(em, t)
	}
	sort.Strings(em)
	r.Floor("EMIT", "tags emitted by the production ingest path", len(em), 5)
	for t, at := range unreachable {
		if _, ok := emitted[t]; !ok {
			r.Assume("EMIT", "unreachable-emitter:"+strings.TrimPrefix(t, "VALTYPE_"), at, "an emitting arm exists but no caller selects it (constant number-kind arguments): the tag is not produced by ingest")
		}
	}
	// decoders and their domains
	handled := map[string]map[string]bool{}
	for _, a := range arms {
		if a.inDict {
			continue
		}
		if handled[a.fn] == nil {
			handled[a.fn] = map[string]bool{}
		}
		for _, t := range a.tags {
			handled[a.fn][t] = true
		}
	}
	dictTags := map[string]bool{"VALTYPE_ENC_SMALL_STRING": true, "VALTYPE_ENC_BOOL": true, "VALTYPE_ENC_INT64": true, "VALTYPE_ENC_UINT64": true, "VALTYPE_ENC_FLOAT64": true, "VALTYPE_ENC_BACKFILL": true}
	type dec struct {
		fn     string
		domain string
	}
	decoders := []dec{
		{"segreader.SegmentFileReader.getCurrentRecordLength", "all"},
		{"utils.GetCvalFromRec", "all"},
		{"utils.getColByteSlice", "all"}, // may be absent: resolved below
		{"segreader.SegmentFileReader.ReadDictEnc", "dict"},
		{"segreader.SegmentFileReader.deToResults", "dict"},
		{"segreader.SegmentFileReader.DeToResultOldPipeline", "dict"},
		{"writer.SegStore.doLogEventFilling", "all"},
		{"writer.convertColumnToNumbers", "all"},
		{"writer.convertColumnToStrings", "all"},
	}
	// resolve names that live in other packages on this tree
	resolve := func(suffix string) string {
		for fn := range handled {
			if strings.HasSuffix(fn, "."+suffix) || fn == suffix {
				return fn
			}
		}
		return ""
	}
	// a decoder whose tag switch was moved into a helper it calls directly (same package): the helper's arms
	// are the decoder's arms
	viaHelper := func(short string) string {
		for _, f := range c.RepoFunctions() {
			if f.Parent() != nil || !(strings.HasSuffix(shortFn(f), "."+short) || shortFn(f) == short) {
				continue
			}
			for _, ci := range core.CallsIn(f) {
				h := ci.Common().StaticCallee()
				if h == nil || h.Blocks == nil || core.FnPkgPath(h) != core.FnPkgPath(f) {
					continue
				}
				if _, ok := handled[shortFn(h)]; ok {
					return shortFn(h)
				}
			}
		}
		return ""
	}
	nDec := 0
	for _, d := range decoders {
		short := d.fn[strings.Index(d.fn, ".")+1:]
		fn := resolve(short)
		if fn == "" {
			fn = viaHelper(short)
		}
		if fn == "" {
			if short == "getColByteSlice" {
				continue
			}
			r.Undecided("HANDLE", "decoder:"+d.fn, "-", "decoder not found by name: re-confirm the decoder table")
			continue
		}
		nDec++
		for _, t := range em {
			if d.domain == "dict" && !dictTags[t] {
				continue
			}
			construct := fmt.Sprintf("%s:handles-%s", fn, strings.TrimPrefix(t, "VALTYPE_"))
			r.Check(handled[fn][t], "HANDLE", construct, emitted[t], "the decoder has an arm for this emitted tag", fmt.Sprintf("ingest emits %s (at %s) but %s has no arm for it: the value is unreadable (bad encoding / dropped) on this path", t, emitted[t], fn))
		}
	}
	r.Floor("HANDLE", "decoders examined", nDec, 6)
	// the tags handed to the dictionary encoder are dictionary tags: every checkAddDictEnc call in doLogEventFilling sits in an arm of dictTags
	nDictCalls := 0
	for _, a := range arms {
		if a.fn != "writer.SegStore.doLogEventFilling" {
			continue
		}
		for _, st := range a.body {
			ast.Inspect(st, func(n ast.Node) bool {
				call, ok := n.(*ast.CallExpr)
				if !ok {
					return true
				}
				if sel, ok := call.Fun.(*ast.SelectorExpr); ok && sel.Sel.Name == "checkAddDictEnc" {
					nDictCalls++
					for _, t := range a.tags {
						r.Check(dictTags[t], "HANDLE", "writer.SegStore.doLogEventFilling:dictionary-candidate-"+strings.TrimPrefix(t, "VALTYPE_"), c.Pos(call.Pos()), "a tag the dictionary block reader handles", fmt.Sprintf("%s values are offered to the dictionary encoder but the dictionary block reader has no arm for them", t))
					}
				}
				return true
			})
		}
	}
	r.Floor("HANDLE", "dictionary candidate sites in doLogEventFilling", nDictCalls, 3)
	checkDictionaryOffer(c, r, arms)
}

// ---------------------------------------------------------------------------------------------- account

// linear form: constant + sum of symbolic terms
type lin struct {
	k    int64
	syms map[string]int64
	bad  bool
}

func (a lin) add(b lin, sign int64) lin {
	out := lin{k: a.k + sign*b.k, syms: map[string]int64{}, bad: a.bad || b.bad}
	for s, n := range a.syms {
		out.syms[s] += n
	}
	for s, n := range b.syms {
		out.syms[s] += sign * n
	}
	for s, n := range out.syms {
		if n == 0 {
			delete(out.syms, s)
		}
	}
	return out
}

func (a lin) String() string {
	if a.bad {
		return "?"
	}
	var parts []string
	for s, n := range a.syms {
		if n == 1 {
			parts = append(parts, s)
		} else {
			parts = append(parts, fmt.Sprintf("%d*%s", n, s))
		}
	}
	sort.Strings(parts)
	if a.k != 0 || len(parts) == 0 {
		parts = append(parts, strconv.FormatInt(a.k, 10))
	}
	return strings.Join(parts, "+")
}

func (a lin) zero() bool { return !a.bad && a.k == 0 && len(a.syms) == 0 }

type accountCtx struct {
	info *types.Info
	defs map[types.Object]ast.Expr // single-definition locals
}

// value of an integer expression as a linear form
func (ac *accountCtx) linOf(e ast.Expr, depth int) lin {
	if depth > 6 {
		return lin{bad: true}
	}
	if k, ok := constIntOf(ac.info, e); ok {
		return lin{k: k}
	}
	e = stripConv(ac.info, e)
	switch x := e.(type) {
	case *ast.BinaryExpr:
		switch x.Op {
		case token.ADD:
			return ac.linOf(x.X, depth+1).add(ac.linOf(x.Y, depth+1), 1)
		case token.SUB:
			return ac.linOf(x.X, depth+1).add(ac.linOf(x.Y, depth+1), -1)
		}
	case *ast.Ident:
		if o := ac.info.Uses[x]; o != nil {
			if d, ok := ac.defs[o]; ok && d != nil {
				return ac.linOf(d, depth+1)
			}
		}
		return lin{syms: map[string]int64{x.Name: 1}}
	case *ast.CallExpr:
		if id, ok := x.Fun.(*ast.Ident); ok && id.Name == "len" && len(x.Args) == 1 {
			return ac.lenOf(x.Args[0], depth+1)
		}
	case *ast.SelectorExpr:
		return lin{syms: map[string]int64{types.ExprString(x): 1}}
	}
	return lin{syms: map[string]int64{types.ExprString(e): 1}}
}

// number of bytes of a []byte expression
func (ac *accountCtx) lenOf(e ast.Expr, depth int) lin {
	if depth > 6 {
		return lin{bad: true}
	}
	switch x := e.(type) {
	case *ast.ParenExpr:
		return ac.lenOf(x.X, depth+1)
	case *ast.SliceExpr:
		if tagOfExpr(ac.info, x.X) != "" && x.Low == nil && x.High == nil {
			return lin{k: 1}
		}
		if x.Low == nil && x.High == nil {
			if at, ok := ac.info.TypeOf(x.X).Underlying().(*types.Array); ok {
				return lin{k: at.Len()}
			}
			return ac.lenOf(x.X, depth+1)
		}
		if x.High != nil {
			hi := ac.linOf(x.High, depth+1)
			if x.Low == nil {
				return hi
			}
			return hi.add(ac.linOf(x.Low, depth+1), -1)
		}
	case *ast.CompositeLit:
		return lin{k: int64(len(x.Elts))}
	case *ast.CallExpr:
		name := ""
		switch f := x.Fun.(type) {
		case *ast.SelectorExpr:
			name = f.Sel.Name
		case *ast.Ident:
			name = f.Name
		}
		switch name {
		case "BoolToBytesLittleEndian":
			return lin{k: 1}
		case "Uint16ToBytesLittleEndian":
			return lin{k: 2}
		case "Uint32ToBytesLittleEndian":
			return lin{k: 4}
		case "Uint64ToBytesLittleEndian", "Int64ToBytesLittleEndian", "Float64ToBytesLittleEndian":
			return lin{k: 8}
		case "Slice":
			if len(x.Args) == 2 {
				return ac.linOf(x.Args[1], depth+1).add(ac.linOf(x.Args[0], depth+1), -1)
			}
		}
		if tv, ok := ac.info.Types[x.Fun]; ok && tv.IsType() && len(x.Args) == 1 {
			return ac.lenOf(x.Args[0], depth+1) // []byte(s)
		}
	case *ast.Ident:
		if o := ac.info.Uses[x]; o != nil {
			if d, ok := ac.defs[o]; ok && d != nil {
				return ac.lenOf(d, depth+1)
			}
		}
		return lin{syms: map[string]int64{"len(" + x.Name + ")": 1}}
	}
	return lin{syms: map[string]int64{"len(" + types.ExprString(e) + ")": 1}}
}

// normalise `n` defined as uint16(len(x)) to len(x): handled by defs + linOf(len(...)) above.

func appendWidth(name string) (int64, bool) {
	switch name {
	case "AppendUint16LittleEndian", "AppendInt16LittleEndian":
		return 2, true
	case "AppendUint32LittleEndian", "AppendInt32LittleEndian":
		return 4, true
	case "AppendUint64LittleEndian", "AppendInt64LittleEndian", "AppendFloat64LittleEndian":
		return 8, true
	}
	return 0, false
}

func c01Account(c *core.Ctx, r *core.Report) {
	wp := c.Pkg(pkgWriter)
	info := wp.TypesInfo
	nSites, nGroups := 0, 0
	for _, f := range wp.Syntax {
		for _, d := range f.Decls {
			fd, ok := d.(*ast.FuncDecl)
			if !ok || fd.Body == nil {
				continue
			}
			fname := enclosingFuncName("writer", fd)
			if strings.HasSuffix(fname, "ForTestOnly") {
				continue
			}
			// single-definition locals
			defs := map[types.Object]ast.Expr{}
			multi := map[types.Object]bool{}
			ast.Inspect(fd.Body, func(n ast.Node) bool {
				as, ok := n.(*ast.AssignStmt)
				if !ok {
					return true
				}
				for i, l := range as.Lhs {
					id, ok := l.(*ast.Ident)
					if !ok {
						continue
					}
					o := info.Defs[id]
					if o == nil {
						o = info.Uses[id]
						if o != nil {
							multi[o] = true
						}
						continue
					}
					if as.Tok == token.DEFINE && len(as.Lhs) == len(as.Rhs) {
						if _, dup := defs[o]; dup {
							multi[o] = true
						}
						defs[o] = as.Rhs[i]
					} else {
						multi[o] = true
					}
				}
				return true
			})
			for o := range multi {
				delete(defs, o)
			}
			ac := &accountCtx{info: info, defs: defs}
			grp := 0
			var lists [][]ast.Stmt
			ast.Inspect(fd.Body, func(n ast.Node) bool {
				switch x := n.(type) {
				case *ast.BlockStmt:
					lists = append(lists, x.List)
				case *ast.CaseClause:
					lists = append(lists, x.Body)
				}
				return true
			})
			for _, list := range lists {
				for i := 0; i < len(list); i++ {
					recv, l, ok := cbufAppend(ac, list[i])
					if !ok {
						continue
					}
					start := list[i]
					total := l
					nSites++
					j := i + 1
					for ; j < len(list); j++ {
						r2, l2, ok2 := cbufAppend(ac, list[j])
						if ok2 && r2 == recv {
							nSites++
							total = total.add(l2, 1)
							continue
						}
						// statements that do not touch this column buffer or its cursor (logging, other bookkeeping)
						// may sit between the append and the cursor update
						if !mentions(list[j], recv+".cbuf") {
							continue
						}
						break
					}
					grp++
					nGroups++
					construct := fmt.Sprintf("%s:append-group#%d(%s)", fname, grp, recv)
					// the statement after the appends must advance <recv>.cbufidx by `total`
					var adv lin
					advanced := false
					if j < len(list) {
						if as, ok := list[j].(*ast.AssignStmt); ok && len(as.Lhs) == 1 && len(as.Rhs) == 1 && types.ExprString(as.Lhs[0]) == recv+".cbufidx" {
							switch as.Tok {
							case token.ADD_ASSIGN:
								adv, advanced = ac.linOf(as.Rhs[0], 0), true
							case token.ASSIGN:
								// cbufidx = n right after the buffer was reset and refilled with n bytes
								adv, advanced = ac.linOf(as.Rhs[0], 0), true
							}
						}
					}
					switch {
					case !advanced:
						r.Violation("ACCOUNT", construct, c.Pos(start.Pos()), fmt.Sprintf("%s bytes are appended to %s.cbuf but the next statement does not advance %s.cbufidx: the block is flushed / sliced with a cursor that does not cover the bytes written", total, recv, recv))
					case total.bad || adv.bad:
						r.Undecided("ACCOUNT", construct, c.Pos(start.Pos()), "length of the appended bytes is not a linear form the rule understands")
					case !total.add(adv, -1).zero():
						r.Violation("ACCOUNT", construct, c.Pos(start.Pos()), fmt.Sprintf("%s bytes are appended to %s.cbuf but %s.cbufidx advances by %s: later values of the column are cut or read at the wrong offset", total, recv, recv, adv))
					default:
						r.OK("ACCOUNT", construct, c.Pos(start.Pos()), fmt.Sprintf("appended %s = cursor advance %s", total, adv))
					}
					i = j
				}
			}
		}
	}
	r.Floor("ACCOUNT", "appends to a column buffer", nSites, 30)
	r.Floor("ACCOUNT", "append groups", nGroups, 28)
}

// cbufAppend: st is `<recv>.cbuf.Append*(x)`; returns the receiver text and the number of bytes.
func cbufAppend(ac *accountCtx, st ast.Stmt) (string, lin, bool) {
	es, ok := st.(*ast.ExprStmt)
	if !ok {
		return "", lin{}, false
	}
	call, ok := es.X.(*ast.CallExpr)
	if !ok {
		return "", lin{}, false
	}
	sel, ok := call.Fun.(*ast.SelectorExpr)
	if !ok || !strings.HasPrefix(sel.Sel.Name, "Append") {
		return "", lin{}, false
	}
	bufSel, ok := sel.X.(*ast.SelectorExpr)
	if !ok || bufSel.Sel.Name != "cbuf" || len(call.Args) != 1 {
		return "", lin{}, false
	}
	recv := types.ExprString(bufSel.X)
	if w, ok := appendWidth(sel.Sel.Name); ok {
		return recv, lin{k: w}, true
	}
	if sel.Sel.Name != "Append" {
		return recv, lin{bad: true}, true
	}
	return recv, ac.lenOf(call.Args[0], 0), true
}

// ---------------------------------------------------------------------------------------------- array index

func c01ArrayIndex(c *core.Ctx, r *core.Report) {
	n := 0
	for _, fn := range c.RepoFunctions() {
		if core.FnPkgPath(fn) != core.ModPath+"/"+pkgWriter || fn.Parent() == nil {
			continue
		}
		// a per-element callback: passed to jsonparser.ArrayEach
		isCallback := false
		for _, ci := range core.CallsIn(fn.Parent()) {
			f := core.CalleeFunc(ci)
			if f == nil || f.Name() != "ArrayEach" {
				continue
			}
			for _, a := range ci.Common().Args {
				if mc, ok := a.(*ssa.MakeClosure); ok && mc.Fn == ssa.Value(fn) {
					isCallback = true
				}
			}
		}
		if !isCallback {
			continue
		}
		// captured *int counters that feed a key (loaded and passed to fmt.Sprintf)
		for _, fv := range fn.FreeVars {
			pt, ok := fv.Type().(*types.Pointer)
			if !ok {
				continue
			}
			b, ok := pt.Elem().Underlying().(*types.Basic)
			if !ok || b.Kind() != types.Int {
				continue
			}
			feedsKey := false
			var incs []ssa.Instruction
			if refs := fv.Referrers(); refs != nil {
				for _, rf := range *refs {
					switch x := rf.(type) {
					case *ssa.UnOp:
						if lrefs := x.Referrers(); lrefs != nil {
							for _, u := range *lrefs {
								if _, ok := u.(*ssa.MakeInterface); ok {
									feedsKey = true
								}
							}
						}
					case *ssa.Store:
						if x.Addr == ssa.Value(fv) {
							incs = append(incs, x)
						}
					}
				}
			}
			if !feedsKey {
				continue
			}
			n++
			construct := fmt.Sprintf("%s:element-index(%s)-advances-on-every-path", shortFn(fn), fv.Name())
			var leak *ssa.Return
			core.WalkForward(fn, nil, func(x ssa.Instruction) bool {
				if st, ok := x.(*ssa.Store); ok && st.Addr == ssa.Value(fv) {
					return false
				}
				if ret, ok := x.(*ssa.Return); ok {
					leak = ret
				}
				return true
			})
			if leak != nil {
				r.Violation("KEYUNIQ", construct, c.Pos(fn.Pos()), "the per-element callback can return without advancing the array index: the next element is flattened under the same column name, so one record writes two values into one column (a value is lost or every later record of the column shifts)", "return at "+c.Pos(leak.Pos()))
			} else {
				r.OK("KEYUNIQ", construct, c.Pos(fn.Pos()), fmt.Sprintf("%d increment site(s); no path from entry to a return avoids them", len(incs)))
			}
		}
	}
	r.Floor("KEYUNIQ", "array flattening callbacks with an element counter", n, 1)
}

// ---------------------------------------------------------------------------------------------- backfill

func c01Backfill(c *core.Ctx, r *core.Report) {
	entry := c.Fn(pkgWriter, "SegStore.doLogEventFilling")
	colsInBlock := c.Field(pkgWriter, "WipBlock.columnsInBlock")
	name := "writer.SegStore.doLogEventFilling"
	// the loop ranging over wipBlock.columnsInBlock: in the function itself or in a helper it always calls
	findLoop := func(fn *ssa.Function) *core.Loop {
		for _, l := range core.Loops(fn) {
			for _, in := range l.Header.Instrs {
				nx, ok := in.(*ssa.Next)
				if !ok {
					continue
				}
				rg, ok := nx.Iter.(*ssa.Range)
				if !ok {
					continue
				}
				if ld, ok := rg.X.(*ssa.UnOp); ok {
					if fa, ok := ld.X.(*ssa.FieldAddr); ok && core.FieldOfAddr(fa) == colsInBlock {
						return l
					}
				}
			}
		}
		return nil
	}
	fn := entry
	loop := findLoop(entry)
	if loop == nil {
		for _, ci := range core.CallsIn(entry) {
			callee := ci.Common().StaticCallee()
			if callee == nil || core.FnPkgPath(callee) != core.ModPath+"/"+pkgWriter {
				continue
			}
			if l := findLoop(callee); l != nil {
				// the helper must be called before every success return
				ok := true
				for _, ret := range core.Returns(entry) {
					if core.ReturnSuccess(ret) == core.No {
						continue
					}
					reached := false
					for _, cj := range core.CallsIn(entry) {
						if cj.Common().StaticCallee() == callee && core.InstrDominates(cj, ret) {
							reached = true
						}
					}
					if !reached {
						ok = false
					}
				}
				if ok {
					fn, loop = callee, l
					name = "writer." + strings.TrimPrefix(shortFn(callee), "writer.")
				}
			}
		}
	}
	if loop == nil {
		r.Violation("BACKFILL", name+":visits-every-column-of-the-block", c.Pos(fn.Pos()), "no loop over wipBlock.columnsInBlock: columns the record does not have are not backfilled, so record i of those columns is no longer record i")
		return
	}
	r.OK("BACKFILL", name+":visits-every-column-of-the-block", c.Pos(loop.Header.Instrs[0].Pos()), "range over wipBlock.columnsInBlock")
	// inside an iteration: on the not-found edge every path back to the header appends the backfill tag (or returns an error)
	var found ssa.Value
	var foundIf *ssa.BasicBlock
	for b := range loop.Body {
		ifi, ok := core.LastIf(b)
		if !ok {
			continue
		}
		if ex, ok := ifi.Cond.(*ssa.Extract); ok && ex.Index == 2 {
			if _, ok := ex.Tuple.(*ssa.Next); ok {
				found, foundIf = ex, b
			}
		}
	}
	if found == nil {
		r.Undecided("BACKFILL", name+":absent-column-gets-one-backfill-byte", c.Pos(fn.Pos()), "the loop does not branch on the present flag of the column")
		return
	}
	absent := foundIf.Succs[1]
	isBackfillAppend := func(in ssa.Instruction) bool {
		call, ok := in.(*ssa.Call)
		if !ok {
			return false
		}
		f := core.CalleeFunc(call)
		if f == nil || f.Name() != "Append" || len(call.Call.Args) != 2 {
			return false
		}
		for _, o := range c.Origins(call.Call.Args[1], 0) {
			if o.Kind == "global" && o.Obj != nil && c.BaseName(o.Obj) == "VALTYPE_ENC_BACKFILL" {
				return true
			}
		}
		return false
	}
	// count appends on each path: walk from `absent` to the header; barrier = append
	var leak ssa.Instruction
	seen := map[*ssa.BasicBlock]bool{}
	var dfs func(b *ssa.BasicBlock)
	dfs = func(b *ssa.BasicBlock) {
		if seen[b] {
			return
		}
		seen[b] = true
		for _, in := range b.Instrs {
			if isBackfillAppend(in) {
				return
			}
			if ret, ok := in.(*ssa.Return); ok {
				if core.ReturnSuccess(ret) != core.No {
					leak = ret
				}
				return
			}
		}
		for _, s := range b.Succs {
			if s == loop.Header {
				if !skipRecordsError(fn, loop, b) {
					leak = b.Instrs[len(b.Instrs)-1]
				}
				continue
			}
			if loop.Body[s] {
				dfs(s)
			}
		}
	}
	dfs(absent)
	if leak != nil {
		r.Violation("BACKFILL", name+":absent-column-gets-one-backfill-byte", c.Pos(leak.Pos()), "an iteration for a column the record does not have can end without appending the backfill byte: the column has one value fewer than the block has records and every later value belongs to the wrong record")
	} else {
		r.OK("BACKFILL", name+":absent-column-gets-one-backfill-byte", c.Pos(absent.Instrs[0].Pos()), "every path of the not-present branch appends VALTYPE_ENC_BACKFILL or returns an error")
	}
	// the present branch only clears the flag
	present := foundIf.Succs[0]
	okPresent := true
	for _, in := range present.Instrs {
		if isBackfillAppend(in) {
			okPresent = false
		}
	}
	r.Check(okPresent, "BACKFILL", name+":present-column-gets-no-backfill-byte", c.Pos(present.Instrs[0].Pos()), "no append on the present branch", "a column the record has also receives a backfill byte: two values for one record")
}

// ---------------------------------------------------------------------------------------------- block reset

// wholeLoops: loops of fn that iterate over every element of the collection held in field f
// (range over it, or an index running to len(it)).
func wholeLoops(fn *ssa.Function, f *types.Var) []*core.Loop {
	return wholeLoopsOver(fn, func(v ssa.Value) bool {
		ld, ok := v.(*ssa.UnOp)
		if !ok {
			return false
		}
		fa, ok := ld.X.(*ssa.FieldAddr)
		return ok && core.FieldOfAddr(fa) == f
	})
}

// wholeLoopsOver: loops of fn that iterate over every element of a collection value accepted by isColl.
func wholeLoopsOver(fn *ssa.Function, isLoadOfField func(v ssa.Value) bool) []*core.Loop {
	var out []*core.Loop
	for _, l := range core.Loops(fn) {
		whole := false
		for _, in := range l.Header.Instrs {
			if nx, ok := in.(*ssa.Next); ok {
				if rg, ok := nx.Iter.(*ssa.Range); ok && isLoadOfField(rg.X) {
					whole = true
				}
			}
		}
		if ifi, ok := core.LastIf(l.Header); ok {
			if bo, ok := ifi.Cond.(*ssa.BinOp); ok && bo.Op == token.LSS {
				if call, ok := bo.Y.(*ssa.Call); ok {
					if bi, ok := call.Call.Value.(*ssa.Builtin); ok && bi.Name() == "len" && isLoadOfField(call.Call.Args[0]) {
						// index starts at 0 and steps by 1
						if phi, ok := bo.X.(*ssa.Phi); ok {
							startsAt0, stepsBy1 := false, false
							for _, e := range phi.Edges {
								if k, ok := core.ConstIntValue(e); ok && k == 0 {
									startsAt0 = true
								}
								if inc, ok := e.(*ssa.BinOp); ok && inc.Op == token.ADD && inc.X == ssa.Value(phi) {
									if k, ok := core.ConstIntValue(inc.Y); ok && k == 1 {
										stepsBy1 = true
									}
								}
							}
							whole = whole || (startsAt0 && stepsBy1)
						}
						// rotated `for range` form: t = phi[-1, t+1]; t+1 < len
						if inc, ok := bo.X.(*ssa.BinOp); ok && inc.Op == token.ADD {
							if phi, ok := inc.X.(*ssa.Phi); ok {
								for _, e := range phi.Edges {
									if k, ok := core.ConstIntValue(e); ok && k == -1 {
										whole = true
									}
								}
							}
						}
					}
				}
			}
		}
		if whole {
			out = append(out, l)
		}
	}
	return out
}

func c01BlockReset(c *core.Ctx, r *core.Report) {
	initBmh := c.Fn(pkgWriter, "SegStore.initBmh")
	reset := c.Fn(pkgWriter, "SegStore.resetWipBlock")
	bmi := c.Field(pkgWriter, "WipBlock.bmiColOffLen")
	lengthF := c.Field(pkgStructs, "ColOffAndLen.Length")
	colWips := c.Field(pkgWriter, "WipBlock.colWips")

	// (a) every entry of bmiColOffLen is marked absent (Length = 0) by initBmh
	okBmi := false
	onAllPaths := func(fn *ssa.Function, l *core.Loop) bool {
		for _, ret := range core.Returns(fn) {
			if !l.Header.Dominates(ret.Block()) {
				return false
			}
		}
		return true
	}
	for _, l := range wholeLoops(initBmh, bmi) {
		if !onAllPaths(initBmh, l) {
			continue // a path returns without running the reset
		}
		for b := range l.Body {
			for _, in := range b.Instrs {
				st, ok := in.(*ssa.Store)
				if !ok {
					continue
				}
				fa, ok := st.Addr.(*ssa.FieldAddr)
				if !ok || core.FieldOfAddr(fa) != lengthF {
					continue
				}
				if k, ok := core.ConstIntValue(st.Val); ok && k == 0 {
					okBmi = true
				}
			}
		}
	}
	// accepted alternatives: clear(bmiColOffLen) or a fresh slice stored unconditionally
	for _, b := range initBmh.Blocks {
		for _, in := range b.Instrs {
			if call, ok := in.(*ssa.Call); ok {
				if bi, ok := call.Call.Value.(*ssa.Builtin); ok && bi.Name() == "clear" {
					if ld, ok := call.Call.Args[0].(*ssa.UnOp); ok {
						if fa, ok := ld.X.(*ssa.FieldAddr); ok && core.FieldOfAddr(fa) == bmi && b.Dominates(lastBlock(initBmh)) {
							okBmi = true
						}
					}
				}
			}
		}
	}
	r.Check(okBmi, "BLOCKRESET", "writer.SegStore.initBmh:every-entry-of-bmiColOffLen-marked-absent", c.Pos(initBmh.Pos()),
		"Length = 0 is stored into every entry of the per-segment column offset/length table before a block is flushed",
		"the reset of the column offset/length table does not cover every entry on every path: a column that is absent from this block keeps the offset/length of the last block that had it, so the block's metadata points at another block's data and its records come back with values of other events")

	// (b) initBmh runs before the table is filled for the block
	appendWip := c.Fn(pkgWriter, "SegStore.AppendWipToSegfile")
	var initCall ssa.Instruction
	for _, ci := range core.CallsIn(appendWip) {
		if core.IsCallTo(ci, initBmh.Object()) {
			initCall = ci
		}
	}
	okOrder := initCall != nil
	nFill := 0
	fillSites := func(fn *ssa.Function) []ssa.Instruction {
		var out []ssa.Instruction
		for _, b := range fn.Blocks {
			for _, in := range b.Instrs {
				st, ok := in.(*ssa.Store)
				if !ok {
					continue
				}
				ia, ok := st.Addr.(*ssa.IndexAddr)
				if !ok {
					continue
				}
				if ld, ok := ia.X.(*ssa.UnOp); ok {
					if fa, ok := ld.X.(*ssa.FieldAddr); ok && core.FieldOfAddr(fa) == bmi {
						out = append(out, in)
					}
				}
			}
		}
		return out
	}
	if initCall != nil {
		for _, in := range fillSites(appendWip) {
			nFill++
			if !core.InstrDominates(initCall, in) {
				okOrder = false
			}
		}
		for _, an := range core.Closures(appendWip) {
			for range fillSites(an) {
				nFill++
			}
		}
	}
	r.Check(okOrder && nFill >= 1, "BLOCKRESET", "writer.SegStore.AppendWipToSegfile:table-reset-before-filled", c.Pos(appendWip.Pos()), "initBmh is called before the entries of the block are stored", "the column offset/length table is not reset before the block's entries are stored")

	// (c) resetWipBlock resets every column buffer
	cbufidxF, cstartF := c.Field(pkgWriter, "ColWip.cbufidx"), c.Field(pkgWriter, "ColWip.cstartidx")
	deCountF, deMapF := c.Field(pkgWriter, "DeData.deCount"), c.Field(pkgWriter, "DeData.deMap")
	got := map[string]bool{}
	for _, l := range wholeLoops(reset, colWips) {
		if !onAllPaths(reset, l) {
			continue
		}
		for b := range l.Body {
			for _, in := range b.Instrs {
				switch x := in.(type) {
				case *ssa.Store:
					fa, ok := x.Addr.(*ssa.FieldAddr)
					if !ok {
						continue
					}
					k, isK := core.ConstIntValue(x.Val)
					if !isK || k != 0 {
						continue
					}
					switch core.FieldOfAddr(fa) {
					case cbufidxF:
						got["cbufidx"] = true
					case cstartF:
						got["cstartidx"] = true
					case deCountF:
						got["deCount"] = true
					}
				case *ssa.Call:
					if bi, ok := x.Call.Value.(*ssa.Builtin); ok && bi.Name() == "clear" {
						if ld, ok := x.Call.Args[0].(*ssa.UnOp); ok {
							if fa, ok := ld.X.(*ssa.FieldAddr); ok && core.FieldOfAddr(fa) == deMapF {
								got["deMap"] = true
							}
						}
					}
					if f := core.CalleeFunc(x); f != nil && f.Name() == "Reset" {
						got["cbuf"] = true
					}
				}
			}
		}
	}
	for _, what := range []string{"cbufidx", "cstartidx", "cbuf", "deMap", "deCount"} {
		r.Check(got[what], "BLOCKRESET", "writer.SegStore.resetWipBlock:every-column's-"+what+"-reset", c.Pos(reset.Pos()), "reset for every column of the block", fmt.Sprintf("resetWipBlock does not reset %s of every column buffer: bytes / dictionary entries of the previous block are written again with the next block", what))
	}
	// (d) the present-columns set, range indexes and counters
	colsInBlock, rangeIdx := c.Field(pkgWriter, "WipBlock.columnsInBlock"), c.Field(pkgWriter, "WipBlock.columnRangeIndexes")
	recCount := c.Field(pkgStructs, "BlockSummary.RecCount")
	maxIdx := c.Field(pkgWriter, "WipBlock.maxIdx")
	cleared := map[*types.Var]bool{}
	zeroed := map[*types.Var]bool{}
	for _, b := range reset.Blocks {
		if !b.Dominates(firstReturnBlock(reset)) {
			continue
		}
		for _, in := range b.Instrs {
			switch x := in.(type) {
			case *ssa.Call:
				if bi, ok := x.Call.Value.(*ssa.Builtin); ok && bi.Name() == "clear" {
					if ld, ok := x.Call.Args[0].(*ssa.UnOp); ok {
						if fa, ok := ld.X.(*ssa.FieldAddr); ok {
							cleared[core.FieldOfAddr(fa)] = true
						}
					}
				}
			case *ssa.Store:
				if fa, ok := x.Addr.(*ssa.FieldAddr); ok {
					if k, ok := core.ConstIntValue(x.Val); ok && k == 0 {
						zeroed[core.FieldOfAddr(fa)] = true
					}
				}
			}
		}
	}
	r.Check(cleared[colsInBlock], "BLOCKRESET", "writer.SegStore.resetWipBlock:columnsInBlock-cleared", c.Pos(reset.Pos()), "cleared on every path", "the present-columns set survives into the next block: columns absent from the new block are backfilled and written as if present")
	r.Check(cleared[rangeIdx], "BLOCKRESET", "writer.SegStore.resetWipBlock:columnRangeIndexes-cleared", c.Pos(reset.Pos()), "cleared on every path", "the range indexes of the previous block survive into the next")
	r.Check(zeroed[recCount], "BLOCKRESET", "writer.SegStore.resetWipBlock:RecCount-zeroed", c.Pos(reset.Pos()), "zeroed on every path", "the record counter is not reset: record numbers of the next block do not start at 0")
	r.Check(zeroed[maxIdx], "BLOCKRESET", "writer.SegStore.resetWipBlock:maxIdx-zeroed", c.Pos(reset.Pos()), "zeroed on every path", "the block size estimate is not reset")
}

func lastBlock(fn *ssa.Function) *ssa.BasicBlock {
	for _, ret := range core.Returns(fn) {
		return ret.Block()
	}
	return fn.Blocks[len(fn.Blocks)-1]
}

// firstReturnBlock: the block of the earliest return in dominance order (all resets that must happen
// on every call dominate it).
func firstReturnBlock(fn *ssa.Function) *ssa.BasicBlock {
	rets := core.Returns(fn)
	if len(rets) == 0 {
		return fn.Blocks[0]
	}
	best := rets[0].Block()
	for _, rt := range rets[1:] {
		if rt.Block().Dominates(best) || rt.Block().Index < best.Index && !best.Dominates(rt.Block()) {
			best = rt.Block()
		}
	}
	return best
}

// ---------------------------------------------------------------------------------------------- timestamps

func c01Timestamps(c *core.Ctx, r *core.Report) {
	tsT := c.NamedType(pkgStructs, "TS_TYPE")
	widths := map[string]int64{"TS_Type8": 1, "TS_Type16": 2, "TS_Type32": 4, "TS_Type64": 8}
	maxName := map[string]string{"TS_Type8": "UINT8_MAX", "TS_Type16": "UINT16_MAX", "TS_Type32": "UINT32_MAX"}
	maxVal := map[string]uint64{"UINT8_MAX": 1<<8 - 1, "UINT16_MAX": 1<<16 - 1, "UINT32_MAX": 1<<32 - 1}
	_ = maxName
	isTsConst := func(info *types.Info, e ast.Expr) string {
		var id *ast.Ident
		switch x := e.(type) {
		case *ast.Ident:
			id = x
		case *ast.SelectorExpr:
			id = x.Sel
		default:
			return ""
		}
		if k, ok := info.Uses[id].(*types.Const); ok && strings.HasPrefix(k.Name(), "TS_Type") {
			_ = tsT
			return k.Name()
		}
		return ""
	}
	check := func(pkgRel, fname string, writer bool) {
		p := c.Pkg(pkgRel)
		info := p.TypesInfo
		nArms := 0
		for _, f := range p.Syntax {
			for _, d := range f.Decls {
				fd, ok := d.(*ast.FuncDecl)
				if !ok || fd.Body == nil || strings.HasSuffix(c.Fset.Position(fd.Pos()).Filename, "_test.go") {
					continue
				}
				// the anchored function, or any other function of the package that dispatches on the timestamp
				// type (the arms moved into a helper, a width table function)
				here := fd.Name.Name
				ac := &accountCtx{info: info, defs: map[types.Object]ast.Expr{}}
				ast.Inspect(fd.Body, func(n ast.Node) bool {
					sw, ok := n.(*ast.SwitchStmt)
					if !ok {
						return true
					}
					for _, cl := range sw.Body.List {
						cc := cl.(*ast.CaseClause)
						for _, e := range cc.List {
							ts := isTsConst(info, e)
							if ts == "" {
								continue
							}
							nArms++
							w := widths[ts]
							construct := fmt.Sprintf("%s.%s:%s", p.Types.Name(), here, ts)
							// every append / cursor step / decoder in the arm has width w; an arm that only answers
							// with a constant (a width table: `case TS_Type16: return 2`) must answer w
							ok := true
							detail := ""
							steps := 0
							ast.Inspect(cc, func(m ast.Node) bool {
								switch x := m.(type) {
								case *ast.ExprStmt:
									if _, l, isApp := cbufAppend(ac, x); isApp {
										steps++
										if l.bad || len(l.syms) != 0 || l.k != w {
											ok, detail = false, fmt.Sprintf("appends %s bytes per record", l)
										}
									}
								case *ast.AssignStmt:
									if x.Tok == token.ADD_ASSIGN && len(x.Lhs) == 1 {
										lhs := types.ExprString(x.Lhs[0])
										if strings.HasSuffix(lhs, "cbufidx") || lhs == "oPtr" {
											steps++
											if k, isK := constIntOf(info, x.Rhs[0]); !isK || k != w {
												ok, detail = false, fmt.Sprintf("cursor advances by %s per record", types.ExprString(x.Rhs[0]))
											}
										}
									}
								case *ast.SliceExpr:
									// fixed-stride addressing: buf[K*i:] — the stride K is the width
									if mul, isMul := ast.Unparen(x.Low).(*ast.BinaryExpr); x.Low != nil && isMul && mul.Op == token.MUL {
										for _, side := range []ast.Expr{mul.X, mul.Y} {
											if k, isK := constIntOf(info, side); isK {
												steps++
												if k != w {
													ok, detail = false, fmt.Sprintf("addresses the records with a stride of %d", k)
												}
											}
										}
									}
								case *ast.IndexExpr:
									// buf[i] on a byte slice: a stride of one byte
									if tv, has := info.Types[x.X]; has {
										if sl, isSl := tv.Type.Underlying().(*types.Slice); isSl {
											if bt, isB := sl.Elem().Underlying().(*types.Basic); isB && bt.Kind() == types.Uint8 {
												if _, isMul := ast.Unparen(x.Index).(*ast.BinaryExpr); !isMul {
													steps++
													if w != 1 {
														ok, detail = false, "reads one byte per record"
													}
												}
											}
										}
									}
								case *ast.ReturnStmt:
									if len(x.Results) == 1 {
										if k, isK := constIntOf(info, x.Results[0]); isK {
											steps++
											if k != w {
												ok, detail = false, fmt.Sprintf("answers a width of %d", k)
											}
										}
									}
								case *ast.CallExpr:
									if sel, isSel := x.Fun.(*ast.SelectorExpr); isSel && strings.HasPrefix(sel.Sel.Name, "BytesToUint") && strings.HasSuffix(sel.Sel.Name, "LittleEndian") {
										steps++
										want := fmt.Sprintf("BytesToUint%dLittleEndian", w*8)
										if sel.Sel.Name != want {
											ok, detail = false, "decodes with "+sel.Sel.Name
										}
									}
								}
								return true
							})
							if steps == 0 {
								r.Undecided("TSWIDTH", construct, c.Pos(cc.Pos()), "no append / cursor step found in the arm")
								continue
							}
							r.Check(ok, "TSWIDTH", construct, c.Pos(cc.Pos()), fmt.Sprintf("%d byte(s) per record", w), fmt.Sprintf("a %s timestamp block is %d byte(s) per record but this arm %s: every timestamp after the first is wrong", ts, w, detail))
						}
					}
					return true
				})
			}
		}
		r.Floor("TSWIDTH", fmt.Sprintf("timestamp width arms in %s", fname), nArms, 4)
	}
	check(pkgWriter, "encodeTimestamps", true)
	check(pkgSegread, "convertRawRecordsToTimestamps", false)

	// the type byte is chosen by the matching bound of the span: `diff <= UINTk_MAX` -> TS_Typek.  The
	// selection is recognised wherever it lives in the writer package (in encodeTimestamps or in a helper
	// it calls) and in its if-, else-if-, early-return- and tagless-switch forms: a test `x <= K` / `x < K`
	// against a constant whose guarded statement assigns or returns one of the TS_Type constants.
	p := c.Pkg(pkgWriter)
	info := p.TypesInfo
	nSel := 0
	selected := func(body []ast.Stmt) string {
		if len(body) != 1 {
			return ""
		}
		switch st := body[0].(type) {
		case *ast.AssignStmt:
			if len(st.Rhs) == 1 {
				return isTsConst(info, st.Rhs[0])
			}
		case *ast.ReturnStmt:
			if len(st.Results) == 1 {
				return isTsConst(info, st.Results[0])
			}
		}
		return ""
	}
	judge := func(fname string, cond ast.Expr, body []ast.Stmt, pos token.Pos) {
		be, ok := ast.Unparen(cond).(*ast.BinaryExpr)
		if !ok {
			return
		}
		ts := selected(body)
		if ts == "" {
			return
		}
		nSel++
		construct := "writer." + fname + ":selects-" + ts
		bound, isK := info.Types[be.Y]
		okSel := false
		var got uint64
		if isK && bound.Value != nil {
			got, _ = constant.Uint64Val(constant.ToInt(bound.Value))
			limit := maxVal[maxName[ts]]
			switch be.Op {
			case token.LEQ:
				okSel = got <= limit
			case token.LSS:
				okSel = got <= limit+1
			}
		}
		r.Check(okSel, "TSWIDTH", construct, c.Pos(pos), "the span bound fits the width", fmt.Sprintf("%s is selected for spans up to %d, which do not fit its width: the differences are truncated and timestamps come back wrong", ts, got))
	}
	for _, f := range p.Syntax {
		if strings.HasSuffix(c.Pos(f.Pos()), "_test.go") || strings.Contains(c.Pos(f.Pos()), "_test.go:") {
			continue
		}
		for _, d := range f.Decls {
			fd, ok := d.(*ast.FuncDecl)
			if !ok || fd.Body == nil {
				continue
			}
			ast.Inspect(fd.Body, func(n ast.Node) bool {
				switch x := n.(type) {
				case *ast.IfStmt:
					judge(fd.Name.Name, x.Cond, x.Body.List, x.Pos())
				case *ast.SwitchStmt:
					if x.Tag != nil {
						return true
					}
					for _, cl := range x.Body.List {
						if cc, ok := cl.(*ast.CaseClause); ok && len(cc.List) == 1 {
							judge(fd.Name.Name, cc.List[0], cc.Body, cc.Pos())
						}
					}
				}
				return true
			})
		}
	}
	r.Floor("TSWIDTH", "timestamp width selections in the writer package", nSel, 3)
}

// ---------------------------------------------------------------------------------------------- length bound

func c01LenBound(c *core.Ctx, r *core.Report) {
	// every narrowing uint16(len(x)) in the functions that build a ParsedLogEvent (the production encoders of
	// a value's TLV header) is dominated by a comparison that bounds len(x) by a constant < 65536 on the edge taken
	n := 0
	for _, fn := range c.RepoFunctions() {
		if core.FnPkgPath(fn) != core.ModPath+"/"+pkgWriter {
			continue
		}
		top := fn
		for top.Parent() != nil {
			top = top.Parent()
		}
		if !strings.HasPrefix(top.Name(), "parseSingle") && top.Name() != "parsedEncJsonNumber" && top.Name() != "doLogEventFilling" {
			continue
		}
		for _, b := range fn.Blocks {
			for _, in := range b.Instrs {
				cv, ok := in.(*ssa.Convert)
				if !ok {
					continue
				}
				bt, ok := cv.Type().Underlying().(*types.Basic)
				if !ok || bt.Kind() != types.Uint16 {
					continue
				}
				call, ok := cv.X.(*ssa.Call)
				if !ok {
					continue
				}
				bi, ok := call.Call.Value.(*ssa.Builtin)
				if !ok || bi.Name() != "len" {
					continue
				}
				n++
				subject := call.Call.Args[0]
				bounded := false
				for d := b; d != nil && d.Idom() != nil; d = d.Idom() {
					idom := d.Idom()
					ifi, ok := core.LastIf(idom)
					if !ok || len(d.Preds) != 1 {
						continue
					}
					bo, ok := ifi.Cond.(*ssa.BinOp)
					if !ok {
						continue
					}
					lc, ok := bo.X.(*ssa.Call)
					if !ok {
						continue
					}
					lbi, ok := lc.Call.Value.(*ssa.Builtin)
					if !ok || lbi.Name() != "len" || lc.Call.Args[0] != subject {
						continue
					}
					k, isK := core.ConstIntValue(bo.Y)
					if !isK {
						continue
					}
					onTrue := idom.Succs[0] == d
					switch bo.Op {
					case token.GTR: // len > k : small edge is false
						bounded = bounded || (!onTrue && k <= 65535)
					case token.GEQ:
						bounded = bounded || (!onTrue && k <= 65536)
					case token.LEQ:
						bounded = bounded || (onTrue && k <= 65535)
					case token.LSS:
						bounded = bounded || (onTrue && k <= 65536)
					}
				}
				r.Check(bounded, "BOUND", fmt.Sprintf("%s:16-bit-length-of-a-value-is-bounded", shortFn(fn)), c.Pos(cv.Pos()),
					"len(x) <= 65535 is established on the edge taken before the length is narrowed to the 16-bit TLV length field",
					"the length of a value is narrowed to 16 bits without a bound: a value longer than 65535 bytes is accepted and stored as its first len mod 65536 bytes (OTLP, Loki, Splunk HEC and the trace handlers reach this code without a record-size gate)")
			}
		}
	}
	r.Floor("BOUND", "16-bit length narrowings in the event parser", n, 1)
}

// skipRecordsError: the back edge b -> header carries a non-nil value into the loop-carried error that the
// function returns (the iteration was skipped, but the function will report the failure).
func skipRecordsError(fn *ssa.Function, loop *core.Loop, b *ssa.BasicBlock) bool {
	idx := core.ErrResultIndex(fn)
	if idx < 0 {
		return false
	}
	for _, ret := range core.Returns(fn) {
		phi, ok := core.RetResult(ret, idx).(*ssa.Phi)
		if !ok || phi.Block() != loop.Header {
			return false
		}
		for i, p := range loop.Header.Preds {
			if p != b {
				continue
			}
			v := phi.Edges[i]
			switch x := v.(type) {
			case *ssa.Call:
				if f := core.CalleeFunc(x); f != nil && f.Pkg() != nil && (f.Pkg().Path() == "fmt" && f.Name() == "Errorf" || f.Pkg().Path() == "errors" && f.Name() == "New") {
					continue
				}
				return false
			case *ssa.MakeInterface:
				continue
			case *ssa.Phi:
				if x != phi {
					return false
				}
				// carried unchanged: only on the edge where it is known non-nil
				ifi, ok := core.LastIf(b)
				if !ok {
					return false
				}
				bo, ok := ifi.Cond.(*ssa.BinOp)
				if !ok || bo.X != ssa.Value(phi) || !core.IsNilConst(bo.Y) {
					return false
				}
				nonNilSucc := b.Succs[1]
				if bo.Op == token.NEQ {
					nonNilSucc = b.Succs[0]
				} else if bo.Op != token.EQL {
					return false
				}
				if nonNilSucc != loop.Header {
					return false
				}
			default:
				return false
			}
		}
	}
	return true
}

// mentions: the statement's source contains a selector expression that renders as prefix (or extends it).
func mentions(st ast.Stmt, prefix string) bool {
	found := false
	ast.Inspect(st, func(n ast.Node) bool {
		if sel, ok := n.(*ast.SelectorExpr); ok {
			if strings.HasPrefix(types.ExprString(sel), prefix) {
				found = true
			}
		}
		return !found
	})
	return found
}

// checkDictionaryOffer (shared by C01 and C03): every arm of doLogEventFilling that appends a record's value
// also offers it to the dictionary encoder.
func checkDictionaryOffer(c *core.Ctx, r *core.Report, arms []tagArm) {
	if arms == nil {
		arms = collectTagArms(c)
	}
	// every arm of doLogEventFilling that appends a record's value also offers it to the dictionary encoder:
	// the dictionary block lists records per word and the reader assumes every record of the block is listed
	seenArm := map[token.Pos]bool{}
	nArm := 0
	for _, a := range arms {
		if a.fn != "writer.SegStore.doLogEventFilling" || a.inDict || seenArm[a.pos] {
			continue
		}
		seenArm[a.pos] = true
		appends, offers := false, false
		nested := false
		for _, st := range a.body {
			ast.Inspect(st, func(n ast.Node) bool {
				call, ok := n.(*ast.CallExpr)
				if !ok {
					return true
				}
				if sel, ok := call.Fun.(*ast.SelectorExpr); ok {
					if sel.Sel.Name == "checkAddDictEnc" {
						offers = true
					}
					if strings.HasPrefix(sel.Sel.Name, "Append") {
						if bs, ok := sel.X.(*ast.SelectorExpr); ok && bs.Sel.Name == "cbuf" {
							appends = true
						}
					}
				}
				return true
			})
		}
		_ = nested
		if !appends {
			continue // an inner arm that only classifies the value
		}
		nArm++
		r.Check(offers, "HANDLE", "writer.SegStore.doLogEventFilling:"+strings.TrimPrefix(strings.Join(a.tags, "+"), "VALTYPE_")+"-value-is-offered-to-the-dictionary", c.Pos(a.pos),
			"the arm that appends the value also registers the record with the column's dictionary",
			"this arm appends the record's value but does not register the record with the column's dictionary: in a dictionary-encoded block the record is listed under no word, the reader's per-record table keeps word 0 or a stale entry of an earlier block, and the event comes back with another event's value")
	}
	r.Floor("HANDLE", "value-appending arms of doLogEventFilling", nArm, 4)
}

// c01DictionaryComplete — clause DICTCOMPLETE.  At flush a column is written as a dictionary block when its dictionary
// holds fewer than wipCardLimit words (`deCount < wipCardLimit`), and the reader then resolves every record through the
// dictionary alone.  So the dictionary must know every record of such a column: in every function that registers a
// record in DeData.deMap, each path to a return has either registered the record, or lies where the word count is known
// to have reached the limit (the same test the flush makes), or has itself put the count to the limit (dictionary given
// up for the block).  An early return for any other reason — a memory budget, a value kind — leaves records out of a
// dictionary that is still used, and those records come back with another record's value.
func c01DictionaryComplete(c *core.Ctx, r *core.Report) {
	deCountF, deMapF := c.Field(pkgWriter, "DeData.deCount"), c.Field(pkgWriter, "DeData.deMap")
	limit := c.Global(pkgWriter, "wipCardLimit")
	isLoadOf := func(v ssa.Value, f *types.Var) bool {
		ld, ok := v.(*ssa.UnOp)
		if !ok || ld.Op != token.MUL {
			return false
		}
		fa, ok := ld.X.(*ssa.FieldAddr)
		return ok && core.FieldOfAddr(fa) == f
	}
	isLimit := func(v ssa.Value) bool {
		ld, ok := v.(*ssa.UnOp)
		return ok && ld.Op == token.MUL && ld.X == ssa.Value(limit)
	}
	n := 0
	for _, fn := range c.RepoFunctions() {
		if core.FnPkgPath(fn) != core.ModPath+"/"+pkgWriter || fn.Blocks == nil {
			continue
		}
		// registers: a map update of deMap whose value is a []uint16 that was appended to
		var regs []ssa.Instruction
		for _, b := range fn.Blocks {
			for _, in := range b.Instrs {
				if mu, ok := in.(*ssa.MapUpdate); ok && isLoadOf(mu.Map, deMapF) {
					regs = append(regs, in)
				}
			}
		}
		if len(regs) == 0 {
			continue
		}
		// only the functions that take the record number to register (not the per-block reset / rebuild loops)
		hasRecParam := false
		for _, p := range fn.Params {
			if bt, ok := p.Type().Underlying().(*types.Basic); ok && bt.Kind() == types.Uint16 {
				hasRecParam = true
			}
		}
		if !hasRecParam {
			continue
		}
		// the per-record registration appends the record number it was given (`append(recs, recNum)`: the
		// parameter is stored into the variadic array); a bulk registration (a loop that builds the list of
		// earlier records, possibly none) is not what this clause is about
		appendsParam := false
		for _, b := range fn.Blocks {
			for _, in := range b.Instrs {
				if st, ok := in.(*ssa.Store); ok {
					if p, ok := st.Val.(*ssa.Parameter); ok {
						if bt, ok := p.Type().Underlying().(*types.Basic); ok && bt.Kind() == types.Uint16 {
							if ia, ok := st.Addr.(*ssa.IndexAddr); ok {
								if _, ok := ia.X.(*ssa.Alloc); ok {
									appendsParam = true
								}
							}
						}
					}
				}
			}
		}
		if !appendsParam {
			continue
		}
		inLoop := false
		for _, l := range core.Loops(fn) {
			for _, x := range regs {
				if l.Body[x.Block()] {
					inLoop = true
				}
			}
		}
		if inLoop {
			continue
		}
		n++
		isReg := map[ssa.Instruction]bool{}
		for _, x := range regs {
			isReg[x] = true
		}
		var bad *ssa.Return
		core.WalkForwardEdges(fn, nil, func(in ssa.Instruction) bool {
			if isReg[in] {
				return false
			}
			if st, ok := in.(*ssa.Store); ok {
				if fa, ok := st.Addr.(*ssa.FieldAddr); ok && core.FieldOfAddr(fa) == deCountF && isLimit(st.Val) {
					return false // the dictionary is given up for this block
				}
			}
			if ret, ok := in.(*ssa.Return); ok && bad == nil {
				bad = ret
			}
			return true
		}, func(from, to *ssa.BasicBlock) bool {
			// the edge on which deCount < wipCardLimit is false
			ifi, ok := core.LastIf(from)
			if !ok {
				return true
			}
			bo, ok := ifi.Cond.(*ssa.BinOp)
			if !ok {
				return true
			}
			switch {
			case bo.Op == token.LSS && isLoadOf(bo.X, deCountF) && isLimit(bo.Y):
				return to != from.Succs[1]
			case bo.Op == token.GEQ && isLoadOf(bo.X, deCountF) && isLimit(bo.Y):
				return to != from.Succs[0]
			case bo.Op == token.GTR && isLimit(bo.X) && isLoadOf(bo.Y, deCountF):
				return to != from.Succs[1]
			case bo.Op == token.LEQ && isLimit(bo.X) && isLoadOf(bo.Y, deCountF):
				return to != from.Succs[0]
			}
			return true
		})
		construct := shortFn(fn) + ":every-record-registered-unless-the-dictionary-is-full"
		if bad != nil {
			r.Violation("GUARD", construct, c.Pos(bad.Pos()), "a record can be left out of the column's dictionary while the dictionary is still below the cardinality limit: the block is then written as a dictionary block from an incomplete dictionary and the reader, which resolves records through the dictionary alone, returns another record's value for the ones left out")
		} else {
			r.OK("GUARD", construct, c.Pos(regs[0].Pos()), "every path registers the record, or lies where the word count has reached the limit")
		}
	}
	r.Floor("GUARD", "functions registering a record in a column dictionary", n, 1)
}
