package props

import (
	"fmt"
	"go/token"
	"go/types"
	"sort"
	"strings"

	"golang.org/x/tools/go/ssa"

	"verif/engine/internal/core"
)

// ---------------------------------------------------------------------------------------------- (9) OWNSTR
//
// utils.UnsafeByteSliceToString(b) yields a string that shares b's bytes.  A value decoded from a column block
// is handed on in result structures that outlive the read buffer (the buffers are pooled and reused for the
// next block, column or segment), so such a string must not be kept unless b is a private copy.
//
// For every call site the result is followed (phi, interface boxing, parameter passing into repository
// functions up to a depth of 3) and each place where it is KEPT is classified: a store into a struct field,
// slice element or global, a map insertion (as key or value), a channel send, a return.  A keep is accepted
// when the bytes are a private copy made in the same function (make+copy, append to nil, bytes.Clone, a local
// bytes.Buffer), or when the site is listed below with the reason it was accepted by reading.
var ownStrExceptions = map[string]string{}

func c01OwnStrings(c *core.Ctx, r *core.Report) {
	unsafeFn := c.Fn("pkg/utils", "UnsafeByteSliceToString")
	type site struct {
		fn   *ssa.Function
		call *ssa.Call
	}
	var sites []site
	for _, fn := range c.RepoFunctions() {
		for _, ci := range core.CallsIn(fn) {
			if call, ok := ci.(*ssa.Call); ok && ci.Common().StaticCallee() == unsafeFn {
				sites = append(sites, site{fn, call})
			}
		}
	}
	sort.Slice(sites, func(i, j int) bool {
		if sites[i].fn.String() != sites[j].fn.String() {
			return sites[i].fn.String() < sites[j].fn.String()
		}
		return sites[i].call.Pos() < sites[j].call.Pos()
	})
	r.Floor("OWNSTR", "zero-copy string conversions", len(sites), 4)
	perFn := map[string]int{}
	for _, s := range sites {
		name := shortFn(s.fn)
		perFn[name]++
		construct := fmt.Sprintf("%s:unsafe-string#%d-does-not-outlive-its-bytes", name, perFn[name])
		if freshBytes(s.call.Call.Args[0], 0) {
			r.OK("OWNSTR", construct, c.Pos(s.call.Pos()), "the converted bytes are a private copy made in this function")
			continue
		}
		kept := keptAt(c, s.call, map[ssa.Value]bool{}, 0)
		switch {
		case kept == nil:
			r.OK("OWNSTR", construct, c.Pos(s.call.Pos()), "the string is only used while its bytes are live (lookups, comparisons, calls that do not keep it)")
		case ownStrExceptions[name] != "":
			r.Assume("OWNSTR", construct, c.Pos(s.call.Pos()), "kept at "+c.Pos(kept.Pos())+"; accepted by reading: "+ownStrExceptions[name])
		default:
			r.Violation("OWNSTR", construct, c.Pos(kept.Pos()), "a string that shares the bytes of a buffer it does not own is kept (stored, inserted, returned or sent): the read buffers are pooled and reused for the next block, column or segment, so the stored value changes after it was decoded; conversion at "+c.Pos(s.call.Pos()))
		}
	}
}

// freshBytes: the byte slice is a private copy made in the enclosing function.
func freshBytes(v ssa.Value, depth int) bool {
	if depth > 4 {
		return false
	}
	switch x := v.(type) {
	case *ssa.MakeSlice:
		return true
	case *ssa.Slice:
		return freshBytes(x.X, depth+1)
	case *ssa.Convert:
		// []byte(string): a copy
		if b, ok := x.X.Type().Underlying().(*types.Basic); ok && b.Info()&types.IsString != 0 {
			return true
		}
	case *ssa.Phi:
		for _, e := range x.Edges {
			if !freshBytes(e, depth+1) {
				return false
			}
		}
		return len(x.Edges) > 0
	case *ssa.Call:
		if bi, ok := x.Call.Value.(*ssa.Builtin); ok && bi.Name() == "append" {
			a0 := x.Call.Args[0]
			if k, ok := a0.(*ssa.Const); ok && k.Value == nil {
				return true
			}
			return freshBytes(a0, depth+1)
		}
		if f := core.CalleeFunc(x); f != nil && f.Pkg() != nil {
			switch f.Pkg().Path() + "." + f.Name() {
			case "bytes.Clone", "bytes.Join", "bytes.Repeat", "bytes.ToLower", "bytes.ToUpper":
				return true
			case "bytes.Bytes":
			}
			// (*bytes.Buffer).Bytes of a buffer that is local to this function
			if f.Name() == "Bytes" && f.Pkg().Path() == "bytes" && len(x.Call.Args) == 1 {
				if _, local := x.Call.Args[0].(*ssa.Alloc); local {
					return true
				}
			}
		}
	}
	return false
}

// keptAt returns an instruction at which v (a zero-copy string) is kept beyond its use, or nil.
func keptAt(c *core.Ctx, v ssa.Value, seen map[ssa.Value]bool, depth int) ssa.Instruction {
	if seen[v] || depth > 3 {
		return nil
	}
	seen[v] = true
	refs := v.Referrers()
	if refs == nil {
		return nil
	}
	for _, in := range *refs {
		switch x := in.(type) {
		case *ssa.Store:
			if x.Val != v {
				continue
			}
			switch a := x.Addr.(type) {
			case *ssa.Alloc:
				// a local variable: follow its loads
				if a.Heap {
					// captured or escaping local: follow loads as well
				}
				if lr := a.Referrers(); lr != nil {
					for _, u := range *lr {
						if ld, ok := u.(*ssa.UnOp); ok && ld.Op == token.MUL {
							if k := keptAt(c, ld, seen, depth); k != nil {
								return k
							}
						}
					}
				}
			default:
				return in
			}
		case *ssa.MapUpdate:
			if x.Key == v || x.Value == v {
				return in
			}
		case *ssa.Send:
			if x.X == v {
				return in
			}
		case *ssa.Return:
			return in
		case *ssa.Phi, *ssa.MakeInterface, *ssa.ChangeType, *ssa.ChangeInterface:
			if k := keptAt(c, x.(ssa.Value), seen, depth); k != nil {
				return k
			}
		case *ssa.MakeClosure:
			return in
		case *ssa.BinOp:
			// concatenation / comparison: a new string or a bool
		case ssa.CallInstruction:
			callee := x.Common().StaticCallee()
			if callee == nil || callee.Blocks == nil || !core.IsRepoPkg(core.FnPkgPath(callee)) {
				continue // standard library and other external callees are taken not to keep their string arguments
			}
			if bi, ok := x.Common().Value.(*ssa.Builtin); ok && bi.Name() == "append" {
				return in
			}
			for i, a := range x.Common().Args {
				if a == v && i < len(callee.Params) {
					if k := keptAt(c, callee.Params[i], seen, depth+1); k != nil {
						return k
					}
				}
			}
		}
	}
	return nil
}

// ---------------------------------------------------------------------------------------------- (10) OPENSEG
//
// The open (unrotated) segment is searched through the bookkeeping updateUnrotatedBlockInfo keeps for it.  The
// function runs once per flushed block; the bookkeeping that a search needs for EVERY block must therefore be
// extended on every call, not only when the segment's record is created.  For each accumulating field of the
// table below: some update of the field (map insertion, append-and-store) lies outside the branch that creates
// the record, i.e. its block (or the header of the loop it sits in) dominates the function's normal return.
func c01OpenSegmentBookkeeping(c *core.Ctx, r *core.Report) {
	fn := c.Fn(pkgWriter, "updateUnrotatedBlockInfo")
	fields := []struct {
		owner, name, why string
	}{
		{"UnrotatedSegmentInfo", "allColumns", "a column that first appears in a later block of the open segment is missing from the column list of a match-all search until the segment rotates"},
		{"UnrotatedSegmentInfo", "blockSummaries", "a later block of the open segment has no block summary: its time range is never matched and its events are not searched"},
		{"AllBlksMetaInfo", "AllBmh", "a later block of the open segment has no block metadata: its column offsets are unknown and its events are not read"},
	}
	var exits []*ssa.BasicBlock
	for _, ret := range core.Returns(fn) {
		exits = append(exits, ret.Block())
	}
	loops := core.Loops(fn)
	// the normal return: the last return in source order
	var last *ssa.Return
	for _, ret := range core.Returns(fn) {
		if last == nil || ret.Pos() > last.Pos() {
			last = ret
		}
	}
	n := 0
	for _, fd := range fields {
		var f *types.Var
		if fd.owner == "AllBlksMetaInfo" {
			f = c.Field("pkg/segment/structs", fd.owner+"."+fd.name)
		} else {
			f = c.Field(pkgWriter, fd.owner+"."+fd.name)
		}
		construct := fmt.Sprintf("%s:%s-extended-on-every-flush", shortFn(fn), fd.name)
		var updates []ssa.Instruction
		for _, b := range fn.Blocks {
			for _, in := range b.Instrs {
				switch x := in.(type) {
				case *ssa.MapUpdate:
					if ld, ok := x.Map.(*ssa.UnOp); ok {
						if fa, ok := ld.X.(*ssa.FieldAddr); ok && core.FieldOfAddr(fa) == f {
							updates = append(updates, in)
						}
					}
				case *ssa.Store:
					if fa, ok := x.Addr.(*ssa.FieldAddr); ok && core.FieldOfAddr(fa) == f {
						// a store that is not the field's initialisation inside a fresh composite literal
						if _, fresh := fa.X.(*ssa.Alloc); !fresh {
							updates = append(updates, in)
						}
					}
				}
			}
		}
		n++
		ok := false
		for _, u := range updates {
			b := u.Block()
			if lp := core.InnermostLoop(loops, b); lp != nil {
				// an update in a loop over the block's data: the loop itself must be on every path
				b = lp.Header
			}
			if last != nil && b.Dominates(last.Block()) {
				ok = true
			}
		}
		switch {
		case len(updates) == 0:
			r.Violation("OPENSEG", construct, c.Pos(fn.Pos()), "updateUnrotatedBlockInfo never extends "+fd.name+" of an existing record: "+fd.why)
		case !ok:
			r.Violation("OPENSEG", construct, c.Pos(updates[0].Pos()), "every update of "+fd.name+" lies on a conditional path (for instance only where the segment's record is created): "+fd.why)
		default:
			r.OK("OPENSEG", construct, c.Pos(updates[0].Pos()), "an update of the field dominates the normal return (it runs for every flushed block)")
		}
	}
	r.Floor("OPENSEG", "per-block bookkeeping fields of the open segment", n, 3)
	_ = strings.Join
	_ = exits
}

// ---------------------------------------------------------------------------------------------- (11) NARROWINDEX
//
// Go accepts an index or slice bound of any integer type and evaluates its arithmetic in that type.  A record number
// or word count held in a uint8 / uint16 that is MULTIPLIED (or shifted) by the element width and used as an index
// therefore wraps for the upper part of its range: records above 32767 (for a 2-byte element) overwrite or read the
// slots of earlier records.  Every index, slice bound and widening conversion in the repository whose operand is a
// product or left shift computed in an 8- or 16-bit unsigned type from a non-constant value is a violation; the
// sound form widens first (int(i)*2).
func c01NarrowIndex(c *core.Ctx, r *core.Report) {
	narrow := func(t types.Type) bool {
		b, ok := t.Underlying().(*types.Basic)
		return ok && (b.Kind() == types.Uint8 || b.Kind() == types.Uint16)
	}
	isScaled := func(v ssa.Value) *ssa.BinOp {
		bo, ok := v.(*ssa.BinOp)
		if !ok || !narrow(bo.Type()) || (bo.Op != token.MUL && bo.Op != token.SHL) {
			return nil
		}
		_, cx := bo.X.(*ssa.Const)
		_, cy := bo.Y.(*ssa.Const)
		if cx && cy {
			return nil
		}
		// scaling by 1 or shifting by 0 is harmless
		if k, ok := core.ConstIntValue(bo.Y); ok && ((bo.Op == token.MUL && k <= 1) || (bo.Op == token.SHL && k == 0)) {
			return nil
		}
		return bo
	}
	type hit struct {
		fn *ssa.Function
		at ssa.Instruction
	}
	var hits []hit
	nIdx := 0
	for _, fn := range c.RepoFunctions() {
		for _, b := range fn.Blocks {
			for _, in := range b.Instrs {
				var ops []ssa.Value
				switch x := in.(type) {
				case *ssa.IndexAddr:
					ops = []ssa.Value{x.Index}
				case *ssa.Index:
					ops = []ssa.Value{x.Index}
				case *ssa.Slice:
					ops = []ssa.Value{x.Low, x.High, x.Max}
				case *ssa.Convert:
					// widening of a narrow product that then positions something: buf[int(i*2)], off + uint32(n<<3)
					if narrow(x.X.Type()) && !narrow(x.Type()) && feedsPosition(x, 0) {
						ops = []ssa.Value{x.X}
					}
				default:
					continue
				}
				for _, op := range ops {
					if op == nil {
						continue
					}
					if narrow(op.Type()) {
						nIdx++
					}
					if isScaled(op) != nil {
						hits = append(hits, hit{fn, in})
					}
				}
			}
		}
	}
	sort.Slice(hits, func(i, j int) bool {
		if hits[i].fn.String() != hits[j].fn.String() {
			return hits[i].fn.String() < hits[j].fn.String()
		}
		return hits[i].at.Pos() < hits[j].at.Pos()
	})
	per := map[string]int{}
	for _, h := range hits {
		name := shortFn(h.fn)
		per[name]++
		r.Violation("BOUND", fmt.Sprintf("%s:scaled-narrow-index#%d-is-widened-before-scaling", name, per[name]), c.Pos(h.at.Pos()), "an 8/16-bit unsigned value is multiplied (or shifted) in its own type and the product is used as an index, slice bound or wider number: the product wraps for the upper part of the value's range (a uint16 record number times a 2-byte width wraps above 32767), so late records overwrite or read the slots of early ones")
	}
	if len(hits) == 0 {
		r.OK("BOUND", "no-scaled-narrow-index", "-", fmt.Sprintf("%d uses of 8/16-bit unsigned values as indexes, bounds or widened operands, none of them a product or shift computed in the narrow type", nIdx))
	}
	r.Floor("BOUND", "uses of 8/16-bit unsigned values as indexes or widened operands", nIdx, 100)
}

// feedsPosition: the value is used (directly or through +, - and conversions) as an index or slice bound.
func feedsPosition(v ssa.Value, depth int) bool {
	if depth > 3 || v.Referrers() == nil {
		return false
	}
	for _, u := range *v.Referrers() {
		switch x := u.(type) {
		case *ssa.IndexAddr:
			if x.Index == v {
				return true
			}
		case *ssa.Index:
			if x.Index == v {
				return true
			}
		case *ssa.Slice:
			if x.Low == v || x.High == v || x.Max == v {
				return true
			}
		case *ssa.BinOp:
			if (x.Op == token.ADD || x.Op == token.SUB) && feedsPosition(x, depth+1) {
				return true
			}
		case *ssa.Convert:
			if feedsPosition(x, depth+1) {
				return true
			}
		case *ssa.Phi:
			if feedsPosition(x, depth+1) {
				return true
			}
		}
	}
	return false
}

// ---------------------------------------------------------------------------------------------- (12) MIDBLOCK
//
// A column that first appears at record k > 0 of a block must get k backfill entries before its first value, whatever
// the type of that first value (an explicit JSON null included): all columns of a block hold one entry per record.
// In initAndBackFillColumn the call of backFillPastRecords is governed by nothing but "the column is not yet in this
// block" (comma-ok map tests) and "the block already has records" (the record count compared with zero).
func c01MidBlockBackfill(c *core.Ctx, r *core.Report) {
	fn := c.Fn(pkgWriter, "SegStore.initAndBackFillColumn")
	back := c.Obj(pkgWriter, "SegStore.backFillPastRecords")
	recCount := c.Field(pkgStructs, "BlockSummary.RecCount")
	calls := callsTo(fn, back)
	r.Floor("BACKFILL", "calls of backFillPastRecords in initAndBackFillColumn", len(calls), 1)
	isRecCount := func(v ssa.Value) bool {
		for i := 0; i < 3; i++ {
			if cv, ok := v.(*ssa.Convert); ok {
				v = cv.X
			}
		}
		ld, ok := v.(*ssa.UnOp)
		if !ok {
			return false
		}
		fa, ok := ld.X.(*ssa.FieldAddr)
		return ok && core.FieldOfAddr(fa) == recCount
	}
	for i, call := range calls {
		construct := fmt.Sprintf("%s:mid-block-backfill#%d-whatever-the-type", shortFn(fn), i+1)
		bad := ""
		for b := call.Block(); b != nil; b = b.Idom() {
			idom := b.Idom()
			if idom == nil {
				break
			}
			ifi, ok := core.LastIf(idom)
			if !ok {
				continue
			}
			// only conditions that really govern b (b is on one side only)
			on0 := idom.Succs[0] == b || idom.Succs[0].Dominates(b)
			on1 := idom.Succs[1] == b || idom.Succs[1].Dominates(b)
			if on0 == on1 {
				continue
			}
			var leaves func(v ssa.Value, depth int) []ssa.Value
			leaves = func(v ssa.Value, depth int) []ssa.Value {
				if depth > 4 {
					return []ssa.Value{v}
				}
				switch x := v.(type) {
				case *ssa.UnOp:
					if x.Op == token.NOT {
						return leaves(x.X, depth+1)
					}
				case *ssa.Phi:
					// short-circuit && / ||
					var out []ssa.Value
					for _, e := range x.Edges {
						if _, isK := e.(*ssa.Const); !isK {
							out = append(out, leaves(e, depth+1)...)
						}
					}
					for _, p := range x.Block().Preds {
						if pi, ok := core.LastIf(p); ok {
							out = append(out, leaves(pi.Cond, depth+1)...)
						}
					}
					return out
				}
				return []ssa.Value{v}
			}
			for _, leaf := range leaves(ifi.Cond, 0) {
				okLeaf := false
				switch x := leaf.(type) {
				case *ssa.Extract:
					if lk, ok := x.Tuple.(*ssa.Lookup); ok && lk.CommaOk && x.Index == 1 {
						okLeaf = true
					}
				case *ssa.BinOp:
					if k, ok := core.ConstIntValue(x.Y); ok && k == 0 && isRecCount(x.X) {
						okLeaf = true
					}
					if k, ok := core.ConstIntValue(x.X); ok && k == 0 && isRecCount(x.Y) {
						okLeaf = true
					}
				}
				if !okLeaf {
					bad = leaf.String()
				}
			}
		}
		if bad != "" {
			r.Violation("BACKFILL", construct, c.Pos(call.Pos()), "the backfill of a column that appears in the middle of a block also depends on `"+bad+"`: where that test skips it, the column is short by the number of earlier records, so its values belong to the wrong events (dictionary block) or the whole column of the block is dropped at flush")
		} else {
			r.OK("BACKFILL", construct, c.Pos(call.Pos()), "governed only by the column's absence from the block and a non-zero record count")
		}
	}
}
