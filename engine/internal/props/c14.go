package props

import (
	"fmt"
	"go/token"
	"go/types"
	"strings"

	"golang.org/x/tools/go/ssa"

	"verif/engine/internal/core"
	"verif/engine/internal/locks"
)

func init() { register("C14", checkC14) }

const (
	pkgRetention = "pkg/retention"
	pkgStructs   = "pkg/segment/structs"
)

func checkC14(c *core.Ctx, r *core.Report) {
	r.Explanation = "C14 (retention deletes exactly what is expired), structural clauses only: " +
		"(1) GUARD in DoRetentionBasedDeletion — every insertion into a victim map handed to DeleteSegmentData/DeleteMetricsSegmentData is dominated by the accepting edge of `latest <= horizon` (or <), where the left side depends on the entry's latest-time field and on no earliest-time field and the right side on GetRetentionTimeMs; the horizon is now minus the retention period; entries enter the candidate list only on the org-equality edge; the selection loop examines every candidate (its only exit is loop exhaustion); " +
		"(2) ORDER in DeleteSegmentData / DeleteMetricsSegmentData — files and in-memory metadata go first, the durable meta entry last (an interrupted pass is repeatable); " +
		"(3) set-difference discipline in removeMetricsSegmentsByList — tags-tree directories shared with a preserved segment are un-marked only after all marks were made; " +
		"(4) ATOMIC — segmeta.json and metricmeta.json are rewritten through tmp+rename; " +
		"(6) LIVE — in the scan loops over these files every line is decoded into a variable of the iteration (json.Unmarshal leaves fields absent from a line — omitempty — at the target's previous value)."
	r.NotCovered = "arithmetic of the volume- and inode-based passes, survivors remaining searchable, idempotence as an outcome, blob-store deletion"
	sm := newSummaries(c)

	doRet := c.Fn(pkgRetention, "DoRetentionBasedDeletion")
	delSeg := c.Obj(pkgRetention, "DeleteSegmentData")
	delMet := c.Obj(pkgRetention, "DeleteMetricsSegmentData")
	horizonFn := c.Obj(pkgRetention, "GetRetentionTimeMs")
	latestFields := map[*types.Var]bool{
		c.Field(pkgStructs, "SegMeta.LatestEpochMS"):      true,
		c.Field(pkgStructs, "MetricsMeta.LatestEpochSec"): true,
	}
	earliestFields := map[*types.Var]bool{
		c.Field(pkgStructs, "SegMeta.EarliestEpochMS"):      true,
		c.Field(pkgStructs, "MetricsMeta.EarliestEpochSec"): true,
	}
	orgFields := map[*types.Var]bool{
		c.Field(pkgStructs, "SegMeta.OrgId"):     true,
		c.Field(pkgStructs, "MetricsMeta.OrgId"): true,
	}

	// victim maps: first argument of the two delete calls; when the selection lives in a helper that
	// returns the maps, the maps are the helper's returned values and the insertions are looked for there
	type victim struct {
		fn   *ssa.Function
		m    ssa.Value
		name string
	}
	var victims []victim
	var resolve func(fn *ssa.Function, v ssa.Value, name string, depth int)
	resolve = func(fn *ssa.Function, v ssa.Value, name string, depth int) {
		idx := -1
		var call *ssa.Call
		switch x := v.(type) {
		case *ssa.Extract:
			if cl, ok := x.Tuple.(*ssa.Call); ok {
				call, idx = cl, x.Index
			}
		case *ssa.Call:
			call, idx = x, 0
		}
		if call != nil && depth < 3 {
			if h := call.Call.StaticCallee(); h != nil && h.Blocks != nil && core.IsRepoPkg(core.FnPkgPath(h)) {
				for _, ret := range core.Returns(h) {
					if idx < len(ret.Results) {
						resolve(h, ret.Results[idx], name, depth+1)
					}
				}
				return
			}
		}
		for _, k := range victims {
			if k.fn == fn && k.m == v {
				return
			}
		}
		victims = append(victims, victim{fn, v, name})
	}
	nVictimArgs := 0
	for _, ci := range core.CallsIn(doRet) {
		if core.IsCallTo(ci, delSeg) {
			nVictimArgs++
			resolve(doRet, ci.Common().Args[0], "segmentsToDelete", 0)
		}
		if core.IsCallTo(ci, delMet) {
			nVictimArgs++
			resolve(doRet, ci.Common().Args[1], "metricSegmentsToDelete", 0)
		}
	}
	r.Floor("GUARD", "victim maps passed to the delete functions", nVictimArgs, 2)
	nIns := 0
	for _, vic := range victims {
		loops := core.Loops(vic.fn)
		mname := vic.name
		for _, b := range vic.fn.Blocks {
			for _, in := range b.Instrs {
				mu, ok := in.(*ssa.MapUpdate)
				if !ok || mu.Map != vic.m {
					continue
				}
				nIns++
				construct := fmt.Sprintf("%s:insert(%s)-guarded-by-latest<=horizon", shortFn(vic.fn), mname)
				verdict, detail := retentionGuard(c, b, latestFields, earliestFields, horizonFn)
				if verdict {
					r.OK("GUARD", construct, c.Pos(mu.Pos()), detail)
				} else {
					r.Violation("GUARD", construct, c.Pos(mu.Pos()), detail)
				}
				// the selection loop examines every entry
				l := core.InnermostLoop(loops, b)
				k := fmt.Sprintf("%s:selection-loop(%s)-examines-every-entry", shortFn(vic.fn), mname)
				if l == nil {
					r.Undecided("GUARD", k, c.Pos(mu.Pos()), "the insertion is not inside a loop")
				} else {
					bad := false
					for _, e := range l.ExitEdges() {
						if e[0] != l.Header {
							bad = true
							at := mu.Pos()
							for _, ei := range e[0].Instrs {
								if ei.Pos().IsValid() {
									at = ei.Pos()
								}
							}
							r.Violation("GUARD", k, c.Pos(at), "the loop that selects expired segments can be left from inside its body (break/return): entries after that point are never examined, so expired segments survive the pass")
							break
						}
					}
					if !bad {
						r.OK("GUARD", k, c.Pos(mu.Pos()), "the only exit of the selection loop is exhaustion of the candidate list")
					}
				}
			}
		}
	}
	r.Floor("GUARD", "insertions into victim maps", nIns, 2)

	// candidates enter the list only on the org-equality edge
	orgParam := doRet.Params[2]
	nApp := 0
	for _, ci := range core.CallsIn(doRet) {
		call, ok := ci.(*ssa.Call)
		if !ok {
			continue
		}
		bi, ok := call.Call.Value.(*ssa.Builtin)
		if !ok || bi.Name() != "append" {
			continue
		}
		// appends of meta entries (interface{} slices built from SegMeta / MetricsMeta pointers)
		if !strings.Contains(call.Type().String(), "interface{}") && !strings.Contains(call.Type().String(), "any") {
			continue
		}
		nApp++
		okOrg := false
		for b := call.Block(); b != nil; b = b.Idom() {
			idom := b.Idom()
			if idom == nil {
				break
			}
			ifi, isIf := core.LastIf(idom)
			if !isIf || idom.Succs[0] != b || len(b.Preds) != 1 {
				continue
			}
			bo, isBin := ifi.Cond.(*ssa.BinOp)
			if !isBin || bo.Op != token.EQL {
				continue
			}
			var fldSide ssa.Value
			if bo.Y == ssa.Value(orgParam) {
				fldSide = bo.X
			} else if bo.X == ssa.Value(orgParam) {
				fldSide = bo.Y
			}
			if fldSide == nil {
				continue
			}
			if ld, isLd := fldSide.(*ssa.UnOp); isLd {
				if fa, isFa := ld.X.(*ssa.FieldAddr); isFa && orgFields[core.FieldOfAddr(fa)] {
					okOrg = true
				}
			}
		}
		r.Check(okOrg, "GUARD", fmt.Sprintf("%s:candidate-append-on-org-equality-edge@%d", shortFn(doRet), nApp), c.Pos(call.Pos()),
			"append dominated by entry.OrgId == orgid", "a meta entry becomes a deletion candidate without being checked against the organisation the pass runs for")
	}
	r.Floor("GUARD", "candidate appends in DoRetentionBasedDeletion", nApp, 2)

	// horizon = now - retention
	{
		hf := c.Fn(pkgRetention, "GetRetentionTimeMs")
		timeAdd := c.ExtObj("time", "Time.Add")
		okNeg := false
		for _, call := range callsTo(hf, timeAdd) {
			if u, ok := call.Call.Args[1].(*ssa.UnOp); ok && u.Op == token.SUB {
				okNeg = true
			}
		}
		r.Check(okNeg, "GUARD", shortFn(hf)+":horizon-is-now-minus-retention", c.Pos(hf.Pos()), "time.Add is given the negated retention duration", "the retention horizon is not computed as now minus the retention period")
	}

	// ---------------------------------------------------------------- (2)
	dsd := c.Fn(pkgRetention, "DeleteSegmentData")
	removeBase := c.Obj(pkgWriter, "RemoveSegBasedirs")
	// the in-memory deletion, named by its effect: a call from which a function that deletes from the segment
	// reverse index (allSegmentMetadata.segmentMetadataReverseIndex) is reachable — DeleteSegmentKey today, or any
	// other wrapper of the metadata package (a bulk form, a renamed one)
	revIdx := c.Field(pkgMeta, "allSegmentMetadata.segmentMetadataReverseIndex")
	delPrims := objSet{}
	for _, f := range c.RepoFunctions() {
		if core.FnPkgPath(f) != core.ModPath+"/"+pkgMeta || f.Object() == nil {
			continue
		}
		for _, ci := range core.CallsIn(f) {
			bi, ok := ci.Common().Value.(*ssa.Builtin)
			if !ok || bi.Name() != "delete" {
				continue
			}
			if ld, ok := ci.Common().Args[0].(*ssa.UnOp); ok {
				if fa, ok := ld.X.(*ssa.FieldAddr); ok && core.FieldOfAddr(fa) == revIdx {
					for k := range objs(f.Object()) {
						delPrims[k] = true
					}
				}
			}
		}
	}
	r.Floor("ORDER", "functions that delete from the segment reverse index", len(delPrims), 1)
	isDelKey := sm.mayPred(delPrims)
	removeMetas := c.Obj(pkgWriter, "RemoveSegMetas")
	checkOrderDeep(c, r, sm, dsd, "RemoveSegBasedirs", objs(removeBase), "RemoveSegMetas", objs(removeMetas), false, 1,
		"the durable segmeta entry must go last: if it is removed first and the pass is interrupted, the segment's files stay on disk forever")
	// DeleteSegmentKey runs in a loop over the victims: it must not be reachable after RemoveSegMetas
	{
		var late ssa.Instruction
		for _, rm := range callsTo(dsd, removeMetas) {
			core.WalkForward(dsd, rm, func(in ssa.Instruction) bool {
				if ci, ok := in.(ssa.CallInstruction); ok && (isDelKey(ci) || core.IsCallTo(ci, removeBase)) {
					late = in
				}
				return true
			})
		}
		r.Check(late == nil, "ORDER", shortFn(dsd)+":nothing-deleted-after-RemoveSegMetas", c.Pos(dsd.Pos()),
			"no file or in-memory deletion is reachable after the segmeta entry was removed", "a deletion step runs after the durable segmeta entry was removed")
		nDel := 0
		for _, ci := range core.CallsIn(dsd) {
			if isDelKey(ci) {
				nDel++
			}
		}
		r.Check(nDel >= 1, "ORDER", shortFn(dsd)+":in-memory-metadata-deleted", c.Pos(dsd.Pos()),
			"segmetadata.DeleteSegmentKey is called for the victims", "deleted segments are not removed from the in-memory search metadata")
	}
	dmd := c.Fn(pkgRetention, "DeleteMetricsSegmentData")
	delMKey := c.Obj(pkgMeta, "DeleteMetricsSegmentKey")
	removeMSeg := c.Obj(pkgMMeta, "RemoveMetricsSegments")
	{
		var late ssa.Instruction
		for _, rm := range callsTo(dmd, removeMSeg) {
			core.WalkForward(dmd, rm, func(in ssa.Instruction) bool {
				if ci, ok := in.(ssa.CallInstruction); ok && core.IsCallTo(ci, delMKey) {
					late = in
				}
				return true
			})
		}
		n := len(callsTo(dmd, removeMSeg))
		r.Check(late == nil && n >= 1 && len(callsTo(dmd, delMKey)) >= 1, "ORDER", shortFn(dmd)+":DeleteMetricsSegmentKey<RemoveMetricsSegments", c.Pos(dmd.Pos()),
			"the metrics meta entry is removed last", "the durable metrics meta entry is not removed last")
	}

	// ---------------------------------------------------------------- (2b) every victim is examined
	c14EveryVictimExamined(c, r, []*ssa.Function{dsd, dmd})
	c14SameVictimsForEveryStep(c, r, dsd, isDelKey)

	// ---------------------------------------------------------------- (3)
	rmList := metricsRemovalHost(c)
	{
		// maps that are both marked (MapUpdate) and un-marked (delete) in this function
		del := map[ssa.Value][]ssa.Instruction{}
		upd := map[ssa.Value][]ssa.Instruction{}
		for _, b := range rmList.Blocks {
			for _, in := range b.Instrs {
				switch x := in.(type) {
				case *ssa.MapUpdate:
					upd[x.Map] = append(upd[x.Map], in)
				case *ssa.Call:
					if bi, ok := x.Call.Value.(*ssa.Builtin); ok && bi.Name() == "delete" {
						del[x.Call.Args[0]] = append(del[x.Call.Args[0]], in)
					}
				}
			}
		}
		// the deletion sets: maps that are ranged over with the key handed to a removal call
		var sets []ssa.Value
		for _, b := range rmList.Blocks {
			for _, in := range b.Instrs {
				rg, ok := in.(*ssa.Range)
				if !ok || len(upd[rg.X]) == 0 {
					continue
				}
				feeds := false
				t := localFlow{}
				t.from(rg)
				for _, b2 := range rmList.Blocks {
					for _, in2 := range b2.Instrs {
						if ci, ok := in2.(ssa.CallInstruction); ok {
							if f := core.CalleeFunc(ci); f != nil && f.Pkg() != nil && f.Pkg().Path() == "os" && strings.HasPrefix(f.Name(), "Remove") {
								for _, a := range ci.Common().Args {
									if t[a] {
										feeds = true
									}
								}
							}
						}
					}
				}
				if feeds {
					sets = append(sets, rg.X)
				}
			}
		}
		n := 0
		for _, m := range sets {
			n++
			isUpd := map[ssa.Instruction]bool{}
			for _, u := range upd[m] {
				isUpd[u] = true
			}
			construct := shortFn(rmList) + ":survivors-subtracted-from-deletion-set(" + m.Type().String() + ")"
			if dels := del[m]; len(dels) > 0 {
				// shape A: marks first, then every preserved entry is un-marked
				var bad ssa.Instruction
				for _, d := range dels {
					core.WalkForward(rmList, d, func(in ssa.Instruction) bool {
						if isUpd[in] {
							bad = in
						}
						return true
					})
				}
				if bad != nil {
					r.Violation("ORDER", construct, c.Pos(bad.Pos()), "a directory can be marked for deletion after preserved entries were already subtracted from the set: a tags tree shared with a surviving segment listed earlier in the file is deleted")
				} else {
					r.OK("ORDER", construct, c.Pos(dels[0].Pos()), "every mark precedes every un-mark (set difference computed after the scan)")
				}
				continue
			}
			// shape B: each mark is guarded by a lookup in an in-use set that is complete when the mark runs
			bad := ""
			var at ssa.Instruction
			for _, u := range upd[m] {
				var inUse ssa.Value
				for d := u.Block(); d != nil && inUse == nil; d = d.Idom() {
					if len(d.Instrs) == 0 {
						continue
					}
					iff, ok := d.Instrs[len(d.Instrs)-1].(*ssa.If)
					if !ok || d == u.Block() {
						continue
					}
					var find func(v ssa.Value, depth int)
					find = func(v ssa.Value, depth int) {
						if depth > 4 || inUse != nil {
							return
						}
						switch x := v.(type) {
						case *ssa.Lookup:
							if x.X != m && len(upd[x.X]) > 0 {
								inUse = x.X
							}
						case *ssa.UnOp:
							find(x.X, depth+1)
						case *ssa.Extract:
							find(x.Tuple, depth+1)
						case *ssa.BinOp:
							find(x.X, depth+1)
							find(x.Y, depth+1)
						}
					}
					find(iff.Cond, 0)
				}
				if inUse == nil {
					bad, at = "a directory is marked for deletion and no later step removes the directories of preserved entries from the set", u
					break
				}
				isUse := map[ssa.Instruction]bool{}
				for _, x := range upd[inUse] {
					isUse[x] = true
				}
				core.WalkForward(rmList, u, func(in ssa.Instruction) bool {
					if isUse[in] {
						bad, at = "the set of directories still in use is extended after a directory was already marked for deletion: whether a shared tags tree survives depends on the order of the entries in the file", in
					}
					return true
				})
				if bad != "" {
					break
				}
			}
			if bad != "" {
				r.Violation("ORDER", construct, c.Pos(at.Pos()), bad+": a tags tree shared with a surviving segment is deleted")
			} else {
				r.OK("ORDER", construct, c.Pos(upd[m][0].Pos()), "every mark is guarded by an in-use set that is complete before the first mark")
			}
		}
		r.Floor("ORDER", "deletion sets in removeMetricsSegmentsByList", n, 1)
	}

	// ---------------------------------------------------------------- (4)
	tbl := &classTable{
		Funcs: map[types.Object]string{
			c.Obj(pkgWriter, "GetLocalSegmetaFName"):    "segmeta.json",
			c.Obj(pkgMMeta, "GetLocalMetricsMetaFName"): "metricmeta.json",
		},
		Globals: map[types.Object]string{
			c.Obj(pkgWriter, "localSegmetaFname"): "segmeta.json",
			c.Obj(pkgMMeta, "localMetricsMeta"):   "metricmeta.json",
			c.Obj(pkgMMeta, "MetricsMetaSuffix"):  "metricmeta.json",
		},
		Consts: map[string]string{"segmeta.json": "segmeta.json", "metricmeta.json": "metricmeta.json"},
	}
	checkAtomic(c, r, tbl, []string{"segmeta.json", "metricmeta.json"}, map[string]string{})

	// ---------------------------------------------------------------- (6) the directories to remove come from the segment keys
	// SegMeta.SegbaseDir is an optional field of a segmeta.json line (`omitempty`; lines written by older releases lack
	// it), while the segment key is always there.  A directory name taken from the optional field is "" for such a line,
	// os.RemoveAll("") removes nothing, and the later steps still drop the segment from the metadata: its files stay on
	// disk for good.  Every key put into the set handed to RemoveSegBasedirs is computed from a segment key
	// (utils.GetSegBaseDirFromFilename), or comes from a field only where it is known to be non-empty.
	{
		baseOf := c.Obj(pkgUtils, "GetSegBaseDirFromFilename")
		n := 0
		for _, call := range callsTo(dsd, removeBase) {
			set := call.Call.Args[0]
			if refs := set.Referrers(); refs != nil {
				for _, u := range *refs {
					mu, ok := u.(*ssa.MapUpdate)
					if !ok || mu.Map != set {
						continue
					}
					n++
					fromKey, fromField := false, false
					for _, o := range c.Origins(mu.Key, 0) {
						if o.Kind == "call" && o.Obj == baseOf {
							fromKey = true
						}
						if o.Kind == "field" {
							fromField = true
						}
					}
					nonEmpty := false
					for _, b := range dsd.Blocks {
						for _, in := range b.Instrs {
							if cmp, ok := in.(*ssa.BinOp); ok && (cmp.Op == token.NEQ || cmp.Op == token.EQL) && (cmp.X == mu.Key || cmp.Y == mu.Key) {
								other := cmp.Y
								if cmp.Y == mu.Key {
									other = cmp.X
								}
								if s, ok := core.ConstStringValue(other); ok && s == "" {
									k := core.BoolKnownAt(cmp, mu.Block())
									if (cmp.Op == token.NEQ && k == core.Yes) || (cmp.Op == token.EQL && k == core.No) {
										nonEmpty = true
									}
								}
							}
						}
					}
					r.Check(fromKey || (fromField && nonEmpty), "DEPENDS", fmt.Sprintf("%s:directory-to-remove#%d-comes-from-the-segment-key", shortFn(dsd), n), c.Pos(mu.Pos()),
						"computed from the segment key (or a field known to be non-empty)",
						"a directory to remove is taken from an optional field of the segmeta entry without knowing that it is set: for entries written by older releases it is empty, nothing is removed, the later steps still drop the segment from the metadata and its files stay on disk for good")
				}
			}
		}
		r.Floor("DEPENDS", "directories put into the set handed to RemoveSegBasedirs", n, 1)
	}

	// ---------------------------------------------------------------- (5) the rewrite of segmeta.json is one critical section
	// removeSegmetas reads segmeta.json, drops the removed entries and renames the rewritten file into place.  Rotation
	// appends entries to the same file under smrLock.  The read and the rewrite must therefore happen in ONE write-locked
	// section: an entry appended between a read under a weaker (or no) lock and the rewrite is overwritten, and the
	// freshly rotated segment disappears from the metadata.  Every access of the segmeta file in removeSegmetas — directly
	// or through a callee that touches the file — lies where smrLock is must-held in write mode, and the function acquires
	// the lock once.
	{
		a := lockAnalysis(c)
		fname := c.Obj(pkgWriter, "localSegmetaFname")
		checkMetaFileRewriteSection(c, r, a, pkgWriter, c.Fn(pkgWriter, "removeSegmetas"), "smrLock", "segmeta", "segmeta.json", 3, 0,
			func(o core.Origin) bool { return o.Kind == "global" && o.Obj == fname })
		// the same for metricmeta.json: the removal of metrics segments reads it, drops entries and renames the
		// rewritten file into place, while AddMetricsMetaEntry appends under mMetaLock
		mfn := c.Obj(pkgMMeta, "GetLocalMetricsMetaFName")
		mglob := c.TryObj(pkgMMeta, "localMetricsMeta")
		msuffix := c.TryObj(pkgMMeta, "MetricsMetaSuffix")
		// (the file name arrives as a parameter there, so it is followed to the callers; the lock is taken by the
		// exported entry point, the scan and the rewrite are in it or in the helper it calls)
		checkMetaFileRewriteSection(c, r, a, pkgMMeta, c.Fn(pkgMMeta, "RemoveMetricsSegments"), "mMetaLock", "metricmeta", "metricmeta.json", 1, 3,
			func(o core.Origin) bool {
				if o.Kind == "const" && strings.Contains(o.Str, "metricmeta") {
					return true // path.Join(<node dir>, MetricsMetaSuffix)
				}
				if o.Kind == "global" && msuffix != nil && o.Obj == msuffix {
					return true
				}
				return (o.Kind == "call" && o.Obj == mfn) || (o.Kind == "global" && mglob != nil && o.Obj == mglob)
			})
	}
	checkDecodeTargetFresh(c, r)
}

// metricsRemovalHost: the function that rewrites metricmeta.json when metrics segments are removed —
// removeMetricsSegmentsByList, or RemoveMetricsSegments when the helper is written out in it.
func metricsRemovalHost(c *core.Ctx) *ssa.Function {
	if h := c.TryFn(pkgMMeta, "removeMetricsSegmentsByList"); h != nil {
		return h
	}
	return c.Fn(pkgMMeta, "RemoveMetricsSegments")
}

// checkMetaFileRewriteSection: every access of the metadata file in host — directly, or through a callee of the
// package that touches the file — lies where the file's lock is must-held in write mode, and host acquires the
// lock once (the read and the rewrite are one critical section).
func checkMetaFileRewriteSection(c *core.Ctx, r *core.Report, a *locks.Analysis, pkg string, rm *ssa.Function, lockSuffix, label, fileName string, floor, originDepth int, isFile func(core.Origin) bool) {
	touches := map[*ssa.Function]bool{}
	fileCall := func(ci ssa.CallInstruction) bool {
		f := core.CalleeFunc(ci)
		if f == nil || f.Pkg() == nil || f.Pkg().Path() != "os" {
			return false
		}
		for _, arg := range ci.Common().Args {
			if bt, ok := arg.Type().Underlying().(*types.Basic); !ok || bt.Info()&types.IsString == 0 {
				continue
			}
			for _, o := range c.Origins(arg, originDepth) {
				if isFile(o) {
					return true
				}
			}
		}
		return false
	}
	for changed := true; changed; {
		changed = false
		for _, fn := range c.RepoFunctions() {
			if touches[fn] || core.FnPkgPath(fn) != core.ModPath+"/"+pkg {
				continue
			}
			for _, ci := range core.CallsIn(fn) {
				callee := ci.Common().StaticCallee()
				if fileCall(ci) || (callee != nil && touches[callee]) {
					touches[fn] = true
					changed = true
					break
				}
			}
		}
	}
	ff := a.Facts[rm]
	n, bad := 0, 0
	locksTaken := 0
	for _, ci := range core.CallsIn(rm) {
		if site, ok := a.SiteOf(ci); ok && strings.HasSuffix(site.Class.Name, lockSuffix) && (site.Op == locks.OpLock || site.Op == locks.OpRLock) {
			locksTaken++
		}
		callee := ci.Common().StaticCallee()
		if !(fileCall(ci) || (callee != nil && touches[callee])) {
			continue
		}
		n++
		held := false
		if ff != nil {
			for _, h := range ff.MustAt[ci] {
				if strings.HasSuffix(h.Class.Name, lockSuffix) && !h.Read {
					held = true
				}
			}
		}
		if !held {
			bad++
			r.Violation("HELD", fmt.Sprintf("%s:%s-access#%d-inside-the-write-locked-section", shortFn(rm), label, n), c.Pos(ci.Pos()), fmt.Sprintf("%s is read or rewritten here without %s held in write mode: the entries a rotation appends between this access and the rename of the rewritten file are overwritten, so a freshly rotated segment vanishes from the metadata file", fileName, lockSuffix))
		}
	}
	if bad == 0 {
		r.OK("HELD", shortFn(rm)+":"+label+"-accesses-inside-the-write-locked-section", c.Pos(rm.Pos()), fmt.Sprintf("%d accesses of the %s file, all with %s must-held in write mode", n, label, lockSuffix))
	}
	r.Check(locksTaken == 1, "HELD", shortFn(rm)+":one-acquisition-of-"+lockSuffix, c.Pos(rm.Pos()), "the lock is acquired once (read and rewrite share the critical section)", fmt.Sprintf("%s is acquired %d times in %s: the read and the rewrite of %s are not one critical section", lockSuffix, locksTaken, rm.Name(), fileName))
	r.Floor("HELD", "accesses of the "+label+" file in "+rm.Name(), n, floor)
}

// retentionGuard: block b is dominated by the accepting edge of a comparison
// latest <= horizon / latest < horizon (or the mirrored form).
func retentionGuard(c *core.Ctx, b *ssa.BasicBlock, latest, earliest map[*types.Var]bool, horizonFn types.Object) (bool, string) {
	sawCompare := false
	for x := b; x != nil; x = x.Idom() {
		idom := x.Idom()
		if idom == nil {
			break
		}
		ifi, ok := core.LastIf(idom)
		if !ok {
			continue
		}
		onTrue := idom.Succs[0] == x && len(x.Preds) == 1
		onFalse := idom.Succs[1] == x && len(x.Preds) == 1
		if !onTrue && !onFalse {
			continue
		}
		bo, ok := ifi.Cond.(*ssa.BinOp)
		if !ok {
			continue
		}
		var small, big ssa.Value // small <(=) big holds on our edge
		switch {
		case (bo.Op == token.LEQ || bo.Op == token.LSS) && onTrue:
			small, big = bo.X, bo.Y
		case (bo.Op == token.GEQ || bo.Op == token.GTR) && onTrue:
			small, big = bo.Y, bo.X
		case (bo.Op == token.GTR || bo.Op == token.GEQ) && onFalse:
			small, big = bo.X, bo.Y
		case (bo.Op == token.LSS || bo.Op == token.LEQ) && onFalse:
			small, big = bo.Y, bo.X
		default:
			continue
		}
		so, bg := c.Origins(small, 0), c.Origins(big, 2) // the horizon may arrive as a parameter of a selection helper
		hasLatest, hasEarliest, hasHorizon := false, false, false
		for _, o := range so {
			if o.Kind == "field" {
				if fv, ok := o.Obj.(*types.Var); ok {
					if latest[fv] {
						hasLatest = true
					}
					if earliest[fv] {
						hasEarliest = true
					}
				}
			}
		}
		for _, o := range bg {
			if o.Kind == "call" && o.Obj == horizonFn {
				hasHorizon = true
			}
		}
		if !hasHorizon {
			// is the horizon on the small side (inverted comparison)?
			for _, o := range so {
				if o.Kind == "call" && o.Obj == horizonFn {
					return false, "the retention comparison is inverted: the segment is selected when the horizon is older than its newest event"
				}
			}
			continue
		}
		sawCompare = true
		if hasEarliest {
			return false, "the retention predicate compares the segment's earliest time: a segment that still contains events newer than the horizon would be deleted"
		}
		if hasLatest {
			return true, "dominated by latest-time <= retention horizon"
		}
		return false, "the value compared with the retention horizon does not depend on the entry's latest-time field"
	}
	if !sawCompare {
		return false, "the insertion into the victim map is not guarded by a comparison of the entry's newest event time with the retention horizon"
	}
	return false, "no accepting comparison found"
}

// localFlow: values computed from a seed within one function (operands -> results, no memory).
type localFlow map[ssa.Value]bool

func (l localFlow) from(v ssa.Value) {
	if l[v] {
		return
	}
	l[v] = true
	if refs := v.Referrers(); refs != nil {
		for _, in := range *refs {
			if val, ok := in.(ssa.Value); ok {
				if _, isCall := in.(*ssa.Call); isCall {
					if f := core.CalleeFunc(in.(ssa.CallInstruction)); f == nil || f.Pkg() == nil || (f.Pkg().Path() != "path" && f.Pkg().Path() != "path/filepath") {
						continue
					}
				}
				l.from(val)
			}
		}
	}
}

// checkDecodeTargetFresh — clause (6).  The metadata files (segmeta.json, metricmeta.json) hold one JSON object per
// line, written with `omitempty`: a field that has its zero value is simply absent from the line.  json.Unmarshal
// leaves absent fields of its target untouched, so a scan loop that decodes every line into the SAME variable
// carries the previous line's values into the next entry (a default-organisation segment that follows another
// organisation's line is rewritten with that organisation's id, and disappears from its owner's searches after a
// restart).  In every loop of the packages that read and rewrite these files, the target of a json.Unmarshal is a
// variable of the iteration: allocated inside the loop, or wholly re-assigned inside it before the decode.
func checkDecodeTargetFresh(c *core.Ctx, r *core.Report) {
	unmarshal := c.ExtObj("encoding/json", "Unmarshal")
	scope := map[string]bool{core.ModPath + "/" + pkgWriter: true, core.ModPath + "/" + pkgMMeta: true, core.ModPath + "/" + pkgRetention: true}
	n := 0
	perFn := map[string]int{}
	for _, fn := range c.RepoFunctions() {
		if !scope[core.FnPkgPath(fn)] {
			continue
		}
		loops := core.Loops(fn)
		for _, call := range callsTo(fn, unmarshal) {
			lp := core.InnermostLoop(loops, call.Block())
			if lp == nil || len(call.Call.Args) < 2 {
				continue
			}
			target := call.Call.Args[1]
			if mi, ok := target.(*ssa.MakeInterface); ok {
				target = mi.X
			}
			al, ok := target.(*ssa.Alloc)
			if !ok {
				continue
			}
			if _, isStruct := al.Type().Underlying().(*types.Pointer).Elem().Underlying().(*types.Struct); !isStruct {
				continue
			}
			n++
			perFn[shortFn(fn)]++
			fresh := lp.Body[al.Block()]
			if !fresh && al.Referrers() != nil {
				// wholly re-assigned in the loop before the decode
				for _, u := range *al.Referrers() {
					if st, ok := u.(*ssa.Store); ok && st.Addr == ssa.Value(al) && lp.Body[st.Block()] && core.InstrDominates(st, call) {
						fresh = true
					}
				}
			}
			construct := fmt.Sprintf("%s:json-decode#%d-into-a-variable-of-the-iteration", shortFn(fn), perFn[shortFn(fn)])
			r.Check(fresh, "LIVE", construct, c.Pos(call.Pos()), "the decode target is allocated (or wholly re-assigned) inside the scan loop",
				"every line of the file is decoded into the same variable: json.Unmarshal leaves fields that are absent from a line (omitempty: zero values) at the previous line's value, so an entry is rewritten with another entry's organisation / sizes / flags")
		}
	}
	r.Floor("LIVE", "per-line JSON decodes in the metadata file scans", n, 2)
}

// c14EveryVictimExamined — clause (2b).  The delete steps work through a batch of victims (a map or slice handed down
// from DeleteSegmentData / DeleteMetricsSegmentData).  In the functions of the delete cone (the two entry points and
// what they reach through static calls, three levels, inside the repository) a loop that ranges over a collection the
// function was given as a parameter is not left by a `return` that reports no error: one victim that needs no work
// (already gone from memory, file already removed) must not make the step skip the victims after it — their files and
// durable entries are removed by the other steps, and they would stay visible to searches until the restart.
// (`continue` and `break` out of a search are not returns; an error return abandons the step visibly.)
func c14EveryVictimExamined(c *core.Ctx, r *core.Report, roots []*ssa.Function) {
	cone := map[*ssa.Function]bool{}
	var order []*ssa.Function
	var add func(fn *ssa.Function, depth int)
	add = func(fn *ssa.Function, depth int) {
		if fn == nil || fn.Blocks == nil || cone[fn] || depth > 3 || !core.IsRepoPkg(core.FnPkgPath(fn)) {
			return
		}
		cone[fn] = true
		order = append(order, fn)
		for _, ci := range core.CallsIn(fn) {
			add(ci.Common().StaticCallee(), depth+1)
		}
	}
	for _, f := range roots {
		add(f, 0)
	}
	fromParam := func(v ssa.Value) bool {
		for d := 0; d < 4; d++ {
			switch x := v.(type) {
			case *ssa.Parameter:
				return true
			case *ssa.ChangeType:
				v = x.X
			case *ssa.Slice:
				v = x.X
			default:
				return false
			}
		}
		return false
	}
	// a return that abandons the step visibly: it reports an error, or — in a function without an error result —
	// it lies on the edge where some error value was found non-nil (`if err != nil { log; return }`)
	errT := types.Universe.Lookup("error").Type()
	abandons := func(fn *ssa.Function, ret *ssa.Return) bool {
		if core.ErrResultIndex(fn) >= 0 {
			return core.ReturnSuccess(ret) == core.No
		}
		for b := ret.Block(); b != nil && b.Idom() != nil; b = b.Idom() {
			idom := b.Idom()
			ifi, ok := core.LastIf(idom)
			if !ok || len(b.Preds) != 1 {
				continue
			}
			bo, ok := ifi.Cond.(*ssa.BinOp)
			if !ok || (bo.Op != token.NEQ && bo.Op != token.EQL) || !core.IsNilConst(bo.Y) || !types.Identical(bo.X.Type(), errT) {
				continue
			}
			nonNil := idom.Succs[0]
			if bo.Op == token.EQL {
				nonNil = idom.Succs[1]
			}
			if nonNil == b {
				return true
			}
		}
		return false
	}
	nLoops := 0
	for _, fn := range order {
		k := 0
		for _, l := range core.Loops(fn) {
			// a loop over a parameter: `range p` (map / string: a Range instruction; slice: len(p) in the header test)
			over := false
			for _, in := range l.Header.Instrs {
				switch x := in.(type) {
				case *ssa.Next:
					if rg, ok := x.Iter.(*ssa.Range); ok && fromParam(rg.X) {
						over = true
					}
				case *ssa.BinOp:
					for _, side := range []ssa.Value{x.X, x.Y} {
						if call, ok := side.(*ssa.Call); ok {
							if bi, ok := call.Call.Value.(*ssa.Builtin); ok && bi.Name() == "len" && fromParam(call.Call.Args[0]) {
								over = true
							}
						}
					}
				}
			}
			if !over {
				// go/ssa evaluates len(p) of a slice range before the loop
				for _, p := range l.Header.Preds {
					if l.Body[p] {
						continue
					}
					for _, in := range p.Instrs {
						if call, ok := in.(*ssa.Call); ok {
							if bi, ok := call.Call.Value.(*ssa.Builtin); ok && bi.Name() == "len" && fromParam(call.Call.Args[0]) {
								if refs := call.Referrers(); refs != nil {
									for _, u := range *refs {
										if bo, ok := u.(*ssa.BinOp); ok && bo.Block() == l.Header {
											over = true
										}
									}
								}
							}
						}
					}
				}
			}
			if !over {
				continue
			}
			nLoops++
			k++
			construct := fmt.Sprintf("%s:loop-over-the-batch#%d-examines-every-element", shortFn(fn), k)
			var bad *ssa.Return
			for b := range l.Body {
				if b == l.Header {
					continue
				}
				if ret, ok := b.Instrs[len(b.Instrs)-1].(*ssa.Return); ok {
					if abandons(fn, ret) {
						continue
					}
					if bad == nil || ret.Pos() < bad.Pos() {
						bad = ret
					}
				}
			}
			// returns in blocks outside the natural loop body but reached only from it (an `if .. { return }` arm)
			for _, e := range l.ExitEdges() {
				if e[0] == l.Header || e[1] == nil {
					continue
				}
				if ret, ok := e[1].Instrs[len(e[1].Instrs)-1].(*ssa.Return); ok && len(e[1].Preds) == 1 {
					if abandons(fn, ret) {
						continue
					}
					if bad == nil || ret.Pos() < bad.Pos() {
						bad = ret
					}
				}
			}
			if bad != nil {
				r.Violation("GUARD", construct, c.Pos(bad.Pos()), "a delete step returns from inside its loop over the batch without reporting an error: the elements after this one are not processed, although the other steps remove their files and durable entries — e.g. deleted segments stay in the in-memory index and keep being offered to searches until the restart")
			} else {
				r.OK("GUARD", construct, c.Pos(l.Header.Instrs[0].Pos()), "the loop is left only by exhaustion, break, or an error return")
			}
		}
	}
	r.Floor("GUARD", "loops over a batch of victims in the delete cone", nLoops, 3)
}

// c14SameVictimsForEveryStep — clause (2c).  The delete order (remote objects, local files, in-memory metadata,
// empty-PQ files, segmeta.json) is one pass over one set of victims.  In DeleteSegmentData every step that removes
// something durable or visible — RemoveSegBasedirs, the in-memory deletion, RemoveSegMetas — works on the same
// collection: the collection the function was given, or one local collection derived from it; a step's argument that
// is itself built by a loop (the set of base directories) is traced to the collection that loop ranges over.  When one
// step works on the full set and the others on a filtered one, a segment keeps its metadata while its files are gone
// (or the reverse), and search still targets it.
func c14SameVictimsForEveryStep(c *core.Ctx, r *core.Report, dsd *ssa.Function, isDelKey callPred) {
	removeBase := c.Obj(pkgWriter, "RemoveSegBasedirs")
	removeMetas := c.Obj(pkgWriter, "RemoveSegMetas")
	loops := core.Loops(dsd)
	// root of a collection value: the parameter, or the local map / slice it is; a local collection filled inside a
	// loop is traced to what that loop ranges over
	var root func(v ssa.Value, depth int) ssa.Value
	rangedIn := func(l *core.Loop) ssa.Value {
		for _, in := range l.Header.Instrs {
			if nx, ok := in.(*ssa.Next); ok {
				if rg, ok := nx.Iter.(*ssa.Range); ok {
					return rg.X
				}
			}
		}
		return nil
	}
	root = func(v ssa.Value, depth int) ssa.Value {
		if depth > 4 || v == nil {
			return v
		}
		switch x := v.(type) {
		case *ssa.Parameter:
			return x
		case *ssa.ChangeType:
			return root(x.X, depth+1)
		case *ssa.MakeMap:
			// filled in a loop over another collection?
			if refs := x.Referrers(); refs != nil {
				for _, u := range *refs {
					if mu, ok := u.(*ssa.MapUpdate); ok && mu.Map == ssa.Value(x) {
						if l := core.InnermostLoop(loops, mu.Block()); l != nil {
							// a projection (another element type: the set of base directories of the victims) stands
							// for the collection it was made from; a map of the same type is a selection of its own
							if src := rangedIn(l); src != nil && !types.Identical(src.Type(), x.Type()) {
								return root(src, depth+1)
							}
						}
					}
				}
			}
			return x
		}
		return v
	}
	type step struct {
		name string
		at   ssa.Instruction
		root ssa.Value
	}
	var steps []step
	for _, ci := range core.CallsIn(dsd) {
		switch {
		case core.IsCallTo(ci, removeBase) && len(ci.Common().Args) > 0:
			steps = append(steps, step{"RemoveSegBasedirs", ci, root(ci.Common().Args[0], 0)})
		case core.IsCallTo(ci, removeMetas) && len(ci.Common().Args) > 0:
			steps = append(steps, step{"RemoveSegMetas", ci, root(ci.Common().Args[0], 0)})
		case isDelKey(ci):
			// called with the collection, or per element inside a loop over it
			var rt ssa.Value
			if l := core.InnermostLoop(loops, ci.Block()); l != nil {
				rt = root(rangedIn(l), 0)
			} else if len(ci.Common().Args) > 0 {
				rt = root(ci.Common().Args[0], 0)
			}
			steps = append(steps, step{"in-memory deletion", ci, rt})
		}
	}
	construct := shortFn(dsd) + ":every-delete-step-works-on-the-same-victims"
	if len(steps) < 3 {
		r.Undecided("DEPENDS", construct, c.Pos(dsd.Pos()), fmt.Sprintf("expected the three delete steps (local files, in-memory metadata, segmeta.json), found %d", len(steps)))
		return
	}
	for _, s := range steps[1:] {
		if s.root == nil || steps[0].root == nil || s.root != steps[0].root {
			r.Violation("DEPENDS", construct, c.Pos(s.at.Pos()), fmt.Sprintf("%s and %s do not work on the same collection of victims (one of them on a filtered copy, the other on the full set): a segment left out of one step keeps its metadata while its files are deleted, or loses its metadata while its files stay", steps[0].name, s.name))
			return
		}
	}
	r.OK("DEPENDS", construct, c.Pos(steps[0].at.Pos()), fmt.Sprintf("%d steps, all on one collection", len(steps)))
}
