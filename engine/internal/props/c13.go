package props

import (
	"fmt"
	"go/token"
	"go/types"
	"sort"
	"strings"

	"golang.org/x/tools/go/ssa"

	"verif/engine/internal/core"
)

func init() { register("C13", checkC13) }

const pkgVTable = "pkg/virtualtable"

func checkC13(c *core.Ctx, r *core.Report) {
	r.Explanation = "C13 (searches see only the requested indexes of the requesting tenant), filter presence and keying only: " +
		"(1) GUARD tenant filter — in every function that takes an organisation id (an int64 / Option[int64] parameter) and loops over a collection whose elements carry an organisation field (SegStore.OrgId, UnrotatedSegmentInfo.orgid, SegMeta.OrgId, MetricsSegment.Orgid, MetricsMeta.OrgId), a comparison of the element's organisation with that parameter exists and every data-carrying effect of the loop (map update, append, delete) is control-dependent on it; " +
		"(2) keying — every access of a per-organisation map (map[int64]…: allVirtualTables, aliasToIndexNames, the saved-query and dashboard stores) in a function that takes an organisation id is keyed by that parameter (or by the key of a range over the same map); " +
		"(3) segment selection receives the caller's organisation: the org argument of FilterUnrotatedSegmentsInQuery / FilterSegmentsByTime traces back to a parameter or a field of the query information, never to a constant; " +
		"(4) alias removal/addition changes the in-memory alias table on every success path that changed the alias file; " +
		"(6) every deleting call of deleteIndex is given the caller's organisation (a function that selects by index name alone deletes the same-named index of every tenant); " +
		"(8) RANGEDEL — no range loop over a slice read from a struct field calls (transitively) a function that rewrites that field (an in-place removal under a running range loop skips every second element: a deleted index stays partly visible); " +
		"(5) KEYSEP — the functions that build stream ids and segment keys from (index, organisation, suffix) never concatenate two variable parts without a literal separator (ambiguous keys merge tenants)."
	r.NotCovered = "wildcard/alias expansion semantics, prefix-named indexes, whether the deleting functions that do receive the organisation use it on every structure (metadata.deleteTable drops the table entry of all tenants), data of other indexes through shared files"
	checkScannerBytesNotRetained(c, r)

	orgFields := map[*types.Var]string{
		c.Field(pkgWriter, "SegStore.OrgId"):             "SegStore",
		c.Field(pkgWriter, "UnrotatedSegmentInfo.orgid"): "UnrotatedSegmentInfo",
		c.Field(pkgStructs, "SegMeta.OrgId"):             "SegMeta",
		c.Field(pkgMetrics, "MetricsSegment.Orgid"):      "MetricsSegment",
		c.Field(pkgStructs, "MetricsMeta.OrgId"):         "MetricsMeta",
	}

	// ---------------------------------------------------------------- (1)
	nFns := 0
	for _, fn := range c.RepoFunctions() {
		if fn.Parent() != nil {
			continue
		}
		orgParams := orgParamsOf(fn)
		if len(orgParams) == 0 {
			continue
		}
		loops := core.Loops(fn)
		if len(loops) == 0 {
			continue
		}
		// org-field loads inside loops
		type load struct {
			in   *ssa.UnOp
			loop *core.Loop
			fld  *types.Var
		}
		var loads []load
		for _, b := range fn.Blocks {
			for _, in := range b.Instrs {
				u, ok := in.(*ssa.UnOp)
				if !ok || u.Op != token.MUL {
					continue
				}
				fa, ok := u.X.(*ssa.FieldAddr)
				if !ok {
					continue
				}
				f := core.FieldOfAddr(fa)
				if _, isOrg := orgFields[f]; !isOrg {
					continue
				}
				if l := core.InnermostLoop(loops, b); l != nil {
					loads = append(loads, load{u, l, f})
				}
			}
		}
		name := shortFn(fn)
		// a predicate helper that compares the element's organisation with its organisation parameter and can answer
		// true only where they are equal (elem.isInRangeForOrg(range, org)) is as good as the inline comparison
		var helperCalls []*ssa.Call
		for _, b := range fn.Blocks {
			if core.InnermostLoop(loops, b) == nil {
				continue
			}
			for _, in := range b.Instrs {
				call, ok := in.(*ssa.Call)
				if !ok {
					continue
				}
				callee := call.Call.StaticCallee()
				if callee == nil {
					continue
				}
				oi, ok := tenantPredicate(callee, orgFields)
				if !ok || oi >= len(call.Call.Args) {
					continue
				}
				for _, p := range orgParams {
					if call.Call.Args[oi] == ssa.Value(p) {
						helperCalls = append(helperCalls, call)
					}
				}
			}
		}
		if len(loads) == 0 && len(helperCalls) > 0 {
			nFns++
			isHelper := func(v ssa.Value) bool {
				for _, hc := range helperCalls {
					if v == ssa.Value(hc) {
						return true
					}
				}
				return false
			}
			bad, nEff := 0, 0
			seenLoop := map[*core.Loop]bool{}
			for _, hc := range helperCalls {
				lp := core.InnermostLoop(loops, hc.Block())
				if lp == nil || seenLoop[lp] {
					continue
				}
				seenLoop[lp] = true
				var blocks []*ssa.BasicBlock
				for b := range lp.Body {
					blocks = append(blocks, b)
				}
				sort.Slice(blocks, func(i, j int) bool { return blocks[i].Index < blocks[j].Index })
				for _, b := range blocks {
					for _, in := range b.Instrs {
						if !dataEffect(in) {
							continue
						}
						nEff++
						if !controlledBy(b, lp, isHelper) {
							bad++
							r.Violation("GUARD", fmt.Sprintf("%s:effect-under-tenant-filter#%d", name, bad), c.Pos(in.Pos()), "this effect of the enumeration (map update / append / delete) is not control-dependent on the tenant predicate: elements of other tenants reach the result")
						}
					}
				}
			}
			if bad == 0 {
				r.OK("GUARD", name+":tenant-filter", c.Pos(fn.Pos()), fmt.Sprintf("%d data-carrying effects, all control-dependent on a predicate helper that is true only where element.org == caller's org", nEff))
			}
			continue
		}
		if len(loads) == 0 {
			// no organisation field is read: does the function nevertheless enumerate organisation-tagged elements
			// (reads other fields of loop-variant values of a tagged struct type)?
			tagged := map[string]bool{}
			for _, tn := range orgFields {
				tagged[tn] = true
			}
			var at ssa.Instruction
			for _, b := range fn.Blocks {
				l := core.InnermostLoop(loops, b)
				if l == nil {
					continue
				}
				for _, in := range b.Instrs {
					fa, ok := in.(*ssa.FieldAddr)
					if !ok {
						continue
					}
					pt, ok := fa.X.Type().Underlying().(*types.Pointer)
					if !ok {
						continue
					}
					n, ok := pt.Elem().(*types.Named)
					if !ok || !tagged[n.Obj().Name()] || !core.IsRepoPkg(n.Obj().Pkg().Path()) {
						continue
					}
					// loop-variant base: defined inside the loop (range element, map lookup ...)
					if def, ok := fa.X.(ssa.Instruction); ok && l.Body[def.Block()] {
						if _, isParam := fa.X.(*ssa.Parameter); !isParam && elementOfSharedTable(c, fa.X) {
							at = in
						}
					}
				}
			}
			if at != nil && enumeratesForCaller(fn) {
				nFns++
				r.Violation("GUARD", name+":tenant-filter", c.Pos(at.Pos()), "the function takes an organisation id and loops over organisation-tagged elements but never reads their organisation: the enumeration is not filtered by tenant")
			}
			continue
		}
		nFns++
		// comparisons elem.org <op> P
		isOrgLoad := map[ssa.Value]bool{}
		for _, l := range loads {
			isOrgLoad[l.in] = true
		}
		isOrgParam := func(v ssa.Value) bool {
			for _, p := range orgParams {
				if v == ssa.Value(p) {
					return true
				}
				// Option[int64].Get() result
				if ex, ok := v.(*ssa.Extract); ok {
					if call, ok := ex.Tuple.(*ssa.Call); ok && len(call.Call.Args) > 0 {
						if a := call.Call.Args[0]; a == ssa.Value(p) || loadsFrom(a, p) {
							return true
						}
					}
				}
			}
			return false
		}
		isFilterCmp := func(v ssa.Value) bool {
			bo, ok := v.(*ssa.BinOp)
			if !ok || (bo.Op != token.EQL && bo.Op != token.NEQ) {
				return false
			}
			return (isOrgLoad[bo.X] && isOrgParam(bo.Y)) || (isOrgLoad[bo.Y] && isOrgParam(bo.X))
		}
		hasCmp := false
		for _, b := range fn.Blocks {
			for _, in := range b.Instrs {
				if v, ok := in.(ssa.Value); ok && isFilterCmp(v) {
					hasCmp = true
				}
			}
		}
		construct := name + ":tenant-filter"
		if !hasCmp {
			r.Violation("GUARD", construct, c.Pos(loads[0].in.Pos()), "the function takes an organisation id and reads the organisation of the elements it loops over, but never compares the two: data of other tenants is processed")
			continue
		}
		// effects in those loops must be control-dependent on the comparison
		seenLoop := map[*core.Loop]bool{}
		bad := 0
		nEff := 0
		for _, l := range loads {
			if seenLoop[l.loop] {
				continue
			}
			seenLoop[l.loop] = true
			var blocks []*ssa.BasicBlock
			for b := range l.loop.Body {
				blocks = append(blocks, b)
			}
			sort.Slice(blocks, func(i, j int) bool { return blocks[i].Index < blocks[j].Index })
			for _, b := range blocks {
				for _, in := range b.Instrs {
					if !dataEffect(in) {
						continue
					}
					nEff++
					if !controlledBy(b, l.loop, isFilterCmp) {
						bad++
						r.Violation("GUARD", fmt.Sprintf("%s:effect-under-tenant-filter#%d", name, bad), c.Pos(in.Pos()), "this effect of the enumeration (map update / append / delete) is not control-dependent on the comparison of the element's organisation with the caller's: elements of other tenants reach the result")
					}
				}
			}
		}
		// an element handed to a callback (visit(index, smi)) leaves the enumeration like an append does: the call is
		// control-dependent, inside the loop that yields that element, on the comparison of THAT element's
		// organisation with the caller's (a test made once per table on its first element is not a filter)
		for _, b := range fn.Blocks {
			lp := core.InnermostLoop(loops, b)
			if lp == nil {
				continue
			}
			for _, in := range b.Instrs {
				call, ok := in.(*ssa.Call)
				if !ok || call.Call.IsInvoke() {
					continue
				}
				switch call.Call.Value.(type) {
				case *ssa.Parameter, *ssa.FreeVar:
				default:
					continue
				}
				for _, a := range call.Call.Args {
					pt, ok := a.Type().Underlying().(*types.Pointer)
					if !ok {
						continue
					}
					nt, ok := pt.Elem().(*types.Named)
					if !ok {
						continue
					}
					// the type carries an organisation: it is a tagged struct or embeds one
					tagged := false
					var hasTag func(t types.Type, depth int) bool
					hasTag = func(t types.Type, depth int) bool {
						if n, ok := t.(*types.Named); ok {
							for _, tn := range orgFields {
								if tn == n.Obj().Name() {
									return true
								}
							}
						}
						if st, ok := t.Underlying().(*types.Struct); ok && depth < 2 {
							for i := 0; i < st.NumFields(); i++ {
								if st.Field(i).Embedded() && hasTag(st.Field(i).Type(), depth+1) {
									return true
								}
							}
						}
						return false
					}
					tagged = hasTag(nt, 0)
					if def, ok := a.(ssa.Instruction); !tagged || !ok || !lp.Body[def.Block()] {
						continue // not an element produced by this loop
					}
					nEff++
					elem := a
					ofThisElement := func(v ssa.Value) bool {
						bo, ok := v.(*ssa.BinOp)
						if !ok || (bo.Op != token.EQL && bo.Op != token.NEQ) {
							return false
						}
						for _, side := range [][2]ssa.Value{{bo.X, bo.Y}, {bo.Y, bo.X}} {
							if !isOrgParam(side[1]) {
								continue
							}
							if ld, ok := side[0].(*ssa.UnOp); ok {
								if fa, ok := ld.X.(*ssa.FieldAddr); ok {
									base := fa.X
									if inner, ok := base.(*ssa.FieldAddr); ok {
										base = inner.X // the organisation lives in an embedded struct
									}
									if _, isOrg := orgFields[core.FieldOfAddr(fa)]; isOrg && base == elem {
										return true
									}
								}
							}
						}
						return false
					}
					if !controlledBy(b, lp, ofThisElement) {
						bad++
						r.Violation("GUARD", fmt.Sprintf("%s:effect-under-tenant-filter#%d", name, bad), c.Pos(call.Pos()), "an element of a table shared by all organisations is handed to the caller's callback without its own organisation having been compared with the caller's inside the loop that yields it (a test on another element, or once per table, is not a filter): segments of other tenants reach the result")
					}
				}
			}
		}
		if bad == 0 {
			r.OK("GUARD", construct, c.Pos(fn.Pos()), fmt.Sprintf("%d data-carrying effects, all control-dependent on element.org == caller's org", nEff))
		}
	}
	r.Floor("GUARD", "tenant-filtered enumerations", nFns, 8)

	// ---------------------------------------------------------------- (2)
	nKeyed := 0
	for _, fn := range c.RepoFunctions() {
		top := fn
		for top.Parent() != nil {
			top = top.Parent()
		}
		orgParams := orgParamsOf(top)
		if len(orgParams) == 0 {
			continue
		}
		for _, b := range fn.Blocks {
			for _, in := range b.Instrs {
				var m, key ssa.Value
				switch x := in.(type) {
				case *ssa.Lookup:
					m, key = x.X, x.Index
				case *ssa.MapUpdate:
					m, key = x.Map, x.Key
				default:
					continue
				}
				ld, ok := m.(*ssa.UnOp)
				if !ok {
					continue
				}
				g, ok := ld.X.(*ssa.Global)
				if !ok || !core.IsRepoPkg(g.Pkg.Pkg.Path()) {
					continue
				}
				mt, ok := g.Type().(*types.Pointer).Elem().Underlying().(*types.Map)
				if !ok {
					continue
				}
				kb, ok := mt.Key().Underlying().(*types.Basic)
				if !ok || kb.Kind() != types.Int64 {
					continue
				}
				nKeyed++
				okKey := false
				for _, o := range c.Origins(key, 0) {
					switch o.Kind {
					case "param", "free":
						okKey = true
					case "other":
						// key of a range over a map (iteration over all tenants)
						if ex, isEx := o.Val.(*ssa.Extract); isEx {
							if _, isNext := ex.Tuple.(*ssa.Next); isNext {
								okKey = true
							}
						}
					case "call":
						okKey = true // e.g. Option.Get() of the parameter
					}
				}
				construct := fmt.Sprintf("%s:per-org-map(%s)-keyed-by-org-parameter", shortFn(fn), g.Name())
				if okKey {
					r.OK("HELD", construct, c.Pos(in.Pos()), "keyed by the function's organisation parameter")
				} else {
					r.Violation("HELD", construct, c.Pos(in.Pos()), "a per-organisation table is indexed with a constant or unrelated value instead of the caller's organisation id")
				}
			}
		}
	}
	r.Floor("HELD", "per-organisation map accesses", nKeyed, 10)

	// ---------------------------------------------------------------- (3)
	for _, target := range []struct{ pkg, name string }{{pkgWriter, "FilterUnrotatedSegmentsInQuery"}, {pkgMeta, "FilterSegmentsByTime"}} {
		obj := c.Obj(target.pkg, target.name)
		n := 0
		for _, fn := range c.RepoFunctions() {
			for _, call := range callsTo(fn, obj) {
				n++
				arg := call.Call.Args[len(call.Call.Args)-1]
				constant := false
				for _, o := range c.Origins(arg, 3) {
					if o.Kind == "const" {
						constant = true
					}
				}
				r.Check(!constant, "DEPENDS", fmt.Sprintf("%s:%s-gets-callers-org", shortFn(fn), target.name), c.Pos(call.Pos()), "the organisation argument derives from a parameter / the query information", "segment selection is called with a constant organisation id")
			}
		}
		r.Floor("DEPENDS", "callers of "+target.name, n, 1)
	}

	// ---------------------------------------------------------------- (4)
	aliasMap := c.Global(pkgVTable, "aliasToIndexNames")
	// the alias file changes are found by effect (a write / remove below the alias directory, or a call of a
	// package function hosting one), so that inlining writeAliasFile / removeAliasFile changes nothing here
	fileChange := findAliasFiles(c)
	memChangers := map[*ssa.Function]bool{}
	for _, fn := range c.RepoFunctions() {
		for _, b := range fn.Blocks {
			for _, in := range b.Instrs {
				if touchesMapDeep(in, aliasMap) {
					memChangers[fn] = true
				}
			}
		}
	}
	for _, fname := range []string{"AddAliases", "RemoveAliases"} {
		fn := c.Fn(pkgVTable, fname)
		// the entry point may only forward (a ...WithCount / ...WithOptions variant holds the body): the clause
		// then applies to the one function of the package it calls that changes an alias file
		{
			own := false
			for _, ci := range core.CallsIn(fn) {
				if fileChange.isChange(ci) {
					own = true
				}
			}
			if !own {
				var cands []*ssa.Function
				for _, ci := range core.CallsIn(fn) {
					h := ci.Common().StaticCallee()
					if h == nil || h.Blocks == nil || h.Parent() != nil || core.FnPkgPath(h) != core.FnPkgPath(fn) {
						continue
					}
					changes := false
					for _, cj := range core.CallsIn(h) {
						if fileChange.isChange(cj) {
							changes = true
						}
					}
					dup := false
					for _, x := range cands {
						if x == h {
							dup = true
						}
					}
					if changes && !dup {
						cands = append(cands, h)
					}
				}
				if len(cands) == 1 {
					fn = cands[0]
				}
			}
		}
		construct := fmt.Sprintf("%s:alias-file-change-implies-in-memory-change", shortFn(fn))
		isMem := func(in ssa.Instruction) bool {
			if touchesMapDeep(in, aliasMap) {
				return true
			}
			if ci, ok := in.(ssa.CallInstruction); ok {
				if callee := ci.Common().StaticCallee(); callee != nil && memChangers[callee] && callee != fn {
					return true
				}
			}
			return false
		}
		// a loop whose body performs the in-memory change counts as performing it (it iterates over the aliases being
		// changed, of which there is at least one: empty requests are rejected at the top)
		memLoopHeader := map[*ssa.BasicBlock]bool{}
		for _, l := range core.Loops(fn) {
			for b := range l.Body {
				for _, in := range b.Instrs {
					if isMem(in) {
						memLoopHeader[l.Header] = true
					}
				}
			}
		}
		isMemOrLoop := func(in ssa.Instruction) bool {
			if isMem(in) {
				return true
			}
			return memLoopHeader[in.Block()] && in == in.Block().Instrs[0]
		}
		var leak ssa.Instruction
		nChange := 0
		for _, ci := range core.CallsIn(fn) {
			if !fileChange.isChange(ci) {
				continue
			}
			nChange++
			// is a memory change already done before this file change on every path?
			before := true
			core.WalkForward(fn, nil, func(in ssa.Instruction) bool {
				if isMemOrLoop(in) {
					return false
				}
				if in == ssa.Instruction(ci) {
					before = false
				}
				return true
			})
			if before {
				continue
			}
			core.WalkForward(fn, ci, func(in ssa.Instruction) bool {
				if isMemOrLoop(in) {
					return false
				}
				if ret, ok := in.(*ssa.Return); ok && core.ReturnSuccess(ret) != core.No {
					// returning the file operation's own error is a success when it is nil
					leak = ret
				}
				return true
			})
			// the call may itself be the returned value: `return removeAliasFile(..)`
			if call, ok := ci.(*ssa.Call); ok && leak == nil {
				if refs := call.Referrers(); refs != nil {
					for _, u := range *refs {
						if ret, ok := u.(*ssa.Return); ok && core.ReturnSuccess(ret) != core.No {
							leak = ret
						}
					}
				}
			}
		}
		if nChange == 0 {
			r.Undecided("PERSIST", construct, c.Pos(fn.Pos()), "no alias file change found in this function")
			continue
		}
		if leak != nil {
			r.Violation("PERSIST", construct, c.Pos(leak.Pos()), "a success return is reachable after the alias file was changed without the in-memory alias table being updated: until the next restart searches keep resolving the alias the old way")
		} else {
			r.OK("PERSIST", construct, c.Pos(fn.Pos()), "every success path that changes the alias file also updates the in-memory table")
		}
	}

	// ---------------------------------------------------------------- (5)
	for _, kb := range []struct{ pkg, name string }{
		{pkgUtils, "CreateStreamId"}, {pkgUtils, "CreateStreamIdForMetrics"}, {pkgConfig, "GetSegKey"}, {pkgConfig, "GetBaseSegDir"}, {pkgConfig, "GetBaseVTableDir"}, {pkgConfig, "GetSuffixFile"},
	} {
		fn := c.Fn(kb.pkg, kb.name)
		construct := shortFn(fn) + ":key-parts-separated"
		bad := ""
		for _, b := range fn.Blocks {
			for _, in := range b.Instrs {
				switch x := in.(type) {
				case *ssa.BinOp:
					if x.Op != token.ADD {
						continue
					}
					if bt, ok := x.Type().Underlying().(*types.Basic); !ok || bt.Info()&types.IsString == 0 {
						continue
					}
					// judge whole concatenations: flatten a + b + c ... into its leaves (only at the root of the
					// chain), drop process-wide constants (argument-less configuration getters such as
					// GetDataPath(), GetHostID(): not parts of the key), and require a literal between any two
					// variable leaves
					isRoot := true
					if refs := x.Referrers(); refs != nil {
						for _, u := range *refs {
							if pb, ok := u.(*ssa.BinOp); ok && pb.Op == token.ADD {
								isRoot = false
							}
						}
					}
					if !isRoot {
						continue
					}
					prevVariable := false
					for _, leaf := range concatLeaves(x, 0) {
						switch {
						case isLiteralLeaf(leaf):
							prevVariable = false
						case isProcessConstant(leaf):
							// transparent
						default:
							if prevVariable {
								bad = "two variable strings are concatenated without a literal between them"
							}
							prevVariable = true
						}
					}
				case *ssa.Call:
					f := core.CalleeFunc(x)
					if f != nil && f.Pkg() != nil && f.Pkg().Path() == "fmt" && f.Name() == "Sprintf" {
						if format, ok := core.ConstStringValue(x.Call.Args[0]); ok {
							// "%s%d" is fine when the first part is the result of a directory builder (ends with a separator)
							dirFirst := false
							if len(x.Call.Args) > 1 {
								for _, o := range c.Origins(x.Call.Args[1], 0) {
									if o.Kind == "call" && o.Obj != nil && strings.HasPrefix(o.Obj.Name(), "GetBase") {
										dirFirst = true
									}
								}
							}
							if adjacentVerbs(format) && !dirFirst {
								bad = fmt.Sprintf("format %q has two verbs with nothing between them", format)
							}
						}
					}
				}
			}
		}
		// the strings.Builder spelling of the same concatenation: straight-line WriteString calls on one builder
		{
			byBuilder := map[ssa.Value][]*ssa.Call{}
			straight := true
			for _, b := range fn.Blocks {
				for _, in := range b.Instrs {
					ws, ok := in.(*ssa.Call)
					if !ok {
						continue
					}
					wf := core.CalleeFunc(ws)
					if wf == nil || wf.Name() != "WriteString" || wf.Pkg() == nil || wf.Pkg().Path() != "strings" || len(ws.Call.Args) != 2 {
						continue
					}
					if b != fn.Blocks[0] {
						straight = false
					}
					byBuilder[ws.Call.Args[0]] = append(byBuilder[ws.Call.Args[0]], ws)
				}
			}
			if straight {
				for _, writes := range byBuilder {
					prevVariable := false
					for _, ws := range writes {
						for _, leaf := range concatLeaves(ws.Call.Args[1], 0) {
							switch {
							case isLiteralLeaf(leaf):
								prevVariable = false
							case isProcessConstant(leaf):
							default:
								if prevVariable {
									bad = "two variable strings are written to the builder one after the other without a literal between them"
								}
								prevVariable = true
							}
						}
					}
				}
			}
		}
		if bad != "" {
			r.Violation("KEYSEP", construct, c.Pos(fn.Pos()), "the key is ambiguous: "+bad+" — e.g. (index \"app1\", org 2) and (index \"app\", org 12) get the same key, so two tenants share one open segment store")
		} else {
			r.OK("KEYSEP", construct, c.Pos(fn.Pos()), "variable parts are separated by literals or hashed separately")
		}
	}

	// ---------------------------------------------------------------- (5b) composite lookup keys anywhere
	// A key made by writing a number (an organisation id, a suffix) directly next to a variable string, with no literal
	// between them, is ambiguous: (1, "2logs") and (12, "logs") collide.  For every string concatenation in the
	// repository one of whose operands is a formatted integer (strconv.Itoa / FormatInt / FormatUint) and the other a
	// non-constant string, the result is not used as the key of a map or sync.Map operation.
	{
		isNumStr := func(v ssa.Value) bool {
			call, ok := v.(*ssa.Call)
			if !ok {
				return false
			}
			f := core.CalleeFunc(call)
			return f != nil && f.Pkg() != nil && f.Pkg().Path() == "strconv" && (f.Name() == "Itoa" || f.Name() == "FormatInt" || f.Name() == "FormatUint")
		}
		usedAsKey := func(v ssa.Value) ssa.Instruction {
			seen := map[ssa.Value]bool{}
			var walk func(v ssa.Value, depth int) ssa.Instruction
			walk = func(v ssa.Value, depth int) ssa.Instruction {
				if seen[v] || depth > 4 || v.Referrers() == nil {
					return nil
				}
				seen[v] = true
				for _, u := range *v.Referrers() {
					switch x := u.(type) {
					case *ssa.Lookup:
						if x.Index == v {
							if _, isMap := x.X.Type().Underlying().(*types.Map); isMap {
								return u
							}
						}
					case *ssa.MapUpdate:
						if x.Key == v {
							return u
						}
					case *ssa.MakeInterface, *ssa.Phi, *ssa.ChangeType:
						if k := walk(x.(ssa.Value), depth+1); k != nil {
							return k
						}
					case ssa.CallInstruction:
						f := core.CalleeFunc(x)
						if f != nil && f.Pkg() != nil && f.Pkg().Path() == "sync" {
							if sig, ok := f.Type().(*types.Signature); ok && sig.Recv() != nil && strings.HasSuffix(sig.Recv().Type().String(), "sync.Map") {
								if args := x.Common().Args; len(args) >= 2 && args[1] == v {
									return u
								}
							}
						}
						if bi, ok := x.Common().Value.(*ssa.Builtin); ok && bi.Name() == "delete" && len(x.Common().Args) == 2 && x.Common().Args[1] == v {
							return u
						}
					}
				}
				return nil
			}
			return walk(v, 0)
		}
		nConcat, nBad := 0, 0
		for _, fn := range c.RepoFunctions() {
			k := 0
			for _, b := range fn.Blocks {
				for _, in := range b.Instrs {
					bo, ok := in.(*ssa.BinOp)
					if !ok || bo.Op != token.ADD || !(isNumStr(bo.X) || isNumStr(bo.Y)) {
						continue
					}
					other := bo.X
					if isNumStr(bo.X) {
						other = bo.Y
					}
					if _, isK := other.(*ssa.Const); isK || isNumStr(other) && false {
						continue
					}
					if !variablePart(other) {
						continue
					}
					nConcat++
					if at := usedAsKey(bo); at != nil {
						k++
						nBad++
						r.Violation("KEYSEP", fmt.Sprintf("%s:composite-key#%d-has-a-separator", shortFn(fn), k), c.Pos(at.Pos()), "a lookup key is built by writing a formatted number directly next to a variable string: (1, \"2logs\") and (12, \"logs\") give the same key, so two organisations (or two suffixes) share one entry — e.g. one tenant's events are written into the other tenant's open segment")
					}
				}
			}
		}
		r.Count("number_next_to_variable_string_concatenations", nConcat)
		if nBad == 0 {
			r.OK("KEYSEP", "no-ambiguous-composite-lookup-keys", "-", fmt.Sprintf("%d concatenations of a formatted number with a variable string, none used as a map key", nConcat))
		}
	}

	// ---------------------------------------------------------------- (7) a wildcard expression selects by an anchored, quoted pattern
	// In the index-expression expanders (virtualtable.ExpandAndReturnIndexNames for searches and deletes, the
	// _resolve handler) a name enumerated from the tenant's tables is admitted by a wildcard expression only where a
	// regular-expression match is known true, every function that the match call can invoke is a Match method of
	// *regexp.Regexp, and each regular expression compiled in the function is "^" + P + "$" with
	// P = ReplaceAll(QuoteMeta(expression), `\*`, ".*"): anchored at both ends, only "*" is a wildcard.
	for _, ex := range []struct{ pkg, name string }{{"pkg/virtualtable", "ExpandAndReturnIndexNames"}, {"pkg/es/reader", "ExpandAndReturnIndexNames"}} {
		fn := c.Fn(ex.pkg, ex.name)
		name := shortFn(fn)
		// (a) compiled patterns
		nComp := 0
		// the function and the helpers of its own package that it calls (the pattern may be built in a helper)
		cone := []*ssa.Function{fn}
		inCone := map[*ssa.Function]bool{fn: true}
		for i := 0; i < len(cone) && i < 8; i++ {
			for _, ci := range core.CallsIn(cone[i]) {
				if callee := ci.Common().StaticCallee(); callee != nil && !inCone[callee] && core.FnPkgPath(callee) == core.FnPkgPath(fn) && callee.Blocks != nil {
					for _, cc := range core.CallsIn(callee) {
						if f := core.CalleeFunc(cc); f != nil && f.Pkg() != nil && f.Pkg().Path() == "regexp" {
							inCone[callee] = true
							cone = append(cone, callee)
							break
						}
					}
				}
			}
		}
		var compiles []ssa.CallInstruction
		for _, cf := range cone {
			compiles = append(compiles, core.CallsIn(cf)...)
		}
		for _, ci := range compiles {
			f := core.CalleeFunc(ci)
			if f == nil || f.Pkg() == nil || f.Pkg().Path() != "regexp" || (f.Name() != "Compile" && f.Name() != "MustCompile") {
				continue
			}
			nComp++
			patternArg := ci.Common().Args[0]
			// a helper that compiles its parameter: judge the argument of its (only) call in the cone
			for hops := 0; hops < 3; hops++ {
				par, ok := patternArg.(*ssa.Parameter)
				if !ok {
					break
				}
				var args []ssa.Value
				for _, cf := range cone {
					for _, cc := range core.CallsIn(cf) {
						if cc.Common().StaticCallee() == par.Parent() {
							for pi, q := range par.Parent().Params {
								if q == par && pi < len(cc.Common().Args) {
									args = append(args, cc.Common().Args[pi])
								}
							}
						}
					}
				}
				if len(args) != 1 {
					break
				}
				patternArg = args[0]
			}
			parts := concatParts(patternArg, 0)
			anchored := len(parts) >= 3
			if anchored {
				a, ok1 := core.ConstStringValue(parts[0])
				z, ok2 := core.ConstStringValue(parts[len(parts)-1])
				anchored = ok1 && ok2 && a == "^" && z == "$"
			}
			quoted := false
			if anchored && len(parts) == 3 {
				if call, ok := parts[1].(*ssa.Call); ok {
					if rf := core.CalleeFunc(call); rf != nil && rf.Pkg() != nil && rf.Pkg().Path() == "strings" && rf.Name() == "ReplaceAll" {
						old, ok1 := core.ConstStringValue(call.Call.Args[1])
						nw, ok2 := core.ConstStringValue(call.Call.Args[2])
						if q, ok := call.Call.Args[0].(*ssa.Call); ok && ok1 && ok2 && old == `\*` && nw == ".*" {
							if qf := core.CalleeFunc(q); qf != nil && qf.Pkg() != nil && qf.Pkg().Path() == "regexp" && qf.Name() == "QuoteMeta" {
								quoted = true
							}
						}
					}
				}
			}
			construct := fmt.Sprintf("%s:wildcard-pattern#%d-is-anchored-and-quoted", name, nComp)
			switch {
			case !anchored:
				r.Violation("FILTER", construct, c.Pos(ci.Pos()), "the regular expression made from a wildcard index expression is not anchored with ^ and $: the expression selects every index that merely contains a match")
			case !quoted:
				r.Violation("FILTER", construct, c.Pos(ci.Pos()), "the wildcard index expression is not quoted (regexp.QuoteMeta) before its * are expanded: other metacharacters keep their regexp meaning (logs.app* also selects logsXapp1), so a search or delete touches indexes the expression does not name")
			default:
				r.OK("FILTER", construct, c.Pos(ci.Pos()), "^ + ReplaceAll(QuoteMeta(expression), `\\*`, `.*`) + $")
			}
		}
		r.Floor("FILTER", "regular expressions compiled in "+name, nComp, 1)
		// (b) admissions in loops over enumerated names are guarded by a regexp match
		isRegexpMatch := func(callee *ssa.Function) bool {
			if callee == nil || callee.Signature.Recv() == nil {
				// bound method closures of go/ssa: Regexp.MatchString$bound
				return callee != nil && strings.Contains(callee.String(), "regexp.Regexp).Match")
			}
			return strings.HasSuffix(callee.Signature.Recv().Type().String(), "regexp.Regexp") && strings.HasPrefix(callee.Name(), "Match")
		}
		var matchCalls []*ssa.Call
		var otherGuards []*ssa.Call
		// over the function and the helpers of the cone (the enumeration loops may have moved into one)
		var coneCalls []ssa.CallInstruction
		for _, cf := range cone {
			coneCalls = append(coneCalls, core.CallsIn(cf)...)
		}
		for _, ci := range coneCalls {
			call, ok := ci.(*ssa.Call)
			if !ok {
				continue
			}
			if rb, ok := call.Type().Underlying().(*types.Basic); !ok || rb.Kind() != types.Bool {
				continue
			}
			if callee := call.Call.StaticCallee(); callee != nil {
				if isRegexpMatch(callee) {
					matchCalls = append(matchCalls, call)
				}
				continue
			}
			// dynamic call of a function value: all targets must be regexp matches
			targets := funcValues(call.Call.Value)
			all := len(targets) > 0
			for _, t := range targets {
				if !isRegexpMatch(t) {
					all = false
				}
			}
			if all {
				matchCalls = append(matchCalls, call)
			} else {
				otherGuards = append(otherGuards, call)
			}
		}
		nAdm := 0
		for _, g := range otherGuards {
			// a boolean function value that is not (only) a regexp match decides inside an enumeration loop
			if lp := core.InnermostLoop(core.Loops(g.Parent()), g.Block()); lp != nil {
				if _, isIf := core.LastIf(g.Block()); isIf || true {
					nAdm++
					r.Violation("FILTER", fmt.Sprintf("%s:name-admitted-by-a-regexp-match#%d", name, nAdm), c.Pos(g.Pos()), "inside the enumeration of the tenant's index / alias names the decision is taken by a function value that is not (only) a match of the anchored regular expression: a shortcut (prefix / suffix comparison) does not mean the same as the expression for expressions with several wildcards, so indexes the expression does not name are searched or deleted")
				}
			}
		}
		r.Floor("FILTER", "regexp matches deciding in "+name, len(matchCalls)+len(otherGuards), 2)
		if nAdm == 0 {
			r.OK("FILTER", name+":names-admitted-by-a-regexp-match", c.Pos(fn.Pos()), fmt.Sprintf("%d match calls, all of them (*regexp.Regexp).Match*", len(matchCalls)))
		}
	}

	checkNoRemovalWhileRanging(c, r, []string{"pkg/segment/metadata", "pkg/segment/writer", "pkg/virtualtable", "pkg/segment/query"})

	// ---------------------------------------------------------------- (6) an index is deleted for one tenant only
	{
		// the function that deletes an index on a request: deleteIndex, or — when it is written out in its caller —
		// the function of the package that calls writer.DeleteSegmentsForIndex.  The obligation keys keep the
		// name of the operation (`writer.deleteIndex:`) wherever its code lives.
		del := c.TryFn("pkg/es/writer", "deleteIndex")
		delSeg := c.Obj(pkgWriter, "DeleteSegmentsForIndex")
		if del == nil {
			for _, f := range c.RepoFunctions() {
				if core.FnPkgPath(f) == core.ModPath+"/pkg/es/writer" && f.Parent() == nil && len(callsTo(f, delSeg)) > 0 {
					del = f
				}
			}
		}
		if del == nil {
			panic(core.AnchorError{What: "the function of pkg/es/writer that deletes an index (deleteIndex)"})
		}
		orgPs := orgParamsOf(del)
		n := 0
		// every deletion is made for a name that is known to be an index of the requesting organisation: the call
		// lies where IsVirtualTablePresent(name, org) answered true
		if len(orgPs) > 0 {
			present := c.Obj("pkg/virtualtable", "IsVirtualTablePresent")
			var tests []*ssa.Call
			for _, call := range callsTo(del, present) {
				if len(call.Call.Args) == 2 && call.Call.Args[1] == ssa.Value(orgPs[0]) {
					tests = append(tests, call)
				}
			}
			k := 0
			for _, ci := range core.CallsIn(del) {
				callee := ci.Common().StaticCallee()
				if callee == nil || !core.IsRepoPkg(core.FnPkgPath(callee)) {
					continue
				}
				nm := callee.Name()
				if !(strings.HasPrefix(nm, "Delete") || strings.HasPrefix(nm, "Remove")) {
					continue
				}
				k++
				guarded := false
				for _, t := range tests {
					if core.BoolKnownAt(t, ci.Block()) == core.Yes {
						guarded = true
					}
				}
				r.Check(guarded, "GUARD", fmt.Sprintf("writer.deleteIndex:%s#%d-only-for-an-index-of-the-requesting-organisation", nm, k), c.Pos(ci.Pos()),
					"reached only where IsVirtualTablePresent(name, organisation) answered true",
					fmt.Sprintf("%s is called for a name that was not found to be an index of the requesting organisation: a request that names another organisation's index next to an own one deletes the other organisation's data (the deleting functions select by name)", nm))
			}
			r.Floor("GUARD", "deleting calls of the index deletion that need the presence test", k, 4)
		}
		if len(orgPs) == 0 {
			r.Undecided("DEPENDS", "writer.deleteIndex:tenant-parameter", c.Pos(del.Pos()), "deleteIndex has no organisation parameter")
		} else {
			org := orgPs[0]
			for _, ci := range core.CallsIn(del) {
				callee := ci.Common().StaticCallee()
				if callee == nil || !core.IsRepoPkg(core.FnPkgPath(callee)) {
					continue
				}
				nm := callee.Name()
				if !(strings.HasPrefix(nm, "Delete") || strings.HasPrefix(nm, "Remove") || strings.HasPrefix(nm, "delete") || strings.HasPrefix(nm, "remove")) {
					continue
				}
				n++
				passes := false
				for _, a := range ci.Common().Args {
					if a == ssa.Value(org) {
						passes = true
					}
				}
				construct := fmt.Sprintf("writer.deleteIndex:%s-is-scoped-to-the-caller's-organisation", nm)
				r.Check(passes, "DEPENDS", construct, c.Pos(ci.Pos()),
					"the organisation of the request is passed to the deleting function",
					fmt.Sprintf("%s selects what it deletes by index name only: deleting index X of one organisation also removes the segments / open stores of every other organisation's index X", nm))
			}
		}
		r.Floor("DEPENDS", "deleting calls in deleteIndex", n, 4)
	}
}

// orgParamsOf: int64 / Option[int64] parameters.
func orgParamsOf(fn *ssa.Function) []*ssa.Parameter {
	var out []*ssa.Parameter
	for _, p := range fn.Params {
		t := p.Type()
		if b, ok := t.Underlying().(*types.Basic); ok && b.Kind() == types.Int64 {
			out = append(out, p)
			continue
		}
		if n, ok := t.(*types.Named); ok && n.Obj().Name() == "Option" && n.TypeArgs() != nil && n.TypeArgs().Len() == 1 {
			if b, ok := n.TypeArgs().At(0).Underlying().(*types.Basic); ok && b.Kind() == types.Int64 {
				out = append(out, p)
			}
		}
	}
	return out
}

// loadsFrom: a is the address/value of a local that holds parameter p.
func loadsFrom(a ssa.Value, p *ssa.Parameter) bool {
	switch x := a.(type) {
	case *ssa.Alloc:
		if refs := x.Referrers(); refs != nil {
			for _, r := range *refs {
				if st, ok := r.(*ssa.Store); ok && st.Addr == ssa.Value(x) && st.Val == ssa.Value(p) {
					return true
				}
			}
		}
	case *ssa.UnOp:
		return loadsFrom(x.X, p)
	}
	return false
}

// dataEffect: instructions that carry element data out of an enumeration.
func dataEffect(in ssa.Instruction) bool {
	switch x := in.(type) {
	case *ssa.MapUpdate:
		return true
	case *ssa.Call:
		if bi, ok := x.Call.Value.(*ssa.Builtin); ok {
			return bi.Name() == "append" || bi.Name() == "delete"
		}
	}
	return false
}

// controlledBy: block b (inside loop l) is control-dependent on a condition for
// which pred holds (directly, or as an operand of a short-circuit phi).
func controlledBy(b *ssa.BasicBlock, l *core.Loop, pred func(ssa.Value) bool) bool {
	var matches func(v ssa.Value, depth int) bool
	matches = func(v ssa.Value, depth int) bool {
		if depth > 4 {
			return false
		}
		if pred(v) {
			return true
		}
		switch x := v.(type) {
		case *ssa.Phi:
			for _, e := range x.Edges {
				if matches(e, depth+1) {
					return true
				}
			}
			// the condition deciding which phi edge is taken
			for _, p := range x.Block().Preds {
				if ifi, ok := core.LastIf(p); ok && matches(ifi.Cond, depth+1) {
					return true
				}
				// the short-circuit's first operand sits one block further up
				for _, pp := range p.Preds {
					if ifi, ok := core.LastIf(pp); ok && matches(ifi.Cond, depth+1) {
						return true
					}
				}
			}
		case *ssa.UnOp:
			return matches(x.X, depth+1)
		}
		return false
	}
	reach := func(from, target *ssa.BasicBlock) bool {
		seen := map[*ssa.BasicBlock]bool{}
		stack := []*ssa.BasicBlock{from}
		for len(stack) > 0 {
			x := stack[len(stack)-1]
			stack = stack[:len(stack)-1]
			if seen[x] || !l.Body[x] {
				continue
			}
			seen[x] = true
			if x == target {
				return true
			}
			if x == l.Header && from != l.Header {
				continue // next iteration
			}
			stack = append(stack, x.Succs...)
		}
		return false
	}
	for x := range l.Body {
		ifi, ok := core.LastIf(x)
		if !ok || x.Succs[0] == x.Succs[1] || !matches(ifi.Cond, 0) {
			continue
		}
		r0 := x.Succs[0] != l.Header && reach(x.Succs[0], b)
		r1 := x.Succs[1] != l.Header && reach(x.Succs[1], b)
		if r0 != r1 {
			return true
		}
		// the test is executed before the effect on every path and one of its outcomes can skip the effect
		// (`if elem.org != org && org != superTenant { continue }`)
		if x.Dominates(b) && x != b {
			skips := false
			seen := map[*ssa.BasicBlock]bool{b: true}
			stack := []*ssa.BasicBlock{x.Succs[0], x.Succs[1]}
			for len(stack) > 0 {
				y := stack[len(stack)-1]
				stack = stack[:len(stack)-1]
				if seen[y] {
					continue
				}
				seen[y] = true
				if y == l.Header || !l.Body[y] {
					skips = true
					break
				}
				stack = append(stack, y.Succs...)
			}
			if skips {
				return true
			}
		}
	}
	return false
}

// touchesMapDeep: in updates/deletes an entry of the (nested) map stored in g.
func touchesMapDeep(in ssa.Instruction, g *ssa.Global) bool {
	var m ssa.Value
	switch x := in.(type) {
	case *ssa.MapUpdate:
		m = x.Map
	case *ssa.Call:
		if bi, ok := x.Call.Value.(*ssa.Builtin); ok && bi.Name() == "delete" {
			m = x.Call.Args[0]
		}
	}
	for i := 0; m != nil && i < 4; i++ {
		switch y := m.(type) {
		case *ssa.UnOp:
			if y.X == ssa.Value(g) {
				return true
			}
			m = y.X
		case *ssa.Lookup:
			m = y.X
		case *ssa.Extract:
			m = y.Tuple
		default:
			m = nil
		}
	}
	return false
}

// concatLeaves flattens a string concatenation into its operands, left to right.
func concatLeaves(v ssa.Value, depth int) []ssa.Value {
	if bo, ok := v.(*ssa.BinOp); ok && bo.Op == token.ADD && depth < 40 {
		return append(concatLeaves(bo.X, depth+1), concatLeaves(bo.Y, depth+1)...)
	}
	return []ssa.Value{v}
}

func isLiteralLeaf(v ssa.Value) bool {
	k, ok := v.(*ssa.Const)
	if !ok {
		return false
	}
	s, isStr := core.ConstStringValue(k)
	return isStr && s != ""
}

// isProcessConstant: the result of an argument-less function of pkg/config (data path, host id): the same
// string in every key the process builds, so it neither separates nor collides.
func isProcessConstant(v ssa.Value) bool {
	call, ok := v.(*ssa.Call)
	if !ok || len(call.Call.Args) != 0 {
		return false
	}
	f := core.CalleeFunc(call)
	return f != nil && f.Pkg() != nil && strings.HasSuffix(f.Pkg().Path(), "/pkg/config")
}

func variablePart(v ssa.Value) bool {
	switch x := v.(type) {
	case *ssa.Const:
		return false
	case *ssa.BinOp:
		// a + "lit" is terminated by a literal on one side
		_, cx := x.X.(*ssa.Const)
		_, cy := x.Y.(*ssa.Const)
		return !(cx || cy)
	}
	return true
}

// adjacentVerbs: two formatting verbs with no literal character between them.
func adjacentVerbs(format string) bool {
	prevVerbEnd := -2
	for i := 0; i < len(format); i++ {
		if format[i] != '%' {
			continue
		}
		if i+1 < len(format) && format[i+1] == '%' {
			i++
			continue
		}
		j := i + 1
		for j < len(format) && strings.ContainsRune("+-# 0123456789.", rune(format[j])) {
			j++
		}
		if prevVerbEnd == i-1 {
			return true
		}
		prevVerbEnd = j
		i = j
	}
	return false
}

// enumeratesForCaller: the loop's data leaves the function (it returns a
// container or fills a parameter container), i.e. it answers a request on
// behalf of the organisation passed in.
func enumeratesForCaller(fn *ssa.Function) bool {
	for _, b := range fn.Blocks {
		for _, in := range b.Instrs {
			if dataEffect(in) {
				return true
			}
		}
	}
	return false
}

// elementOfSharedTable: v is an element drawn (range / index / lookup) from a
// collection stored in a package-level variable — a raw shared table, not the
// result of a call that already filtered by organisation.
func elementOfSharedTable(c *core.Ctx, v ssa.Value) bool {
	var coll ssa.Value
	for i := 0; i < 6 && v != nil; i++ {
		switch x := v.(type) {
		case *ssa.Extract:
			if nx, ok := x.Tuple.(*ssa.Next); ok {
				if rg, ok := nx.Iter.(*ssa.Range); ok {
					coll = rg.X
				}
				v = nil
			} else {
				v = x.Tuple
			}
		case *ssa.UnOp:
			v = x.X
		case *ssa.IndexAddr:
			coll, v = x.X, nil
		case *ssa.Index:
			coll, v = x.X, nil
		case *ssa.Lookup:
			v = nil // a keyed lookup is not an enumeration
		case *ssa.Phi:
			if len(x.Edges) > 0 {
				v = x.Edges[0]
			} else {
				v = nil
			}
		default:
			v = nil
		}
	}
	if coll == nil {
		return false
	}
	for _, o := range c.Origins(coll, 0) {
		if o.Kind == "global" {
			return true
		}
		if o.Kind == "field" {
			if fa, ok := o.Val.(*ssa.FieldAddr); ok {
				if _, isG := fa.X.(*ssa.Global); isG {
					return true
				}
				if u, ok := fa.X.(*ssa.UnOp); ok {
					if _, isG := u.X.(*ssa.Global); isG {
						return true
					}
				}
			}
		}
	}
	return false
}

// concatParts flattens a string concatenation a + b + c into its operands.
func concatParts(v ssa.Value, depth int) []ssa.Value {
	if bo, ok := v.(*ssa.BinOp); ok && bo.Op == token.ADD && depth < 8 {
		return append(concatParts(bo.X, depth+1), concatParts(bo.Y, depth+1)...)
	}
	return []ssa.Value{v}
}

// tenantPredicate: fn returns a bool that can be true only on paths where a comparison `x.org == P` of an
// organisation-tagged field with the parameter P was decided equal (or the returned value is that comparison).
// Returns the index of P among the call arguments (receiver included).
func tenantPredicate(fn *ssa.Function, orgFields map[*types.Var]string) (int, bool) {
	if fn.Blocks == nil || len(fn.Blocks) > 40 || fn.Signature.Results().Len() != 1 {
		return 0, false
	}
	if rb, ok := fn.Signature.Results().At(0).Type().Underlying().(*types.Basic); !ok || rb.Kind() != types.Bool {
		return 0, false
	}
	// the comparison atoms
	atoms := map[ssa.Value]struct {
		param int
		eq    bool
	}{}
	for _, b := range fn.Blocks {
		for _, in := range b.Instrs {
			bo, ok := in.(*ssa.BinOp)
			if !ok || (bo.Op != token.EQL && bo.Op != token.NEQ) {
				continue
			}
			for _, pair := range [][2]ssa.Value{{bo.X, bo.Y}, {bo.Y, bo.X}} {
				ld, ok := pair[0].(*ssa.UnOp)
				if !ok {
					continue
				}
				fa, ok := ld.X.(*ssa.FieldAddr)
				if !ok {
					continue
				}
				if _, isOrg := orgFields[core.FieldOfAddr(fa)]; !isOrg {
					continue
				}
				for pi, p := range fn.Params {
					if pair[1] == ssa.Value(p) {
						atoms[bo] = struct {
							param int
							eq    bool
						}{pi, bo.Op == token.EQL}
					}
				}
			}
		}
	}
	if len(atoms) == 0 {
		return 0, false
	}
	param := -1
	for _, a := range atoms {
		param = a.param
	}
	// path enumeration: known[atom] = truth of "x.org == P" decided on the path
	ok := true
	var walk func(b, from *ssa.BasicBlock, eqKnown bool, depth int)
	walk = func(b, from *ssa.BasicBlock, eqKnown bool, depth int) {
		if !ok || depth > 60 {
			ok = ok && depth <= 60
			return
		}
		last := b.Instrs[len(b.Instrs)-1]
		switch x := last.(type) {
		case *ssa.Return:
			v := x.Results[0]
			// resolve phis of this block by the edge taken
			if ph, isPhi := v.(*ssa.Phi); isPhi && ph.Block() == b && from != nil {
				for i, p := range b.Preds {
					if p == from {
						v = ph.Edges[i]
					}
				}
			}
			switch y := v.(type) {
			case *ssa.Const:
				if y.Value != nil && y.Value.String() == "true" && !eqKnown {
					ok = false
				}
			default:
				if a, isAtom := atoms[v]; isAtom {
					if !a.eq {
						ok = false // returns x.org != P
					}
				} else if !eqKnown {
					ok = false // some other condition can make the answer true
				}
			}
		case *ssa.If:
			cond, neg := x.Cond, false
			if u, isNot := cond.(*ssa.UnOp); isNot && u.Op == token.NOT {
				cond, neg = u.X, true
			}
			if a, isAtom := atoms[cond]; isAtom {
				eqOnTrue := a.eq != neg
				walk(b.Succs[0], b, eqKnown || eqOnTrue, depth+1)
				walk(b.Succs[1], b, eqKnown || !eqOnTrue, depth+1)
			} else {
				walk(b.Succs[0], b, eqKnown, depth+1)
				walk(b.Succs[1], b, eqKnown, depth+1)
			}
		case *ssa.Jump:
			walk(b.Succs[0], b, eqKnown, depth+1)
		default:
			ok = false
		}
	}
	walk(fn.Blocks[0], nil, false, 0)
	if !ok || param < 0 {
		return 0, false
	}
	return param, true
}

// checkNoRemovalWhileRanging — (8) RANGEDEL: removing elements from a slice in place (append(s[:i], s[i+1:]...)) while
// a range loop walks the same backing array makes the loop skip the element that slides into the freed slot: roughly
// every second element survives.  For every range loop over a slice read from a map-typed or slice-typed struct field,
// no function called from the loop body (transitively, over static calls) writes that same field.  (The sound forms
// collect the keys first, or iterate over a copy.)
func checkNoRemovalWhileRanging(c *core.Ctx, r *core.Report, scope []string) {
	// fields written (MapUpdate on a load of the field, or Store to the field) per function, transitively
	direct := map[*ssa.Function]map[*types.Var]bool{}
	for _, fn := range c.RepoFunctions() {
		w := map[*types.Var]bool{}
		for _, b := range fn.Blocks {
			for _, in := range b.Instrs {
				switch x := in.(type) {
				case *ssa.MapUpdate:
					if ld, ok := x.Map.(*ssa.UnOp); ok {
						if fa, ok := ld.X.(*ssa.FieldAddr); ok {
							w[core.FieldOfAddr(fa)] = true
						}
					}
				case *ssa.Store:
					if fa, ok := x.Addr.(*ssa.FieldAddr); ok {
						if _, isSlice := core.FieldOfAddr(fa).Type().Underlying().(*types.Slice); isSlice {
							w[core.FieldOfAddr(fa)] = true
						}
					}
				}
			}
		}
		if len(w) > 0 {
			direct[fn] = w
		}
	}
	memo := map[*ssa.Function]map[*types.Var]bool{}
	var writes func(fn *ssa.Function, depth int) map[*types.Var]bool
	writes = func(fn *ssa.Function, depth int) map[*types.Var]bool {
		if m, ok := memo[fn]; ok {
			return m
		}
		out := map[*types.Var]bool{}
		memo[fn] = out
		for f := range direct[fn] {
			out[f] = true
		}
		if depth < 4 {
			for _, ci := range core.CallsIn(fn) {
				if callee := ci.Common().StaticCallee(); callee != nil && core.IsRepoPkg(core.FnPkgPath(callee)) {
					for f := range writes(callee, depth+1) {
						out[f] = true
					}
				}
			}
		}
		return out
	}
	fieldOfRanged := func(v ssa.Value) *types.Var {
		// s := x.F[k]  or  s := x.F
		for i := 0; i < 3; i++ {
			switch y := v.(type) {
			case *ssa.Extract:
				v = y.Tuple
				continue
			case *ssa.Lookup:
				v = y.X
				continue
			}
			break
		}
		if ld, ok := v.(*ssa.UnOp); ok {
			if fa, ok := ld.X.(*ssa.FieldAddr); ok {
				return core.FieldOfAddr(fa)
			}
		}
		return nil
	}
	n := 0
	for _, fn := range c.RepoFunctions() {
		if !inScope(fn, scope) {
			continue
		}
		loops := core.Loops(fn)
		k := 0
		for _, lp := range loops {
			// a slice range loop: the header compares an index with len(s)
			ifi, ok := core.LastIf(lp.Header)
			if !ok {
				continue
			}
			bo, ok := ifi.Cond.(*ssa.BinOp)
			if !ok || bo.Op != token.LSS {
				continue
			}
			lc, ok := bo.Y.(*ssa.Call)
			if !ok {
				continue
			}
			bi, ok := lc.Call.Value.(*ssa.Builtin)
			if !ok || bi.Name() != "len" {
				continue
			}
			ranged := lc.Call.Args[0]
			if _, isSlice := ranged.Type().Underlying().(*types.Slice); !isSlice {
				continue
			}
			f := fieldOfRanged(ranged)
			if f == nil {
				continue
			}
			n++
			var bad ssa.Instruction
			for b := range lp.Body {
				for _, in := range b.Instrs {
					ci, ok := in.(ssa.CallInstruction)
					if !ok {
						continue
					}
					callee := ci.Common().StaticCallee()
					if callee == nil || !core.IsRepoPkg(core.FnPkgPath(callee)) {
						continue
					}
					if writes(callee, 0)[f] && (bad == nil || in.Pos() < bad.Pos()) {
						bad = in
					}
				}
			}
			if bad != nil {
				k++
				r.Violation("LIVE", fmt.Sprintf("%s:range-over(%s)#%d-is-not-modified-by-the-loop-body", shortFn(fn), f.Name(), k), c.Pos(bad.Pos()), fmt.Sprintf("the loop ranges over a slice read from the field %s and its body calls a function that rewrites that field: an in-place removal shifts the remaining elements under the loop's index, so every second element is skipped (after deleting an index, part of its segments and columns stay visible)", f.Name()))
			}
		}
	}
	r.Count("range_loops_over_slices_read_from_fields", n)
	r.Floor("LIVE", "range loops over slices read from struct fields", n, 5)
}

// checkScannerBytesNotRetained — C13 clause (9).  The per-organisation index list (virtualtablenames-<org>.txt) is
// read with a bufio.Scanner and rewritten when an index is deleted.  Scanner.Bytes() hands out a window of the
// scanner's own buffer, valid until the next Scan: in pkg/virtualtable such a window (or a sub-slice of it) is not
// kept in a container — appended to a slice of slices, stored in a map, a field or a slice element, sent on a
// channel — unless it was converted to a string or copied first.  Kept windows go stale once the file is larger than
// the scanner's buffer, and the rewritten list then holds fragments instead of the surviving index names: deleting
// one index makes other indexes of the organisation disappear from wildcard expansion.
func checkScannerBytesNotRetained(c *core.Ctx, r *core.Report) {
	pkgPath := core.ModPath + "/pkg/virtualtable"
	n := 0
	for _, fn := range c.RepoFunctions() {
		if core.FnPkgPath(fn) != pkgPath || fn.Blocks == nil {
			continue
		}
		k := 0
		for _, ci := range core.CallsIn(fn) {
			call, ok := ci.(*ssa.Call)
			if !ok {
				continue
			}
			f := core.CalleeFunc(call)
			if f == nil || f.Pkg() == nil || f.Pkg().Path() != "bufio" || f.Name() != "Bytes" {
				continue
			}
			n++
			k++
			construct := fmt.Sprintf("%s:Scanner.Bytes#%d-not-kept-past-the-next-Scan", shortFn(fn), k)
			// the windows: the call and slices of it (through phis)
			windows := map[ssa.Value]bool{call: true}
			work := []ssa.Value{call}
			var bad ssa.Instruction
			for len(work) > 0 && bad == nil {
				v := work[len(work)-1]
				work = work[:len(work)-1]
				refs := v.Referrers()
				if refs == nil {
					continue
				}
				for _, u := range *refs {
					switch x := u.(type) {
					case *ssa.Slice:
						if x.X == v && !windows[x] {
							windows[x] = true
							work = append(work, x)
						}
					case *ssa.Phi:
						if !windows[x] {
							windows[x] = true
							work = append(work, x)
						}
					case *ssa.Store:
						// stored as a value into a field, an element or a cell that is itself kept
						if x.Val == v {
							switch x.Addr.(type) {
							case *ssa.IndexAddr, *ssa.FieldAddr, *ssa.Global:
								bad = x
							}
						}
					case *ssa.MapUpdate:
						if x.Value == v || x.Key == v {
							bad = x
						}
					case *ssa.Send:
						if x.X == v {
							bad = x
						}
					case *ssa.Call:
						// append(kept, window): the window becomes an ELEMENT only when the slice appended to is a
						// slice of byte slices; append(dst []byte, window...) copies the bytes
						if bi, ok := x.Call.Value.(*ssa.Builtin); ok && bi.Name() == "append" && len(x.Call.Args) == 2 {
							if sl, ok := x.Call.Args[1].(*ssa.Slice); ok {
								// the variadic argument is a slice over a fresh array holding the elements
								if al, ok := sl.X.(*ssa.Alloc); ok && al.Referrers() != nil {
									_ = al
								}
							}
						}
					}
				}
			}
			// elements of a variadic append: `append(kept, window)` stores the window into the array backing
			// the variadic slice (an IndexAddr store, caught above) — that array is then appended as elements
			if bad != nil {
				r.Violation("OWN", construct, c.Pos(bad.Pos()), "a window of the scanner's buffer is kept (appended as an element, stored in a container or sent) without being copied or converted to a string: after the next Scan it shows other bytes, so the index list that is rewritten from the kept lines is garbage once the file outgrows the scanner's buffer — indexes that were not deleted vanish from the organisation's list")
			} else {
				r.OK("OWN", construct, c.Pos(call.Pos()), "the window is only read, converted or copied before the next Scan")
			}
		}
	}
	r.Floor("OWN", "Scanner.Bytes windows in pkg/virtualtable", n, 2)
}
