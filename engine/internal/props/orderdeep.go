package props

import (
	"fmt"
	"go/token"
	"sort"

	"golang.org/x/tools/go/ssa"

	"verif/engine/internal/core"
)

// Interprocedural ORDER: "every B is reached only through an A", decided over the entry function AND the
// repository functions it calls synchronously, so that the verdict does not depend on where the function
// boundaries are drawn (a block holding the A's and the B extracted into a helper, a helper inlined, a guard
// moved into the callee).
//
//   - an A has happened after a direct call of a function of aSet, after a call of a repository function every
//     path of which calls one (mustCall), and on the err == nil edge of the error test of a call of a repository
//     function that has called one whenever it reports success (successMust; its failure edge does not count);
//   - a B is a direct call of a function of bSet (with bMay: any call, go statement or closure from which one is
//     reachable), in the entry function or in a helper the entry function calls synchronously and that has B
//     sites of its own; such a helper call is looked into instead of being judged as one event.  Only one level
//     is looked into: deeper callees keep the meaning they had (with bMay the call that reaches them is the B;
//     without, they are other events — e.g. the reset done by a rotation is not the per-block reset).
//
// The B sites are reported with their own positions; the obligation keys stay `fn:A<B` (with @i when there are
// several), so moving code between the entry function and a helper does not rename them.

// nilEdge: when b ends in a test of the error result of a call against nil, the call and the successor taken
// when the error IS nil.
func nilEdge(b *ssa.BasicBlock) (*ssa.Call, *ssa.BasicBlock) {
	ifi, ok := core.LastIf(b)
	if !ok {
		return nil, nil
	}
	bo, ok := ifi.Cond.(*ssa.BinOp)
	if !ok || (bo.Op != token.NEQ && bo.Op != token.EQL) {
		return nil, nil
	}
	x, y := bo.X, bo.Y
	if core.IsNilConst(x) {
		x, y = y, x
	}
	if !core.IsNilConst(y) {
		return nil, nil
	}
	var call *ssa.Call
	switch v := x.(type) {
	case *ssa.Call:
		call = v
	case *ssa.Extract:
		if cl, ok := v.Tuple.(*ssa.Call); ok && v.Index == cl.Call.Signature().Results().Len()-1 {
			call = cl
		}
	}
	if call == nil {
		return nil, nil
	}
	if ev, _ := errResultOf(call); ev == nil || ev != x {
		return nil, nil
	}
	if bo.Op == token.NEQ {
		return call, b.Succs[1]
	}
	return call, b.Succs[0]
}

type deepOrder struct {
	s          *summaries
	aSet, bSet objSet
	bMay       bool // a B is also a call (go, closure) from which a function of bSet is reachable
	reachB     map[*ssa.Function]bool
	succMemo   map[*ssa.Function]int
	unguarded  map[ssa.Instruction]bool
}

const deepOrderDepth = 1 // helpers called directly by the entry function are looked into, not their callees

func (d *deepOrder) repoCallee(ci ssa.CallInstruction) *ssa.Function {
	if _, isGo := ci.(*ssa.Go); isGo {
		return nil
	}
	callee := ci.Common().StaticCallee()
	if callee == nil || callee.Blocks == nil || !core.IsRepoPkg(core.FnPkgPath(callee)) {
		return nil
	}
	return callee
}

// isB: the instruction is a B site at the level of the function it stands in.
func (d *deepOrder) isB(ci ssa.CallInstruction) bool {
	if d.bSet.hasCallee(ci) {
		return true
	}
	if !d.bMay {
		return false
	}
	if callee := ci.Common().StaticCallee(); callee != nil && d.reachB[callee] {
		return true
	}
	if mc, ok := ci.Common().Value.(*ssa.MakeClosure); ok && d.reachB[mc.Fn.(*ssa.Function)] {
		return true
	}
	return false
}

// holdsB: f has a B site at its own level.
func (d *deepOrder) holdsB(f *ssa.Function) bool {
	for _, ci := range core.CallsIn(f) {
		if d.isB(ci) {
			return true
		}
	}
	return false
}

// descends: the call is looked into instead of being judged as one event: a synchronous call, from the entry
// function, of a repository function that is not itself a B and has B sites of its own.
func (d *deepOrder) descends(ci ssa.CallInstruction, depth int) *ssa.Function {
	if depth >= deepOrderDepth || d.bSet.hasCallee(ci) {
		return nil
	}
	if _, isDefer := ci.(*ssa.Defer); isDefer {
		return nil
	}
	callee := d.repoCallee(ci)
	if callee == nil || !d.holdsB(callee) {
		return nil
	}
	return callee
}

// scan records the B sites reachable from fn's entry with no A before them.
func (d *deepOrder) scan(fn *ssa.Function, depth int) {
	edgeOK := func(from, to *ssa.BasicBlock) bool {
		call, nilSucc := nilEdge(from)
		if call == nil || nilSucc != to || from.Succs[0] == from.Succs[1] {
			return true
		}
		if callee := d.repoCallee(call); callee != nil && d.s.successMust(callee, d.aSet, d.succMemo) {
			return false // on this edge the helper reported success, so an A has happened
		}
		return true
	}
	core.WalkForwardEdges(fn, nil, func(in ssa.Instruction) bool {
		ci, ok := in.(ssa.CallInstruction)
		if !ok {
			return true
		}
		_, isDefer := ci.(*ssa.Defer)
		_, isGo := ci.(*ssa.Go)
		if h := d.descends(ci, depth); h != nil {
			d.scan(h, depth+1)
		} else if d.isB(ci) {
			d.unguarded[in] = true
		}
		if isDefer || isGo {
			return true // a deferred A runs at exit, after B; a spawned A at an unknown time
		}
		if d.aSet.hasCallee(ci) {
			return false
		}
		if callee := d.repoCallee(ci); callee != nil && d.s.mustCall(callee, d.aSet) {
			return false
		}
		return true
	}, edgeOK)
}

// bSites lists every B site of fn and of the helpers that scan looks into.
func (d *deepOrder) bSites(fn *ssa.Function) []ssa.Instruction {
	var out []ssa.Instruction
	seen := map[*ssa.Function]bool{}
	var rec func(f *ssa.Function, depth int)
	rec = func(f *ssa.Function, depth int) {
		if seen[f] {
			return
		}
		seen[f] = true
		for _, ci := range core.CallsIn(f) {
			if h := d.descends(ci, depth); h != nil {
				rec(h, depth+1)
			} else if d.isB(ci) {
				out = append(out, ci)
			}
		}
	}
	rec(fn, 0)
	return out
}

// checkOrderDeep instantiates the interprocedural ORDER rule for one entry function.
func checkOrderDeep(c *core.Ctx, r *core.Report, sm *summaries, fn *ssa.Function, aName string, aSet objSet, bName string, bSet objSet, bMay bool, minB int, why string) {
	d := &deepOrder{s: sm, aSet: aSet, bSet: bSet, bMay: bMay, reachB: sm.staticMayReach(bSet), succMemo: map[*ssa.Function]int{}, unguarded: map[ssa.Instruction]bool{}}
	d.scan(fn, 0)
	sites := d.bSites(fn)
	for in := range d.unguarded {
		found := false
		for _, s := range sites {
			if s == in {
				found = true
			}
		}
		if !found {
			sites = append(sites, in)
		}
	}
	sort.Slice(sites, func(i, j int) bool {
		pi, pj := c.Fset.Position(sites[i].Pos()), c.Fset.Position(sites[j].Pos())
		if pi.Filename != pj.Filename {
			return pi.Filename < pj.Filename
		}
		if pi.Line != pj.Line {
			return pi.Line < pj.Line
		}
		return pi.Column < pj.Column
	})
	construct := fmt.Sprintf("%s:%s<%s", core.FnName(fn), aName, bName)
	if len(sites) < minB {
		r.Undecided("ORDER", construct, c.Pos(fn.Pos()), fmt.Sprintf("found %d call sites of %s in %s and the functions it calls, expected at least %d; the ordering clause cannot be decided (%s)", len(sites), bName, core.FnName(fn), minB, why))
		return
	}
	for i, s := range sites {
		k := construct
		if len(sites) > 1 {
			k = fmt.Sprintf("%s@%d", construct, i)
		}
		if !d.unguarded[s] {
			r.OK("ORDER", k, c.Pos(s.Pos()), "every path from the entry of "+core.FnName(fn)+" to this "+bName+" passes "+aName)
		} else {
			r.Violation("ORDER", k, c.Pos(s.Pos()), fmt.Sprintf("%s is reachable from the entry of %s without passing %s — %s", bName, core.FnName(fn), aName, why))
		}
	}
}
