package props

import (
	"fmt"
	"go/token"
	"go/types"
	"strings"

	"golang.org/x/tools/go/ssa"

	"verif/engine/internal/core"
)

// c04TagStore — C04 clause TAGSTORE (added after seeded change C04-m13).  sutils.NumTypeEnclosure is a tagged union
// whose tag is switched from "integer" to "float" while a running sum / extreme is widened.  TAGUNION judges the member
// reads a function makes under its own tag tests; it cannot see a read made *through the tag* after the tag has been
// re-written: once `p.Ntype = SS_DT_FLOAT` is stored, every reader that dispatches on p's tag (a helper that receives p
// or &p and tests its Ntype, or a direct read of p.FloatVal) takes FloatVal — which does not hold the value until the
// widened payload is stored.  Rule: on every path from a store of the float tag into p.Ntype to the next store of
// p.FloatVal (or to the exits), p is not handed to a function of the repository that reads the tag of that argument,
// and p.FloatVal is not read; the rule does not apply where p's tag is already known to be float at the store (the
// store is then a no-op), nor to a value whose FloatVal was stored earlier in the same block (payload first, tag
// second — the idiom of the pinned tree).
func c04TagStore(c *core.Ctx, r *core.Report) {
	nte := c.NamedType(pkgSutils, "NumTypeEnclosure")
	st := nte.Underlying().(*types.Struct)
	var fTag, fFloat *types.Var
	for i := 0; i < st.NumFields(); i++ {
		switch st.Field(i).Name() {
		case "Ntype":
			fTag = st.Field(i)
		case "FloatVal":
			fFloat = st.Field(i)
		}
	}
	if fTag == nil || fFloat == nil {
		panic(core.AnchorError{What: "NumTypeEnclosure fields"})
	}
	floatTag := c.ConstVal(pkgSutils, "SS_DT_FLOAT")

	isNTE := func(t types.Type) bool {
		if p, ok := t.Underlying().(*types.Pointer); ok {
			t = p.Elem()
		}
		return types.Identical(t, nte)
	}
	// does fn read the tag of its i-th parameter?
	readsTagCache := map[*ssa.Function]map[int]bool{}
	readsTagOfParam := func(fn *ssa.Function, i int) bool {
		if fn == nil || fn.Blocks == nil || i >= len(fn.Params) {
			return false
		}
		if m, ok := readsTagCache[fn]; ok {
			if v, ok := m[i]; ok {
				return v
			}
		} else {
			readsTagCache[fn] = map[int]bool{}
		}
		name := fn.Params[i].Name()
		res := false
		for _, b := range fn.Blocks {
			for _, in := range b.Instrs {
				if fa, ok := in.(*ssa.FieldAddr); ok && core.FieldOfAddr(fa) == fTag && accessPath(fa.X) == name {
					res = true
				}
				if fl, ok := in.(*ssa.Field); ok {
					if s, ok := fl.X.Type().Underlying().(*types.Struct); ok && s.Field(fl.Field) == fTag && accessPath(fl.X) == name {
						res = true
					}
				}
			}
		}
		readsTagCache[fn][i] = res
		return res
	}

	nStores := 0
	counter := map[string]int{}
	for _, fn := range c.RepoFunctions() {
		for _, b := range fn.Blocks {
			for idx, in := range b.Instrs {
				sto, ok := in.(*ssa.Store)
				if !ok {
					continue
				}
				fa, ok := sto.Addr.(*ssa.FieldAddr)
				if !ok || core.FieldOfAddr(fa) != fTag {
					continue
				}
				if k, ok := core.ConstIntValue(sto.Val); !ok || k != floatTag {
					continue
				}
				p := accessPath(fa.X)
				if p == "" {
					continue
				}
				// payload first, tag second: FloatVal of the same value stored earlier in this block
				payloadFirst := false
				for j := idx - 1; j >= 0; j-- {
					if s2, ok := b.Instrs[j].(*ssa.Store); ok {
						if f2, ok := s2.Addr.(*ssa.FieldAddr); ok && core.FieldOfAddr(f2) == fFloat && accessPath(f2.X) == p {
							payloadFirst = true
							break
						}
					}
				}
				// the tag is already float here: `p.Ntype == FLOAT` dominates on the true edge
				alreadyFloat := false
				for d := b; d != nil && !alreadyFloat; d = d.Idom() {
					id := d.Idom()
					if id == nil {
						break
					}
					ifi, ok := core.LastIf(id)
					if !ok || len(id.Succs) != 2 {
						continue
					}
					bo, ok := ifi.Cond.(*ssa.BinOp)
					if !ok || (bo.Op != token.EQL && bo.Op != token.NEQ) {
						continue
					}
					kk, ok := core.ConstIntValue(bo.Y)
					if !ok || kk != floatTag {
						continue
					}
					ld, ok := bo.X.(*ssa.UnOp)
					if !ok {
						continue
					}
					tfa, ok := ld.X.(*ssa.FieldAddr)
					if !ok || core.FieldOfAddr(tfa) != fTag || accessPath(tfa.X) != p {
						continue
					}
					want := id.Succs[0]
					if bo.Op == token.NEQ {
						want = id.Succs[1]
					}
					if core.EdgeDominates(id, want, b) {
						alreadyFloat = true
					}
				}
				nStores++
				name := shortFn(fn)
				counter[name+p]++
				construct := fmt.Sprintf("%s:float-tag-of(%s)#%d-announces-a-written-payload", name, p, counter[name+p])
				if payloadFirst || alreadyFloat {
					r.OK("TAGSTORE", construct, c.Pos(sto.Pos()), "the float payload is stored before the tag (or the tag is already float)")
					continue
				}
				var bad ssa.Instruction
				why := ""
				core.WalkForward(fn, in, func(x ssa.Instruction) bool {
					if bad != nil {
						return false
					}
					switch y := x.(type) {
					case *ssa.Store:
						if f2, ok := y.Addr.(*ssa.FieldAddr); ok && accessPath(f2.X) == p {
							if core.FieldOfAddr(f2) == fFloat {
								return false // payload written: the tag is true from here on
							}
							if core.FieldOfAddr(f2) == fTag {
								return false // judged on its own
							}
						}
						// the whole value replaced
						if accessPath(y.Addr) == p && isNTE(y.Addr.Type()) {
							return false
						}
					case *ssa.UnOp:
						if y.Op == token.MUL {
							if f2, ok := y.X.(*ssa.FieldAddr); ok && core.FieldOfAddr(f2) == fFloat && accessPath(f2.X) == p {
								bad, why = x, fmt.Sprintf("%s.FloatVal is read", p)
								return false
							}
						}
					case ssa.CallInstruction:
						callee := core.StaticCallee(y)
						if callee == nil || !core.IsRepoPkg(core.FnPkgPath(callee)) {
							return true
						}
						for i, a := range y.Common().Args {
							if !isNTE(a.Type()) || accessPath(a) != p {
								continue
							}
							if readsTagOfParam(callee, i) {
								bad, why = x, fmt.Sprintf("%s is handed to %s, which selects the member by the tag", p, shortFn(callee))
								return false
							}
						}
					}
					return true
				})
				if bad != nil {
					r.Violation("TAGSTORE", construct, c.Pos(bad.Pos()), fmt.Sprintf("the float tag of %s is stored at %s before its FloatVal holds the value, and then %s: when the value was held as an integer (an integer running sum meeting its first float) the accumulated part is read as 0 and dropped from sum / avg", p, strings.TrimPrefix(c.Pos(sto.Pos()), "/"), why))
				} else {
					r.OK("TAGSTORE", construct, c.Pos(sto.Pos()), "no tag-dispatched read between the tag store and the payload store")
				}
			}
		}
	}
	r.Floor("TAGSTORE", "stores of the float tag into a union value", nStores, 10)
}
