package props

import (
	"fmt"
	"go/types"
	"sort"

	"golang.org/x/tools/go/ssa"

	"verif/engine/internal/core"
)

// (9) LOADEVICT — the lazily loaded parts of a rotated segment's metadata (micro indices, search metadata) are
// dropped by the memory rebalancer and loaded again on demand.  Whatever a loader records in the holder struct
// about what it has loaded decides whether the next query loads again; so every field of the holder that the
// loader writes must be re-assigned by the evictor of that holder, otherwise the loader believes data is
// present that the evictor dropped, the pruning stage finds no micro index for any block and skips them all.
func c03LoadEvict(c *core.Ctx, r *core.Report) {
	pairs := []struct {
		holder, loader, evictor string
	}{
		{"SegmentMicroIndices", "SegmentMicroIndex.readCmis", "SegmentMicroIndex.clearMicroIndices"},
		{"SegmentSearchMetadata", "SegmentMicroIndex.loadSearchMetadata", "SegmentMicroIndex.clearSearchMetadataWithLock"},
	}
	n := 0
	for _, p := range pairs {
		holder := c.NamedType("pkg/segment/metadata", p.holder)
		st := holder.Underlying().(*types.Struct)
		own := map[*types.Var]bool{}
		for i := 0; i < st.NumFields(); i++ {
			own[st.Field(i)] = true
		}
		loader, evictor := c.Fn("pkg/segment/metadata", p.loader), c.Fn("pkg/segment/metadata", p.evictor)
		la, ea := newFieldAccess(), newFieldAccess()
		collectAccess(loader, []ssa.Value{loader.Params[0]}, la, map[*ssa.Function]bool{evictor: true}, 0)
		collectAccess(evictor, []ssa.Value{evictor.Params[0]}, ea, map[*ssa.Function]bool{}, 0)
		var fields []*types.Var
		for f := range la.writes {
			if own[f] {
				fields = append(fields, f)
			}
		}
		sort.Slice(fields, func(i, j int) bool { return fields[i].Name() < fields[j].Name() })
		for _, f := range fields {
			n++
			construct := fmt.Sprintf("metadata.%s:field(%s)-reset-by-%s", p.holder, f.Name(), evictor.Name())
			if _, ok := ea.writes[f]; ok {
				r.OK("LOADEVICT", construct, c.Pos(la.writes[f].Pos()), "the loader's field is re-assigned by the evictor")
			} else {
				r.Violation("LOADEVICT", construct, c.Pos(la.writes[f].Pos()), fmt.Sprintf("%s records in %s.%s what it loaded, but %s does not reset that field when it drops the data: after an eviction the loader skips loading, no micro index / summary is found for any block, and the segment's blocks are pruned although they match", loader.Name(), p.holder, f.Name(), evictor.Name()))
			}
		}
	}
	r.Floor("LOADEVICT", "holder fields written by the lazy loaders", n, 4)
}

// (10) PQMRWHOLE — a persistent-query result file (PQMR) written after a raw search is later trusted for the
// whole segment.  The back-fill is therefore allowed only when the query window encloses EVERY block of the
// segment: the `true` answer of shouldBackFillPQMR is dominated by the accepting edge of a predicate that is
// handed the segment's complete block-summary list and walks all of it (a whole-collection loop) testing
// AreTimesFullyEnclosed per block.
func c03PqmrWhole(c *core.Ctx, r *core.Report) {
	fn := c.Fn("pkg/segment/search", "shouldBackFillPQMR")
	summF := c.Field(pkgStructs, "SearchMetadataHolder.BlockSummaries")
	encl := c.Obj(pkgDtu, "TimeRange.AreTimesFullyEnclosed")
	isSummaries := func(v ssa.Value) bool {
		ld, ok := v.(*ssa.UnOp)
		if !ok {
			return false
		}
		fa, ok := ld.X.(*ssa.FieldAddr)
		return ok && core.FieldOfAddr(fa) == summF
	}
	// candidate predicates: calls in fn that receive the complete list
	type cand struct {
		call *ssa.Call
		pi   int
	}
	var cands []cand
	for _, ci := range core.CallsIn(fn) {
		call, ok := ci.(*ssa.Call)
		if !ok || ci.Common().StaticCallee() == nil {
			continue
		}
		for i, a := range call.Call.Args {
			if isSummaries(a) {
				cands = append(cands, cand{call, i})
			}
		}
	}
	wholeWalk := func(cd cand) bool {
		callee := cd.call.Call.StaticCallee()
		if callee == nil || callee.Blocks == nil || cd.pi >= len(callee.Params) {
			return false
		}
		param := ssa.Value(callee.Params[cd.pi])
		for _, lp := range wholeLoopsOver(callee, func(v ssa.Value) bool { return v == param }) {
			tests := false
			for b := range lp.Body {
				for _, in := range b.Instrs {
					if ci, ok := in.(ssa.CallInstruction); ok && core.IsCallTo(ci, encl) {
						tests = true
					}
				}
			}
			if !tests {
				continue
			}
			// a `true` answer only after the walk
			ok := true
			for _, ret := range core.Returns(callee) {
				if k, isK := ret.Results[0].(*ssa.Const); isK && k.Value != nil && k.Value.String() == "false" {
					continue
				}
				if !lp.Header.Dominates(ret.Block()) || lp.Body[ret.Block()] {
					ok = false
				}
			}
			if ok {
				return true
			}
		}
		return false
	}
	n := 0
	for _, ret := range core.Returns(fn) {
		if k, isK := ret.Results[1].(*ssa.Const); isK && k.Value != nil && k.Value.String() == "false" {
			continue
		}
		n++
		construct := fmt.Sprintf("%s:back-fill#%d-only-for-a-wholly-enclosed-segment", shortFn(fn), n)
		ok := false
		for _, cd := range cands {
			if core.BoolKnownAt(cd.call, ret.Block()) == core.Yes && wholeWalk(cd) {
				ok = true
			}
		}
		r.Check(ok, "PQMRWHOLE", construct, c.Pos(ret.Pos()),
			"dominated by the accepting edge of a predicate that walks the segment's complete block-summary list with AreTimesFullyEnclosed",
			"a persistent-query result file can be back-filled without the query window being known to enclose every block of the segment (the predicate is not handed SearchMetadata.BlockSummaries, or does not walk all of it): the file then covers only the blocks this query searched, and later wider runs of the query trust it for the whole segment and lose the other blocks' events")
	}
	r.Floor("PQMRWHOLE", "accepting returns of shouldBackFillPQMR", n, 1)
}
