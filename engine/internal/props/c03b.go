package props

import (
	"fmt"
	"go/token"
	"go/types"
	"sort"
	"strings"

	"golang.org/x/tools/go/ssa"

	"verif/engine/internal/core"
)

// (9) LOADEVICT — the lazily loaded parts of a rotated segment's metadata (micro indices, search metadata) are
// dropped by the memory rebalancer and loaded again on demand.  Whatever a loader records in the holder struct
// about what it has loaded decides whether the next query loads again; so every field of the holder that the
// loader writes must be re-assigned by the evictor of that holder, otherwise the loader believes data is
// present that the evictor dropped, the pruning stage finds no micro index for any block and skips them all.
func c03LoadEvict(c *core.Ctx, r *core.Report) {
	pairs := []struct {
		holder, loader, evictor string
	}{
		{"SegmentMicroIndices", "SegmentMicroIndex.readCmis", "SegmentMicroIndex.clearMicroIndices"},
		{"SegmentSearchMetadata", "SegmentMicroIndex.loadSearchMetadata", "SegmentMicroIndex.clearSearchMetadataWithLock"},
	}
	n := 0
	for _, p := range pairs {
		holder := c.NamedType("pkg/segment/metadata", p.holder)
		st := holder.Underlying().(*types.Struct)
		own := map[*types.Var]bool{}
		for i := 0; i < st.NumFields(); i++ {
			own[st.Field(i)] = true
		}
		loader, evictor := c.Fn("pkg/segment/metadata", p.loader), c.Fn("pkg/segment/metadata", p.evictor)
		la, ea := newFieldAccess(), newFieldAccess()
		collectAccess(loader, []ssa.Value{loader.Params[0]}, la, map[*ssa.Function]bool{evictor: true}, 0)
		collectAccess(evictor, []ssa.Value{evictor.Params[0]}, ea, map[*ssa.Function]bool{}, 0)
		var fields []*types.Var
		for f := range la.writes {
			if own[f] {
				fields = append(fields, f)
			}
		}
		sort.Slice(fields, func(i, j int) bool { return fields[i].Name() < fields[j].Name() })
		for _, f := range fields {
			n++
			construct := fmt.Sprintf("metadata.%s:field(%s)-reset-by-%s", p.holder, f.Name(), evictor.Name())
			if _, ok := ea.writes[f]; ok {
				r.OK("LOADEVICT", construct, c.Pos(la.writes[f].Pos()), "the loader's field is re-assigned by the evictor")
			} else {
				r.Violation("LOADEVICT", construct, c.Pos(la.writes[f].Pos()), fmt.Sprintf("%s records in %s.%s what it loaded, but %s does not reset that field when it drops the data: after an eviction the loader skips loading, no micro index / summary is found for any block, and the segment's blocks are pruned although they match", loader.Name(), p.holder, f.Name(), evictor.Name()))
			}
		}
	}
	r.Floor("LOADEVICT", "holder fields written by the lazy loaders", n, 4)
}

// (10) PQMRWHOLE — a persistent-query result file (PQMR) written after a raw search is later trusted for the
// whole segment.  The back-fill is therefore allowed only when the query window encloses EVERY block of the
// segment: the `true` answer of shouldBackFillPQMR is dominated by the accepting edge of a predicate that is
// handed the segment's complete block-summary list and walks all of it (a whole-collection loop) testing
// AreTimesFullyEnclosed per block.
func c03PqmrWhole(c *core.Ctx, r *core.Report) {
	fn := c.Fn("pkg/segment/search", "shouldBackFillPQMR")
	summF := c.Field(pkgStructs, "SearchMetadataHolder.BlockSummaries")
	encl := c.Obj(pkgDtu, "TimeRange.AreTimesFullyEnclosed")
	isSummaries := func(v ssa.Value) bool {
		ld, ok := v.(*ssa.UnOp)
		if !ok {
			return false
		}
		fa, ok := ld.X.(*ssa.FieldAddr)
		return ok && core.FieldOfAddr(fa) == summF
	}
	// candidate predicates: calls in fn that receive the complete list
	type cand struct {
		call *ssa.Call
		pi   int
	}
	var cands []cand
	for _, ci := range core.CallsIn(fn) {
		call, ok := ci.(*ssa.Call)
		if !ok || ci.Common().StaticCallee() == nil {
			continue
		}
		for i, a := range call.Call.Args {
			if isSummaries(a) {
				cands = append(cands, cand{call, i})
			}
		}
	}
	wholeWalk := func(cd cand) bool {
		callee := cd.call.Call.StaticCallee()
		if callee == nil || callee.Blocks == nil || cd.pi >= len(callee.Params) {
			return false
		}
		param := ssa.Value(callee.Params[cd.pi])
		for _, lp := range wholeLoopsOver(callee, func(v ssa.Value) bool { return v == param }) {
			tests := false
			for b := range lp.Body {
				for _, in := range b.Instrs {
					if ci, ok := in.(ssa.CallInstruction); ok && core.IsCallTo(ci, encl) {
						tests = true
					}
				}
			}
			if !tests {
				continue
			}
			// a `true` answer only after the walk
			ok := true
			for _, ret := range core.Returns(callee) {
				if k, isK := core.RetResult(ret, 0).(*ssa.Const); isK && k.Value != nil && k.Value.String() == "false" {
					continue
				}
				if !lp.Header.Dominates(ret.Block()) || lp.Body[ret.Block()] {
					ok = false
				}
			}
			if ok {
				return true
			}
		}
		return false
	}
	n := 0
	for _, ret := range core.Returns(fn) {
		if k, isK := ret.Results[1].(*ssa.Const); isK && k.Value != nil && k.Value.String() == "false" {
			continue
		}
		n++
		construct := fmt.Sprintf("%s:back-fill#%d-only-for-a-wholly-enclosed-segment", shortFn(fn), n)
		ok := false
		for _, cd := range cands {
			if core.BoolKnownAt(cd.call, ret.Block()) == core.Yes && wholeWalk(cd) {
				ok = true
			}
		}
		r.Check(ok, "PQMRWHOLE", construct, c.Pos(ret.Pos()),
			"dominated by the accepting edge of a predicate that walks the segment's complete block-summary list with AreTimesFullyEnclosed",
			"a persistent-query result file can be back-filled without the query window being known to enclose every block of the segment (the predicate is not handed SearchMetadata.BlockSummaries, or does not walk all of it): the file then covers only the blocks this query searched, and later wider runs of the query trust it for the whole segment and lose the other blocks' events")
	}
	r.Floor("PQMRWHOLE", "accepting returns of shouldBackFillPQMR", n, 1)
}

// (11) OPENRANGE — the time range recorded for an open segment decides whether a time-bounded query looks at the
// segment at all and whether the pre-computed statistics may answer for it ("fully enclosed").  Late or back-filled
// events make a later block older than the first one, so BOTH bounds must be able to move on every flush: among the
// stores of the segment's range in updateUnrotatedBlockInfo that are not first-time initialisations (governed by a nil
// test of the range or by the creation of the segment's record), one carries the flush's earliest time into the start
// bound and one carries its latest time into the end bound.
func c03OpenRange(c *core.Ctx, r *core.Report) {
	fn := c.Fn(pkgWriter, "updateUnrotatedBlockInfo")
	rangeF := c.Field(pkgWriter, "UnrotatedSegmentInfo.tsRange")
	startF := c.Field(pkgDtu, "TimeRange.StartEpochMs")
	endF := c.Field(pkgDtu, "TimeRange.EndEpochMs")
	// the flush's earliest / latest time: whatever arrives in this function from SegStore.earliest_millis /
	// latest_millis — as a parameter, or as a field of a parameter struct that the caller fills from them
	earliestF := c.Field(pkgWriter, "SegStore.earliest_millis")
	latestF := c.Field(pkgWriter, "SegStore.latest_millis")
	comesFrom := func(v ssa.Value, target *types.Var) bool {
		for i := 0; i < 3; i++ {
			if cv, ok := v.(*ssa.Convert); ok {
				v = cv.X
			}
		}
		for _, o := range c.Origins(v, 2) {
			if o.Kind != "field" {
				continue
			}
			if o.Obj == types.Object(target) {
				return true
			}
			// a carrier field: a field of a struct that arrives as a parameter of this function, into which
			// some store of the package puts the target (the caller fills the parameter struct)
			carrier, ok := o.Obj.(*types.Var)
			if !ok {
				continue
			}
			fromParam := false
			if fa, ok := o.Val.(*ssa.FieldAddr); ok {
				switch base := fa.X.(type) {
				case *ssa.Parameter:
					fromParam = base.Parent() == fn
				case *ssa.Alloc:
					if refs := base.Referrers(); refs != nil {
						for _, u := range *refs {
							if st, ok := u.(*ssa.Store); ok && st.Addr == ssa.Value(base) {
								if p, ok := st.Val.(*ssa.Parameter); ok && p.Parent() == fn {
									fromParam = true
								}
							}
						}
					}
				}
			}
			if !fromParam {
				continue
			}
			for _, g := range c.RepoFunctions() {
				if core.FnPkgPath(g) != core.FnPkgPath(fn) {
					continue
				}
				for _, blk := range g.Blocks {
					for _, in := range blk.Instrs {
						st, ok := in.(*ssa.Store)
						if !ok {
							continue
						}
						fa, ok := st.Addr.(*ssa.FieldAddr)
						if !ok || core.FieldOfAddr(fa) != carrier {
							continue
						}
						for _, o2 := range c.Origins(st.Val, 1) {
							if o2.Kind == "field" && o2.Obj == types.Object(target) {
								return true
							}
						}
					}
				}
			}
		}
		return false
	}
	derives := func(v ssa.Value, target *types.Var) bool { return comesFrom(v, target) }
	earliest, latest := earliestF, latestF
	firstTime := func(b *ssa.BasicBlock) bool {
		for x := b; x != nil; x = x.Idom() {
			idom := x.Idom()
			if idom == nil {
				break
			}
			ifi, ok := core.LastIf(idom)
			if !ok || !(idom.Succs[0] == x || idom.Succs[1] == x) || len(x.Preds) != 1 {
				continue
			}
			switch cnd := ifi.Cond.(type) {
			case *ssa.BinOp:
				// range == nil  (taken edge: the equal one)
				if core.IsNilConst(cnd.Y) || core.IsNilConst(cnd.X) {
					other := cnd.X
					if core.IsNilConst(cnd.X) {
						other = cnd.Y
					}
					if ld, ok := other.(*ssa.UnOp); ok {
						if fa, ok := ld.X.(*ssa.FieldAddr); ok && core.FieldOfAddr(fa) == rangeF {
							onEq := (cnd.Op == token.EQL && idom.Succs[0] == x) || (cnd.Op == token.NEQ && idom.Succs[1] == x)
							if onEq {
								return true
							}
						}
					}
				}
			case *ssa.Extract:
				// !ok of the lookup of the segment's record
				if lk, ok := cnd.Tuple.(*ssa.Lookup); ok && lk.CommaOk && idom.Succs[1] == x {
					return true
				}
			}
		}
		return false
	}
	startMoves, endMoves := false, false
	n := 0
	for _, b := range fn.Blocks {
		for _, in := range b.Instrs {
			st, ok := in.(*ssa.Store)
			if !ok {
				continue
			}
			fa, ok := st.Addr.(*ssa.FieldAddr)
			if !ok {
				continue
			}
			f := core.FieldOfAddr(fa)
			if f != startF && f != endF {
				continue
			}
			// the TimeRange object must be (or become) the segment's range: a fresh object stored into tsRange, or the loaded range itself
			isRange := false
			if al, ok := fa.X.(*ssa.Alloc); ok && al.Referrers() != nil {
				for _, u := range *al.Referrers() {
					if s2, ok := u.(*ssa.Store); ok && s2.Val == ssa.Value(al) {
						if fa2, ok := s2.Addr.(*ssa.FieldAddr); ok && core.FieldOfAddr(fa2) == rangeF && !firstTime(s2.Block()) {
							isRange = true
						}
					}
				}
			}
			if ld, ok := fa.X.(*ssa.UnOp); ok {
				if fa2, ok := ld.X.(*ssa.FieldAddr); ok && core.FieldOfAddr(fa2) == rangeF && !firstTime(b) {
					isRange = true
				}
			}
			if !isRange {
				continue
			}
			n++
			if f == startF && derives(st.Val, earliest) {
				startMoves = true
			}
			if f == endF && derives(st.Val, latest) {
				endMoves = true
			}
		}
	}
	r.Floor("OPENSEG", "bound stores of the open segment's time range that run on later flushes", n, 2)
	r.Check(startMoves, "OPENSEG", shortFn(fn)+":range-start-follows-every-flush", c.Pos(fn.Pos()),
		"a store that is not a first-time initialisation carries the flush's earliest time into the start bound",
		"after the first block the start of the open segment's recorded time range never takes the flush's earliest time: events that arrive late (older than the first block) lie outside the recorded range, so time-bounded queries skip the open segment and the statistics fast path treats it as fully enclosed when it is not")
	r.Check(endMoves, "OPENSEG", shortFn(fn)+":range-end-follows-every-flush", c.Pos(fn.Pos()),
		"a store that is not a first-time initialisation carries the flush's latest time into the end bound",
		"after the first block the end of the open segment's recorded time range never takes the flush's latest time")
}

// (12) SSTNUMERIC — the pre-computed segment statistics (.sst, filled at ingest by addSegStatsStrIngestion) and the
// statistics computed from records at query time (stats.AddSegStatsStr) must agree on which string values are
// numbers, or the same `stats` query gives different answers depending on whether the .sst fast path is taken.  The
// record-level side asks the float parser for every value; so does the ingest side: every path through
// addSegStatsStrIngestion to its return passes the float parser (no pre-filter on the bytes decides first).
func c03SstNumeric(c *core.Ctx, r *core.Report) {
	fn := c.Fn(pkgWriter, "addSegStatsStrIngestion")
	var parses []ssa.Instruction
	for _, ci := range core.CallsIn(fn) {
		if f := core.CalleeFunc(ci); f != nil && (f.Name() == "FastParseFloat" || f.Name() == "ParseFloat") {
			parses = append(parses, ci)
		}
	}
	r.Floor("SIBLING", "float parses in addSegStatsStrIngestion", len(parses), 1)
	isParse := map[ssa.Instruction]bool{}
	for _, p := range parses {
		isParse[p] = true
	}
	var bypass *ssa.Return
	core.WalkForward(fn, nil, func(in ssa.Instruction) bool {
		if isParse[in] {
			return false
		}
		if ret, ok := in.(*ssa.Return); ok && bypass == nil {
			bypass = ret
		}
		return true
	})
	if bypass != nil {
		r.Violation("SIBLING", shortFn(fn)+":every-string-value-is-offered-to-the-float-parser", c.Pos(bypass.Pos()), "a string value can be recorded in the ingest-time segment statistics without having been offered to the float parser: values the record-level statistics treat as numbers (\"+5\", \".5\") are kept as text in the .sst, and a statistics query answers differently when it is served from the .sst")
	} else {
		r.OK("SIBLING", shortFn(fn)+":every-string-value-is-offered-to-the-float-parser", c.Pos(fn.Pos()), "every path to the return passes the float parser")
	}
}

// (13) STALEREF — the open segment replaces some of its containers wholesale when a segment is rotated (a fresh
// map or slice is stored into the field: WipBlock.colWips at every resetSegStore).  A copy of the OLD container kept
// in another long-lived object keeps pointing at the previous segment's buffers: the ingest-time evaluation of
// persistent queries (segstream.go) then looks at reset columns, every later segment's match bitsets are empty, and
// queries answered from them miss the events while a raw search finds them.  For every field of the writer
// package that is re-assigned a freshly allocated container outside the construction of its owner, no value loaded
// from it is stored into a field of an object that is itself stored into a field or a global (kept beyond the
// call); passing the container down as an argument is fine.
func c03StaleRef(c *core.Ctx, r *core.Report) {
	isWriterPkg := func(fn *ssa.Function) bool { return core.FnPkgPath(fn) == core.ModPath+"/"+pkgWriter }
	segStoreT, wipBlockT := c.NamedType(pkgWriter, "SegStore"), c.NamedType(pkgWriter, "WipBlock")
	fresh := func(v ssa.Value) bool {
		switch x := v.(type) {
		case *ssa.MakeMap, *ssa.MakeSlice:
			return true
		case *ssa.Alloc:
			return x.Heap
		}
		return false
	}
	// freshBase: the object whose field is written was itself created in this function (a constructor)
	var freshBase func(v ssa.Value, depth int) bool
	freshBase = func(v ssa.Value, depth int) bool {
		if depth > 4 {
			return false
		}
		switch x := v.(type) {
		case *ssa.Alloc:
			return true
		case *ssa.FieldAddr:
			return freshBase(x.X, depth+1)
		case *ssa.UnOp:
			return false
		}
		return false
	}
	realloc := map[*types.Var]ssa.Instruction{}
	for _, fn := range c.RepoFunctions() {
		if !isWriterPkg(fn) {
			continue
		}
		for _, b := range fn.Blocks {
			for _, in := range b.Instrs {
				st, ok := in.(*ssa.Store)
				if !ok || !fresh(st.Val) {
					continue
				}
				fa, ok := st.Addr.(*ssa.FieldAddr)
				if !ok || freshBase(fa.X, 0) {
					continue
				}
				// fields of the open segment's own state: SegStore and its work-in-progress block
				ownerOK := false
				if pt, ok := fa.X.Type().Underlying().(*types.Pointer); ok {
					if nt, ok := pt.Elem().(*types.Named); ok && (nt == segStoreT || nt == wipBlockT) {
						ownerOK = true
					}
				}
				if f := core.FieldOfAddr(fa); f != nil && ownerOK {
					if _, isMap := f.Type().Underlying().(*types.Map); isMap {
						realloc[f] = st
					}
				}
			}
		}
	}
	r.Floor("OWN", "containers of the open segment that are replaced wholesale", len(realloc), 1)
	n := 0
	var names []string
	for f := range realloc {
		names = append(names, f.Name())
	}
	sort.Strings(names)
	bad := map[string]ssa.Instruction{}
	for _, fn := range c.RepoFunctions() {
		if !isWriterPkg(fn) {
			continue
		}
		for _, b := range fn.Blocks {
			for _, in := range b.Instrs {
				st, ok := in.(*ssa.Store)
				if !ok {
					continue
				}
				ld, ok := st.Val.(*ssa.UnOp)
				if !ok || ld.Op != token.MUL {
					continue
				}
				src, ok := ld.X.(*ssa.FieldAddr)
				if !ok {
					continue
				}
				f := core.FieldOfAddr(src)
				if f == nil || realloc[f] == nil {
					continue
				}
				dst, ok := st.Addr.(*ssa.FieldAddr)
				if !ok || core.FieldOfAddr(dst) == f {
					continue
				}
				n++
				// the holder: kept beyond the call when it is (or is reachable from) an object stored into a field
				// or a global
				holder, ok := dst.X.(*ssa.Alloc)
				kept := !ok // a field of an existing object: long-lived by definition
				if ok && holder.Referrers() != nil {
					for _, u := range *holder.Referrers() {
						if hs, isSt := u.(*ssa.Store); isSt && hs.Val == ssa.Value(holder) {
							switch hs.Addr.(type) {
							case *ssa.FieldAddr, *ssa.Global:
								kept = true
							}
						}
					}
				}
				if kept {
					bad[shortFn(fn)+":"+f.Name()] = st
				}
			}
		}
	}
	var keys []string
	for k := range bad {
		keys = append(keys, k)
	}
	sort.Strings(keys)
	for _, k := range keys {
		r.Violation("OWN", k+"-not-cached-across-its-replacement", c.Pos(bad[k].Pos()),
			"a container that the open segment replaces wholesale at rotation is copied into an object that outlives the call: after the next rotation the copy still points at the previous segment's (reset) buffers, so whatever reads through it — the ingest-time evaluation of persistent queries — sees empty columns, and queries answered from its results miss events that a raw search finds")
	}
	if len(keys) == 0 {
		r.OK("OWN", "writer:replaced-containers-are-not-cached", "-", fmt.Sprintf("replaced wholesale: %s; %d stores of a loaded container into another field, none into an object kept beyond the call", strings.Join(names, ", "), n))
	}
}
