package props

import (
	"fmt"
	"go/token"
	"go/types"
	"os"
	"sort"
	"strings"

	"golang.org/x/tools/go/ssa"

	"verif/engine/internal/core"
)

func init() { register("C19", checkC19) }

// fileSinks: function -> indices of path arguments.
var fileSinkTable = map[string][]int{
	"os.Open": {0}, "os.OpenFile": {0}, "os.Create": {0}, "os.Remove": {0}, "os.RemoveAll": {0},
	"os.ReadFile": {0}, "os.WriteFile": {0}, "os.Mkdir": {0}, "os.MkdirAll": {0}, "os.Rename": {0, 1},
	"os.ReadDir": {0}, "os.Truncate": {0}, "os.Symlink": {0, 1}, "os.Link": {0, 1}, "os.Chmod": {0}, "os.Chown": {0},
	"os.CreateTemp": {0}, "os.MkdirTemp": {0},
	"io/ioutil.ReadFile": {0}, "io/ioutil.WriteFile": {0}, "io/ioutil.ReadDir": {0},
}

// stringy: the type can carry attacker-chosen bytes.
func stringy(t types.Type, depth int) bool {
	if depth > 4 {
		return false
	}
	switch tt := t.(type) {
	case *types.Tuple:
		for i := 0; i < tt.Len(); i++ {
			if stringy(tt.At(i).Type(), depth+1) {
				return true
			}
		}
		return false
	case *types.Named, *types.Basic, *types.Pointer, *types.Slice, *types.Array, *types.Map, *types.Chan, *types.Struct, *types.Interface, *types.Signature, *types.Alias, *types.TypeParam:
	default:
		return true
	}
	switch u := t.Underlying().(type) {
	case *types.Basic:
		return u.Info()&types.IsString != 0 || u.Kind() == types.UnsafePointer
	case *types.Pointer:
		return stringy(u.Elem(), depth+1)
	case *types.Slice:
		if b, ok := u.Elem().Underlying().(*types.Basic); ok && b.Kind() == types.Uint8 {
			return true
		}
		return stringy(u.Elem(), depth+1)
	case *types.Array:
		if b, ok := u.Elem().Underlying().(*types.Basic); ok && b.Kind() == types.Uint8 {
			return true
		}
		return stringy(u.Elem(), depth+1)
	case *types.Map:
		return stringy(u.Elem(), depth+1) || stringy(u.Key(), depth+1)
	case *types.Chan:
		return stringy(u.Elem(), depth+1)
	case *types.Struct:
		for i := 0; i < u.NumFields(); i++ {
			if stringy(u.Field(i).Type(), depth+1) {
				return true
			}
		}
		return false
	case *types.Interface:
		return true
	case *types.Signature:
		return false
	}
	return false
}

func checkC19(c *core.Ctx, r *core.Report) {
	r.Explanation = "C19 (client-supplied names cannot reach files outside the data directory): TAINT — a forward, interprocedural, field-based value-flow closure over the whole repository from every request-data source (all string/byte-carrying results of methods on fasthttp RequestCtx/Request/Args/URI/RequestHeader/multipart values and websocket reads, and everything decoded from them) to the path argument of every file-system sink (os.Open/OpenFile/Create/Remove/RemoveAll/ReadFile/WriteFile/Mkdir/MkdirAll/Rename/ReadDir/Truncate/Symlink/Chmod…). " +
		"Obligation: no such value reaches a sink unless it passed a sanitiser: filepath.Base, conversion to a number or hash (taint is carried only by string-like types), a membership test (the value was used as key of a comma-ok map lookup whose found-edge dominates the use), or a validator from the frozen table. Router path parameters (ctx.UserValue) are single undecoded path segments (fasthttp/router matches on the raw path) and are tracked separately: they are reported only once they pass through url.PathUnescape/QueryUnescape, which turns %2F into a separator."
	r.NotCovered = "the Kibana-compatibility internal indices (TableInfo.kibanaTables is a named cut), flows that pass through values stored in long-lived state by key (map keys do not taint maps) or through the generated query parsers' interface-typed stacks, symlinks inside the data directory, encodings handled by the operating system, config-supplied paths (trusted), blob-store keys, what a confined name can overwrite inside the data directory"

	// storage path builders: a request-derived *name* must not arrive here unvalidated; the flow is reported at the
	// call site and cut (everything derived from the built path would otherwise be reported again at ~90 sinks)
	builders := map[types.Object][]int{
		c.Obj(pkgConfig, "GetBaseSegDir"):    {1},
		c.Obj(pkgConfig, "GetBaseVTableDir"): {1},
		c.Obj(pkgConfig, "GetSegKey"):        {1},
		c.Obj(pkgConfig, "GetSuffixFile"):    {0},
	}
	type bhit struct {
		ci  ssa.CallInstruction
		arg ssa.Value
		fn  types.Object
	}
	var builderHits []bhit
	seenB := map[ssa.CallInstruction]bool{}
	pure := map[*ssa.Function]int{}
	structuralValidators = computeStructuralValidators(c)
	{
		var names []string
		for fn := range structuralValidators {
			names = append(names, shortFn(fn))
		}
		sort.Strings(names)
		r.Check(len(names) >= 2, "TAINT", "single-path-element-validators-recognised", "-", "functions whose true result implies a single path element (by the shape of their body): "+strings.Join(names, ", "), "fewer than two single-path-element validators recognised: "+strings.Join(names, ", "))
	}
	validates := validatingFunctions(c)
	r.Count("functions_validating_a_parameter_on_success", len(validates))
	fullSeeds, segSeeds := 0, 0
	var full *core.Taint
	newTaint := func() *core.Taint {
		t := &core.Taint{C: c, ExternalArgs: true, FieldSensitive: true}
		t.Filter = func(v ssa.Value) bool {
			// request/response objects themselves are never "data": their accessors are the sources
			if isFasthttpType(v.Type()) {
				return false
			}
			if n, ok := v.Type().(*types.Named); ok && n.Obj().Pkg() == nil && n.Obj().Name() == "error" {
				return false // error values are reported, never used as names
			}
			return stringy(v.Type(), 0)
		}
		t.Model = func(call ssa.CallInstruction, tainted []int) (bool, bool) {
			f := core.CalleeFunc(call)
			if f == nil && !call.Common().IsInvoke() {
				// calls through hooks.GlobalHooks.* : the hooks are nil in this build (assumption listed in the evidence)
				for _, o := range c.Origins(call.Common().Value, 0) {
					if o.Kind == "field" && o.Obj != nil && o.Obj.Pkg() != nil && o.Obj.Pkg().Path() == core.ModPath+"/pkg/hooks" {
						return false, true
					}
					if o.Kind == "global" && o.Obj != nil && o.Obj.Pkg() != nil && o.Obj.Pkg().Path() == core.ModPath+"/pkg/hooks" {
						return false, true
					}
				}
			}
			if f == nil || f.Pkg() == nil {
				return false, false
			}
			switch f.Pkg().Path() + "." + f.Name() {
			case "path/filepath.Base", "path.Base":
				return false, true // sanitiser: the result has no separator and is not a parent reference beyond the joined directory
			case "path/filepath.Join", "path.Join":
				// Join("/", x...) cleans x as a rooted path: the result has no leading dot-dot element, so joining it
				// onto a directory stays inside that directory
				if args := call.Common().Args; len(args) == 1 {
					if sl, ok := args[0].(*ssa.Slice); ok {
						if first := firstVarargElement(sl); first != nil {
							if k, ok := core.ConstStringValue(first); ok && k == "/" {
								return false, true
							}
						}
					}
				}
			case "github.com/sirupsen/logrus.Errorf", "github.com/sirupsen/logrus.Infof", "github.com/sirupsen/logrus.Warnf", "github.com/sirupsen/logrus.Debugf",
				"github.com/sirupsen/logrus.Error", "github.com/sirupsen/logrus.Info", "github.com/sirupsen/logrus.Warn":
				return false, true
			case "errors.New", "fmt.Errorf":
				return false, true // error texts are not used as paths
			case "github.com/google/uuid.New", "github.com/google/uuid.NewString":
				return false, true
			}
			if f.Pkg().Path() == "github.com/sirupsen/logrus" {
				return false, true
			}
			if idxs, ok := builders[f.Origin()]; ok {
				for _, ti := range tainted {
					for _, bi := range idxs {
						if ti == bi && t == full && !seenB[call] {
							seenB[call] = true
							builderHits = append(builderHits, bhit{call, call.Common().Args[bi], f})
						}
					}
				}
				return false, true
			}
			// small pure string helpers are analysed per call site (context sensitivity where it is cheap)
			if callee := call.Common().StaticCallee(); callee != nil && isPureStringHelper(callee, pure, 0) {
				prop := false
				for _, ti := range tainted {
					// a helper that validates the argument itself (every return that reports success lies
					// behind a validator / membership check of that parameter) hands back a checked name
					if validates[callee][ti] {
						continue
					}
					if pureHelperPropagates(callee, ti, 0) {
						prop = true
					}
				}
				return prop, true
			}
			return false, false
		}
		t.Block = func(v ssa.Value, user ssa.Instruction) bool {
			return membershipChecked(c, v, user) || validatedByCallee(c, v, user, validates)
		}
		kibanaTables := c.Field(pkgStructs, "TableInfo.kibanaTables")
		scrollID := c.Field("pkg/scroll", "Scroll.Scroll_id")
		t.StopField = func(f *types.Var) bool {
			if f == scrollID {
				// named exception: a client-supplied scroll id is accepted only after scroll.IsScrollIdValid (membership in the
				// server-side table of generated ids); the obligation SCROLL-ID-VALIDATED below checks that every use of a
				// parsed scroll record in the ES search handler is dominated by that test
				return true
			}
			// named exception: the Kibana-compatibility store (".kibana*" index names, kept under a separate internal
			// directory and addressed through a converted name) is not analysed; listed under not-covered
			return f == kibanaTables
		}
		return t
	}
	full = newTaint()
	seg := newTaint()
	isFasthttp := isFasthttpType
	userValue := c.ExtObj("github.com/valyala/fasthttp", "RequestCtx.UserValue")
	for _, fn := range c.RepoFunctions() {
		for _, b := range fn.Blocks {
			for _, in := range b.Instrs {
				switch x := in.(type) {
				case *ssa.Call:
					f := core.CalleeFunc(x)
					if f == nil {
						continue
					}
					sig, _ := f.Type().(*types.Signature)
					if sig == nil || sig.Recv() == nil || !isFasthttp(sig.Recv().Type()) {
						continue
					}
					if !stringy(x.Type(), 0) {
						continue
					}
					// results that are themselves fasthttp objects (ctx.URI(), ctx.QueryArgs()) are followed by later calls, not tainted
					if isFasthttp(x.Type()) {
						continue
					}
					if f == userValue {
						seg.Add(x, nil)
						segSeeds++
					} else {
						switch f.Name() {
						case "Write", "WriteString", "SetBody", "SetBodyString", "SetStatusCode", "SetContentType", "Set", "SetBytesV", "Error", "Redirect", "Close", "WriteMessage", "WriteJSON", "Name", "String", "RemoteAddr", "LocalAddr", "ID", "ConnID", "Time", "Method", "IsGet", "IsPost":
							continue
						}
						full.AddDeep(x, nil)
						fullSeeds++
						// ReadJSON(&v) style: pointer args become tainted
						for _, a := range x.Call.Args[1:] {
							if _, ok := a.Type().Underlying().(*types.Pointer); ok {
								full.AddDeep(a, x)
							}
						}
					}
				case *ssa.FieldAddr:
					// multipart.FileHeader.Filename
					if fld := core.FieldOfAddr(x); fld != nil && fld.Pkg() != nil && fld.Pkg().Path() == "mime/multipart" && fld.Name() == "Filename" {
						full.Add(x, nil)
						fullSeeds++
					}
				}
			}
		}
	}
	seg.Run()
	// upgrade: a path segment that is percent-decoded becomes arbitrary bytes
	upgraded := 0
	for _, fn := range c.RepoFunctions() {
		for _, ci := range core.CallsIn(fn) {
			f := core.CalleeFunc(ci)
			if f == nil || f.Pkg() == nil || f.Pkg().Path() != "net/url" || (f.Name() != "PathUnescape" && f.Name() != "QueryUnescape") {
				continue
			}
			if seg.Has(ci.Common().Args[0]) {
				if call, ok := ci.(*ssa.Call); ok {
					full.Add(call, ci.Common().Args[0])
					upgraded++
				}
			}
		}
	}
	r.Count("map_carriers_with_request_derived_keys", full.RunWithMapKeys())
	if q := os.Getenv("VERIF_TAINT_FN"); q != "" {
		for v := range full.Values() {
			if in, ok := v.(ssa.Instruction); ok && in.Parent() != nil && strings.Contains(in.Parent().String(), q) {
				fmt.Fprintf(os.Stderr, "TAINTED %s: %s = %s @%s\n", in.Parent(), v.Name(), v, c.Pos(in.Pos()))
			} else if p, ok := v.(*ssa.Parameter); ok && strings.Contains(p.Parent().String(), q) {
				fmt.Fprintf(os.Stderr, "TAINTED %s: param %s\n", p.Parent(), p.Name())
			}
		}
	}
	r.Count("request_data_source_sites", fullSeeds)
	r.Count("router_path_parameter_sites", segSeeds)
	r.Count("percent_decoded_path_parameters", upgraded)
	r.Count("tainted_values", len(full.Values()))
	r.Floor("TAINT", "request data sources", fullSeeds, 100)

	// scroll ids: every use of the parsed scroll record in the ES search handler is dominated by IsScrollIdValid
	{
		h := c.Fn("pkg/es/reader", "ProcessSearchRequest")
		isValid := c.Obj("pkg/scroll", "IsScrollIdValid")
		scrollT := c.NamedType("pkg/scroll", "Scroll")
		var checks []*ssa.Call
		for _, call := range callsTo(h, isValid) {
			checks = append(checks, call)
		}
		bad := 0
		uses := 0
		for _, ci := range core.CallsIn(h) {
			if core.IsCallTo(ci, isValid) {
				continue
			}
			passes := false
			for _, a := range ci.Common().Args {
				if p, ok := a.Type().(*types.Pointer); ok && types.Identical(p.Elem(), scrollT) {
					passes = true
				}
			}
			if !passes {
				continue
			}
			uses++
			ok := false
			for _, chk := range checks {
				if core.BoolKnownAt(chk, ci.Block()) == core.Yes {
					ok = true
				}
			}
			if !ok {
				bad++
				r.Violation("GUARD", "reader.ProcessSearchRequest:SCROLL-ID-VALIDATED", c.Pos(ci.Pos()), "a scroll record parsed from the request is used where scroll.IsScrollIdValid is not known to have accepted its id: the id becomes a file name in the scroll directory")
			}
		}
		if bad == 0 {
			r.OK("GUARD", "reader.ProcessSearchRequest:SCROLL-ID-VALIDATED", c.Pos(h.Pos()), fmt.Sprintf("%d uses of the parsed scroll record, all dominated by IsScrollIdValid", uses))
		}
		r.Floor("GUARD", "uses of the parsed scroll record in the ES search handler", uses, 1)
	}

	// sinks
	nSinks, nBad := 0, 0
	perFn := map[string]int{}
	type hit struct {
		fn   *ssa.Function
		ci   ssa.CallInstruction
		api  string
		path ssa.Value
	}
	var hits []hit
	for _, fn := range c.RepoFunctions() {
		for _, ci := range core.CallsIn(fn) {
			f := core.CalleeFunc(ci)
			if f == nil || f.Pkg() == nil {
				continue
			}
			api := f.Pkg().Path() + "." + f.Name()
			idxs, ok := fileSinkTable[api]
			if !ok {
				continue
			}
			if sig := f.Type().(*types.Signature); sig.Recv() != nil {
				continue
			}
			nSinks++
			for _, i := range idxs {
				if i < len(ci.Common().Args) && full.Has(ci.Common().Args[i]) {
					hits = append(hits, hit{fn, ci, api, ci.Common().Args[i]})
					break
				}
			}
		}
	}
	r.Count("file_sink_sites", nSinks)
	r.Floor("TAINT", "file-system sink sites", nSinks, 150)
	sort.Slice(hits, func(i, j int) bool { return hits[i].ci.Pos() < hits[j].ci.Pos() })
	for _, h := range hits {
		nBad++
		name := shortFn(h.fn)
		perFn[name+"|"+h.api]++
		construct := fmt.Sprintf("%s:%s", name, strings.TrimPrefix(h.api, "io/ioutil."))
		if n := perFn[name+"|"+h.api]; n > 1 {
			construct = fmt.Sprintf("%s@%d", construct, n)
		}
		// the source at the head of the provenance chain
		path := taintPath(c, full, h.path)
		src := ""
		if len(path) > 0 {
			src = path[0]
		}
		r.Violation("TAINT", construct, c.Pos(h.ci.Pos()), "a value derived from request data reaches the path argument of "+h.api+" without passing a sanitiser (filepath.Base, numeric/hash conversion, membership test, validator): a name containing ../ or an absolute path makes the server touch a file outside its data directory; source: "+src, path...)
	}
	sort.Slice(builderHits, func(i, j int) bool { return builderHits[i].ci.Pos() < builderHits[j].ci.Pos() })
	perB := map[string]int{}
	for _, h := range builderHits {
		nBad++
		name := shortFn(h.ci.Parent())
		k := name + "->" + h.fn.Name()
		perB[k]++
		construct := fmt.Sprintf("%s:unvalidated-name-into-%s", name, h.fn.Name())
		if perB[k] > 1 {
			construct = fmt.Sprintf("%s@%d", construct, perB[k])
		}
		path := taintPath(c, full, h.arg)
		src := ""
		if len(path) > 0 {
			src = path[0]
		}
		r.Violation("TAINT", construct, c.Pos(h.ci.Pos()), "a name derived from request data becomes a path component in config."+h.fn.Name()+" without validation: `../` segments or separators in an index name place segment files outside the data directory; source: "+src, path...)
	}
	r.Count("storage_path_builder_hits", len(builderHits))
	if nBad == 0 {
		r.OK("TAINT", "no-request-data-reaches-a-file-sink", "-", fmt.Sprintf("%d sink sites, none reachable from %d request-data sources without a sanitiser", nSinks, fullSeeds))
	}
}

// validatorTable: boolean functions whose true result means "the argument is a
// single, harmless path element / a server-generated id".
var validatorTable = map[string]bool{
	core.ModPath + "/pkg/scroll.IsScrollIdValid": true, // membership in the server's table of issued scroll ids
}

// structuralValidators: every repository function func(string) bool whose true result implies, by the shape
// of its body, that the argument is a single path element: (x == filepath.Base(x), or x contains none of a
// constant character set that includes "/") and x != "..".  The set is recomputed from the current sources
// on every run, so a validator whose body stops validating stops being one.
var structuralValidators map[*ssa.Function]bool

func computeStructuralValidators(c *core.Ctx) map[*ssa.Function]bool {
	out := map[*ssa.Function]bool{}
	for _, fn := range c.RepoFunctions() {
		if fn.Parent() != nil || fn.Blocks == nil || len(fn.Params) != 1 || fn.Signature.Results().Len() != 1 {
			continue
		}
		if pb, ok := fn.Params[0].Type().Underlying().(*types.Basic); !ok || pb.Info()&types.IsString == 0 {
			continue
		}
		if rb, ok := fn.Signature.Results().At(0).Type().Underlying().(*types.Basic); !ok || rb.Kind() != types.Bool {
			continue
		}
		x := ssa.Value(fn.Params[0])
		// atoms: value -> (kind, polarity); kind 0 = no separator, 1 = not dot-dot
		type atom struct {
			kind int
			pos  bool
		}
		atoms := map[ssa.Value]atom{}
		for _, b := range fn.Blocks {
			for _, in := range b.Instrs {
				switch y := in.(type) {
				case *ssa.BinOp:
					if y.Op != token.EQL && y.Op != token.NEQ {
						continue
					}
					other := ssa.Value(nil)
					if y.X == x {
						other = y.Y
					} else if y.Y == x {
						other = y.X
					}
					if other == nil {
						continue
					}
					if s, ok := core.ConstStringValue(other); ok && s == ".." {
						atoms[y] = atom{1, y.Op == token.NEQ}
					}
					if call, ok := other.(*ssa.Call); ok {
						if f := core.CalleeFunc(call); f != nil && f.Pkg() != nil && (f.Pkg().Path() == "path/filepath" || f.Pkg().Path() == "path") && f.Name() == "Base" && len(call.Call.Args) == 1 && call.Call.Args[0] == x {
							atoms[y] = atom{0, y.Op == token.EQL}
						}
					}
				case *ssa.Call:
					f := core.CalleeFunc(y)
					if f == nil || f.Pkg() == nil || f.Pkg().Path() != "strings" || len(y.Call.Args) != 2 || y.Call.Args[0] != x {
						continue
					}
					if k, ok := core.ConstStringValue(y.Call.Args[1]); ok {
						if (f.Name() == "ContainsAny" && strings.Contains(k, "/")) || (f.Name() == "Contains" && k == "/") {
							atoms[y] = atom{0, false} // the call being true means a separator is present
						}
					}
				case *ssa.UnOp:
					if y.Op == token.NOT {
						if a, ok := atoms[y.X]; ok {
							atoms[y] = atom{a.kind, !a.pos}
						}
					}
				}
			}
		}
		if len(atoms) == 0 {
			continue
		}
		knownAt := func(kind int, at *ssa.BasicBlock) bool {
			for v, a := range atoms {
				if a.kind != kind {
					continue
				}
				k := core.BoolKnownAt(v, at)
				if (a.pos && k == core.Yes) || (!a.pos && k == core.No) {
					return true
				}
			}
			return false
		}
		var holds func(kind int, v ssa.Value, at *ssa.BasicBlock, depth int) bool
		holds = func(kind int, v ssa.Value, at *ssa.BasicBlock, depth int) bool {
			if depth > 6 {
				return false
			}
			if k, ok := v.(*ssa.Const); ok && k.Value != nil && k.Value.String() == "false" {
				return true // this value is never true
			}
			if a, ok := atoms[v]; ok && a.kind == kind && a.pos {
				return true
			}
			if ph, ok := v.(*ssa.Phi); ok {
				for i, e := range ph.Edges {
					if !holds(kind, e, ph.Block().Preds[i], depth+1) {
						return false
					}
				}
				return true
			}
			return knownAt(kind, at)
		}
		ok := true
		for _, ret := range core.Returns(fn) {
			v := core.RetResult(ret, 0)
			if !holds(0, v, ret.Block(), 0) || !holds(1, v, ret.Block(), 0) {
				ok = false
			}
		}
		if ok {
			out[fn] = true
		}
	}
	return out
}

func isValidatorCall(l *ssa.Call) bool {
	f := core.CalleeFunc(l)
	if f != nil && f.Pkg() != nil && validatorTable[f.Pkg().Path()+"."+f.Name()] {
		return true
	}
	if callee := l.Call.StaticCallee(); callee != nil && structuralValidators[callee] {
		return true
	}
	return false
}

// membershipChecked: v (or another load of the same variable) was used as the
// key of a comma-ok map lookup, passed to a validator of the frozen table, or
// compared with filepath.Base of itself, and the accepting edge dominates user.
func membershipChecked(c *core.Ctx, v ssa.Value, user ssa.Instruction) bool {
	fn := user.Parent()
	if fn == nil {
		return false
	}
	at := user.Block()
	okCall := func(call *ssa.Call) bool { return core.BoolKnownAt(call, at) == core.Yes }
	check := func(x ssa.Value) bool {
		xr := x.Referrers()
		if xr == nil {
			return false
		}
		for _, in := range *xr {
			switch l := in.(type) {
			case *ssa.Lookup:
				if !l.CommaOk || l.Index != x {
					continue
				}
				if lr := l.Referrers(); lr != nil {
					for _, e := range *lr {
						if ex, ok := e.(*ssa.Extract); ok && ex.Index == 1 && core.BoolKnownAt(ex, at) == core.Yes {
							return true
						}
					}
				}
			case *ssa.Call:
				f := core.CalleeFunc(l)
				if f == nil || f.Pkg() == nil {
					continue
				}
				if isValidatorCall(l) && okCall(l) {
					return true
				}
				// x == filepath.Base(x)
				if (f.Pkg().Path() == "path/filepath" || f.Pkg().Path() == "path") && f.Name() == "Base" {
					if lr := l.Referrers(); lr != nil {
						for _, e := range *lr {
							bo, ok := e.(*ssa.BinOp)
							if !ok || !(bo.X == x || bo.Y == x) {
								continue
							}
							switch bo.Op.String() {
							case "==":
								if core.BoolKnownAt(bo, at) == core.Yes {
									return true
								}
							case "!=":
								if core.BoolKnownAt(bo, at) == core.No || inOrChainFalse(bo, at) {
									return true
								}
							}
						}
					}
				}
			}
		}
		return false
	}
	cands := []ssa.Value{v}
	// other loads of the same address (pointer parameters, locals): *p validated once covers later *p
	if ld, ok := v.(*ssa.UnOp); ok {
		if refs := ld.X.Referrers(); refs != nil {
			for _, r := range *refs {
				if o, ok := r.(*ssa.UnOp); ok && o != ld && o.X == ld.X {
					cands = append(cands, o)
				}
			}
		}
	}
	for _, x := range cands {
		if check(x) {
			return true
		}
		if refs := x.Referrers(); refs != nil {
			for _, in := range *refs {
				switch y := in.(type) {
				case *ssa.Convert:
					if check(y) {
						return true
					}
				case *ssa.MakeInterface:
					if check(y) {
						return true
					}
				}
			}
		}
	}
	return false
}

// inOrChainFalse: cond is one disjunct of `if a || b || c { reject }` and block
// at is reached only when the whole disjunction was false.
func inOrChainFalse(cond ssa.Value, at *ssa.BasicBlock) bool {
	// go/ssa lowers a || b into: if a goto T else next; next: if b goto T else F.
	// The accepting block F is dominated by the false edge of the *last* test and,
	// transitively, every earlier test's false edge dominates the later tests.
	refs := cond.Referrers()
	if refs == nil {
		return false
	}
	for _, r := range *refs {
		ifi, ok := r.(*ssa.If)
		if !ok {
			continue
		}
		fsucc := ifi.Block().Succs[1]
		// follow the chain of false edges
		for i := 0; i < 6 && fsucc != nil; i++ {
			if len(fsucc.Preds) == 1 && fsucc.Dominates(at) {
				// at lies below the false edge of this test; is it also outside every "true" target?
				tsucc := ifi.Block().Succs[0]
				if !tsucc.Dominates(at) {
					return true
				}
			}
			break
		}
	}
	return false
}

// isPureStringHelper: a small repository function without side effects on
// shared state whose results depend only on its parameters (so that its result
// is tainted exactly when an argument is).
func isPureStringHelper(fn *ssa.Function, memo map[*ssa.Function]int, depth int) bool {
	if v, ok := memo[fn]; ok {
		return v == 2
	}
	if fn.Blocks == nil || !core.IsRepoPkg(core.FnPkgPath(fn)) || depth > 2 {
		return false
	}
	memo[fn] = 1
	n := 0
	ok := true
	for _, b := range fn.Blocks {
		for _, in := range b.Instrs {
			n++
			switch x := in.(type) {
			case *ssa.Store:
				switch a := x.Addr.(type) {
				case *ssa.Alloc:
				case *ssa.IndexAddr:
					if _, local := a.X.(*ssa.Alloc); !local {
						ok = false
					}
				default:
					ok = false
				}
			case *ssa.MapUpdate, *ssa.Send, *ssa.Go, *ssa.Defer, *ssa.MakeClosure:
				ok = false
			case *ssa.UnOp:
				if g, isG := x.X.(*ssa.Global); isG {
					// reads shared state — except a package-level string (a configured directory), which is
					// not request data and does not make the helper's result depend on another call
					if bt, isB := g.Type().(*types.Pointer).Elem().Underlying().(*types.Basic); !isB || bt.Info()&types.IsString == 0 {
						ok = false
					}
				}
			case *ssa.Call:
				if callee := x.Call.StaticCallee(); callee != nil && core.IsRepoPkg(core.FnPkgPath(callee)) {
					if !isPureStringHelper(callee, memo, depth+1) {
						ok = false
					}
				} else if x.Call.StaticCallee() == nil {
					if _, isBuiltin := x.Call.Value.(*ssa.Builtin); !isBuiltin {
						ok = false
					}
				} else if f := core.CalleeFunc(x); f != nil && f.Pkg() != nil {
					switch f.Pkg().Path() {
					case "strings", "strconv", "fmt", "bytes", "unicode", "unicode/utf8", "path", "path/filepath", "errors", "math", "sort", "encoding/hex", "encoding/base64":
					default:
						ok = false
					}
				}
			}
		}
	}
	if n > 120 || len(fn.Params) == 0 {
		ok = false
	}
	if ok {
		memo[fn] = 2
	} else {
		memo[fn] = 3
	}
	return ok
}

func isFasthttpType(t types.Type) bool {
	for i := 0; i < 3; i++ {
		if p, ok := t.(*types.Pointer); ok {
			t = p.Elem()
		}
	}
	n, ok := t.(*types.Named)
	if !ok || n.Obj().Pkg() == nil {
		return false
	}
	switch n.Obj().Pkg().Path() {
	case "github.com/valyala/fasthttp", "mime/multipart", "github.com/fasthttp/websocket", "github.com/fasthttp/router":
		return true
	}
	return false
}

// validatingFunctions: (function, string parameter index) pairs such that every
// return that may report success is dominated by a membership/validator check of
// that parameter — calling the function and seeing a nil error validates the argument.
func validatingFunctions(c *core.Ctx) map[*ssa.Function]map[int]bool {
	out := map[*ssa.Function]map[int]bool{}
	for _, fn := range c.RepoFunctions() {
		if fn.Parent() != nil || core.ErrResultIndex(fn) < 0 {
			continue
		}
		for i, p := range fn.Params {
			b, ok := p.Type().Underlying().(*types.Basic)
			if !ok || b.Info()&types.IsString == 0 {
				continue
			}
			rets := core.Returns(fn)
			n := 0
			all := true
			for _, ret := range rets {
				if core.ReturnSuccess(ret) == core.No {
					continue
				}
				n++
				if !membershipChecked(c, p, ret) {
					all = false
					break
				}
			}
			if all && n > 0 {
				if out[fn] == nil {
					out[fn] = map[int]bool{}
				}
				out[fn][i] = true
			}
		}
	}
	return out
}

// validatedByCallee: v was passed to a validating function whose error is known nil at user.
func validatedByCallee(c *core.Ctx, v ssa.Value, user ssa.Instruction, validates map[*ssa.Function]map[int]bool) bool {
	refs := v.Referrers()
	if refs == nil {
		return false
	}
	for _, in := range *refs {
		call, ok := in.(*ssa.Call)
		if !ok || call.Parent() != user.Parent() {
			continue
		}
		callee := call.Call.StaticCallee()
		if callee == nil {
			continue
		}
		idxs := validates[callee]
		if idxs == nil {
			continue
		}
		for i, a := range call.Call.Args {
			if a == v && idxs[i] {
				if errv, _ := errResultOf(call); errv != nil && core.NilnessAt(errv, user.Block()) == core.Yes {
					return true
				}
			}
		}
	}
	return false
}

// firstVarargElement: the value stored into element 0 of the array behind a variadic argument slice.
func firstVarargElement(sl *ssa.Slice) ssa.Value {
	alloc, ok := sl.X.(*ssa.Alloc)
	if !ok || alloc.Referrers() == nil {
		return nil
	}
	for _, r := range *alloc.Referrers() {
		ia, ok := r.(*ssa.IndexAddr)
		if !ok {
			continue
		}
		if k, ok := core.ConstIntValue(ia.Index); !ok || k != 0 || ia.Referrers() == nil {
			continue
		}
		for _, u := range *ia.Referrers() {
			if st, ok := u.(*ssa.Store); ok && st.Addr == ia {
				return st.Val
			}
		}
	}
	return nil
}

type pureKey struct {
	fn *ssa.Function
	i  int
}

var pureProp = map[pureKey]int{}

// isConfiningCall: the result of the call is a confined name whatever its arguments are
// (filepath.Base(x), filepath.Join("/", x...)).
func isConfiningCall(call ssa.CallInstruction) bool {
	f := core.CalleeFunc(call)
	if f == nil || f.Pkg() == nil {
		return false
	}
	switch f.Pkg().Path() + "." + f.Name() {
	case "path/filepath.Base", "path.Base":
		return true
	case "path/filepath.Join", "path.Join":
		if args := call.Common().Args; len(args) == 1 {
			if sl, ok := args[0].(*ssa.Slice); ok {
				if first := firstVarargElement(sl); first != nil {
					if k, ok := core.ConstStringValue(first); ok && k == "/" {
						return true
					}
				}
			}
		}
	}
	return false
}

// pureHelperPropagates: in a pure string helper, can a parameter reach a result without passing a confining call?
func pureHelperPropagates(fn *ssa.Function, pi int, depth int) bool {
	key := pureKey{fn, pi}
	if v, ok := pureProp[key]; ok {
		return v == 1
	}
	pureProp[key] = 1
	if depth > 2 || pi < 0 || pi >= len(fn.Params) {
		return true
	}
	seen := map[ssa.Value]bool{}
	reaches := false
	var visit func(v ssa.Value)
	visit = func(v ssa.Value) {
		if seen[v] || reaches {
			return
		}
		seen[v] = true
		refs := v.Referrers()
		if refs == nil {
			return
		}
		for _, in := range *refs {
			switch x := in.(type) {
			case *ssa.Return:
				reaches = true
			case *ssa.Store:
				if x.Val == v {
					switch a := x.Addr.(type) {
					case *ssa.IndexAddr:
						visit(a.X)
					default:
						visit(x.Addr)
					}
				}
			case ssa.CallInstruction:
				if isConfiningCall(x) {
					continue
				}
				if callee := x.Common().StaticCallee(); callee != nil && core.IsRepoPkg(core.FnPkgPath(callee)) && callee.Blocks != nil {
					any := false
					for ai, a := range x.Common().Args {
						if a == v && pureHelperPropagates(callee, ai, depth+1) {
							any = true
						}
					}
					if !any {
						continue
					}
				}
				if val := x.Value(); val != nil {
					visit(val)
				}
				// a library call that also takes a local object (sb.WriteString(v), buf.Write(v)): the value flows
				// into that object, and what is later read from it (sb.String()) derives from the value
				if callee := x.Common().StaticCallee(); callee == nil || !core.IsRepoPkg(core.FnPkgPath(callee)) {
					for _, a := range x.Common().Args {
						if al, ok := a.(*ssa.Alloc); ok && a != v {
							visit(al)
						}
					}
				}
			case ssa.Value:
				visit(x)
			}
		}
	}
	visit(fn.Params[pi])
	if !reaches {
		pureProp[key] = 2
	}
	return reaches
}
