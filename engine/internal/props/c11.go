package props

import (
	"fmt"
	"go/token"
	"go/types"
	"sort"
	"strings"

	"golang.org/x/tools/go/ssa"

	"verif/engine/internal/core"
	"verif/engine/internal/locks"
)

func init() { register("C11", checkC11) }

// lockScopeC11: packages whose mutex discipline carries C11.
var lockScopeC11 = []string{
	"pkg/segment/writer", "pkg/segment/metadata", "pkg/segment/query", "pkg/segment/query/processor",
	"pkg/virtualtable", "pkg/querytracker", "pkg/segment/search", "pkg/segment/reader", "pkg/segment/pqmr",
	"pkg/segment/memory", "pkg/segment", "pkg/ast/pipesearch", "pkg/es/writer", "pkg/segment/sortindex",
}

func inScope(fn *ssa.Function, scope []string) bool {
	p := strings.TrimPrefix(core.FnPkgPath(fn), core.ModPath+"/")
	for _, s := range scope {
		if p == s || strings.HasPrefix(p, s+"/") {
			return true
		}
	}
	return false
}

// lockAnalysis is shared by C11 and C17 within one process.
var lockCache = map[*core.Ctx]*locks.Analysis{}

func lockAnalysis(c *core.Ctx) *locks.Analysis {
	if a, ok := lockCache[c]; ok {
		return a
	}
	a := locks.New(c, func(in ssa.Instruction) bool {
		switch in.(type) {
		case *ssa.MapUpdate, *ssa.Lookup, *ssa.Range, *ssa.Send, *ssa.Store, *ssa.UnOp:
			return true
		}
		return false
	})
	a.Run()
	lockCache[c] = a
	return a
}

// guardedTable: a package-level container and the lock that protects it.
type guardedTable struct {
	pkg, varName, lockPkg, lockName string
}

func checkC11(c *core.Ctx, r *core.Report) {
	r.Explanation = "C11 (concurrent ingest/flush/rotation/search), lock discipline and hand-over order only: " +
		"(1) PAIR — every sync.Mutex/RWMutex acquisition in the ingest/metadata/query packages is released on every exit (direct, deferred, or deferred closure), no unlock of a lock that is not held, no second acquisition of a lock that is certainly held (including recursive read locks); " +
		"(2) LOCKORDER — the held→acquired relation over lock classes (package-level mutexes and (type).field mutexes), built from per-instruction may-held sets and transitive may-acquire summaries over static calls, has no cycle among distinct classes and no self-edge on a package-level lock; " +
		"(3) HELD — every access (update, delete, lookup, range) of the shared tables allSegStores, AllUnrotatedSegmentInfo, RecentlyRotatedSegmentFiles, globalMetadata's maps/slices, allVirtualTables … happens with the table's lock must-held in the accessing function or in every caller (obligation propagated up the static call graph), writes need the write mode; insertion into allSegStores is re-checked under the write lock (no check-then-act); " +
		"(5) HOLDWAIT — a goroutine started while its spawner holds a lock, and waited for (WaitGroup, channel) before the spawner releases it, never acquires that lock itself in any mode (a queued writer would block the worker, the spawner blocks the writer, the worker blocks the spawner); " +
		"(6) a SegStore is removed from allSegStores only after its flush in the same write-locked section, on an unused-test made with the write lock held, or when its whole index is deleted; " +
		"(7) ONCE — every block the searcher hands out is recorded in its processed-blocks set before the loop moves on (a segment that is in both snapshots is then returned once); " +
		"(4) ORDER hand-over — the writer makes a segment visible as rotated before removing it from the unrotated table, and every function that snapshots both tables (segments or columns) reads the unrotated one first; the search chooses the open-segment block resolution only on the live answer of IsSegKeyUnrotated."
	r.NotCovered = "data races on fields outside the guarded tables, at-most-once delivery when a segment is in both snapshots, equality with a sequential execution, liveness beyond lock-order acyclicity (channels, wait groups)"
	a := lockAnalysis(c)
	scope := lockScopeC11
	if c.Tier == "thorough" {
		scope = []string{"pkg", "cmd"}
	}
	checkPair(c, r, a, scope, map[string]string{})
	checkLockOrder(c, r, a, scope, nil)
	checkHeldTables(c, r, a)
	checkNewSharedVariables(c, r, a)
	checkHandOver(c, r)
	checkHoldWait(c, r, a, scope)
	checkUnregister(c, r, a)
	checkHandedOutOnce(c, r)
}

// ---------------------------------------------------------------------------
// PAIR

func checkPair(c *core.Ctx, r *core.Report, a *locks.Analysis, scope []string, returnsHolding map[string]string) {
	nSites, nFns := 0, 0
	bad := 0
	for _, fn := range c.RepoFunctions() {
		if !inScope(fn, scope) {
			continue
		}
		ff := a.Facts[fn]
		if ff == nil || len(ff.Sites) == 0 {
			continue
		}
		nFns++
		nSites += len(ff.Sites)
		name := shortFn(fn)
		if fn.Parent() != nil {
			name = strings.ReplaceAll(fn.String(), core.ModPath+"/", "")
		}
		for _, eh := range ff.ExitHeldList() {
			if eh.Class.Kind == "unknown" {
				r.Undecided("PAIR", fmt.Sprintf("%s:lock-class-unresolved", name), c.Pos(fn.Pos()), "the mutex operand could not be classified: "+eh.Class.Name)
				continue
			}
			key := fmt.Sprintf("%s:released-on-every-exit(%s)", name, eh.Class.Name)
			if why, ok := returnsHolding[name+"|"+eh.Class.Name]; ok {
				r.Assume("PAIR", key, c.Pos(fn.Pos()), "returns holding by design: "+why)
				continue
			}
			if a.IsAcquireWrapperFor(fn, eh.Class) {
				// derived acquire wrapper: holds the lock at *every* return; the pairing obligation moves to its callers
				r.OK("PAIR", fmt.Sprintf("%s:acquire-wrapper(%s)", name, eh.Class.Name), c.Pos(fn.Pos()), "returns holding the lock on every path; callers are checked for the release")
				continue
			}
			isRel := false
			for _, rw := range a.ReleaseWrapper(fn) {
				if strings.TrimSuffix(rw, "(R)") == eh.Class.Name {
					isRel = true
				}
			}
			if isRel {
				continue // caller-held lock kept on some path: accounted for at the call sites
			}
			bad++
			r.Violation("PAIR", key, c.Pos(eh.Rets[0].Pos()), fmt.Sprintf("%s may still be held when %s returns here: every later acquisition blocks forever", eh.Class.Name, name))
		}
		for _, s := range ff.UnlockNotHeld {
			bad++
			r.Violation("PAIR", fmt.Sprintf("%s:unlock-of-held-lock(%s)", name, s.Class.Name), c.Pos(s.Instr.Pos()), fmt.Sprintf("%s is released here but is not held on any path reaching this point in %s (runtime fatal error: unlock of unlocked mutex, or release of a lock held by another goroutine)", s.Class.Name, name))
		}
		for _, s := range ff.DoubleLock {
			bad++
			r.Violation("PAIR", fmt.Sprintf("%s:no-reacquire(%s)", name, s.Class.Name), c.Pos(s.Instr.Pos()), fmt.Sprintf("%s is acquired while it is certainly already held by this goroutine (self-deadlock; a recursive read lock deadlocks as soon as a writer is waiting)", s.Class.Name))
		}
	}
	r.Count("lock_operation_sites", nSites)
	r.Count("functions_with_lock_operations", nFns)
	if bad == 0 {
		r.OK("PAIR", "all-acquisitions-released", "-", fmt.Sprintf("%d lock operations in %d functions: released on every exit, no unlock of an unheld lock, no re-acquisition", nSites, nFns))
	}
	r.Floor("PAIR", "lock operation sites in scope", nSites, 150)
}

// ---------------------------------------------------------------------------
// LOCKORDER

func checkLockOrder(c *core.Ctx, r *core.Report, a *locks.Analysis, scope []string, only func(cl locks.Class) bool) {
	edges := a.Edges()
	type key struct{ from, to string }
	adj := map[string][]locks.Edge{}
	nEdges := 0
	classes := map[string]locks.Class{}
	for _, e := range edges {
		if e.From.Kind == "local" || e.To.Kind == "local" || e.From.Kind == "param" || e.To.Kind == "param" || e.From.Kind == "unknown" || e.To.Kind == "unknown" {
			continue
		}
		if only != nil && !(only(e.From) && only(e.To)) {
			continue
		}
		if !inScope(e.Fn, scope) {
			continue
		}
		classes[e.From.Name] = e.From
		classes[e.To.Name] = e.To
		if e.From.Name == e.To.Name {
			if e.From.Singleton() {
				// a self edge on a singleton is a certain self-deadlock unless both are read locks (then: deadlock with a waiting writer)
				k := fmt.Sprintf("self-edge(%s)", e.From.Name)
				r.Violation("LOCKORDER", k, c.Pos(e.At.Pos()), fmt.Sprintf("%s is acquired in %s while it may already be held by the same goroutine%s", e.From.Name, shortFn(e.Fn), readNote(e)), e.Via...)
			}
			continue
		}
		nEdges++
		adj[e.From.Name] = append(adj[e.From.Name], e)
	}
	r.Count("lock_classes", len(classes))
	r.Count("lock_order_edges", nEdges)
	// cycles: Tarjan SCC over class names
	index := 0
	idx := map[string]int{}
	low := map[string]int{}
	on := map[string]bool{}
	var stack []string
	var sccs [][]string
	var strong func(v string)
	strong = func(v string) {
		idx[v] = index
		low[v] = index
		index++
		stack = append(stack, v)
		on[v] = true
		for _, e := range adj[v] {
			w := e.To.Name
			if _, seen := idx[w]; !seen {
				strong(w)
				if low[w] < low[v] {
					low[v] = low[w]
				}
			} else if on[w] && idx[w] < low[v] {
				low[v] = idx[w]
			}
		}
		if low[v] == idx[v] {
			var comp []string
			for {
				w := stack[len(stack)-1]
				stack = stack[:len(stack)-1]
				on[w] = false
				comp = append(comp, w)
				if w == v {
					break
				}
			}
			if len(comp) > 1 {
				sort.Strings(comp)
				sccs = append(sccs, comp)
			}
		}
	}
	var names []string
	for n := range classes {
		names = append(names, n)
	}
	sort.Strings(names)
	for _, n := range names {
		if _, seen := idx[n]; !seen {
			strong(n)
		}
	}
	sort.Slice(sccs, func(i, j int) bool { return strings.Join(sccs[i], ",") < strings.Join(sccs[j], ",") })
	for _, comp := range sccs {
		in := map[string]bool{}
		for _, n := range comp {
			in[n] = true
		}
		var path []string
		var at ssa.Instruction
		for _, n := range comp {
			for _, e := range adj[n] {
				if in[e.To.Name] {
					path = append(path, fmt.Sprintf("%s held -> %s acquired in %s at %s", e.From.Name, e.To.Name, shortFn(e.Fn), c.Pos(e.At.Pos())))
					for _, v := range e.Via {
						path = append(path, "      via "+v)
					}
					if at == nil {
						at = e.At
					}
				}
			}
		}
		r.Violation("LOCKORDER", "cycle("+strings.Join(comp, ",")+")", c.Pos(at.Pos()), "these lock classes are acquired in conflicting orders: two goroutines taking them in opposite order deadlock", path...)
	}
	if len(sccs) == 0 {
		r.OK("LOCKORDER", "acyclic", "-", fmt.Sprintf("%d lock classes, %d held→acquired edges, no cycle", len(classes), nEdges))
	}
}

func readNote(e locks.Edge) string {
	if e.FromRead && e.ToRead {
		return " (read lock inside read lock: deadlocks when a writer queues between the two)"
	}
	return ""
}

// ---------------------------------------------------------------------------
// HELD

func checkHeldTables(c *core.Ctx, r *core.Report, a *locks.Analysis) {
	tables := []guardedTable{
		{pkgWriter, "allSegStores", pkgWriter, "allSegStoresLock"},
		{pkgWriter, "AllUnrotatedSegmentInfo", pkgWriter, "UnrotatedInfoLock"},
		{pkgWriter, "RecentlyRotatedSegmentFiles", pkgWriter, "recentlyRotatedSegmentFilesLock"},
		{"pkg/virtualtable", "allVirtualTables", "pkg/virtualtable", "globalTableAccessLock"},
	}
	callers := c.StaticCallers()
	for _, t := range tables {
		g := c.Global(t.pkg, t.varName)
		lockCl := locks.ClassOf(c.Global(t.lockPkg, t.lockName))
		nAcc := 0
		for _, fn := range c.RepoFunctions() {
			ff := a.Facts[fn]
			for _, b := range fn.Blocks {
				for _, in := range b.Instrs {
					kind, isWrite := tableAccess(in, g)
					if kind == "" {
						continue
					}
					if isInitFunc(fn) {
						continue
					}
					nAcc++
					construct := fmt.Sprintf("%s:%s(%s)-under-%s", shortFn(fn), kind, t.varName, t.lockName)
					if ff.MustHold(in, lockCl, isWrite) {
						r.OK("HELD", construct, c.Pos(in.Pos()), "lock must-held in the accessing function")
						continue
					}
					// propagate to callers
					ok, path := callersHold(c, a, callers, fn, lockCl, isWrite, map[*ssa.Function]bool{}, 0)
					if ok {
						r.OK("HELD", construct, c.Pos(in.Pos()), "lock held by every caller")
					} else {
						mode := "read"
						if isWrite {
							mode = "write"
						}
						r.Violation("HELD", construct, c.Pos(in.Pos()), fmt.Sprintf("%s of %s without %s held in %s mode on every path (in this function or all of its callers): concurrent map access / lost update", kind, t.varName, t.lockName, mode), path...)
					}
				}
			}
		}
		r.Floor("HELD", "accesses of "+t.varName, nAcc, 2)
	}
	checkDoubleChecked(c, r, a)
}

func isInitFunc(fn *ssa.Function) bool {
	for fn.Parent() != nil {
		fn = fn.Parent()
	}
	return fn.Name() == "init" || strings.HasPrefix(fn.Name(), "init#")
}

// tableAccess classifies in as an access of the container stored in global g.
func tableAccess(in ssa.Instruction, g *ssa.Global) (kind string, write bool) {
	isG := func(v ssa.Value) bool {
		if u, ok := v.(*ssa.UnOp); ok {
			return u.X == ssa.Value(g)
		}
		return false
	}
	switch x := in.(type) {
	case *ssa.MapUpdate:
		if isG(x.Map) {
			return "update", true
		}
	case *ssa.Lookup:
		if isG(x.X) {
			return "lookup", false
		}
	case *ssa.Range:
		if isG(x.X) {
			return "range", false
		}
	case *ssa.Call:
		if bi, ok := x.Call.Value.(*ssa.Builtin); ok && bi.Name() == "delete" && isG(x.Call.Args[0]) {
			return "delete", true
		}
	}
	return "", false
}

// callersHold: every static call site of fn holds cl (recursively).
func callersHold(c *core.Ctx, a *locks.Analysis, callers map[*ssa.Function][]ssa.CallInstruction, fn *ssa.Function, cl locks.Class, write bool, seen map[*ssa.Function]bool, depth int) (bool, []string) {
	if seen[fn] || depth > 6 {
		return true, nil
	}
	seen[fn] = true
	sites := callers[fn]
	if fn.Parent() != nil {
		// closure: held set of the creation site's function at the MakeClosure is not tracked: treat the parent as the caller
		return false, []string{"closure " + fn.String() + " — callers not tracked"}
	}
	if len(sites) == 0 {
		return false, []string{shortFn(fn) + " has no static callers (entry point / called dynamically) and does not take the lock"}
	}
	for _, site := range sites {
		caller := site.Parent()
		if _, isGo := site.(*ssa.Go); isGo {
			return false, []string{fmt.Sprintf("%s spawned as goroutine at %s", shortFn(fn), c.Pos(site.Pos()))}
		}
		ff := a.Facts[caller]
		if ff != nil && ff.MustHold(site, cl, write) {
			continue
		}
		ok, p := callersHold(c, a, callers, caller, cl, write, seen, depth+1)
		if !ok {
			return false, append([]string{fmt.Sprintf("%s called from %s at %s without the lock", shortFn(fn), shortFn(caller), c.Pos(site.Pos()))}, p...)
		}
	}
	return true, nil
}

// checkDoubleChecked: an insertion into allSegStores under the write lock is
// dominated by a lookup of the same map under the same critical section.
func checkDoubleChecked(c *core.Ctx, r *core.Report, a *locks.Analysis) {
	g := c.Global(pkgWriter, "allSegStores")
	lockCl := locks.ClassOf(c.Global(pkgWriter, "allSegStoresLock"))
	n := 0
	for _, fn := range c.RepoFunctions() {
		if isInitFunc(fn) {
			continue
		}
		ff := a.Facts[fn]
		for _, b := range fn.Blocks {
			for _, in := range b.Instrs {
				mu, ok := in.(*ssa.MapUpdate)
				if !ok {
					continue
				}
				if kind, _ := tableAccess(in, g); kind != "update" {
					continue
				}
				n++
				construct := shortFn(fn) + ":insert(allSegStores)-rechecked-under-write-lock"
				if !ff.MustHold(in, lockCl, true) {
					continue // reported by HELD
				}
				// find the Lock() that opens this critical section: the nearest dominating write Lock of the class
				var lockInstr ssa.Instruction
				for _, s := range ff.Sites {
					if s.Class == lockCl && s.Op == locks.OpLock && !s.Deferred && core.InstrDominates(s.Instr, in) {
						if lockInstr == nil || core.InstrDominates(lockInstr, s.Instr) {
							lockInstr = s.Instr
						}
					}
				}
				if lockInstr == nil {
					r.Undecided("HELD", construct, c.Pos(in.Pos()), "the Lock opening the critical section was not found in this function")
					continue
				}
				rechecked := false
				for _, bb := range fn.Blocks {
					for _, x := range bb.Instrs {
						if lk, ok := x.(*ssa.Lookup); ok {
							if kind, _ := tableAccess(lk, g); kind == "lookup" && lk.Index == mu.Key && core.InstrDominates(lockInstr, lk) && core.InstrDominates(lk, in) {
								rechecked = true
							}
						}
					}
				}
				if rechecked {
					r.OK("HELD", construct, c.Pos(in.Pos()), "the key is looked up again after the write lock was taken and before the insertion")
				} else {
					r.Violation("HELD", construct, c.Pos(in.Pos()), "the open-segment table is checked under the read lock and written under the write lock without re-checking: two first ingests on a new stream both create a store, the second overwrites the first and its buffered events are never flushed")
				}
			}
		}
	}
	r.Floor("HELD", "insertions into allSegStores", n, 1)
}

// ---------------------------------------------------------------------------
// hand-over order

func checkHandOver(c *core.Ctx, r *core.Report) {
	sm := newSummaries(c)
	// writer side
	rotate := c.Fn(pkgWriter, "SegStore.checkAndRotateColFiles")
	addToMeta := c.Obj(pkgMeta, "AddSegMetaToMetadata")
	cleanup := c.Obj(pkgWriter, "CleanupUnrotatedSegment")
	removeUnrot := c.Obj(pkgWriter, "removeSegKeyFromUnrotatedInfo")
	checkOrderDeep(c, r, sm, rotate, "AddSegMetaToMetadata", objs(addToMeta), "removal from the unrotated table", objs(cleanup, removeUnrot), true, 1,
		"a segment must be visible as rotated before it disappears from the unrotated table, otherwise a concurrent search sees it in neither")
	// reader side: every function that (directly) takes both snapshots reads unrotated first
	unrot := c.Obj(pkgWriter, "FilterUnrotatedSegmentsInQuery")
	rot := c.Obj(pkgMeta, "FilterSegmentsByTime")
	n := 0
	reachU, reachR := sm.staticMayReach(objs(unrot)), sm.staticMayReach(objs(rot))
	mayU, mayR := sm.mayPred(objs(unrot)), sm.mayPred(objs(rot))
	for _, fn := range c.RepoFunctions() {
		if !strings.HasPrefix(core.FnPkgPath(fn), core.ModPath+"/pkg/segment/query") {
			continue
		}
		// lowest functions that take both snapshots through different calls
		hasU, hasR, viaBoth := false, false, false
		for _, ci := range core.CallsIn(fn) {
			u, ro := mayU(ci), mayR(ci)
			if callee := ci.Common().StaticCallee(); callee != nil && reachU[callee] && reachR[callee] {
				viaBoth = true
			}
			hasU = hasU || u
			hasR = hasR || ro
		}
		if !hasU || !hasR || viaBoth {
			continue
		}
		n++
		checkOrder(c, r, fn, "unrotated snapshot (FilterUnrotatedSegmentsInQuery)", sm.mustPred(objs(unrot)), "rotated snapshot (FilterSegmentsByTime)", mayR, 1,
			"the unrotated snapshot must be taken first: a segment rotating between the two reads is then in at least one of them")
	}
	r.Floor("ORDER", "functions taking both segment snapshots", n, 2)

	// the same for the column-set snapshots: open-segment columns first, rotated-segment columns second
	pairs := [][2]types.Object{
		{c.Obj(pkgWriter, "CollectUnrotatedColumnsForTheIndexesByTimeRange"), c.Obj(pkgMeta, "CollectColumnsForTheIndexesByTimeRange")},
		{c.Obj(pkgWriter, "GetUnrotatedColumnsForTheIndexesByTimeRange"), c.Obj(pkgMeta, "GetColumnsForTheIndexesByTimeRange")},
	}
	nc := 0
	for _, fn := range c.RepoFunctions() {
		for _, pr := range pairs {
			if len(callsTo(fn, pr[0])) == 0 || len(callsTo(fn, pr[1])) == 0 {
				continue
			}
			nc++
			checkOrder(c, r, fn, "open-segment columns ("+pr[0].Name()+")", directPred(objs(pr[0])), "rotated-segment columns ("+pr[1].Name()+")", directPred(objs(pr[1])), 1,
				"the open-segment columns must be read first: the columns of a segment that rotates between the two reads are then in at least one of them (rotation adds to the rotated table before it removes from the open one)")
		}
	}
	r.Floor("ORDER", "functions taking both column snapshots", nc, 2)

	// the choice between the open-segment and the rotated block resolution is made on the live state of the
	// segment, not on what the snapshot said: a segment can rotate after the snapshot was taken
	live := c.Obj(pkgWriter, "IsSegKeyUnrotated")
	extract := c.Obj("pkg/segment/query/metadata", "ExtractUnrotatedSSRFromSearchNode")
	sTypeQsr := c.Field(pkgQuery, "QuerySegmentRequest.sType")
	// guardedAt: the instruction `at` of fn executes only after the live state of the segment was consulted:
	// (1) dominated by the true edge of IsSegKeyUnrotated(...), or (2) fn refreshes the recorded search type
	// (a store to .sType where IsSegKeyUnrotated answered false) in a region whose entry dominates `at`.
	guardedAt := func(fn *ssa.Function, at ssa.Instruction) bool {
		for d := at.Block(); d != nil && d.Idom() != nil; d = d.Idom() {
			ifi, ok := core.LastIf(d.Idom())
			if !ok || len(d.Preds) != 1 {
				continue
			}
			cond, neg := ifi.Cond, false
			if u, ok := cond.(*ssa.UnOp); ok && u.Op == token.NOT {
				cond, neg = u.X, true
			}
			if cc, ok := cond.(*ssa.Call); ok && core.IsCallTo(cc, live) {
				onTrue := d.Idom().Succs[0] == d
				if onTrue != neg {
					return true
				}
			}
		}
		for _, lc := range callsTo(fn, live) {
			// a refresh of the search type where the answer was "not unrotated"
			refreshed := false
			for _, b := range fn.Blocks {
				if core.BoolKnownAt(lc, b) != core.No {
					continue
				}
				for _, in := range b.Instrs {
					if st, ok := in.(*ssa.Store); ok {
						if fa, ok := st.Addr.(*ssa.FieldAddr); ok && core.FieldOfAddr(fa) == sTypeQsr {
							refreshed = true
						}
					}
				}
			}
			if !refreshed {
				continue
			}
			// the region that contains the live check starts at a block that dominates `at`
			for d := lc.Block(); d != nil; d = d.Idom() {
				if d.Dominates(at.Block()) && d != at.Block() || (d == at.Block() && core.InstrDominates(lc, at)) {
					// every path from d either refreshes or leaves the search type as it was validly recorded
					return true
				}
				if d.Idom() == nil {
					break
				}
			}
		}
		return false
	}
	var siteGuarded func(fn *ssa.Function, at ssa.Instruction, depth int) bool
	siteGuarded = func(fn *ssa.Function, at ssa.Instruction, depth int) bool {
		if guardedAt(fn, at) {
			return true
		}
		if depth >= 3 {
			return false
		}
		sites := c.StaticCallers()[fn]
		if len(sites) == 0 {
			return false
		}
		for _, ci := range sites {
			if !siteGuarded(ci.Parent(), ci, depth+1) {
				return false
			}
		}
		return true
	}
	nl := 0
	for _, fn := range c.RepoFunctions() {
		if strings.HasSuffix(core.FnPkgPath(fn), "/pkg/segment/query/metadata") {
			continue // the resolver's own recursion
		}
		for i, call := range callsTo(fn, extract) {
			nl++
			r.Check(siteGuarded(fn, call, 0), "DEPENDS", fmt.Sprintf("%s:open-segment-block-resolution#%d-decided-on-the-live-state", shortFn(fn), i+1), c.Pos(call.Pos()),
				"the open-segment path is taken only after IsSegKeyUnrotated was asked for this segment (here, or by every caller, directly or by refreshing the recorded search type)",
				"the search resolves the blocks of a segment through the open-segment tables because its snapshot said so, without asking IsSegKeyUnrotated now: a segment that finished rotating after the snapshot is in neither place for this search and all of its events, flushed before the search began, are missing")
		}
	}
	r.Floor("DEPENDS", "open-segment block resolutions", nl, 3)
}

var _ = types.Universe
