package props

import (
	"fmt"
	"go/token"
	"go/types"
	"math"
	"sort"
	"strings"

	"golang.org/x/tools/go/ssa"

	"verif/engine/internal/core"
)

func init() { register("C08", checkC08) }

const pkgCompress = "pkg/segment/writer/metrics/compress"

// rng is a closed integer interval.
type rng struct {
	lo, hi int64
	ok     bool
}

func (r rng) String() string {
	if !r.ok {
		return "unbounded"
	}
	return fmt.Sprintf("[%d,%d]", r.lo, r.hi)
}

func typeRange(t types.Type) rng {
	b, ok := t.Underlying().(*types.Basic)
	if !ok {
		return rng{}
	}
	switch b.Kind() {
	case types.Uint8:
		return rng{0, math.MaxUint8, true}
	case types.Uint16:
		return rng{0, math.MaxUint16, true}
	case types.Uint32:
		return rng{0, math.MaxUint32, true}
	case types.Int8:
		return rng{math.MinInt8, math.MaxInt8, true}
	case types.Int16:
		return rng{math.MinInt16, math.MaxInt16, true}
	case types.Int32:
		return rng{math.MinInt32, math.MaxInt32, true}
	case types.Bool:
		return rng{0, 1, true}
	}
	return rng{}
}

func join(a, b rng) rng {
	if !a.ok || !b.ok {
		return rng{}
	}
	if b.lo < a.lo {
		a.lo = b.lo
	}
	if b.hi > a.hi {
		a.hi = b.hi
	}
	return a
}

func meet(a, b rng) rng {
	if !a.ok {
		return b
	}
	if !b.ok {
		return a
	}
	if b.lo > a.lo {
		a.lo = b.lo
	}
	if b.hi < a.hi {
		a.hi = b.hi
	}
	return a
}

// refineAt narrows the range of v using comparisons with constants that
// dominate block at (on the edge actually taken).
func refineAt(v ssa.Value, at *ssa.BasicBlock, r rng) rng {
	big := rng{math.MinInt64, math.MaxInt64, true}
	acc := big
	for b := at; b != nil; b = b.Idom() {
		idom := b.Idom()
		if idom == nil {
			break
		}
		ifi, ok := core.LastIf(idom)
		if !ok {
			continue
		}
		onTrue := idom.Succs[0] == b && len(b.Preds) == 1
		onFalse := idom.Succs[1] == b && len(b.Preds) == 1
		if onTrue == onFalse {
			continue
		}
		acc = meet(acc, condRange(ifi.Cond, v, onTrue))
		// `a && b` / `a || b` used as a value: phi [P1: false, P2: b] (resp. true)
		if phi, ok := ifi.Cond.(*ssa.Phi); ok {
			var live ssa.Value
			var livePred *ssa.BasicBlock
			short := true
			for i, e := range phi.Edges {
				if k, isConst := e.(*ssa.Const); isConst && k.Value != nil {
					if (k.Value.String() == "false") == onTrue {
						continue // this incoming edge is excluded by the outcome
					}
					short = false
					continue
				}
				if live != nil {
					short = false
				}
				live, livePred = e, phi.Block().Preds[i]
			}
			if short && live != nil {
				acc = meet(acc, condRange(live, v, onTrue))
				if sub := refineAt(v, livePred, rng{math.MinInt64, math.MaxInt64, true}); sub.ok {
					acc = meet(acc, sub)
				}
			}
		}
	}
	if acc == big {
		return r
	}
	if !r.ok {
		if acc.lo == math.MinInt64 || acc.hi == math.MaxInt64 {
			return rng{}
		}
		return acc
	}
	return meet(r, acc)
}

// condRange: the constraint cond==truth places on v (unbounded sides are
// MinInt64/MaxInt64).
func condRange(cond ssa.Value, v ssa.Value, truth bool) rng {
	full := rng{math.MinInt64, math.MaxInt64, true}
	bo, ok := cond.(*ssa.BinOp)
	if !ok {
		return full
	}
	var k int64
	var op token.Token
	if bo.X == v {
		kk, ok := core.ConstIntValue(bo.Y)
		if !ok {
			return full
		}
		k, op = kk, bo.Op
	} else if bo.Y == v {
		kk, ok := core.ConstIntValue(bo.X)
		if !ok {
			return full
		}
		k = kk
		switch bo.Op { // k op v  ==  v op' k
		case token.LSS:
			op = token.GTR
		case token.LEQ:
			op = token.GEQ
		case token.GTR:
			op = token.LSS
		case token.GEQ:
			op = token.LEQ
		default:
			op = bo.Op
		}
	} else {
		return full
	}
	if !truth {
		switch op {
		case token.LSS:
			op = token.GEQ
		case token.LEQ:
			op = token.GTR
		case token.GTR:
			op = token.LEQ
		case token.GEQ:
			op = token.LSS
		case token.EQL:
			return full
		case token.NEQ:
			op = token.EQL
		}
	}
	switch op {
	case token.LSS:
		return rng{math.MinInt64, k - 1, true}
	case token.LEQ:
		return rng{math.MinInt64, k, true}
	case token.GTR:
		return rng{k + 1, math.MaxInt64, true}
	case token.GEQ:
		return rng{k, math.MaxInt64, true}
	case token.EQL:
		return rng{k, k, true}
	}
	return full
}

// rangeOf computes a sound range of integer value v as observed in block at.
func rangeOf(v ssa.Value, at *ssa.BasicBlock, depth int) rng {
	if depth > 6 {
		return rng{}
	}
	var r rng
	switch x := v.(type) {
	case *ssa.Const:
		if k, ok := core.ConstIntValue(x); ok {
			r = rng{k, k, true}
		}
	case *ssa.Convert:
		src := rangeOf(x.X, at, depth+1)
		tr := typeRange(x.Type())
		switch {
		case src.ok && (!tr.ok || (src.lo >= tr.lo && src.hi <= tr.hi)):
			r = src // value-preserving
		case src.ok && !tr.ok && src.lo >= 0:
			r = src
		default:
			// widening an unsigned source to uint64 keeps its range
			if sr := typeRange(x.X.Type()); sr.ok && sr.lo >= 0 {
				r = meet(sr, src)
			} else if tr.ok {
				r = tr
			}
		}
	case *ssa.Phi:
		first := true
		for i, e := range x.Edges {
			er := rangeOf(e, x.Block().Preds[i], depth+1)
			// refine by the conditions that hold on the incoming edge
			er = refineEdge(e, x.Block().Preds[i], x.Block(), er)
			if first {
				r, first = er, false
			} else {
				r = join(r, er)
			}
		}
	case *ssa.BinOp:
		a, b := rangeOf(x.X, at, depth+1), rangeOf(x.Y, at, depth+1)
		switch x.Op {
		case token.AND:
			if b.ok && b.lo >= 0 {
				r = rng{0, b.hi, true}
			} else if a.ok && a.lo >= 0 {
				r = rng{0, a.hi, true}
			}
		case token.ADD:
			if a.ok && b.ok {
				r = rng{a.lo + b.lo, a.hi + b.hi, true}
			}
		case token.SUB:
			if a.ok && b.ok {
				r = rng{a.lo - b.hi, a.hi - b.lo, true}
			}
		case token.SHR:
			if a.ok && a.lo >= 0 {
				r = rng{0, a.hi, true}
			}
		case token.REM:
			if b.ok && b.lo > 0 {
				r = rng{-(b.hi - 1), b.hi - 1, true}
				if a.ok && a.lo >= 0 {
					r.lo = 0
				}
			}
		}
		if tr := typeRange(x.Type()); tr.ok && r.ok && (r.lo < tr.lo || r.hi > tr.hi) {
			r = tr // wrapped
		}
	case *ssa.Parameter:
		// the join of the argument's range over every static call site (the value computed and clamped in the
		// caller, written in a helper); only when the function has no other way of being called
		if sites, idx := paramCallSites(x); len(sites) > 0 {
			first := true
			for _, site := range sites {
				ar := rangeOf(site.Common().Args[idx], site.Block(), depth+1)
				if first {
					r, first = ar, false
				} else {
					r = join(r, ar)
				}
			}
		}
	default:
		r = typeRange(v.Type())
	}
	if !r.ok {
		r = typeRange(v.Type())
	}
	return refineAt(v, at, r)
}

// rangeCallers is set by checkC08: the static call sites of every repository function (nil outside that check).
var rangeCallers map[*ssa.Function][]ssa.CallInstruction

// paramCallSites: the static call sites of p's function and p's argument index, when the function is unexported,
// is never used as a value and is a plain function or method (so the static sites are all the calls there are).
func paramCallSites(p *ssa.Parameter) ([]ssa.CallInstruction, int) {
	fn := p.Parent()
	if rangeCallers == nil || fn == nil || fn.Object() == nil || fn.Object().Exported() {
		return nil, 0
	}
	idx := -1
	for i, q := range fn.Params {
		if q == p {
			idx = i
		}
	}
	sites := rangeCallers[fn]
	if idx < 0 || len(sites) == 0 {
		return nil, 0
	}
	for _, s := range sites {
		if _, isCall := s.(*ssa.Call); !isCall || s.Common().IsInvoke() || idx >= len(s.Common().Args) {
			return nil, 0
		}
	}
	// the function used as a value anywhere (stored, passed) could be called from unknown places
	if refs := fn.Referrers(); refs != nil && len(*refs) > 0 {
		return nil, 0
	}
	return sites, idx
}

// refineEdge narrows r for value v flowing along the CFG edge from->to.
func refineEdge(v ssa.Value, from, to *ssa.BasicBlock, r rng) rng {
	ifi, ok := core.LastIf(from)
	if !ok || len(from.Succs) != 2 || from.Succs[0] == from.Succs[1] {
		return r
	}
	c := condRange(ifi.Cond, v, from.Succs[0] == to)
	if c.lo == math.MinInt64 && c.hi == math.MaxInt64 {
		return r
	}
	if !r.ok {
		if c.lo == math.MinInt64 || c.hi == math.MaxInt64 {
			return r
		}
		return c
	}
	return meet(r, c)
}

func checkC08(c *core.Ctx, r *core.Report) {
	r.Explanation = "C08 (metric datapoints stored bit-exactly), codec tables and bounds only: " +
		"(1) BOUND — every bitWriter.writeBits(v, k) with constant k < 64 in the Gorilla compressor writes a value proven < 2^k by a sound interval analysis (constants, type ranges of conversions, phi joins, refinement by dominating comparisons), and every writeInt64Bits(x, n) lies under case guards lo <= x <= hi with lo >= -(2^(n-1)-1) and hi <= 2^(n-1), the asymmetric signed range the reader decodes; " +
		"(2) TABLE — the timestamp prefix codes and payload widths written by compressTimestamp equal the case table of the reader's dodTimestampBitN, the value-header field widths written by compressValue equal those read by decompressValue, the first-delta width is the same constant on both sides, and the reader maps a 6-bit significant-bits field of 0 back to 64; " +
		"(4) SIBLING — the leading-zero count compressValue keeps for the next value is the very value it writes into the 5-bit field; " +
		"(5) HELD — the open compressor of a series is copied for a query only with the series lock held; " +
		"(6) CURSOR — the rotated-block reader moves the cursor that narrows its next search of the series offset table only after a lookup that found its series; " +
		"(7) ORDER (shared with C10) — when a block is rotated, the next block's WAL file is created after the block number advanced (recovery re-flushes the block number found in the file name, so a WAL created too early makes a restart overwrite the rotated block); " +
		"(8) LENPREFIX — in the metrics writer every length prefix written to a buffer is len() of exactly the value written next; " +
		"(9) COUNT16 — every 16-bit narrowing of a length or count in the tags tree encoder lies where the value is known to be at most 65535; " +
		"(10) REDIRECT — SearchUnrotatedMetricsBlock decides the re-direction of a since-rotated block to the on-disk search before it can return for any reason concerning the new in-memory block; " +
		"(11) PAIR — every datapoint put into a series of a block (ingest and WAL replay) is followed by MBlockSummary.UpdateTimeRange on every path that goes on successfully; " +
		"(3) LIVE — a scratch bytes.Buffer that is declared outside a loop, filled inside it and Reset on some path of the iteration is Reset on every path to the next iteration (leftover bytes of one series would be decoded as part of the next)."
	r.NotCovered = "TSID hashing and collisions, tags-tree contents, rotation/restart behaviour, the series-file layout, value equality in general"

	c08Cursor(c, r)
	c08LenPrefix(c, r)
	c08Count16(c, r)
	c08Redirect(c, r, lockAnalysis(c))
	c08DatapointCounted(c, r)
	c08StagingBuffersStartEmpty(c, r)
	checkWalAfterBlockNumber(c, r, newSummaries(c))

	writeBits := c.Obj(pkgCompress, "bitWriter.writeBits")
	writeI64 := c.Obj(pkgCompress, "writeInt64Bits")
	readBits := c.Obj(pkgCompress, "bitReader.readBits")
	compressTs := c.Fn(pkgCompress, "Compressor.compressTimestamp")
	compressVal := c.Fn(pkgCompress, "Compressor.compressValue")
	decompVal := c.Fn(pkgCompress, "Decompressor.decompressValue")
	dodN := c.Fn(pkgCompress, "Decompressor.dodTimestampBitN")

	// the value-side encoder / decoder with the helpers of the package they call directly (a part of
	// compressValue extracted into a method of its own belongs to it)
	cone := func(root *ssa.Function) []*ssa.Function {
		out := []*ssa.Function{root}
		for _, ci := range core.CallsIn(root) {
			h := ci.Common().StaticCallee()
			if h == nil || h.Blocks == nil || core.FnPkgPath(h) != core.FnPkgPath(root) {
				continue
			}
			if recv := h.Signature.Recv(); recv == nil || !types.Identical(recv.Type(), root.Signature.Recv().Type()) {
				continue
			}
			dup := false
			for _, o := range out {
				if o == h {
					dup = true
				}
			}
			if !dup {
				out = append(out, h)
			}
		}
		return out
	}
	compressValCone, decompValCone := cone(compressVal), cone(decompVal)
	inCone := func(fn *ssa.Function, cn []*ssa.Function) bool {
		for _, f := range cn {
			if f == fn {
				return true
			}
		}
		return false
	}
	rangeCallers = c.StaticCallers()
	defer func() { rangeCallers = nil }()

	// ---------------------------------------------------------------- (1) BOUND
	nSites := 0
	for _, fn := range c.RepoFunctions() {
		if core.FnPkgPath(fn) != core.ModPath+"/"+pkgCompress {
			continue
		}
		idx := map[string]int{}
		for _, call := range callsTo(fn, writeBits) {
			k, ok := core.ConstIntValue(call.Call.Args[2])
			if !ok || k >= 64 {
				continue // variable width (significant bits) or full word
			}
			nSites++
			name := shortFn(fn)
			idx[name]++
			construct := fmt.Sprintf("%s:writeBits(width=%d)#%d", name, k, idx[name])
			rv := rangeOf(call.Call.Args[1], call.Block(), 0)
			limit := int64(1)<<uint(k) - 1
			switch {
			case rv.ok && rv.lo >= 0 && rv.hi <= limit:
				r.OK("BOUND", construct, c.Pos(call.Pos()), fmt.Sprintf("value range %s fits %d bits", rv, k))
			case k == 6 && inCone(fn, compressValCone):
				// 64 significant bits wrap to 0; the reader maps 0 back to 64 (checked below)
				r.Assume("BOUND", construct, c.Pos(call.Pos()), "significantBits is in [1,64]; 64 is written as 0 in 6 bits and the reader maps 0 back to 64 (reader-side mapping is obligation TABLE:significant-bits-zero-means-64)")
			case fn.Name() == "Compress" && k == c.ConstVal(pkgCompress, "firstDeltaBits"):
				r.Assume("BOUND", construct, c.Pos(call.Pos()), "the first delta is |t - header|; NewCompressor's callers pass the first timestamp of the series/block as header, so the delta is 0 (caller contract, not derivable here)")
			default:
				r.Violation("BOUND", construct, c.Pos(call.Pos()), fmt.Sprintf("a value with range %s is written into a %d-bit field: larger values are silently truncated by the bit writer and decode to a different number (for the XOR leading-zero count: values whose XOR with the previous value has >= 32 leading zeros come back with wrong bits)", rv, k))
			}
		}
		for _, call := range callsTo(fn, writeI64) {
			n, ok := core.ConstIntValue(call.Call.Args[2])
			if !ok || n >= 64 {
				continue
			}
			nSites++
			name := shortFn(fn)
			idx[name]++
			construct := fmt.Sprintf("%s:writeInt64Bits(width=%d)#%d", name, n, idx[name])
			rv := refineAt(call.Call.Args[1], call.Block(), rng{})
			lo, hi := -(int64(1)<<uint(n-1) - 1), int64(1)<<uint(n-1)
			switch {
			case rv.ok && rv.lo >= lo && rv.hi <= hi:
				r.OK("BOUND", construct, c.Pos(call.Pos()), fmt.Sprintf("guarded range %s within the decodable range [%d,%d] of a %d-bit field", rv, lo, hi, n))
			case n == 32:
				r.Assume("BOUND", construct, c.Pos(call.Pos()), "the 32-bit delta-of-delta case is the unguarded default; it is exact for non-decreasing second-resolution timestamps (|dod| < 2^31), which the ingest API produces")
			default:
				r.Violation("BOUND", construct, c.Pos(call.Pos()), fmt.Sprintf("delta-of-delta values in %s are written into a %d-bit field whose decodable range is [%d,%d]: the boundary value decodes to a different delta and every later timestamp of the series is shifted", rv, n, lo, hi))
			}
		}
	}
	r.Floor("BOUND", "narrow bit-field writes in the compressor", nSites, 8)

	// ---------------------------------------------------------------- (2) TABLE
	// writer: per block (case arm) prefix code -> payload width
	writer := map[int64]int64{}
	for _, b := range compressTs.Blocks {
		var code, codeLen, payload int64 = -1, -1, 0
		for _, in := range b.Instrs {
			call, ok := in.(*ssa.Call)
			if !ok {
				continue
			}
			if core.IsCallTo(call, writeBits) {
				if k, ok1 := core.ConstIntValue(call.Call.Args[1]); ok1 {
					if l, ok2 := core.ConstIntValue(call.Call.Args[2]); ok2 && code < 0 {
						code, codeLen = k, l
					}
				}
			}
		}
		if code < 0 {
			continue
		}
		// the payload write is in a block dominated by this one
		for _, call := range callsTo(compressTs, writeI64) {
			if b.Dominates(call.Block()) {
				if n, ok := core.ConstIntValue(call.Call.Args[2]); ok {
					// nearest: the payload whose block is not dominated by another code block in between
					if payload == 0 || n < payload {
						payload = n
					}
				}
			}
		}
		_ = codeLen
		writer[code] = payload
	}
	// writeBit(zero) arm: code 0 -> 0 payload
	writer[0] = 0
	reader := map[int64]int64{}
	for _, b := range dodN.Blocks {
		ifi, ok := core.LastIf(b)
		if !ok {
			continue
		}
		bo, ok := ifi.Cond.(*ssa.BinOp)
		if !ok || bo.Op != token.EQL {
			continue
		}
		k, ok := core.ConstIntValue(bo.Y)
		if !ok {
			continue
		}
		for _, ret := range core.Returns(dodN) {
			if ret.Block() == b.Succs[0] {
				if n, ok := core.ConstIntValue(core.RetResult(ret, 0)); ok {
					reader[k] = n
				}
			}
		}
	}
	var codes []int64
	seen := map[int64]bool{}
	for k := range writer {
		if !seen[k] {
			seen[k] = true
			codes = append(codes, k)
		}
	}
	for k := range reader {
		if !seen[k] {
			seen[k] = true
			codes = append(codes, k)
		}
	}
	sort.Slice(codes, func(i, j int) bool { return codes[i] < codes[j] })
	for _, k := range codes {
		w, okW := writer[k]
		rd, okR := reader[k]
		construct := fmt.Sprintf("timestamp-prefix-code(0x%02X)", k)
		switch {
		case okW && okR && w == rd:
			r.OK("TABLE", construct, c.Pos(compressTs.Pos()), fmt.Sprintf("writer payload %d bits = reader payload %d bits", w, rd))
		case okW && !okR:
			r.Violation("TABLE", construct, c.Pos(compressTs.Pos()), "the writer emits this prefix code but the reader's table has no case for it")
		case !okW && okR:
			r.OK("TABLE", construct, c.Pos(dodN.Pos()), "reader-only case (never written)")
		default:
			r.Violation("TABLE", construct, c.Pos(compressTs.Pos()), fmt.Sprintf("the writer follows this prefix code with a %d-bit payload but the reader reads %d bits", w, rd))
		}
	}
	r.Floor("TABLE", "timestamp prefix codes on the writer side", len(writer), 5)
	// value header widths
	widths := func(fns []*ssa.Function, callee types.Object, argIdx int) []int64 {
		var out []int64
		for _, fn := range fns {
			for _, call := range callsTo(fn, callee) {
				if k, ok := core.ConstIntValue(call.Call.Args[argIdx]); ok && k < 64 {
					out = append(out, k)
				}
			}
		}
		sort.Slice(out, func(i, j int) bool { return out[i] < out[j] })
		return out
	}
	ww, rw := widths(compressValCone, writeBits, 2), widths(decompValCone, readBits, 1)
	r.Check(fmt.Sprint(ww) == fmt.Sprint(rw) && len(ww) >= 2, "TABLE", "value-header-field-widths", c.Pos(compressVal.Pos()),
		fmt.Sprintf("writer %v = reader %v", ww, rw), fmt.Sprintf("the XOR header fields are written with widths %v but read with widths %v", ww, rw))
	// first delta width
	fd := c.ConstVal(pkgCompress, "firstDeltaBits")
	wOK, rOK := false, false
	for _, call := range callsTo(c.Fn(pkgCompress, "Compressor.Compress"), writeBits) {
		if k, ok := core.ConstIntValue(call.Call.Args[2]); ok && k == fd {
			wOK = true
		}
	}
	for _, call := range callsTo(c.Fn(pkgCompress, "Decompressor.decompressFirst"), readBits) {
		if k, ok := core.ConstIntValue(call.Call.Args[1]); ok && k == fd {
			rOK = true
		}
	}
	r.Check(wOK && rOK, "TABLE", "first-delta-width", c.Pos(compressTs.Pos()), fmt.Sprintf("both sides use %d bits", fd), "the first-delta field is not written and read with the same width")
	// reader maps 0 significant bits to 64
	mapped := false
	var decompBlocks []*ssa.BasicBlock
	for _, f := range decompValCone {
		decompBlocks = append(decompBlocks, f.Blocks...)
	}
	for _, b := range decompBlocks {
		ifi, ok := core.LastIf(b)
		if !ok {
			continue
		}
		if bo, ok := ifi.Cond.(*ssa.BinOp); ok && bo.Op == token.EQL {
			if k, ok := core.ConstIntValue(bo.Y); ok && k == 0 {
				if ex, ok := bo.X.(*ssa.Extract); ok {
					if call, ok := ex.Tuple.(*ssa.Call); ok && core.IsCallTo(call, readBits) {
						if w, ok := core.ConstIntValue(call.Call.Args[1]); ok && w == 6 {
							// the phi merging the two edges carries 64 on the equal edge
							for _, in := range b.Succs[1].Instrs {
								if p, ok := in.(*ssa.Phi); ok {
									for _, e := range p.Edges {
										if kk, ok := core.ConstIntValue(e); ok && kk == 64 {
											mapped = true
										}
									}
								}
							}
							for _, in := range b.Succs[0].Instrs {
								_ = in
							}
							for _, sb := range []*ssa.BasicBlock{b.Succs[0], b.Succs[1]} {
								for _, s2 := range sb.Succs {
									for _, in := range s2.Instrs {
										if p, ok := in.(*ssa.Phi); ok {
											for _, e := range p.Edges {
												if kk, ok := core.ConstIntValue(e); ok && kk == 64 {
													mapped = true
												}
											}
										}
									}
								}
							}
						}
					}
				}
			}
		}
	}
	r.Check(mapped, "TABLE", "significant-bits-zero-means-64", c.Pos(decompVal.Pos()), "the reader maps a 6-bit field value of 0 to 64 significant bits", "the reader no longer maps a significant-bits field of 0 back to 64: full-width XORs decode to the previous value")

	// ---------------------------------------------------------------- (3) scratch buffers reset on every path
	checkScratchBufferReset(c, r)

	// ---------------------------------------------------------------- (4) the window the encoder remembers is the window it transmits
	{
		lzF := c.Field(pkgCompress, "Compressor.leadingZeros")
		var stored []ssa.Value
		var storeAt ssa.Instruction
		for _, cf := range compressValCone {
			for _, b := range cf.Blocks {
				for _, in := range b.Instrs {
					if st, ok := in.(*ssa.Store); ok {
						if fa, ok := st.Addr.(*ssa.FieldAddr); ok && core.FieldOfAddr(fa) == lzF {
							stored = append(stored, st.Val)
							storeAt = st
						}
					}
				}
			}
		}
		var wire []ssa.Value
		for _, cf := range compressValCone {
			for _, call := range callsTo(cf, writeBits) {
				if k, ok := core.ConstIntValue(call.Call.Args[2]); ok && k == 5 {
					v := call.Call.Args[1]
					if cv, ok := v.(*ssa.Convert); ok {
						v = cv.X
					}
					wire = append(wire, v)
				}
			}
		}
		construct := "compress.Compressor.compressValue:remembered-window-equals-transmitted-window"
		switch {
		case len(stored) != 1 || len(wire) != 1:
			r.Undecided("SIBLING", construct, c.Pos(compressVal.Pos()), fmt.Sprintf("expected one store of Compressor.leadingZeros and one 5-bit write, found %d and %d", len(stored), len(wire)))
		case stored[0] != wire[0]:
			r.Violation("SIBLING", construct, c.Pos(storeAt.Pos()), "the leading-zero count the encoder keeps for the next value is not the value it writes into the 5-bit field (e.g. kept before the clamp to 31, written after it): the decoder only knows the transmitted window, so the next value that reuses the window is written with fewer bits than the decoder reads and the rest of the series decodes to garbage")
		default:
			r.OK("SIBLING", construct, c.Pos(storeAt.Pos()), "the same value is stored in Compressor.leadingZeros and written into the 5-bit field")
		}
	}

	// ---------------------------------------------------------------- (5) the open compressor of a series is read under the series lock
	{
		a := lockAnalysis(c)
		clone := c.Obj(pkgCompress, "CloneCompressor")
		compF := c.Field(pkgMetrics, "TimeSeries.compressor")
		lockF := c.Field(pkgMetrics, "TimeSeries.lock")
		n := 0
		for _, fn := range c.RepoFunctions() {
			if core.FnPkgPath(fn) != core.ModPath+"/"+pkgMetrics {
				continue
			}
			for i, call := range callsTo(fn, clone) {
				n++
				// the series whose compressor is cloned
				var series ssa.Value
				for _, o := range c.Origins(call.Call.Args[0], 0) {
					if o.Kind == "field" && o.Obj == types.Object(compF) {
						if fa, ok := o.Val.(*ssa.FieldAddr); ok {
							series = fa.X
						}
					}
				}
				construct := fmt.Sprintf("%s:CloneCompressor#%d-under-the-series-lock", shortFn(fn), i+1)
				if series == nil {
					r.Undecided("HELD", construct, c.Pos(call.Pos()), "the cloned compressor is not read from TimeSeries.compressor in this function")
					continue
				}
				held := false
				_ = lockF
				if ff := a.Facts[fn]; ff != nil {
					for _, h := range ff.MustAt[call] {
						if strings.HasSuffix(h.Class.Name, "TimeSeries).lock") {
							held = true
						}
					}
				}
				r.Check(held, "HELD", construct, c.Pos(call.Pos()), "TimeSeries.lock is held while the open compressor is copied",
					"the open compressor of a series is copied without the series lock: ingest appends to it under that lock only, so the multi-step copy can be torn by a concurrent datapoint and the query returns value bits or timestamps that were never ingested")
			}
		}
		r.Floor("HELD", "copies of an open series compressor", n, 1)
	}
}

// checkScratchBufferReset: in the metrics writer/query packages, a *bytes.Buffer
// defined outside a loop that is Reset somewhere inside the loop body must be
// Reset on every path from its use in the iteration to the next iteration.
func checkScratchBufferReset(c *core.Ctx, r *core.Report) {
	reset := c.ExtObj("bytes", "Buffer.Reset")
	n := 0
	for _, fn := range c.RepoFunctions() {
		p := core.FnPkgPath(fn)
		if p != core.ModPath+"/"+pkgMetrics && p != core.ModPath+"/pkg/segment/reader/metrics/series" {
			continue
		}
		resets := callsTo(fn, reset)
		if len(resets) == 0 {
			continue
		}
		loops := core.Loops(fn)
		for _, rs := range resets {
			l := core.InnermostLoop(loops, rs.Block())
			if l == nil {
				continue
			}
			buf := rs.Call.Args[0]
			// defined outside the loop?
			if in, ok := buf.(ssa.Instruction); ok && l.Body[in.Block()] {
				continue
			}
			// uses of the buffer inside the loop (calls taking it as an argument other than Reset)
			var uses []ssa.Instruction
			for b := range l.Body {
				for _, in := range b.Instrs {
					ci, ok := in.(ssa.CallInstruction)
					if !ok || core.IsCallTo(ci, reset) {
						continue
					}
					for _, a := range ci.Common().Args {
						if a == buf {
							uses = append(uses, in)
						}
					}
				}
			}
			if len(uses) == 0 {
				continue
			}
			n++
			construct := fmt.Sprintf("%s:scratch-buffer-reset-on-every-iteration-path", shortFn(fn))
			var leak ssa.Instruction
			for _, u := range uses {
				// paths on which the filling call failed or reported "not found" did not leave data behind
				var errv ssa.Value
				var flags []ssa.Value
				if call, ok := u.(*ssa.Call); ok {
					ev, others := errResultOf(call)
					errv = ev
					for _, o := range others {
						if b, ok := o.Type().Underlying().(*types.Basic); ok && b.Kind() == types.Bool {
							flags = append(flags, o)
						}
					}
				}
				core.WalkForwardEdges(fn, u, func(in ssa.Instruction) bool {
					if ci, ok := in.(ssa.CallInstruction); ok && core.IsCallTo(ci, reset) && ci.Common().Args[0] == buf {
						return false
					}
					if errv != nil && core.NilnessAt(errv, in.Block()) == core.No {
						return false
					}
					for _, f := range flags {
						if core.BoolKnownAt(f, in.Block()) == core.No {
							return false
						}
					}
					return true
				}, func(from, to *ssa.BasicBlock) bool {
					if !l.Body[to] {
						return false // leaving the loop: the buffer is not reused
					}
					if to == l.Header {
						leak = u
						return false
					}
					return true
				})
			}
			if leak != nil {
				r.Violation("LIVE", construct, c.Pos(leak.Pos()), "the scratch buffer filled here can reach the next loop iteration without Reset (a `continue` skips it): leftover bytes of this series are decoded as the beginning of the next one, which is then silently dropped or corrupted")
			} else {
				r.OK("LIVE", construct, c.Pos(rs.Pos()), "every path from a use of the buffer to the next iteration passes Reset")
			}
		}
	}
	r.Floor("LIVE", "loop-carried scratch buffers with a Reset", n, 1)
}
