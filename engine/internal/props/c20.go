package props

import (
	"fmt"
	"go/token"
	"go/types"
	"sort"
	"strconv"
	"strings"

	"golang.org/x/tools/go/ssa"

	"verif/engine/internal/core"
)

func init() { register("C20", checkC20) }

const (
	pkgAlertsH  = "pkg/alerts/alertsHandler"
	pkgAlertU   = "pkg/alerts/alertutils"
	pkgAlertSql = "pkg/alerts/alertsqlite"
	pkgUsq      = "pkg/usersavedqueries"
	pkgDash     = "pkg/dashboards"
	pkgVtable   = "pkg/virtualtable"
	pkgLookups  = "pkg/lookups"
)

func checkC20(c *core.Ctx, r *core.Report) {
	r.Explanation = "C20 (alert state and saved objects follow their definitions), structural clauses only. Alert evaluation: " +
		"(1) ORDERTABLE — every arm of evaluateConditions means exactly `value <op> threshold` for its condition constant, every condition constant has an arm, and every evaluator decides through it; the operands are identified by role on the SSA form, not by position: the threshold is what is, on every backward path and through every caller, the configured Value of the alert (or minion search), the condition dispatched on is its configured Condition, the value is the remaining number (so the three may be separate parameters in any order or fields of a parameter struct); " +
		"(1b) EVERYCOL — the column names by which an evaluator looks a row's values up are the result's measure columns or an unconditional copy of them (a building loop that appends on one path and adds nothing on another is a filter: the dropped column is never compared); " +
		"(2) STATE — in handleAlertCondition the state handed to updateAlertStateAndCreateAlertHistory is Normal exactly on the not-matched edge, Firing exactly where shouldUpdateAlertStateToFiring answered true and Pending where it answered false; a notification is attempted exactly for Firing and Normal; the notification flag stored is the notifier's own answer; the state and one history row are written on every non-error path; " +
		"(3) WINDOW — shouldUpdateAlertStateToFiring asks for the newest EvalWindow/EvalInterval−1 history rows, answers true only when N==1 or when at least N−1 rows came back and the scan over all of them met no row that is not Pending/Firing; the Limit it passes is provably non-zero (the store substitutes a paging default for 0); " +
		"(4) NOTIFY — shouldSendNotification answers true only after both the cool-down and the silence tests passed, Normal after Normal/Inactive is suppressed, the send calls are guarded by its answer, both period tests mean `now − lastSent >= period`, and the notification row's last-sent time and state are written only where the notifier reported a send. " +
		"Keyed stores (saved queries, dashboards, folders, index aliases, lookup files): " +
		"(5) PERSIST — every mutation of a mirrored in-memory table is followed on every path to a success return by the store's persist call (or happens only after a successful persist); " +
		"(6) DROP — a tenant's entry is never dropped from the saved-query table on a path that then persists the tenant's file from that entry; " +
		"(7) REPLACE — every write of a stored object replaces the whole value (truncating create / WriteFile), never an in-place overwrite; " +
		"(8) SAMEPATH — the functions that read, write and remove one kind of object build the same file name; " +
		"(9) ROLE — alias names and index names are never exchanged between the alias table, the alias files and the functions that take them; " +
		"(10) LOADER — the alias loader run at start-up covers the default tenant, whose files are not in a tenant sub-directory; the merged (defaults + user) folder view is never written back."
	r.NotCovered = "the N-window semantics as an outcome over real histories, cool-down arithmetic on real clocks, sqlite/gorm behaviour, content equality of objects after a restart, name uniqueness rules, concurrent CRUD (the dashboards store is read-modify-write without a lock)"

	c20Conditions(c, r)
	c20StateSkeleton(c, r)
	c20Window(c, r)
	c20Notify(c, r)
	c20NotifyState(c, r)
	c20Stores(c, r)
	c20AliasRoles(c, r)
	c20AliasPairScope(c, r)
	c20RecursiveResults(c, r)
	c20EveryColumn(c, r)
}

// c20NotifyState: the notification row's last_sent_time / last_alert_state are read by shouldSendNotification as
// "when and with which state the last notification was SENT"; they may be written only where the caller's
// notification flag is known true.
func c20NotifyState(c *core.Ctx, r *core.Report) {
	top := c.Fn(pkgAlertSql, "Sqlite.UpdateAlertStateAndNotificationDetails")
	var flag *ssa.Parameter
	for _, p := range top.Params {
		if b, ok := p.Type().Underlying().(*types.Basic); ok && b.Kind() == types.Bool {
			flag = p
		}
	}
	if flag == nil {
		r.Undecided("GUARD", "alertsqlite.Sqlite.UpdateAlertStateAndNotificationDetails:notification-flag", c.Pos(top.Pos()), "no bool parameter")
		return
	}
	// isFlag: v denotes the notification flag (through closure captures and helper parameters)
	var isFlag func(v ssa.Value, depth int) bool
	isFlag = func(v ssa.Value, depth int) bool {
		if depth > 5 {
			return false
		}
		switch x := v.(type) {
		case *ssa.Parameter:
			if x == flag {
				return true
			}
			fn := x.Parent()
			idx := -1
			for i, p := range fn.Params {
				if p == x {
					idx = i
				}
			}
			sites := c.StaticCallers()[fn]
			if idx < 0 || len(sites) == 0 {
				return false
			}
			for _, ci := range sites {
				if !isFlag(ci.Common().Args[idx], depth+1) {
					return false
				}
			}
			return true
		case *ssa.FreeVar:
			fn := x.Parent()
			idx := -1
			for i, fv := range fn.FreeVars {
				if fv == x {
					idx = i
				}
			}
			if fn.Parent() == nil || idx < 0 {
				return false
			}
			for _, b := range fn.Parent().Blocks {
				for _, in := range b.Instrs {
					if mc, ok := in.(*ssa.MakeClosure); ok && mc.Fn == ssa.Value(fn) {
						return isFlag(mc.Bindings[idx], depth+1)
					}
				}
			}
		case *ssa.UnOp:
			// captured by reference: *fv
			if x.Op == token.MUL {
				return isFlag(x.X, depth+1)
			}
		case *ssa.Alloc:
			// the parameter spilled to a cell because a closure captures it
			if refs := x.Referrers(); refs != nil {
				for _, rf := range *refs {
					if st, ok := rf.(*ssa.Store); ok && st.Addr == ssa.Value(x) {
						return isFlag(st.Val, depth+1)
					}
				}
			}
		}
		return false
	}
	// guarded: the instruction executes only where the flag is known true
	var guarded func(in ssa.Instruction, depth int) bool
	guarded = func(in ssa.Instruction, depth int) bool {
		if depth > 4 {
			return false
		}
		fn := in.Parent()
		for b := in.Block(); b != nil && b.Idom() != nil; b = b.Idom() {
			idom := b.Idom()
			ifi, ok := core.LastIf(idom)
			if !ok || idom.Succs[0] != b || len(b.Preds) != 1 {
				continue
			}
			if isFlag(ifi.Cond, 0) {
				return true
			}
		}
		// not guarded here: every caller must be
		sites := c.StaticCallers()[fn]
		if fn.Parent() != nil {
			// a closure: the place where it is created stands for its call
			for _, b := range fn.Parent().Blocks {
				for _, x := range b.Instrs {
					if mc, ok := x.(*ssa.MakeClosure); ok && mc.Fn == ssa.Value(fn) {
						return guarded(mc, depth+1)
					}
				}
			}
			return false
		}
		if len(sites) == 0 {
			return false
		}
		for _, ci := range sites {
			if !guarded(ci, depth+1) {
				return false
			}
		}
		return true
	}
	n := 0
	for _, fn := range c.RepoFunctions() {
		if core.FnPkgPath(fn) != core.ModPath+"/"+pkgAlertSql {
			continue
		}
		for _, b := range fn.Blocks {
			for _, in := range b.Instrs {
				mu, ok := in.(*ssa.MapUpdate)
				if !ok {
					continue
				}
				k, ok := core.ConstStringValue(mu.Key)
				if !ok || (k != "last_sent_time" && k != "last_alert_state") {
					continue
				}
				n++
				construct := fmt.Sprintf("%s:%s-written-only-when-a-notification-was-sent", shortFn(fn), k)
				r.Check(guarded(in, 0), "GUARD", construct, c.Pos(mu.Pos()),
					"written only where the notification flag of UpdateAlertStateAndNotificationDetails is known true",
					fmt.Sprintf("the notification row's %s is written although no notification was sent: shouldSendNotification reads it as the time/state of the last notification sent, so a Pending blip is followed by a spurious back-to-Normal notification, or the return-to-Normal notification is never sent", k))
			}
		}
	}
	r.Floor("GUARD", "writes of the notification row's last-sent columns", n, 2)
}

// ---------------------------------------------------------------------------------------------- (1)

// configTracer decides whether a value is, on every backward path, the alert's own configured field (its
// Value, its Condition): through conversions, phis, parameters (every static call site), by-value parameter
// structs built by the callers (field by field) and pointers to the field.
type configTracer struct {
	c       *core.Ctx
	callers map[*ssa.Function][]ssa.CallInstruction
}

func (t *configTracer) allFrom(v ssa.Value, target map[*types.Var]bool, path []int, depth int, seen map[string]bool) bool {
	if v == nil || depth > 12 {
		return false
	}
	key := fmt.Sprintf("%p/%v", v, path)
	if seen[key] {
		return true // a cycle adds no new origin
	}
	seen[key] = true
	switch x := v.(type) {
	case *ssa.Convert:
		return t.allFrom(x.X, target, path, depth+1, seen)
	case *ssa.ChangeType:
		return t.allFrom(x.X, target, path, depth+1, seen)
	case *ssa.Phi:
		if len(x.Edges) == 0 {
			return false
		}
		for _, e := range x.Edges {
			if !t.allFrom(e, target, path, depth+1, seen) {
				return false
			}
		}
		return true
	case *ssa.Field:
		return t.allFrom(x.X, target, append([]int{x.Field}, path...), depth+1, seen)
	case *ssa.FieldAddr:
		// the address of the configured field itself (handed down as a pointer)
		if len(path) == 0 && target[fieldOf(x)] {
			return true
		}
		return false
	case *ssa.Parameter:
		fn := x.Parent()
		idx := -1
		for i, p := range fn.Params {
			if p == x {
				idx = i
			}
		}
		sites := t.callers[fn]
		if idx < 0 || len(sites) == 0 || fn.Object() == nil || fn.Object().Exported() {
			return false
		}
		for _, s := range sites {
			if _, isCall := s.(*ssa.Call); !isCall || s.Common().IsInvoke() || idx >= len(s.Common().Args) {
				return false
			}
			if !t.allFrom(s.Common().Args[idx], target, path, depth+1, seen) {
				return false
			}
		}
		return true
	case *ssa.UnOp:
		if x.Op != token.MUL {
			return false
		}
		switch a := x.X.(type) {
		case *ssa.FieldAddr:
			if len(path) == 0 && target[fieldOf(a)] {
				return true
			}
			// a field of a local struct / of a spilled by-value parameter
			if al, ok := a.X.(*ssa.Alloc); ok {
				return t.fromCell(al, target, append([]int{a.Field}, path...), depth+1, seen)
			}
			return false
		case *ssa.Alloc:
			return t.fromCell(a, target, path, depth+1, seen)
		case *ssa.Parameter, *ssa.Phi, *ssa.Field, *ssa.UnOp:
			// *p where p is a pointer handed down (as a parameter, or inside a parameter struct): the pointer
			// must be the address of the field
			return t.allFrom(a, target, path, depth+1, seen)
		}
		return false
	}
	return false
}

// fromCell: every store that can supply cell (whole, or the field path[0] of it) is from the target.
func (t *configTracer) fromCell(al *ssa.Alloc, target map[*types.Var]bool, path []int, depth int, seen map[string]bool) bool {
	refs := al.Referrers()
	if refs == nil {
		return false
	}
	n := 0
	for _, u := range *refs {
		switch y := u.(type) {
		case *ssa.Store:
			if y.Addr == ssa.Value(al) {
				n++
				if !t.allFrom(y.Val, target, path, depth+1, seen) {
					return false
				}
			}
		case *ssa.FieldAddr:
			if len(path) == 0 || y.Field != path[0] {
				continue
			}
			if frefs := y.Referrers(); frefs != nil {
				for _, fu := range *frefs {
					if st, ok := fu.(*ssa.Store); ok && st.Addr == ssa.Value(y) {
						n++
						if !t.allFrom(st.Val, target, path[1:], depth+1, seen) {
							return false
						}
					}
				}
			}
		}
	}
	return n > 0
}

// c20Conditions — clause (1).  evaluateConditions compares the evaluated number with the alert's threshold under
// the alert's condition.  The clause is decided on the SSA form by ROLE, not by parameter position: the
// threshold is whatever is, on every path and through every caller, AlertConfig.Value; the condition is whatever
// is AlertConfig.Condition; the value is the remaining number.  So the three may arrive as separate parameters,
// in any order, or packed into a parameter struct.
func c20Conditions(c *core.Ctx, r *core.Report) {
	fn := c.Fn(pkgAlertsH, "evaluateConditions")
	condT := c.NamedType(pkgAlertU, "AlertQueryCondition")
	// the configured condition and threshold of an alert and of a minion search (the two things the evaluators
	// are run for)
	condF := map[*types.Var]bool{c.Field(pkgAlertU, "AlertConfig.Condition"): true, c.Field(pkgAlertU, "MinionSearch.Condition"): true}
	valF := map[*types.Var]bool{c.Field(pkgAlertU, "AlertConfig.Value"): true, c.Field(pkgAlertU, "MinionSearch.Value"): true}
	tr := &configTracer{c: c, callers: c.StaticCallers()}
	isThr := func(v ssa.Value) bool { return tr.allFrom(v, valF, nil, 0, map[string]bool{}) }
	isCondV := func(v ssa.Value) bool { return tr.allFrom(v, condF, nil, 0, map[string]bool{}) }
	// the constants of the condition type
	constVal := map[string]int64{}
	var consts []string
	scope := c.Pkg(pkgAlertU).Types.Scope()
	for _, n := range scope.Names() {
		if k, ok := scope.Lookup(n).(*types.Const); ok && types.Identical(k.Type(), condT) {
			consts = append(consts, n)
			if v, ok := constInt64(k); ok {
				constVal[n] = v
			}
		}
	}
	sort.Strings(consts)
	r.Floor("EXHAUST", "alert condition constants", len(consts), 5)
	// the dispatch: `tag == K` tests on one value of the condition type
	arm := map[int64]*ssa.BasicBlock{}
	var tag ssa.Value
	var lastTest *ssa.BasicBlock
	for _, b := range fn.Blocks {
		ifi, ok := core.LastIf(b)
		if !ok {
			continue
		}
		bo, ok := ifi.Cond.(*ssa.BinOp)
		if !ok || bo.Op != token.EQL || !types.Identical(bo.X.Type(), condT) {
			continue
		}
		k, ok := core.ConstIntValue(bo.Y)
		if !ok {
			continue
		}
		if tag == nil {
			tag = bo.X
		}
		if bo.X != tag {
			r.Undecided("ORDERTABLE", "alertsHandler.evaluateConditions", c.Pos(fn.Pos()), "the condition is tested on more than one value")
			return
		}
		arm[k] = b.Succs[0]
		lastTest = b
	}
	if tag == nil {
		r.Undecided("ORDERTABLE", "alertsHandler.evaluateConditions", c.Pos(fn.Pos()), "no dispatch on the alert condition found")
		return
	}
	r.Check(isCondV(tag), "DEPENDS", "alertsHandler.evaluateConditions:dispatches-on-the-alert's-configured-condition", c.Pos(fn.Pos()),
		"through every caller the tested condition is AlertConfig.Condition", "the condition evaluateConditions dispatches on is not, through every caller, the alert's own configured Condition")
	retOf := func(b *ssa.BasicBlock) ssa.Value {
		if b == nil || len(b.Instrs) == 0 {
			return nil
		}
		if ret, ok := b.Instrs[len(b.Instrs)-1].(*ssa.Return); ok && len(ret.Results) == 1 {
			return ret.Results[0]
		}
		return nil
	}
	isValue := func(v ssa.Value) bool {
		for i := 0; i < 3; i++ {
			if cv, ok := v.(*ssa.Convert); ok {
				v = cv.X
			}
		}
		p, ok := v.(*ssa.Parameter)
		return ok && p.Parent() == fn && !isThr(p)
	}
	flipOp := map[token.Token]token.Token{token.GTR: token.LSS, token.LSS: token.GTR, token.EQL: token.EQL, token.NEQ: token.NEQ, token.GEQ: token.LEQ, token.LEQ: token.GEQ}
	spec := map[string]token.Token{"IsAbove": token.GTR, "IsBelow": token.LSS, "IsEqualTo": token.EQL, "IsNotEqualTo": token.NEQ}
	for _, name := range consts {
		construct := "alertsHandler.evaluateConditions:" + name
		ab, ok := arm[constVal[name]]
		if !ok {
			r.Violation("EXHAUST", construct, c.Pos(fn.Pos()), "this condition has no case: an alert configured with it never matches")
			continue
		}
		res := retOf(ab)
		bo, isCmp := res.(*ssa.BinOp)
		if !isCmp {
			r.Undecided("ORDERTABLE", construct, c.Pos(fn.Pos()), "arm is not a plain comparison")
			continue
		}
		if name == "HasNoValue" {
			zero := func(v ssa.Value) bool {
				k, ok := v.(*ssa.Const)
				return ok && k.Value != nil && (k.Value.String() == "0" || k.Value.ExactString() == "0")
			}
			ok := bo.Op == token.EQL && ((isValue(bo.X) && zero(bo.Y)) || (isValue(bo.Y) && zero(bo.X)))
			r.Check(ok, "ORDERTABLE", construct, c.Pos(bo.Pos()), "means value == 0", "the arm does not mean `value == 0`")
			continue
		}
		op, known := spec[name]
		if !known {
			r.Undecided("ORDERTABLE", construct, c.Pos(bo.Pos()), "no specification for this condition constant in the checker")
			continue
		}
		switch {
		case isValue(bo.X) && isThr(bo.Y):
			r.Check(bo.Op == op, "ORDERTABLE", construct, c.Pos(bo.Pos()), "means `value "+op.String()+" threshold`", fmt.Sprintf("the arm means `value %s threshold`; it must mean `value %s threshold`", bo.Op, op))
		case isThr(bo.X) && isValue(bo.Y):
			r.Check(bo.Op == flipOp[op], "ORDERTABLE", construct, c.Pos(bo.Pos()), "means `value "+op.String()+" threshold`", fmt.Sprintf("the arm means `threshold %s value`; it must mean `value %s threshold`", bo.Op, op))
		default:
			r.Violation("ORDERTABLE", construct, c.Pos(bo.Pos()), "the arm does not compare the evaluated number with the alert's configured threshold (one operand must be, through every caller, AlertConfig.Value, the other the evaluated number)")
		}
	}
	if lastTest != nil {
		def := retOf(lastTest.Succs[1])
		k, isK := def.(*ssa.Const)
		r.Check(isK && k.Value != nil && k.Value.String() == "false", "ORDERTABLE", "alertsHandler.evaluateConditions:default", c.Pos(fn.Pos()), "an unknown condition never matches", "an unknown condition value matches")
	}

	// every evaluator decides through evaluateConditions, and hands it a number of the query result as the value
	evalObj := fn.Object()
	nEval := 0
	valueIdx := -1
	for i, p := range fn.Params {
		if b, ok := p.Type().Underlying().(*types.Basic); ok && b.Kind() == types.Float64 && !isThr(p) {
			valueIdx = i
		}
	}
	for _, name := range []string{"evaluateMetricsQueryConditions", "evaluateMeasureResultsAlertCondition", "evaluateRecordsMeasureAggsAlertCondition"} {
		ev := c.Fn(pkgAlertsH, name)
		calls := callsTo(ev, evalObj)
		construct := "alertsHandler." + name + ":decides-through-evaluateConditions(value,cond,threshold)"
		if len(calls) == 0 {
			r.Violation("SIBLING", construct, c.Pos(ev.Pos()), "this evaluator no longer decides through evaluateConditions: the result shapes can disagree about what a condition means")
			continue
		}
		for _, call := range calls {
			nEval++
			ok := valueIdx >= 0 && !isThr(call.Call.Args[valueIdx])
			r.Check(ok, "SIBLING", construct, c.Pos(call.Pos()), "the value handed over is a number of the query result, not the threshold", "the arguments of evaluateConditions are not (result value, configured condition, configured threshold): the comparison is made the wrong way round or against the wrong number")
		}
	}
	r.Floor("SIBLING", "evaluateConditions call sites in the three evaluators", nEval, 3)
}

func fieldOf(fa *ssa.FieldAddr) *types.Var {
	pt, ok := fa.X.Type().Underlying().(*types.Pointer)
	if !ok {
		return nil
	}
	st, ok := pt.Elem().Underlying().(*types.Struct)
	if !ok {
		return nil
	}
	return st.Field(fa.Field)
}

// edgeTruth: what is known about boolean v when control flows along from->to.
func edgeTruth(v ssa.Value, from, to *ssa.BasicBlock) core.Tri {
	if ifi, ok := core.LastIf(from); ok && len(from.Succs) == 2 && from.Succs[0] != from.Succs[1] {
		cond, neg := ifi.Cond, false
		if u, ok := cond.(*ssa.UnOp); ok && u.Op == token.NOT {
			cond, neg = u.X, true
		}
		if cond == v {
			if (to == from.Succs[0]) != neg {
				return core.Yes
			}
			return core.No
		}
	}
	return core.BoolKnownAt(v, from)
}

type constLeaf struct {
	k        int64
	from, to *ssa.BasicBlock
	other    ssa.Value // non-constant leaf
}

// phiLeaves resolves v through phis to its constant leaves with the edge each arrives on.
func phiLeaves(v ssa.Value, seen map[ssa.Value]bool) []constLeaf {
	if seen[v] {
		return nil
	}
	seen[v] = true
	p, ok := v.(*ssa.Phi)
	if !ok {
		return []constLeaf{{other: v}}
	}
	var out []constLeaf
	for i, e := range p.Edges {
		from := p.Block().Preds[i]
		if k, ok := core.ConstIntValue(e); ok {
			out = append(out, constLeaf{k: k, from: from, to: p.Block()})
			continue
		}
		if _, isPhi := e.(*ssa.Phi); isPhi {
			out = append(out, phiLeaves(e, seen)...)
			continue
		}
		out = append(out, constLeaf{other: e, from: from, to: p.Block()})
	}
	return out
}

// ---------------------------------------------------------------------------------------------- (2)

func c20StateSkeleton(c *core.Ctx, r *core.Report) {
	fn := c.Fn(pkgAlertsH, "handleAlertCondition")
	// the evaluation is recorded through updateAlertStateAndCreateAlertHistory(alert, state, desc, sent), or —
	// when that wrapper is written out in place — through updateAlertState(id, state, sent) followed by the
	// history row in handleAlertCondition itself
	updState := c.Obj(pkgAlertsH, "updateAlertState")
	update := c.TryObj(pkgAlertsH, "updateAlertStateAndCreateAlertHistory")
	stateIdx, flagIdx := 1, 3
	inPlace := update == nil
	if inPlace {
		update, stateIdx, flagIdx = updState, 1, 2
	}
	should := c.Obj(pkgAlertsH, "shouldUpdateAlertStateToFiring")
	notify := c.Obj(pkgAlertsH, "NotifyAlertHandlerRequest")
	normal, pending, firing := c.ConstVal(pkgAlertU, "Normal"), c.ConstVal(pkgAlertU, "Pending"), c.ConstVal(pkgAlertU, "Firing")
	var matched *ssa.Parameter
	for _, p := range fn.Params {
		if b, ok := p.Type().Underlying().(*types.Basic); ok && b.Kind() == types.Bool {
			matched = p
		}
	}
	ups := callsTo(fn, update)
	if matched == nil || len(ups) != 1 {
		r.Undecided("STATE", "alertsHandler.handleAlertCondition", c.Pos(fn.Pos()), "expected one bool parameter and exactly one state update call")
		return
	}
	up := ups[0]
	// reached on every path
	s := newSummaries(c)
	// every path reaches the update — except the rejection of a nil argument before anything was evaluated (a
	// return of a known error on the `parameter == nil` edge)
	var unrecorded *ssa.Return
	core.WalkForward(fn, nil, func(in ssa.Instruction) bool {
		if ci, ok := in.(ssa.CallInstruction); ok && core.IsCallTo(ci, update) {
			return false
		}
		if ret, ok := in.(*ssa.Return); ok && unrecorded == nil && !isNilParamRejection(ret) {
			unrecorded = ret
		}
		return true
	})
	_ = s
	r.Check(unrecorded == nil, "ORDER", "alertsHandler.handleAlertCondition:state-and-history-written-on-every-path", c.Pos(up.Pos()),
		"every path reaches updateAlertStateAndCreateAlertHistory", "some path returns without recording the evaluation: the next decision reads a history that misses an outcome")

	shouldCalls := callsTo(fn, should)
	var shouldRes ssa.Value
	if len(shouldCalls) == 1 {
		shouldRes = shouldCalls[0]
	}
	seenK := map[int64]bool{}
	for _, lf := range phiLeaves(up.Call.Args[stateIdx], map[ssa.Value]bool{}) {
		if lf.other != nil {
			if k, ok := core.ConstIntValue(lf.other); ok && lf.from == nil {
				lf.k, lf.other = k, nil
				lf.from, lf.to = up.Block(), up.Block()
			} else {
				r.Violation("STATE", "alertsHandler.handleAlertCondition:new-state-is-one-of-Normal/Pending/Firing", c.Pos(up.Pos()), "the state written is not one of the three constants chosen by the condition outcome")
				continue
			}
		}
		m := edgeTruth(matched, lf.from, lf.to)
		var sh core.Tri = core.Maybe
		if shouldRes != nil {
			sh = edgeTruth(shouldRes, lf.from, lf.to)
		}
		seenK[lf.k] = true
		switch lf.k {
		case normal:
			r.Check(m == core.No, "STATE", "alertsHandler.handleAlertCondition:Normal-iff-condition-not-matched", c.Pos(up.Pos()), "Normal is chosen only on the not-matched edge", "Normal can be recorded although the condition matched")
		case pending:
			r.Check(m == core.Yes && sh == core.No, "STATE", "alertsHandler.handleAlertCondition:Pending-iff-matched-and-window-not-full", c.Pos(up.Pos()), "Pending is chosen only where the condition matched and shouldUpdateAlertStateToFiring answered false", "Pending can be recorded where the condition did not match or where the window test answered true")
		case firing:
			r.Check(m == core.Yes && sh == core.Yes, "STATE", "alertsHandler.handleAlertCondition:Firing-iff-matched-and-window-full", c.Pos(up.Pos()), "Firing is chosen only where the condition matched and shouldUpdateAlertStateToFiring answered true", "Firing can be recorded without the window test having answered true")
		default:
			r.Violation("STATE", "alertsHandler.handleAlertCondition:new-state-is-one-of-Normal/Pending/Firing", c.Pos(up.Pos()), fmt.Sprintf("state constant %d is recorded by the evaluation", lf.k))
		}
	}
	for _, k := range []int64{normal, pending, firing} {
		if !seenK[k] {
			r.Violation("STATE", fmt.Sprintf("alertsHandler.handleAlertCondition:state-%d-reachable", k), c.Pos(up.Pos()), "one of Normal/Pending/Firing can no longer be the outcome of an evaluation")
		}
	}
	// the window test is asked about the candidate state Pending
	if len(shouldCalls) == 1 {
		k, ok := core.ConstIntValue(shouldCalls[0].Call.Args[1])
		r.Check(ok && k == pending && shouldCalls[0].Call.Args[0] == ssa.Value(fn.Params[0]), "STATE", "alertsHandler.handleAlertCondition:window-test-on-this-alert", c.Pos(shouldCalls[0].Pos()), "asked for this alert with the matched outcome", "the window test is asked about another alert or a non-matching outcome")
	} else {
		r.Violation("STATE", "alertsHandler.handleAlertCondition:window-test-on-this-alert", c.Pos(fn.Pos()), "the window test is not called exactly once")
	}

	// notifications: exactly for Firing (the computed state, tested) and Normal
	nc := callsTo(fn, notify)
	sawFiring, sawNormal := false, false
	for i, call := range nc {
		construct := fmt.Sprintf("alertsHandler.handleAlertCondition:notify#%d-only-for-Firing-or-Normal", i+1)
		st := call.Call.Args[1]
		if k, ok := core.ConstIntValue(st); ok {
			okN := k == normal && core.BoolKnownAt(matched, call.Block()) == core.No
			if okN {
				sawNormal = true
			}
			r.Check(okN, "STATE", construct, c.Pos(call.Pos()), "Normal notification on the not-matched branch", "a notification with a constant state is attempted outside the not-matched branch")
			continue
		}
		// the computed state is passed: the values it may hold at the call (its constants, narrowed by the tests
		// of it on the way: `if st == Firing {..}`, `if st == Firing || st == Normal {..}`, `if st != Pending`)
		// are Firing, or Normal, and nothing else
		set := core.ConstSets(st)[call.Block()]
		okF := len(set) > 0
		for k := range set {
			if k != firing && k != normal {
				okF = false
			}
		}
		if set[normal] {
			sawNormal = true
		}
		if set[firing] {
			sawFiring = true
		}
		if okF && !set[firing] {
			// a notification of the computed state that can only be Normal is fine as well
			r.OK("STATE", construct, c.Pos(call.Pos()), "notification with the computed state, only where it is Normal")
			continue
		}
		r.Check(okF, "STATE", construct, c.Pos(call.Pos()), "notification with the computed state, only where it is Firing (or Normal)", "a notification is attempted for a state that is not known to be Firing or Normal (e.g. Pending)")
	}
	r.Check(sawFiring, "STATE", "alertsHandler.handleAlertCondition:Firing-notifies", c.Pos(fn.Pos()), "entering Firing attempts a notification", "no notification is attempted when the alert fires")
	r.Check(sawNormal, "STATE", "alertsHandler.handleAlertCondition:Normal-notifies", c.Pos(fn.Pos()), "returning to Normal attempts a notification", "no notification is attempted when the alert returns to Normal")

	// the stored notification flag is the notifier's own answer
	okFlag := true
	for _, lf := range phiLeaves(up.Call.Args[flagIdx], map[ssa.Value]bool{}) {
		if lf.other == nil {
			if lf.k != 0 {
				okFlag = false
			}
			continue
		}
		if k, ok := lf.other.(*ssa.Const); ok {
			if k.Value != nil && k.Value.String() == "true" {
				okFlag = false
			}
			continue
		}
		ex, ok := lf.other.(*ssa.Extract)
		if !ok || ex.Index != 0 {
			okFlag = false
			continue
		}
		call, ok := ex.Tuple.(*ssa.Call)
		if !ok || !core.IsCallTo(call, notify) {
			okFlag = false
		}
	}
	r.Check(okFlag, "DEPENDS", "alertsHandler.handleAlertCondition:notification-flag-is-the-notifier's-answer", c.Pos(up.Pos()), "last-sent time is updated only when NotifyAlertHandlerRequest reported a send", "the notification flag stored with the state does not come from the notifier: the cool-down clock is reset without a send (or not reset after one)")

	// both writes, with the decided state: in the wrapper, or in handleAlertCondition when it is written out there
	uf := fn
	var stateP ssa.Value = up.Call.Args[stateIdx]
	if !inPlace {
		uf = c.Fn(pkgAlertsH, "updateAlertStateAndCreateAlertHistory")
		stateP = nil
		stT := c.NamedType(pkgAlertU, "AlertState")
		for _, p := range uf.Params {
			if types.Identical(p.Type(), stT) {
				stateP = p
			}
		}
	}
	checkBeforeSuccessReturn(c, r, uf, "updateAlertState", directPred(objs(updState)), "a success return without the state update leaves the alert in its previous state")
	createHist := func(ci ssa.CallInstruction) bool {
		f := core.CalleeFunc(ci)
		return f != nil && c.BaseName(f) == "CreateAlertHistory"
	}
	checkBeforeSuccessReturn(c, r, uf, "CreateAlertHistory", createHist, "a success return without a history row: the next window test misses this outcome")
	okSt := false
	for _, call := range callsTo(uf, updState) {
		if stateP != nil && call.Call.Args[1] == stateP {
			okSt = true
		}
	}
	histStateF := c.Field(pkgAlertU, "AlertHistoryDetails.AlertState")
	okHist := false
	for _, b := range uf.Blocks {
		for _, in := range b.Instrs {
			if st, ok := in.(*ssa.Store); ok {
				if fa, ok := st.Addr.(*ssa.FieldAddr); ok && fieldOf(fa) == histStateF && stateP != nil && st.Val == stateP {
					okHist = true
				}
			}
		}
	}
	r.Check(stateP != nil && okSt && okHist, "DEPENDS", "alertsHandler.updateAlertStateAndCreateAlertHistory:same-state-in-alert-and-history", c.Pos(uf.Pos()), "the alert row and the history row both receive the decided state", "the alert row and the history row do not both receive the decided state")
}

// ---------------------------------------------------------------------------------------------- (3)

// notEqualKnown: v != k is known in block at (a dominating ==/!= test, or an interval that excludes k).
func notEqualKnown(v ssa.Value, k int64, at *ssa.BasicBlock) bool {
	for b := at; b != nil && b.Idom() != nil; b = b.Idom() {
		idom := b.Idom()
		ifi, ok := core.LastIf(idom)
		if !ok {
			continue
		}
		onTrue := idom.Succs[0] == b && len(b.Preds) == 1
		onFalse := idom.Succs[1] == b && len(b.Preds) == 1
		if onTrue == onFalse {
			continue
		}
		bo, ok := ifi.Cond.(*ssa.BinOp)
		if !ok {
			continue
		}
		var other ssa.Value
		if bo.X == v {
			other = bo.Y
		} else if bo.Y == v {
			other = bo.X
		} else {
			continue
		}
		kk, isK := core.ConstIntValue(other)
		if !isK || kk != k {
			continue
		}
		if (bo.Op == token.EQL && onFalse) || (bo.Op == token.NEQ && onTrue) {
			return true
		}
	}
	rg := refineAt(v, at, rng{})
	return rg.ok && (rg.lo > k || rg.hi < k)
}

func isMethodCall(ci ssa.CallInstruction, name string) bool {
	f := core.CalleeFunc(ci)
	return f != nil && f.Name() == name && f.Type().(*types.Signature).Recv() != nil
}

// storedField: the value stored into field f of the struct allocated as alloc.
func storedField(alloc ssa.Value, f *types.Var) ssa.Value {
	refs := alloc.Referrers()
	if refs == nil {
		return nil
	}
	for _, rf := range *refs {
		fa, ok := rf.(*ssa.FieldAddr)
		if !ok || fieldOf(fa) != f {
			continue
		}
		if frefs := fa.Referrers(); frefs != nil {
			for _, x := range *frefs {
				if st, ok := x.(*ssa.Store); ok && st.Addr == ssa.Value(fa) {
					return st.Val
				}
			}
		}
	}
	return nil
}

func c20Window(c *core.Ctx, r *core.Report) {
	fn := c.Fn(pkgAlertsH, "shouldUpdateAlertStateToFiring")
	limitF := c.Field(pkgAlertU, "AlertHistoryQueryParams.Limit")
	sortF := c.Field(pkgAlertU, "AlertHistoryQueryParams.SortOrder")
	idF := c.Field(pkgAlertU, "AlertHistoryQueryParams.AlertId")
	winF, intF := c.Field(pkgAlertU, "AlertConfig.EvalWindow"), c.Field(pkgAlertU, "AlertConfig.EvalInterval")
	pendOrFiring := c.Obj(pkgAlertU, "IsAlertStatePendingOrFiring")
	histStateF := c.Field(pkgAlertU, "AlertHistoryDetails.AlertState")
	name := "alertsHandler.shouldUpdateAlertStateToFiring"

	// the history read and the scan live in the window test itself or in ONE helper of the package that it calls
	// and whose answer it returns unchanged (the read-and-scan part extracted into a function of its own); the
	// helper's parameters are resolved to the arguments of that call
	host := fn
	var site *ssa.Call
	findQuery := func(f *ssa.Function) (ssa.CallInstruction, bool) {
		var q ssa.CallInstruction
		for _, ci := range core.CallsIn(f) {
			if isMethodCall(ci, "GetAlertHistoryByAlertID") {
				if q != nil {
					return nil, false
				}
				q = ci
			}
		}
		return q, true
	}
	q, one := findQuery(fn)
	if !one {
		r.Undecided("WINDOW", name, c.Pos(fn.Pos()), "more than one history query")
		return
	}
	if q == nil {
		for _, ci := range core.CallsIn(fn) {
			call, ok := ci.(*ssa.Call)
			if !ok {
				continue
			}
			h := call.Call.StaticCallee()
			if h == nil || h.Blocks == nil || core.FnPkgPath(h) != core.FnPkgPath(fn) {
				continue
			}
			if hq, ok := findQuery(h); ok && hq != nil {
				if site != nil {
					r.Undecided("WINDOW", name, c.Pos(ci.Pos()), "more than one history query")
					return
				}
				host, site, q = h, call, hq
			}
		}
	}
	if q == nil {
		r.Violation("WINDOW", name+":reads-the-history", c.Pos(fn.Pos()), "the window test no longer reads the alert history")
		return
	}
	// a parameter of the helper stands for the argument at the call
	arg := func(v ssa.Value) ssa.Value {
		if site == nil {
			return v
		}
		for i := 0; i < 3; i++ {
			p, ok := v.(*ssa.Parameter)
			if !ok || p.Parent() != host {
				if cv, ok := v.(*ssa.Convert); ok {
					if _, isP := cv.X.(*ssa.Parameter); isP {
						v = cv.X
						continue
					}
				}
				return v
			}
			for k, hp := range host.Params {
				if hp == p && k < len(site.Call.Args) {
					return site.Call.Args[k]
				}
			}
			return v
		}
		return v
	}
	if site != nil {
		// the helper's answer is the window test's answer: the call's result is only returned
		onlyReturned := true
		if refs := site.Referrers(); refs != nil {
			for _, u := range *refs {
				switch u.(type) {
				case *ssa.Return, *ssa.DebugRef:
				default:
					onlyReturned = false
				}
			}
		}
		r.Check(onlyReturned, "WINDOW", name+":helper-answer-returned-unchanged", c.Pos(site.Pos()), "the result of the read-and-scan helper is returned as it is", "the answer of the helper that reads and scans the history is changed or tested before it is returned")
	}
	params := q.Common().Args[0]
	limit := storedField(params, limitF)
	// N = EvalWindow / EvalInterval
	isN := func(v ssa.Value) bool {
		v = arg(v)
		bo, ok := v.(*ssa.BinOp)
		if !ok || bo.Op != token.QUO {
			return false
		}
		isLoadOf := func(x ssa.Value, f *types.Var) bool {
			ld, ok := x.(*ssa.UnOp)
			if !ok {
				return false
			}
			fa, ok := ld.X.(*ssa.FieldAddr)
			return ok && fieldOf(fa) == f
		}
		return isLoadOf(bo.X, winF) && isLoadOf(bo.Y, intF)
	}
	var n ssa.Value
	nMinus1 := func(v ssa.Value) bool {
		if cv, ok := v.(*ssa.Convert); ok {
			v = cv.X
		}
		bo, ok := v.(*ssa.BinOp)
		if !ok || bo.Op != token.SUB {
			return false
		}
		k, isK := core.ConstIntValue(bo.Y)
		if !isK || k != 1 || !isN(bo.X) {
			return false
		}
		if n == nil {
			n = arg(bo.X)
		}
		return n == arg(bo.X)
	}
	okLimit := limit != nil && nMinus1(limit)
	r.Check(okLimit, "WINDOW", name+":asks-for-N-1-rows", c.Pos(q.Pos()), "Limit = EvalWindow/EvalInterval − 1", "the history query does not ask for EvalWindow/EvalInterval − 1 rows: the state depends on more or fewer outcomes than the window")
	if !okLimit {
		return
	}
	// newest first, this alert
	so := storedField(params, sortF)
	soStr, _ := core.ConstStringValue(so)
	r.Check(so != nil && soStr == "DESC", "WINDOW", name+":newest-rows-first", c.Pos(q.Pos()), "SortOrder is DESC", "the rows are not requested newest first: the window is taken from the oldest outcomes")
	idv := storedField(params, idF)
	okID := false
	if idv != nil {
		for _, o := range c.Origins(idv, 0) {
			if o.Kind == "field" && o.Obj != nil && c.BaseName(o.Obj) == "AlertId" {
				okID = true
			}
		}
	}
	r.Check(okID, "WINDOW", name+":history-of-this-alert", c.Pos(q.Pos()), "AlertId of the alert under evaluation", "the history read is not keyed by the evaluated alert's id")
	// the limit is non-zero at the call (0 selects the store's paging default)
	guardAt := q.Block()
	if site != nil {
		guardAt = site.Block()
	}
	r.Check(notEqualKnown(n, 1, guardAt), "BOUND", name+":history-limit-non-zero", c.Pos(q.Pos()), "N != 1 is established before the query, so Limit = N−1 >= 1", "Limit = N−1 can be 0 at the query: GetAlertHistoryByAlertID substitutes its paging default (20 rows) for 0, so with N == 1 the state depends on the last 21 outcomes")

	// returns
	hist := func() ssa.Value {
		if call, ok := q.(*ssa.Call); ok {
			if refs := call.Referrers(); refs != nil {
				for _, rf := range *refs {
					if ex, ok := rf.(*ssa.Extract); ok && ex.Index == 0 {
						return ex
					}
				}
			}
		}
		return nil
	}()
	loops := core.Loops(host)
	// the scan loop: a loop whose body tests IsAlertStatePendingOrFiring(hist[i].AlertState)
	var scan *core.Loop
	var scanTest *ssa.Call
	for _, l := range loops {
		for b := range l.Body {
			for _, in := range b.Instrs {
				call, ok := in.(*ssa.Call)
				if !ok || !core.IsCallTo(call, pendOrFiring) {
					continue
				}
				fromHist := false
				for _, o := range c.Origins(call.Call.Args[0], 0) {
					if o.Kind == "field" && o.Obj == types.Object(histStateF) {
						fromHist = true
					}
				}
				if fromHist {
					scan, scanTest = l, call
				}
			}
		}
	}
	if scan == nil || hist == nil {
		r.Violation("WINDOW", name+":scans-every-returned-row", c.Pos(q.Pos()), "no loop tests IsAlertStatePendingOrFiring on the state of each returned history row")
		return
	}
	// the failing test leaves with `false`
	okFail := false
	if ifi, ok := core.LastIf(scanTest.Block()); ok && ifi.Cond == ssa.Value(scanTest) {
		fb := scanTest.Block().Succs[1]
		if ret, ok := fb.Instrs[len(fb.Instrs)-1].(*ssa.Return); ok && len(fb.Preds) == 1 {
			if k, ok := core.RetResult(ret, 0).(*ssa.Const); ok && k.Value != nil && k.Value.String() == "false" {
				okFail = true
			}
		}
		// the passing edge stays in the loop
		if !scan.Body[scanTest.Block().Succs[0]] && scanTest.Block().Succs[0] != scan.Header {
			okFail = false
		}
	}
	r.Check(okFail, "WINDOW", name+":a-row-that-is-not-Pending/Firing-answers-false", c.Pos(scanTest.Pos()), "the scan answers false at the first row that is not Pending/Firing and otherwise continues", "a history row that is not Pending/Firing does not make the window test answer false (or a passing row ends the scan)")
	// the loop ranges over the whole result: its header compares the index with len(hist)
	okRange := false
	if ifi, ok := core.LastIf(scan.Header); ok {
		if bo, ok := ifi.Cond.(*ssa.BinOp); ok && bo.Op == token.LSS {
			if call, ok := bo.Y.(*ssa.Call); ok {
				if bi, ok := call.Call.Value.(*ssa.Builtin); ok && bi.Name() == "len" && call.Call.Args[0] == hist {
					okRange = true
				}
			}
		}
	}
	r.Check(okRange, "WINDOW", name+":scans-every-returned-row", c.Pos(scanTest.Pos()), "the scan ranges over all returned rows", "the scan does not range over all returned rows")
	// ... and no row is passed over: inside the scan loop no path from the loop header back to it avoids the state test
	// (the query returns exactly the last N-1 rows; a skipped row silently shrinks the window)
	{
		skipped := false
		seen := map[*ssa.BasicBlock]bool{}
		var work []*ssa.BasicBlock
		for _, sc := range scan.Header.Succs {
			if scan.Body[sc] {
				work = append(work, sc)
				seen[sc] = true
			}
		}
		for len(work) > 0 {
			x := work[len(work)-1]
			work = work[:len(work)-1]
			if x == scanTest.Block() {
				continue
			}
			for _, sc := range x.Succs {
				if sc == scan.Header {
					skipped = true
				}
				if scan.Body[sc] && !seen[sc] && sc != scan.Header {
					seen[sc] = true
					work = append(work, sc)
				}
			}
		}
		r.Check(!skipped, "WINDOW", name+":no-returned-row-is-passed-over", c.Pos(scanTest.Pos()), "every iteration of the scan reaches the state test", "the scan can move on to the next history row without testing the current one: the query returns exactly the last N-1 rows, so every row that is passed over shortens the window and the alert fires after fewer than N positive evaluations")
	}
	// every `return true` is the N==1 shortcut or follows exhaustion of the scan and the row-count test
	var lenGuard bool
	for _, b := range host.Blocks {
		ifi, ok := core.LastIf(b)
		if !ok {
			continue
		}
		bo, ok := ifi.Cond.(*ssa.BinOp)
		if !ok {
			continue
		}
		lenSide, nSide := bo.X, bo.Y
		switch bo.Op {
		case token.LSS:
		case token.GTR:
			lenSide, nSide = bo.Y, bo.X
		default:
			continue
		}
		if cv, ok := lenSide.(*ssa.Convert); ok {
			lenSide = cv.X
		}
		call, ok := lenSide.(*ssa.Call)
		if !ok {
			continue
		}
		bi, ok := call.Call.Value.(*ssa.Builtin)
		if !ok || bi.Name() != "len" || call.Call.Args[0] != hist || !nMinus1(nSide) {
			continue
		}
		tb := b.Succs[0]
		if ret, ok := tb.Instrs[len(tb.Instrs)-1].(*ssa.Return); ok && len(tb.Preds) == 1 {
			if k, ok := core.RetResult(ret, 0).(*ssa.Const); ok && k.Value != nil && k.Value.String() == "false" && b.Succs[1].Dominates(scan.Header) && len(b.Succs[1].Preds) == 1 {
				lenGuard = true
			}
		}
	}
	r.Check(lenGuard, "WINDOW", name+":fewer-than-N-1-rows-answers-false", c.Pos(q.Pos()), "len(history) < N−1 answers false before the scan", "a history shorter than N−1 rows no longer answers false: a young alert fires before the condition held for the whole window")
	nTrue := 0
	allReturns := core.Returns(fn)
	if site != nil {
		allReturns = append(allReturns, core.Returns(host)...)
	}
	for _, ret := range allReturns {
		if site != nil && ret.Results[0] == ssa.Value(site) {
			continue // the helper's answer: its own returns are judged
		}
		k, ok := core.RetResult(ret, 0).(*ssa.Const)
		if ok && k.Value != nil && k.Value.String() == "false" {
			continue
		}
		nTrue++
		construct := fmt.Sprintf("%s:return-true#%d-only-for-N==1-or-after-the-full-scan", name, nTrue)
		b := ret.Block()
		// N == 1 shortcut
		shortcut := false
		if idom := b.Idom(); idom != nil && len(b.Preds) == 1 && idom.Succs[0] == b {
			if ifi, ok := core.LastIf(idom); ok {
				if bo, ok := ifi.Cond.(*ssa.BinOp); ok && bo.Op == token.EQL && bo.X == n {
					if k1, ok := core.ConstIntValue(bo.Y); ok && k1 == 1 {
						shortcut = true
					}
				}
			}
		}
		afterScan := !ok && false
		if len(b.Preds) == 1 && b.Preds[0] == scan.Header && !scan.Body[b] {
			afterScan = true
		}
		isTrue := ok && k.Value != nil && k.Value.String() == "true"
		r.Check(isTrue && (shortcut || afterScan), "WINDOW", construct, c.Pos(ret.Pos()), "reached only through N == 1 or through exhaustion of the scan", "the window test can answer true on a path that is neither the N == 1 case nor the end of the scan over all N−1 rows")
	}
	r.Floor("WINDOW", "true answers of the window test", nTrue, 1)
	// the current outcome must itself be Pending/Firing
	okCur := false
	for _, call := range callsTo(fn, pendOrFiring) {
		if call.Call.Args[0] != ssa.Value(fn.Params[1]) {
			continue
		}
		// every answer other than the constant false lies where the test of the current outcome is known true
		// (the test need not be the very first statement: an argument check may precede it)
		all, nAns := true, 0
		for _, ret := range core.Returns(fn) {
			if k, ok := core.RetResult(ret, 0).(*ssa.Const); ok && k.Value != nil && k.Value.String() == "false" {
				continue
			}
			nAns++
			if core.BoolKnownAt(call, ret.Block()) != core.Yes {
				all = false
			}
		}
		if all && nAns > 0 {
			okCur = true
		}
	}
	r.Check(okCur, "WINDOW", name+":current-outcome-must-match", c.Pos(fn.Pos()), "a non-matching current outcome answers false first", "the current outcome is no longer required to be Pending/Firing")

	// the store's default for Limit==0 (documented reason of the BOUND obligation): observation only
	sq := c.Fn(pkgAlertSql, "Sqlite.GetAlertHistoryByAlertID")
	hasDefault := false
	for _, b := range sq.Blocks {
		for _, in := range b.Instrs {
			if st, ok := in.(*ssa.Store); ok {
				if fa, ok := st.Addr.(*ssa.FieldAddr); ok && fieldOf(fa) == limitF {
					if _, isK := core.ConstIntValue(st.Val); isK {
						hasDefault = true
					}
				}
			}
		}
	}
	r.Count("history store substitutes a default for Limit==0", map[bool]int{true: 1, false: 0}[hasDefault])
}

// ---------------------------------------------------------------------------------------------- (4)

func c20Notify(c *core.Ctx, r *core.Report) {
	entry := c.Fn(pkgAlertsH, "shouldSendNotification")
	fn := entry
	cpF, lsF := c.Field(pkgAlertU, "Notification.CooldownPeriod"), c.Field(pkgAlertU, "Notification.LastSentTime")
	smF := c.Field(pkgAlertU, "AlertDetails.SilenceMinutes")
	normal, inactive := c.ConstVal(pkgAlertU, "Normal"), c.ConstVal(pkgAlertU, "Inactive")
	name := "alertsHandler.shouldSendNotification"
	pt := &periodRoles{c: c, periodFields: map[types.Object]bool{cpF: true, smF: true}, lastField: lsF}
	// The period tests are found by what they are asked about, not by their names: a call, in the deciding
	// function, of a boolean function of the package one of whose arguments is the notification row's
	// CooldownPeriod (the cool-down test) resp. the alert's SilenceMinutes (the silence test).  The deciding
	// function is shouldSendNotification, or — when that only forwards (an explicit-clock variant holds the
	// body) — the function of the package it hands its arguments to.
	findTests := func(f *ssa.Function) (cool, sil []*ssa.Call) {
		for _, ci := range core.CallsIn(f) {
			call, ok := ci.(*ssa.Call)
			if !ok {
				continue
			}
			h := call.Call.StaticCallee()
			if h == nil || h.Blocks == nil || core.FnPkgPath(h) != core.FnPkgPath(entry) {
				continue
			}
			if bt, ok := call.Type().Underlying().(*types.Basic); !ok || bt.Kind() != types.Bool {
				continue
			}
			for _, a := range call.Call.Args {
				for _, o := range c.Origins(a, 0) {
					if o.Kind == "field" && o.Obj == types.Object(cpF) {
						cool = append(cool, call)
					}
					if o.Kind == "field" && o.Obj == types.Object(smF) {
						sil = append(sil, call)
					}
				}
			}
		}
		return
	}
	coolCalls, silCalls := findTests(fn)
	if len(coolCalls) == 0 && len(silCalls) == 0 {
		for _, ci := range core.CallsIn(entry) {
			if h := ci.Common().StaticCallee(); h != nil && h.Blocks != nil && h.Parent() == nil && core.FnPkgPath(h) == core.FnPkgPath(entry) {
				if cc, sc := findTests(h); len(cc) > 0 || len(sc) > 0 {
					fn, coolCalls, silCalls = h, cc, sc
					break
				}
			}
		}
	}
	if len(coolCalls) != 1 || len(silCalls) != 1 {
		r.Violation("GUARD", name+":tests-cooldown-and-silence", c.Pos(fn.Pos()), "the cool-down or the silence test is no longer made exactly once")
		return
	}
	nTrue := 0
	for _, ret := range core.Returns(fn) {
		k, ok := core.RetResult(ret, 0).(*ssa.Const)
		if ok && k.Value != nil && k.Value.String() == "false" {
			continue
		}
		nTrue++
		okG := core.BoolKnownAt(coolCalls[0], ret.Block()) == core.Yes && core.BoolKnownAt(silCalls[0], ret.Block()) == core.Yes
		r.Check(ok && okG, "GUARD", fmt.Sprintf("%s:true#%d-only-after-cooldown-and-silence-passed", name, nTrue), c.Pos(ret.Pos()), "both period tests are known true", "a notification can be allowed although the cool-down or the silence period has not passed: repeats are sent inside the cool-down")
	}
	r.Floor("GUARD", "true answers of shouldSendNotification", nTrue, 1)
	// the tests use the notification row's period and last-sent time
	hasField := func(v ssa.Value, f *types.Var) bool {
		for _, o := range c.Origins(v, 0) {
			if o.Kind == "field" && o.Obj == types.Object(f) {
				return true
			}
		}
		return false
	}
	anyArg := func(call *ssa.Call, f *types.Var) bool {
		for _, a := range call.Call.Args {
			if hasField(a, f) {
				return true
			}
		}
		return false
	}
	r.Check(anyArg(coolCalls[0], cpF) && anyArg(coolCalls[0], lsF), "DEPENDS", name+":cooldown-from-the-notification-row", c.Pos(coolCalls[0].Pos()), "CooldownPeriod and LastSentTime of the alert's notification row", "the cool-down test is not made on the alert's own cool-down period and last-sent time")
	r.Check(anyArg(silCalls[0], smF) && anyArg(silCalls[0], lsF), "DEPENDS", name+":silence-from-the-alert", c.Pos(silCalls[0].Pos()), "SilenceMinutes of the alert and LastSentTime", "the silence test is not made on the alert's own silence period and last-sent time")
	// Normal after Normal / Inactive is suppressed: under `cur == Normal`, LastAlertState == Inactive and LastAlertState == cur lead to `false`
	lastF := c.Field(pkgAlertU, "Notification.LastAlertState")
	var cur *ssa.Parameter
	stT := c.NamedType(pkgAlertU, "AlertState")
	for _, p := range fn.Params {
		if types.Identical(p.Type(), stT) {
			cur = p
		}
	}
	supInactive, supSame := false, false
	for _, b := range fn.Blocks {
		ifi, ok := core.LastIf(b)
		if !ok {
			continue
		}
		bo, ok := ifi.Cond.(*ssa.BinOp)
		if !ok || (bo.Op != token.EQL && bo.Op != token.NEQ) || !hasField(bo.X, lastF) {
			continue
		}
		// inside `cur == Normal` (true edge of ==, false edge of !=)
		under := false
		for d := b; d != nil && d.Idom() != nil; d = d.Idom() {
			if di, ok := core.LastIf(d.Idom()); ok && len(d.Preds) == 1 {
				if dbo, ok := di.Cond.(*ssa.BinOp); ok && (dbo.Op == token.EQL || dbo.Op == token.NEQ) && dbo.X == ssa.Value(cur) {
					eqSucc := 0
					if dbo.Op == token.NEQ {
						eqSucc = 1
					}
					if k, ok := core.ConstIntValue(dbo.Y); ok && k == normal && d.Idom().Succs[eqSucc] == d {
						under = true
					}
				}
			}
		}
		if !under {
			continue
		}
		// the edge taken when the last notified state EQUALS the tested one leads only to `return false`
		// (whatever the spelling: nested ifs with their own returns, or one merged condition whose arms
		// share the return)
		eqSucc := 0
		if bo.Op == token.NEQ {
			eqSucc = 1
		}
		tb := b.Succs[eqSucc]
		onlyFalse, nRet := true, 0
		seenB := map[*ssa.BasicBlock]bool{tb: true}
		work := []*ssa.BasicBlock{tb}
		for len(work) > 0 {
			x := work[len(work)-1]
			work = work[:len(work)-1]
			if ret, isRet := x.Instrs[len(x.Instrs)-1].(*ssa.Return); isRet {
				nRet++
				if k, ok := core.RetResult(ret, 0).(*ssa.Const); !ok || k.Value == nil || k.Value.String() != "false" {
					onlyFalse = false
				}
			}
			for _, sc := range x.Succs {
				if !seenB[sc] {
					seenB[sc] = true
					work = append(work, sc)
				}
			}
		}
		if !onlyFalse || nRet == 0 {
			continue
		}
		if k, ok := core.ConstIntValue(bo.Y); ok && k == inactive {
			supInactive = true
		}
		if bo.Y == ssa.Value(cur) {
			supSame = true
		}
		// under `cur == Normal` the constant Normal is the current state
		if k, ok := core.ConstIntValue(bo.Y); ok && k == normal {
			supSame = true
		}
	}
	r.Check(supInactive && supSame, "GUARD", name+":Normal-after-Normal-or-Inactive-is-not-notified", c.Pos(fn.Pos()), "a Normal outcome is notified only after a Firing notification", "a Normal outcome is notified although the last notified state was already Normal (or nothing was ever notified): `once on return to Normal` is lost")

	// the sends are guarded by the answer
	nf := c.Fn(pkgAlertsH, "NotifyAlertHandlerRequest")
	ssn := callsTo(nf, entry.Object())
	if len(ssn) != 1 {
		r.Violation("GUARD", "alertsHandler.NotifyAlertHandlerRequest:asks-shouldSendNotification", c.Pos(nf.Pos()), "the notifier no longer asks shouldSendNotification exactly once")
		return
	}
	var answer ssa.Value
	if refs := ssn[0].Referrers(); refs != nil {
		for _, rf := range *refs {
			if ex, ok := rf.(*ssa.Extract); ok && ex.Index == 0 {
				answer = ex
			}
		}
	}
	nSend := 0
	sendObjs := objSet{}
	for _, sname := range []string{"sendAlertEmail", "sendSlack", "sendWebhooks"} {
		so := c.Obj(pkgAlertsH, sname)
		for k := range objs(so) {
			sendObjs[k] = true
		}
		for i, call := range callsTo(nf, so) {
			nSend++
			ok := answer != nil && core.BoolKnownAt(answer, call.Block()) == core.Yes
			r.Check(ok, "GUARD", fmt.Sprintf("alertsHandler.NotifyAlertHandlerRequest:%s#%d-guarded-by-shouldSendNotification", sname, i+1), c.Pos(call.Pos()), "sent only where shouldSendNotification answered true", "a message is sent where shouldSendNotification is not known to have answered true")
		}
	}
	// the delivery extracted into a helper of the package: its call is what shouldSendNotification guards, its
	// sends count, and — the helper reporting "nobody was reached" as an error — the notifier may answer `sent`
	// only on the edge where that error is nil (the answer is what resets the cool-down clock)
	for _, ci := range core.CallsIn(nf) {
		hcall, ok := ci.(*ssa.Call)
		if !ok {
			continue
		}
		h := hcall.Call.StaticCallee()
		if h == nil || h.Blocks == nil || core.FnPkgPath(h) != core.FnPkgPath(nf) {
			continue
		}
		inner := 0
		for _, x := range core.CallsIn(h) {
			if sendObjs.hasCallee(x) {
				inner++
			}
		}
		if inner == 0 {
			continue
		}
		nSend += inner
		okG := answer != nil && core.BoolKnownAt(answer, hcall.Block()) == core.Yes
		r.Check(okG, "GUARD", fmt.Sprintf("alertsHandler.NotifyAlertHandlerRequest:%s-guarded-by-shouldSendNotification", h.Name()), c.Pos(hcall.Pos()), "the delivery helper is called only where shouldSendNotification answered true", "the delivery helper is called where shouldSendNotification is not known to have answered true")
		errv, _ := errResultOf(hcall)
		construct := fmt.Sprintf("alertsHandler.NotifyAlertHandlerRequest:sent-is-answered-only-where-%s-succeeded", h.Name())
		if errv == nil {
			// the helper answers with a boolean (`somebody was reached`): `sent` may be answered only where
			// that boolean is known true, or by handing the boolean itself on
			if bt, isB := hcall.Type().Underlying().(*types.Basic); isB && bt.Info()&types.IsBoolean != 0 {
				var bad *ssa.Return
				core.WalkForwardEdges(nf, hcall, func(in ssa.Instruction) bool {
					if ret, ok := in.(*ssa.Return); ok && bad == nil {
						res := core.RetResult(ret, 0)
						if k, isK := res.(*ssa.Const); isK && k.Value != nil && k.Value.String() == "false" {
							return true
						}
						if res == ssa.Value(hcall) || core.BoolKnownAt(hcall, ret.Block()) == core.Yes {
							return true
						}
						bad = ret
					}
					return true
				}, func(from, to *ssa.BasicBlock) bool {
					return core.BoolKnownAt(hcall, to) != core.Yes
				})
				if bad != nil {
					r.Violation("DEPENDS", construct, c.Pos(bad.Pos()), "where the delivery helper answered that no recipient was reached the notifier can still answer that the notification was sent: the caller stores last_sent_time / last_alert_state for a notification nobody received, the cool-down starts, the Firing notification is never delivered and a later back-to-Normal is announced for a Firing nobody saw")
				} else {
					r.OK("DEPENDS", construct, c.Pos(hcall.Pos()), "`sent` is answered only on the edge where the delivery helper answered true")
				}
				continue
			}
			r.Undecided("DEPENDS", construct, c.Pos(hcall.Pos()), "the delivery helper reports neither an error nor a boolean")
			continue
		}
		var bad *ssa.Return
		core.WalkForwardEdges(nf, hcall, func(in ssa.Instruction) bool {
			if ret, ok := in.(*ssa.Return); ok && bad == nil {
				if k, isK := core.RetResult(ret, 0).(*ssa.Const); !isK || k.Value == nil || k.Value.String() != "false" {
					if core.NilnessAt(errv, ret.Block()) != core.Yes {
						bad = ret
					}
				}
			}
			return true
		}, func(from, to *ssa.BasicBlock) bool {
			return core.NilnessAt(errv, to) != core.Yes // stay on the side where the delivery may have failed
		})
		if bad != nil {
			r.Violation("DEPENDS", construct, c.Pos(bad.Pos()), "after the delivery helper reported an error (no recipient was reached) the notifier can still answer that the notification was sent: the caller stores last_sent_time / last_alert_state for a notification nobody received, the cool-down starts, the Firing notification is never delivered and a later back-to-Normal is announced for a Firing nobody saw")
		} else {
			r.OK("DEPENDS", construct, c.Pos(hcall.Pos()), "`sent` is answered only on the edge where the delivery helper's error is nil")
		}
	}
	r.Floor("GUARD", "send call sites in the notifier", nSend, 3)

	// both period tests mean now − last >= period.  Decided by role: the arguments of the test are the period
	// (CooldownPeriod / SilenceMinutes), the last-sent time (LastSentTime) and possibly the clock (time.Now());
	// the roles are carried into the test function and through every function of the package whose answer it
	// returns unchanged, and where the answer is finally computed it is `now.Sub(last) >= period`, the only
	// constant answer being `true` for a zero last-sent time.
	for _, t := range []struct {
		call *ssa.Call
		what string
	}{{coolCalls[0], "cooldown"}, {silCalls[0], "silence"}} {
		pf := t.call.Call.StaticCallee()
		construct := "alertsHandler." + c.BaseName(pf.Object()) + ":means-now−lastSent>=period"
		roles := map[*ssa.Parameter]int{}
		for i, a := range t.call.Call.Args {
			if i < len(pf.Params) {
				roles[pf.Params[i]] = pt.roleOf(a, nil, 0)
			}
		}
		ok, n, why := pt.check(pf, roles, 0)
		if why == "" {
			why = "the period test does not mean `now − lastSent >= period`"
		}
		r.Check(ok && n >= 1, "ORDERTABLE", construct, c.Pos(pf.Pos()), "answers now.Sub(lastSent) >= period (true when nothing was sent yet)", why)
	}
}

// periodRoles carries the roles period / last-sent / clock through the period tests of the notifier.
type periodRoles struct {
	c            *core.Ctx
	periodFields map[types.Object]bool
	lastField    *types.Var
}

const (
	roleNone = iota
	rolePeriod
	roleLast
	roleNow
)

// roleOf: the role of value v in a function whose parameters have the roles pr.
func (p *periodRoles) roleOf(v ssa.Value, pr map[*ssa.Parameter]int, depth int) int {
	if depth > 6 || v == nil {
		return roleNone
	}
	// method calls on a time value keep its role (t.UTC(), t.Local(), t.Round(0) ...)
	if call, ok := v.(*ssa.Call); ok {
		if f := core.CalleeFunc(call); f != nil {
			if f.Pkg() != nil && f.Pkg().Path() == "time" && f.Name() == "Now" {
				return roleNow
			}
			if sig, ok := f.Type().(*types.Signature); ok && sig.Recv() != nil && len(call.Call.Args) > 0 {
				return p.roleOf(call.Call.Args[0], pr, depth+1)
			}
		}
		return roleNone
	}
	found := roleNone
	for _, o := range p.c.Origins(v, 0) {
		role := roleNone
		switch o.Kind {
		case "field":
			if p.periodFields[o.Obj] {
				role = rolePeriod
			}
			if o.Obj == types.Object(p.lastField) {
				role = roleLast
			}
		case "param":
			par, _ := o.Val.(*ssa.Parameter)
			if par == nil {
				continue
			}
			if rl, ok := pr[par]; ok {
				role = rl
			} else if pr == nil && par.Parent() != nil {
				// a parameter of the deciding function itself (an explicit clock): what its callers pass
				idx := -1
				for i, q := range par.Parent().Params {
					if q == par {
						idx = i
					}
				}
				for _, cs := range p.c.StaticCallers()[par.Parent()] {
					if idx >= 0 && idx < len(cs.Common().Args) {
						if rl := p.roleOf(cs.Common().Args[idx], nil, depth+1); rl != roleNone {
							role = rl
						}
					}
				}
			}
		case "call":
			if call, ok := o.Val.(*ssa.Call); ok && call != v {
				role = p.roleOf(call, pr, depth+1)
			}
		}
		if role != roleNone {
			if found != roleNone && found != role {
				return roleNone // mixed: not a clean carrier of one role
			}
			found = role
		}
	}
	return found
}

// check: every answer of f (whose parameters have the roles pr) is now.Sub(last) >= period, the answer of a
// function of the package with the roles handed on, or the constant true under an IsZero guard.
func (p *periodRoles) check(f *ssa.Function, pr map[*ssa.Parameter]int, depth int) (ok bool, n int, why string) {
	if f == nil || f.Blocks == nil || depth > 3 {
		return false, 0, "the period test could not be followed to the comparison"
	}
	ok = true
	for _, ret := range core.Returns(f) {
		res := core.RetResult(ret, 0)
		if k, isK := res.(*ssa.Const); isK {
			// the only constant answer allowed: true when nothing was ever sent (IsZero)
			isZeroGuard := false
			for b := ret.Block(); b != nil && b.Idom() != nil; b = b.Idom() {
				if ifi, ok := core.LastIf(b.Idom()); ok && b.Idom().Succs[0] == b && len(b.Preds) == 1 {
					if call, ok := ifi.Cond.(*ssa.Call); ok {
						if g := core.CalleeFunc(call); g != nil && g.Name() == "IsZero" {
							isZeroGuard = true
						}
					}
				}
			}
			if !(k.Value != nil && k.Value.String() == "true" && isZeroGuard) {
				return false, n, "the period test has a constant answer other than `true` for a zero last-sent time"
			}
			continue
		}
		if call, isCall := res.(*ssa.Call); isCall {
			h := call.Call.StaticCallee()
			if h == nil || h.Blocks == nil || core.FnPkgPath(h) != core.FnPkgPath(f) {
				return false, n, ""
			}
			sub := map[*ssa.Parameter]int{}
			for i, a := range call.Call.Args {
				if i < len(h.Params) {
					sub[h.Params[i]] = p.roleOf(a, pr, 0)
				}
			}
			ok2, n2, why2 := p.check(h, sub, depth+1)
			n += n2
			if !ok2 {
				return false, n, why2
			}
			continue
		}
		n++
		bo, isBo := res.(*ssa.BinOp)
		if !isBo || bo.Op != token.GEQ {
			return false, n, ""
		}
		subCall, isCall := bo.X.(*ssa.Call)
		if !isCall {
			return false, n, ""
		}
		g := core.CalleeFunc(subCall)
		if g == nil || g.Name() != "Sub" || len(subCall.Call.Args) != 2 {
			return false, n, ""
		}
		if p.roleOf(subCall.Call.Args[0], pr, 0) != roleNow {
			return false, n, "the period test does not subtract from the current time"
		}
		if p.roleOf(subCall.Call.Args[1], pr, 0) != roleLast {
			return false, n, "the period test does not subtract the last-sent time"
		}
		if p.roleOf(bo.Y, pr, 0) != rolePeriod {
			return false, n, "the period test does not compare with the configured period"
		}
	}
	return ok, n, ""
}

// ---------------------------------------------------------------------------------------------- (5)-(8),(10)

type storeSpec struct {
	name     string
	pkg      string
	mutation func(in ssa.Instruction) bool
	persist  func(ci ssa.CallInstruction) bool
	exempt   map[string]string // function -> reason
	floor    int
}

func isBuiltinDelete(in ssa.Instruction) (ssa.Value, bool) {
	if call, ok := in.(*ssa.Call); ok {
		if bi, ok := call.Call.Value.(*ssa.Builtin); ok && bi.Name() == "delete" {
			return call.Call.Args[0], true
		}
	}
	return nil, false
}

// mapOperand: the map updated / deleted from by in.
func mapOperand(in ssa.Instruction) ssa.Value {
	if mu, ok := in.(*ssa.MapUpdate); ok {
		return mu.Map
	}
	if m, ok := isBuiltinDelete(in); ok {
		return m
	}
	return nil
}

func c20Stores(c *core.Ctx, r *core.Report) {
	s := newSummaries(c)
	usqG := c.Global(pkgUsq, "localUSQInfo")
	aliasG := c.Global(pkgVtable, "aliasToIndexNames")
	writeSaved := c.Obj(pkgUsq, "writeSavedQueries")
	getUsqFile := c.Obj(pkgUsq, "getUsqFileName")
	writeFolder := c.Obj(pkgDash, "writeFolderStructure")
	readFolder := c.Obj(pkgDash, "readFolderStructure")
	readCombined := c.Obj(pkgDash, "readCombinedFolderStructure")
	aliasFS := findAliasFiles(c)
	putAlias := c.Obj(pkgVtable, "putAliasToIndexInMem")
	itemsF, orderF := c.Field(pkgDash, "FolderStructure.Items"), c.Field(pkgDash, "FolderStructure.Order")
	osRemove := c.ExtObj("os", "Remove")

	isFolderMap := func(m ssa.Value) bool {
		ld, ok := m.(*ssa.UnOp)
		if !ok {
			return false
		}
		fa, ok := ld.X.(*ssa.FieldAddr)
		return ok && (fieldOf(fa) == itemsF || fieldOf(fa) == orderF)
	}
	specs := []storeSpec{
		{
			name: "saved-queries", pkg: pkgUsq, floor: 4,
			mutation: func(in ssa.Instruction) bool { return touchesMapDeep(in, usqG) },
			persist: func(ci ssa.CallInstruction) bool {
				if core.IsCallTo(ci, writeSaved) {
					return true
				}
				if core.IsCallTo(ci, osRemove) {
					for _, o := range c.Origins(ci.Common().Args[0], 0) {
						if o.Kind == "call" && o.Obj == getUsqFile {
							return true
						}
					}
				}
				return false
			},
			exempt: map[string]string{"readSavedQueries": "the loader: replaces the tenant's entry by what it just read from the tenant's file"},
		},
		{
			name: "folders-and-dashboards", pkg: pkgDash, floor: 12,
			mutation: func(in ssa.Instruction) bool {
				m := mapOperand(in)
				if m == nil || !isFolderMap(m) {
					return false
				}
				// only structures obtained from the user's file
				for _, ci := range core.CallsIn(in.Parent()) {
					if core.IsCallTo(ci, readFolder) {
						return true
					}
				}
				return false
			},
			persist: func(ci ssa.CallInstruction) bool { return core.IsCallTo(ci, writeFolder) },
			exempt:  map[string]string{"readCombinedFolderStructure": "builds the merged read-only view (defaults + user); obligation LOADER checks that it is never written back"},
		},
		{
			name: "index-aliases", pkg: pkgVtable, floor: 2,
			mutation: func(in ssa.Instruction) bool {
				if touchesMapDeep(in, aliasG) {
					return true
				}
				ci, ok := in.(ssa.CallInstruction)
				return ok && core.IsCallTo(ci, putAlias)
			},
			persist: func(ci ssa.CallInstruction) bool {
				return aliasFS.isChange(ci)
			},
			exempt: map[string]string{
				"putAliasToIndexInMem":      "the table's own setter; its callers carry the obligation",
				"loadAliasFilesForOrg":      "the loader: fills the table from the files",
				"initializeAliasToIndexMap": "the loader: fills the table from the files",
			},
		},
	}
	for _, sp := range specs {
		n := 0
		for _, fn := range c.RepoFunctions() {
			if core.FnPkgPath(fn) != core.ModPath+"/"+sp.pkg {
				continue
			}
			if _, ex := sp.exempt[c.BaseName(fn.Object())]; ex {
				continue
			}
			mustP := func(ci ssa.CallInstruction) bool {
				if sp.persist(ci) {
					return true
				}
				return false
			}
			idx := 0
			for _, b := range fn.Blocks {
				for _, in := range b.Instrs {
					if !sp.mutation(in) {
						continue
					}
					idx++
					n++
					construct := fmt.Sprintf("%s:%s:mutation#%d-is-persisted-before-success", sp.name, shortFn(fn), idx)
					// (a) already persisted: a persist call dominates the mutation
					dominated := false
					for _, ci := range core.CallsIn(fn) {
						if mustP(ci) && core.InstrDominates(ci, in) {
							dominated = true
						}
					}
					if dominated {
						r.OK("PERSIST", construct, c.Pos(in.Pos()), "the in-memory table is updated only after the file was written")
						continue
					}
					var leak *ssa.Return
					core.WalkForward(fn, in, func(x ssa.Instruction) bool {
						if ci, ok := x.(ssa.CallInstruction); ok && mustP(ci) {
							return false
						}
						if ret, ok := x.(*ssa.Return); ok && core.ReturnSuccess(ret) != core.No {
							leak = ret
						}
						return true
					})
					if leak != nil {
						r.Violation("PERSIST", construct, c.Pos(in.Pos()), "the stored object is changed in memory and the function can report success without writing the store's file: the change is lost at the next restart (or re-read)", "success return at "+c.Pos(leak.Pos()))
					} else {
						r.OK("PERSIST", construct, c.Pos(in.Pos()), "every path to a success return passes the persist call")
					}
				}
			}
		}
		for fname, why := range sp.exempt {
			r.Assume("PERSIST", sp.name+":"+fname+":exempt", "", why)
		}
		r.Floor("PERSIST", sp.name+" mutation sites", n, sp.floor)
	}
	_ = s

	// (6) DROP: delete(localUSQInfo, k) then writeSavedQueries without re-creating the entry
	nDrop := 0
	for _, fn := range c.RepoFunctions() {
		if core.FnPkgPath(fn) != core.ModPath+"/"+pkgUsq {
			continue
		}
		for _, b := range fn.Blocks {
			for _, in := range b.Instrs {
				m, ok := isBuiltinDelete(in)
				if !ok {
					continue
				}
				ld, ok := m.(*ssa.UnOp)
				if !ok || ld.X != ssa.Value(usqG) {
					continue
				}
				nDrop++
				construct := fmt.Sprintf("saved-queries:%s:tenant-entry-dropped-is-not-persisted-from", shortFn(fn))
				var bad ssa.Instruction
				core.WalkForward(fn, in, func(x ssa.Instruction) bool {
					if mu, ok := x.(*ssa.MapUpdate); ok {
						if l2, ok := mu.Map.(*ssa.UnOp); ok && l2.X == ssa.Value(usqG) {
							return false // entry re-created
						}
					}
					if ci, ok := x.(ssa.CallInstruction); ok && core.IsCallTo(ci, writeSaved) {
						bad = x
						return false
					}
					return true
				})
				if bad != nil {
					r.Violation("DROP", construct, c.Pos(in.Pos()), "the tenant's entry is removed from the table and the tenant's file is then written from the missing entry: the file holds JSON null, the next read installs a nil map and the next save panics on it", "persist at "+c.Pos(bad.Pos()))
				} else {
					r.OK("DROP", construct, c.Pos(in.Pos()), "after dropping the entry the file is removed, not rewritten")
				}
			}
		}
	}
	r.Floor("DROP", "tenant-entry deletions in the saved-query table", nDrop, 1)

	// (10b) the merged folder view is never written back
	nW := 0
	for _, fn := range c.RepoFunctions() {
		for _, call := range callsTo(fn, writeFolder) {
			nW++
			bad := false
			for _, o := range c.Origins(call.Call.Args[0], 1) {
				if o.Kind == "call" && o.Obj == readCombined {
					bad = true
				}
			}
			construct := fmt.Sprintf("folders-and-dashboards:%s:writes-the-user-structure-not-the-merged-view", shortFn(fn))
			r.Check(!bad, "LOADER", construct, c.Pos(call.Pos()), "the structure written comes from the user's file or is new", "the merged (defaults + user) view is written to the user's file: default items become user items")
		}
	}
	r.Floor("LOADER", "writeFolderStructure call sites", nW, 3)

	// (7) REPLACE: writes of stored objects truncate
	scopeFns := map[string]map[string]bool{
		pkgUsq:     nil,
		pkgDash:    nil,
		pkgLookups: nil,
		pkgVtable:  {},
	}
	// of pkg/virtualtable only the functions writing an alias file (writeAliasFile today; found by effect)
	for h, kinds := range aliasFS.hosts {
		if kinds["write"] {
			scopeFns[pkgVtable][h.Name()] = true
		}
	}
	nRep := 0
	count := map[string]int{}
	for _, site := range fileOpenSites(c) {
		rel := strings.TrimPrefix(core.FnPkgPath(site.Fn), core.ModPath+"/")
		only, in := scopeFns[rel]
		if !in || site.ReadOnly {
			continue
		}
		top := site.Fn
		for top.Parent() != nil {
			top = top.Parent()
		}
		if only != nil && !only[top.Name()] {
			continue
		}
		nRep++
		key := shortFn(site.Fn) + ":" + site.API
		count[key]++
		construct := fmt.Sprintf("%s#%d:write-replaces-the-whole-object", key, count[key])
		r.Check(site.Trunc == core.Yes, "REPLACE", construct, c.Pos(site.Call.Pos()), "truncating write", "the object's file is opened for writing without truncation: a shorter new value keeps the tail of the old one")
	}
	r.Floor("REPLACE", "write sites of stored objects", nRep, 8)

	// (8) SAMEPATH
	c20SamePath(c, r)

	// (10a) the alias loader covers the default tenant
	getAliases := c.Obj(pkgVtable, "GetAliases")
	initFn := c.Fn(pkgVtable, "initializeAliasToIndexMap")
	reach := map[*ssa.Function]bool{initFn: true}
	work := []*ssa.Function{initFn}
	for len(work) > 0 {
		f := work[len(work)-1]
		work = work[:len(work)-1]
		for _, ci := range core.CallsIn(f) {
			if callee := ci.Common().StaticCallee(); callee != nil && core.FnPkgPath(callee) == core.ModPath+"/"+pkgVtable && !reach[callee] && callee.Object() != getAliases {
				reach[callee] = true
				work = append(work, callee)
			}
		}
	}
	zero := false
	nLoad := 0
	var consider func(v ssa.Value, fn *ssa.Function, depth int)
	consider = func(v ssa.Value, fn *ssa.Function, depth int) {
		if k, ok := core.ConstIntValue(v); ok && k == 0 {
			zero = true
			return
		}
		p, ok := v.(*ssa.Parameter)
		if !ok || depth > 3 {
			return
		}
		idx := -1
		for i, q := range fn.Params {
			if q == p {
				idx = i
			}
		}
		for _, ci := range c.StaticCallers()[fn] {
			if idx >= 0 && reach[ci.Parent()] {
				consider(ci.Common().Args[idx], ci.Parent(), depth+1)
			}
		}
	}
	for fn := range reach {
		for _, call := range callsTo(fn, getAliases) {
			nLoad++
			consider(call.Call.Args[1], fn, 0)
		}
	}
	r.Floor("LOADER", "alias file reads in the start-up loader", nLoad, 1)
	r.Check(zero, "LOADER", "index-aliases:initializeAliasToIndexMap:covers-the-default-tenant", c.Pos(initFn.Pos()), "the loader reads the alias files of tenant 0 (stored without a tenant sub-directory)", "the start-up loader never reads alias files for tenant 0: they are stored directly in the aliases directory, the loader only walks tenant sub-directories, so after a restart no alias of the default tenant resolves")
}

// pathShape: the ordered pieces of a file name built in fn for its file accesses.
func pathShape(c *core.Ctx, v ssa.Value) []string {
	var out []string
	var rec func(v ssa.Value, depth int)
	rec = func(v ssa.Value, depth int) {
		if depth > 8 {
			out = append(out, "?")
			return
		}
		switch x := v.(type) {
		case *ssa.Const:
			s, _ := core.ConstStringValue(x)
			out = append(out, strconv.Quote(s))
		case *ssa.BinOp:
			if x.Op == token.ADD {
				rec(x.X, depth+1)
				rec(x.Y, depth+1)
				return
			}
			out = append(out, "?")
		case *ssa.Parameter:
			out = append(out, "<"+x.Type().String()+">")
		case *ssa.Call:
			if f := core.CalleeFunc(x); f != nil {
				out = append(out, f.Name()+"()")
				return
			}
			out = append(out, "?")
		case *ssa.UnOp:
			if g, ok := x.X.(*ssa.Global); ok {
				out = append(out, g.Name())
				return
			}
			if _, ok := x.X.(*ssa.Parameter); ok {
				out = append(out, "<*"+x.Type().String()+">")
				return
			}
			// a parameter whose address is taken somewhere in the function lives in a cell: the load of that
			// cell is the parameter as long as the parameter is the only value ever stored there
			if al, ok := x.X.(*ssa.Alloc); ok {
				var par *ssa.Parameter
				only := true
				if refs := al.Referrers(); refs != nil {
					for _, rf := range *refs {
						if st, ok := rf.(*ssa.Store); ok && st.Addr == ssa.Value(al) {
							if p, ok := st.Val.(*ssa.Parameter); ok && par == nil {
								par = p
							} else {
								only = false
							}
						}
					}
				}
				if par != nil && only {
					out = append(out, "<"+par.Type().String()+">")
					return
				}
			}
			out = append(out, "?")
		case *ssa.Phi:
			out = append(out, "(")
			for i, e := range x.Edges {
				if i > 0 {
					out = append(out, "|")
				}
				rec(e, depth+1)
			}
			out = append(out, ")")
		default:
			out = append(out, "?")
		}
	}
	rec(v, 0)
	return out
}

// pathTemplates renders the possible shapes of a file name: string constants verbatim, calls of
// configuration getters as {Name()}, any other run-time piece as {}.  fmt.Sprintf formats are expanded and
// same-package helpers that return a name are inlined (one template per return).
func pathTemplates(c *core.Ctx, v ssa.Value, depth int) []string {
	return pathTemplatesRec(c, v, depth, map[*ssa.Phi]bool{})
}

// depth counts inlined helpers only (a long concatenation is not a deep one); phis are visited once.
func pathTemplatesRec(c *core.Ctx, v ssa.Value, depth int, onPath map[*ssa.Phi]bool) []string {
	if depth > 4 {
		return []string{"{}"}
	}
	cross := func(a, b []string) []string {
		var out []string
		for _, x := range a {
			for _, y := range b {
				out = append(out, x+y)
			}
		}
		return out
	}
	switch x := v.(type) {
	case *ssa.Const:
		s, _ := core.ConstStringValue(x)
		return []string{s}
	case *ssa.BinOp:
		if x.Op == token.ADD {
			return cross(pathTemplatesRec(c, x.X, depth, onPath), pathTemplatesRec(c, x.Y, depth, onPath))
		}
	case *ssa.Phi:
		if onPath[x] {
			return []string{"{}"}
		}
		onPath[x] = true
		var out []string
		for _, e := range x.Edges {
			out = append(out, pathTemplatesRec(c, e, depth, onPath)...)
		}
		delete(onPath, x)
		return out
	case *ssa.Call:
		f := core.CalleeFunc(x)
		if f == nil || f.Pkg() == nil {
			return []string{"{}"}
		}
		if f.Pkg().Path() == "fmt" && f.Name() == "Sprintf" && len(x.Call.Args) == 2 {
			format, ok := core.ConstStringValue(x.Call.Args[0])
			if !ok {
				return []string{"{}"}
			}
			// variadic args: stores into the backing array
			var args []ssa.Value
			if sl, ok := x.Call.Args[1].(*ssa.Slice); ok {
				if al, ok := sl.X.(*ssa.Alloc); ok {
					byIdx := map[int64]ssa.Value{}
					if refs := al.Referrers(); refs != nil {
						for _, rf := range *refs {
							if ia, ok := rf.(*ssa.IndexAddr); ok {
								k, _ := core.ConstIntValue(ia.Index)
								if irefs := ia.Referrers(); irefs != nil {
									for _, y := range *irefs {
										if st, ok := y.(*ssa.Store); ok {
											byIdx[k] = st.Val
										}
									}
								}
							}
						}
					}
					for i := int64(0); i < int64(len(byIdx)); i++ {
						args = append(args, byIdx[i])
					}
				}
			}
			out := []string{""}
			ai := 0
			for i := 0; i < len(format); i++ {
				if format[i] == '%' && i+1 < len(format) {
					i++
					if format[i] == '%' {
						out = cross(out, []string{"%"})
						continue
					}
					var piece []string
					if ai < len(args) {
						a := args[ai]
						if mi, ok := a.(*ssa.MakeInterface); ok {
							a = mi.X
						}
						piece = pathTemplatesRec(c, a, depth, onPath)
					} else {
						piece = []string{"{}"}
					}
					ai++
					out = cross(out, piece)
					continue
				}
				out = cross(out, []string{string(format[i])})
			}
			return out
		}
		if strings.HasSuffix(f.Pkg().Path(), "/pkg/config") {
			return []string{"{" + f.Name() + "()}"}
		}
		if callee := x.Call.StaticCallee(); callee != nil && callee.Pkg == x.Parent().Pkg && len(callee.Blocks) > 0 && callee.Signature.Results().Len() == 1 {
			var out []string
			for _, ret := range core.Returns(callee) {
				out = append(out, pathTemplatesRec(c, ret.Results[0], depth+1, onPath)...)
			}
			return out
		}
	}
	return []string{"{}"}
}

// builderShape: the sequence of WriteString arguments on the strings.Builder whose String() gives v,
// with the condition under which each piece is appended.
func builderShape(c *core.Ctx, fn *ssa.Function, v ssa.Value) ([]string, bool) {
	call, ok := v.(*ssa.Call)
	if !ok {
		return nil, false
	}
	f := core.CalleeFunc(call)
	if f == nil || f.Name() != "String" || len(call.Call.Args) != 1 {
		return nil, false
	}
	sb := call.Call.Args[0]
	var out []string
	for _, b := range fn.DomPreorder() {
		for _, in := range b.Instrs {
			ws, ok := in.(*ssa.Call)
			if !ok {
				continue
			}
			wf := core.CalleeFunc(ws)
			if wf == nil || wf.Name() != "WriteString" || len(ws.Call.Args) != 2 || ws.Call.Args[0] != sb {
				continue
			}
			piece := strings.Join(pathShape(c, ws.Call.Args[1]), "")
			// conditional on a comparison of a parameter with a constant?
			cond := ""
			for d := b; d != nil && d.Idom() != nil; d = d.Idom() {
				if ifi, ok := core.LastIf(d.Idom()); ok && len(d.Preds) == 1 {
					if bo, ok := ifi.Cond.(*ssa.BinOp); ok {
						if p, ok := bo.X.(*ssa.Parameter); ok {
							if k, ok := core.ConstIntValue(bo.Y); ok {
								op := bo.Op.String()
								if d.Idom().Succs[1] == d {
									op = "!(" + op + ")"
								}
								cond = fmt.Sprintf("[%s %s %d]", p.Type().String(), op, k)
							}
						}
					}
				}
			}
			out = append(out, cond+piece)
		}
	}
	return out, true
}

func c20SamePath(c *core.Ctx, r *core.Report) {
	// saved queries: every file access in the package names the file through getUsqFileName
	getUsqFile := c.Obj(pkgUsq, "getUsqFileName")
	nUsq := 0
	fileAPIs := map[string]bool{"os.Stat": true, "os.ReadFile": true, "os.WriteFile": true, "os.Remove": true, "os.OpenFile": true, "os.Create": true, "os.Open": true}
	forFileCalls := func(pkg string, visit func(fn *ssa.Function, ci ssa.CallInstruction, api string)) {
		for _, fn := range c.RepoFunctions() {
			if core.FnPkgPath(fn) != core.ModPath+"/"+pkg {
				continue
			}
			for _, ci := range core.CallsIn(fn) {
				f := core.CalleeFunc(ci)
				if f == nil || f.Pkg() == nil {
					continue
				}
				api := f.Pkg().Name() + "." + f.Name()
				if f.Pkg().Path() == "os" && fileAPIs[api] {
					visit(fn, ci, api)
				}
			}
		}
	}
	cnt := map[string]int{}
	forFileCalls(pkgUsq, func(fn *ssa.Function, ci ssa.CallInstruction, api string) {
		if c.BaseName(fn.Object()) == "ReadExternalUSQInfo" {
			return // reads a file named by its caller (another node's saved queries), not this node's store
		}
		nUsq++
		ok := false
		for _, o := range c.Origins(ci.Common().Args[0], 0) {
			if o.Kind == "call" && o.Obj == getUsqFile {
				ok = true
			}
		}
		key := shortFn(fn) + ":" + api
		cnt[key]++
		r.Check(ok, "SAMEPATH", fmt.Sprintf("saved-queries:%s#%d:file-named-by-getUsqFileName", key, cnt[key]), c.Pos(ci.Pos()), "the tenant's file name comes from getUsqFileName", "this access names the saved-query file differently from the rest of the store: what is written is not what is read after a restart")
	})
	r.Floor("SAMEPATH", "saved-query file accesses", nUsq, 2)

	// folder structure: through getFolderStructureFilePath; dashboard details: same constant pieces
	getFolderFile := c.Obj(pkgDash, "getFolderStructureFilePath")
	getDefault := c.Obj(pkgDash, "getDefaultFolderStructureFilePath")
	detailShapes := map[string][]string{}
	nDash := 0
	forFileCalls(pkgDash, func(fn *ssa.Function, ci ssa.CallInstruction, api string) {
		arg := ci.Common().Args[0]
		for _, o := range c.Origins(arg, 0) {
			if o.Kind == "call" && (o.Obj == getFolderFile || o.Obj == getDefault) {
				return
			}
		}
		tpls := pathTemplates(c, arg, 0)
		var det []string
		for _, t := range tpls {
			if strings.Contains(t, "details/") {
				det = append(det, t)
			}
		}
		if len(det) == 0 {
			return // not a dashboard details file
		}
		key := shortFn(fn) + ":" + api
		cnt[key]++
		nDash++
		sort.Strings(det)
		detailShapes[fmt.Sprintf("%s#%d@%s", key, cnt[key], c.Pos(ci.Pos()))] = det
	})
	// majority template is the reference for the user's details files
	tally := map[string]int{}
	for _, sh := range detailShapes {
		for _, t := range sh {
			if !strings.HasPrefix(t, "defaultDBs/") {
				tally[t]++
			}
		}
	}
	best, bestN := "", 0
	for k, n := range tally {
		if n > bestN || (n == bestN && k < best) {
			best, bestN = k, n
		}
	}
	var keys []string
	for k := range detailShapes {
		keys = append(keys, k)
	}
	sort.Strings(keys)
	for _, k := range keys {
		at := k[strings.Index(k, "@")+1:]
		construct := "folders-and-dashboards:" + k[:strings.Index(k, "@")] + ":dashboard-details-file-name-agrees"
		bad := ""
		for _, t := range detailShapes[k] {
			if strings.HasPrefix(t, "defaultDBs/") {
				continue // built-in dashboards are read from the defaults directory
			}
			if t != best {
				bad = t
			}
		}
		r.Check(bad == "", "SAMEPATH", construct, at, "same file name template as the other accesses of dashboard detail files: "+best, fmt.Sprintf("this access names the dashboard details file %q while the other accesses use %q: the object written is not the one read or removed", bad, best))
	}
	r.Floor("SAMEPATH", "dashboard detail file accesses", nDash, 5)

	// alias files: the three builders agree piece by piece
	var ref []string
	refName := ""
	// the functions touching an alias file are found by effect (read, write and remove primitives below the
	// alias directory); all three kinds must be present
	aliasFS := findAliasFiles(c)
	var aliasHosts []*ssa.Function
	kindsSeen := map[string]bool{}
	for h, kinds := range aliasFS.hosts {
		aliasHosts = append(aliasHosts, h)
		for k := range kinds {
			kindsSeen[k] = true
		}
	}
	sort.Slice(aliasHosts, func(i, j int) bool { return aliasHosts[i].Name() < aliasHosts[j].Name() })
	r.Floor("SAMEPATH", "kinds of alias file access found (read, write, remove)", len(kindsSeen), 3)
	for _, fn := range aliasHosts {
		name := fn.Name()
		var shape []string
		found := false
		// the file access is in the function itself or in a helper of the package it calls; the name is built
		// with a strings.Builder there, or by a name-building helper of the package (whose builder is then read)
		scan := []*ssa.Function{fn}
		for _, ci := range core.CallsIn(fn) {
			if h := ci.Common().StaticCallee(); h != nil && h.Blocks != nil && core.FnPkgPath(h) == core.FnPkgPath(fn) {
				scan = append(scan, h)
			}
		}
		for _, g := range scan {
			for _, ci := range core.CallsIn(g) {
				f := core.CalleeFunc(ci)
				if f == nil || f.Pkg() == nil || f.Pkg().Path() != "os" || found {
					continue
				}
				arg := ci.Common().Args[0]
				if sh, ok := builderShape(c, g, arg); ok {
					shape, found = sh, true
					continue
				}
				// the name comes from a helper of the package: its only result, or one result of several
				// (name, error)
				resIdx := 0
				hv := arg
				if ex, ok := arg.(*ssa.Extract); ok {
					hv, resIdx = ex.Tuple, ex.Index
				}
				if hc, ok := hv.(*ssa.Call); ok {
					if h := hc.Call.StaticCallee(); h != nil && h.Blocks != nil && core.FnPkgPath(h) == core.FnPkgPath(fn) {
						for _, ret := range core.Returns(h) {
							if resIdx < len(ret.Results) {
								if sh, ok := builderShape(c, h, core.RetResult(ret, resIdx)); ok {
									shape, found = sh, true
								}
							}
						}
					}
				}
			}
		}
		construct := "index-aliases:" + name + ":alias-file-name-agrees"
		if !found {
			r.Undecided("SAMEPATH", construct, c.Pos(fn.Pos()), "file name is not built with a strings.Builder in this function")
			continue
		}
		// normalise the name operand (string parameter vs pointer to string)
		for i := range shape {
			shape[i] = strings.ReplaceAll(shape[i], "<*string>", "<string>")
		}
		if ref == nil {
			ref, refName = shape, name
			r.OK("SAMEPATH", construct, c.Pos(fn.Pos()), "reference shape: "+strings.Join(shape, " + "))
			continue
		}
		r.Check(strings.Join(shape, "\x00") == strings.Join(ref, "\x00"), "SAMEPATH", construct, c.Pos(fn.Pos()), "same pieces as "+refName, fmt.Sprintf("builds %s while %s builds %s: the alias file written is not the one read or removed", strings.Join(shape, " + "), refName, strings.Join(ref, " + ")))
	}
}

// ---------------------------------------------------------------------------------------------- (9)

// c20AliasRoles: a qualifier inference over the alias code.  Every string (or set of strings) that is a
// parameter of the alias API, a key level of aliasToIndexNames, or a key of a set returned by GetAliases
// carries the role ALIAS or INDEX; at every call of the alias API the role of each argument must be the
// role of the parameter.
// c20AliasPairScope: an alias can point to several indexes (aliasToIndexNames[org][alias] is a set of index names).
// A function whose contract is about ONE index (it takes the index name: AddAliases, RemoveAliases) may therefore
// remove only the (alias, index) pair: every deletion it makes below aliasToIndexNames is at the innermost level
// (from the set of index names), or removes an alias entry only where that set is known to be empty.
func c20AliasPairScope(c *core.Ctx, r *core.Report) {
	aliasG := c.Global(pkgVtable, "aliasToIndexNames")
	n := 0
	for _, name := range []string{"AddAliases", "RemoveAliases"} {
		fn := c.Fn(pkgVtable, name)
		k := 0
		for _, ci := range core.CallsIn(fn) {
			bi, ok := ci.Common().Value.(*ssa.Builtin)
			if !ok || bi.Name() != "delete" {
				continue
			}
			m := ci.Common().Args[0]
			// below aliasToIndexNames?
			below := false
			for x, i := m, 0; x != nil && i < 6; i++ {
				switch y := x.(type) {
				case *ssa.Lookup:
					x = y.X
					continue
				case *ssa.Extract:
					x = y.Tuple
					continue
				case *ssa.UnOp:
					if y.X == ssa.Value(aliasG) {
						below = true
					}
				}
				break
			}
			if !below {
				continue
			}
			n++
			k++
			mt, _ := m.Type().Underlying().(*types.Map)
			innermost := false
			if mt != nil {
				if eb, ok := mt.Elem().Underlying().(*types.Basic); ok && eb.Kind() == types.Bool {
					innermost = true
				}
			}
			emptyKnown := false
			if !innermost {
				for _, b := range fn.Blocks {
					for _, in := range b.Instrs {
						cmp, ok := in.(*ssa.BinOp)
						if !ok || cmp.Op != token.EQL {
							continue
						}
						if lc, ok := cmp.X.(*ssa.Call); ok {
							if lb, ok := lc.Call.Value.(*ssa.Builtin); ok && lb.Name() == "len" {
								if kv, ok := core.ConstIntValue(cmp.Y); ok && kv == 0 && core.BoolKnownAt(cmp, ci.Block()) == core.Yes {
									emptyKnown = true
								}
							}
						}
					}
				}
			}
			r.Check(innermost || emptyKnown, "ROLE", fmt.Sprintf("%s:alias-map-deletion#%d-removes-one-pair", shortFn(fn), k), c.Pos(ci.Pos()),
				"the deletion is made in the alias's set of index names (or removes an alias whose set is known to be empty)",
				"a function that is told about one index removes a whole alias entry from the alias table: every other index that shares the alias loses it too (searches through the alias miss their data, and the next clean shutdown rewrites their alias files without it)")
		}
	}
	r.Floor("ROLE", "deletions below aliasToIndexNames in the per-index alias functions", n, 1)
}

func c20AliasRoles(c *core.Ctx, r *core.Report) {
	const (
		rNone = iota
		rAlias
		rIndex
		rAliasSet // map[string]bool whose keys are aliases
		rIndexSet
	)
	roleName := map[int]string{rAlias: "alias name", rIndex: "index name", rAliasSet: "set of alias names", rIndexSet: "set of index names"}
	aliasG := c.Global(pkgVtable, "aliasToIndexNames")
	type sig struct {
		params  []int
		results []int
	}
	api := map[types.Object]sig{
		c.Obj(pkgVtable, "AddAliases"):            {params: []int{rIndex, rNone, rNone}},
		c.Obj(pkgVtable, "RemoveAliases"):         {params: []int{rIndex, rNone, rNone}},
		c.Obj(pkgVtable, "GetAliases"):            {params: []int{rIndex, rNone}, results: []int{rAliasSet, rNone}},
		c.Obj(pkgVtable, "GetAliasesAsArray"):     {params: []int{rIndex, rNone}},
		c.Obj(pkgVtable, "putAliasToIndexInMem"):  {params: []int{rAlias, rIndex, rNone}},
		c.Obj(pkgVtable, "GetIndexNameFromAlias"): {params: []int{rAlias, rNone}, results: []int{rIndex, rNone}},
		c.Obj(pkgVtable, "IsAlias"):               {params: []int{rAlias, rNone}, results: []int{rNone, rIndex}},
	}
	// the private file helpers exist only as long as nobody inlines them
	if o := c.TryObj(pkgVtable, "writeAliasFile"); o != nil {
		api[o] = sig{params: []int{rIndex, rAliasSet, rNone}}
	}
	if o := c.TryObj(pkgVtable, "removeAliasFile"); o != nil {
		api[o] = sig{params: []int{rIndex, rNone}}
	}
	// role of a value, by backward inspection
	var roleOf func(v ssa.Value, depth int) int
	keyLevel := func(m ssa.Value) int {
		// depth of map m below aliasToIndexNames: 1 = map[alias]..., 2 = map[index]bool
		lvl := 0
		for i := 0; m != nil && i < 6; i++ {
			switch y := m.(type) {
			case *ssa.UnOp:
				if y.X == ssa.Value(aliasG) {
					return lvl
				}
				m = y.X
			case *ssa.Lookup:
				lvl++
				m = y.X
			case *ssa.Extract:
				m = y.Tuple
			default:
				return -1
			}
		}
		return -1
	}
	setRoleOf := func(m ssa.Value, depth int) int { return roleOf(m, depth) }
	roleOf = func(v ssa.Value, depth int) int {
		if depth > 6 || v == nil {
			return rNone
		}
		switch x := v.(type) {
		case *ssa.Parameter:
			fn := x.Parent()
			if s, ok := api[fn.Object()]; ok {
				for i, p := range fn.Params {
					if p == x && i < len(s.params) {
						return s.params[i]
					}
				}
			}
		case *ssa.UnOp:
			if x.Op == token.MUL {
				// *p where p is a *string parameter, or a load of a local holding a range key
				if p, ok := x.X.(*ssa.Parameter); ok {
					return roleOf(p, depth+1)
				}
				if al, ok := x.X.(*ssa.Alloc); ok {
					if refs := al.Referrers(); refs != nil {
						for _, rf := range *refs {
							if st, ok := rf.(*ssa.Store); ok && st.Addr == ssa.Value(al) {
								if rr := roleOf(st.Val, depth+1); rr != rNone {
									return rr
								}
							}
						}
					}
				}
			}
		case *ssa.Alloc:
			// &local passed as *string
			if refs := x.Referrers(); refs != nil {
				for _, rf := range *refs {
					if st, ok := rf.(*ssa.Store); ok && st.Addr == ssa.Value(x) {
						if rr := roleOf(st.Val, depth+1); rr != rNone {
							return rr
						}
					}
				}
			}
		case *ssa.Extract:
			switch t := x.Tuple.(type) {
			case *ssa.Next:
				// range over a map: index 1 = key, 2 = value
				rg, ok := t.Iter.(*ssa.Range)
				if !ok {
					return rNone
				}
				if mm, ok := rg.X.(*ssa.MakeMap); ok {
					// a local map: roles come from the keys it is filled with
					if x.Index == 1 {
						return localKeyRole(mm, func(v ssa.Value) int { return roleOf(v, depth+1) })
					}
					if x.Index == 2 {
						switch localInnerKeyRole(mm, func(v ssa.Value) int { return roleOf(v, depth+1) }) {
						case rAlias:
							return rAliasSet
						case rIndex:
							return rIndexSet
						}
					}
					return rNone
				}
				lvl := keyLevel(rg.X)
				if lvl >= 0 {
					if x.Index == 1 {
						switch lvl {
						case 1:
							return rAlias
						case 2:
							return rIndex
						}
					}
					if x.Index == 2 && lvl == 1 {
						return rIndexSet
					}
					return rNone
				}
				if x.Index == 1 {
					switch setRoleOf(rg.X, depth+1) {
					case rAliasSet:
						return rAlias
					case rIndexSet:
						return rIndex
					}
				}
			case *ssa.Call:
				if f := core.CalleeFunc(t); f != nil {
					if s, ok := api[f]; ok && x.Index < len(s.results) {
						return s.results[x.Index]
					}
				}
			case *ssa.Lookup:
				// v, ok := m[k]
				if x.Index == 0 {
					return roleOf(t, depth+1)
				}
			}
		case *ssa.Lookup:
			lvl := keyLevel(x.X)
			if lvl == 1 {
				return rIndexSet // aliasToIndexNames[org][alias]
			}
		case *ssa.Phi:
			for _, e := range x.Edges {
				if rr := roleOf(e, depth+1); rr != rNone {
					return rr
				}
			}
		case *ssa.Call:
			if f := core.CalleeFunc(x); f != nil {
				if s, ok := api[f]; ok && len(s.results) == 1 {
					return s.results[0]
				}
			}
		}
		return rNone
	}
	// keys used on the table itself
	nSites, nDecided := 0, 0
	for _, fn := range c.RepoFunctions() {
		p := strings.TrimPrefix(core.FnPkgPath(fn), core.ModPath+"/")
		if p != pkgVtable && p != "pkg/es/writer" {
			continue
		}
		cnt := map[string]int{}
		for _, b := range fn.Blocks {
			for _, in := range b.Instrs {
				// table key uses: Lookup / MapUpdate / delete on a level of aliasToIndexNames
				var m, key ssa.Value
				switch x := in.(type) {
				case *ssa.Lookup:
					m, key = x.X, x.Index
				case *ssa.MapUpdate:
					m, key = x.Map, x.Key
				case *ssa.Call:
					if mm, ok := isBuiltinDelete(x); ok {
						m, key = mm, x.Call.Args[1]
					}
				}
				if m != nil {
					lvl := keyLevel(m)
					want := rNone
					switch lvl {
					case 1:
						want = rAlias
					case 2:
						want = rIndex
					}
					if want != rNone {
						nSites++
						got := roleOf(key, 0)
						cnt["table"]++
						construct := fmt.Sprintf("index-aliases:%s:aliasToIndexNames-key#%d-is-%s", shortFn(fn), cnt["table"], strings.ReplaceAll(roleName[want], " ", "-"))
						if got == rNone {
							r.Assume("ROLE", construct, c.Pos(in.Pos()), "role of the key not inferable here (request data or a local)")
						} else {
							nDecided++
							r.Check(got == want, "ROLE", construct, c.Pos(in.Pos()), "key has the role of its level", fmt.Sprintf("the alias table is keyed at this level by the %s but the key used here is a %s", roleName[want], roleName[got]))
						}
					}
				}
				ci, ok := in.(ssa.CallInstruction)
				if !ok {
					continue
				}
				f := core.CalleeFunc(ci)
				if f == nil {
					continue
				}
				s, ok := api[f]
				if !ok {
					continue
				}
				for i, want := range s.params {
					if want == rNone || i >= len(ci.Common().Args) {
						continue
					}
					nSites++
					got := roleOf(ci.Common().Args[i], 0)
					key := f.Name() + fmt.Sprintf("-arg%d", i)
					cnt[key]++
					construct := fmt.Sprintf("index-aliases:%s:%s#%d-is-%s", shortFn(fn), key, cnt[key], strings.ReplaceAll(roleName[want], " ", "-"))
					if got == rNone {
						r.Assume("ROLE", construct, c.Pos(ci.Pos()), "role of the argument not inferable here (request data or a local)")
						continue
					}
					nDecided++
					r.Check(got == want, "ROLE", construct, c.Pos(ci.Pos()), "argument has the parameter's role", fmt.Sprintf("%s expects the %s here but is given the %s: the alias files / table are written with the two kinds of names exchanged, and the next start reads index names as aliases", f.Name(), roleName[want], roleName[got]))
				}
			}
		}
	}
	r.Floor("ROLE", "alias API arguments and table keys examined", nSites, 15)
	r.Floor("ROLE", "alias API arguments and table keys with an inferred role", nDecided, 8)
}

// localKeyRole: the role of the keys a locally made map is filled with.
func localKeyRole(mm *ssa.MakeMap, roleOf func(ssa.Value) int) int {
	refs := mm.Referrers()
	if refs == nil {
		return 0
	}
	for _, rf := range *refs {
		if mu, ok := rf.(*ssa.MapUpdate); ok && mu.Map == ssa.Value(mm) {
			if r := roleOf(mu.Key); r != 0 {
				return r
			}
		}
	}
	return 0
}

// localInnerKeyRole: for a local map of maps, the role of the keys its inner maps are filled with
// (updates of the form m[k1][k2] = v).
func localInnerKeyRole(mm *ssa.MakeMap, roleOf func(ssa.Value) int) int {
	refs := mm.Referrers()
	if refs == nil {
		return 0
	}
	for _, rf := range *refs {
		lk, ok := rf.(*ssa.Lookup)
		if !ok || lk.X != ssa.Value(mm) {
			continue
		}
		inner := []ssa.Value{lk}
		if lrefs := lk.Referrers(); lrefs != nil {
			for _, x := range *lrefs {
				if ex, ok := x.(*ssa.Extract); ok && ex.Index == 0 {
					inner = append(inner, ex)
				}
			}
		}
		for _, iv := range inner {
			if irefs := iv.Referrers(); irefs != nil {
				for _, x := range *irefs {
					if mu, ok := x.(*ssa.MapUpdate); ok && mu.Map == iv {
						if r := roleOf(mu.Key); r != 0 {
							return r
						}
					}
				}
			}
		}
	}
	return 0
}

// c20RecursiveResults — clause (11).  The folder tree of the dashboards store is walked by recursive functions
// (what is inside a folder: for its deletion, for its item counts).  When such a walker hands its findings back
// as RESULTS, every recursive call's results must be used: a bare `walk(child)` collects the sub-folder's items
// and throws them away, so deleting a folder leaves its sub-folders (and their dashboard files) behind as
// orphans that are still listed and still load after a restart.  For every self-recursive function of the
// dashboards package that returns values other than an error, each result of each recursive call has a use.
func c20RecursiveResults(c *core.Ctx, r *core.Report) {
	isErr := func(t types.Type) bool { return types.Identical(t, types.Universe.Lookup("error").Type()) }
	for _, fn := range c.RepoFunctions() {
		if core.FnPkgPath(fn) != core.ModPath+"/"+pkgDash || fn.Blocks == nil {
			continue
		}
		res := fn.Signature.Results()
		nVal := 0
		for i := 0; i < res.Len(); i++ {
			if !isErr(res.At(i).Type()) {
				nVal++
			}
		}
		if nVal == 0 {
			continue
		}
		k := 0
		for _, ci := range core.CallsIn(fn) {
			call, ok := ci.(*ssa.Call)
			if !ok || call.Call.StaticCallee() != fn {
				continue
			}
			k++
			used := map[int]bool{}
			if refs := call.Referrers(); refs != nil {
				for _, u := range *refs {
					switch x := u.(type) {
					case *ssa.DebugRef:
					case *ssa.Extract:
						if xr := x.Referrers(); xr != nil {
							for _, xu := range *xr {
								if _, dbg := xu.(*ssa.DebugRef); !dbg {
									used[x.Index] = true
								}
							}
						}
					default:
						used[0] = true
					}
				}
			}
			dropped := -1
			for i := 0; i < res.Len(); i++ {
				if !isErr(res.At(i).Type()) && !used[i] {
					dropped = i
				}
			}
			r.Check(dropped < 0, "DEPENDS", fmt.Sprintf("%s:recursive-call#%d-results-are-used", shortFn(fn), k), c.Pos(call.Pos()),
				"what the walk of the sub-tree found is used by the caller",
				"a recursive walk of the folder tree returns what it found in the sub-tree, and this call drops it: the items of sub-folders are never collected, so deleting a folder leaves its sub-folders and their dashboards behind (still listed, still on disk)")
		}
	}
}

// isNilParamRejection: the return reports a failure and lies on the edge where a pointer parameter of the
// function was found nil — the function refuses to work on nothing, before it has done anything with it.
func isNilParamRejection(ret *ssa.Return) bool {
	if core.ReturnSuccess(ret) != core.No {
		return false
	}
	for b := ret.Block(); b != nil && b.Idom() != nil; b = b.Idom() {
		idom := b.Idom()
		ifi, ok := core.LastIf(idom)
		if !ok || len(b.Preds) != 1 {
			continue
		}
		bo, ok := ifi.Cond.(*ssa.BinOp)
		if !ok || (bo.Op != token.EQL && bo.Op != token.NEQ) || !core.IsNilConst(bo.Y) {
			continue
		}
		if _, isPar := bo.X.(*ssa.Parameter); !isPar {
			continue
		}
		nilEdge := idom.Succs[0]
		if bo.Op == token.NEQ {
			nilEdge = idom.Succs[1]
		}
		if nilEdge == b {
			return true
		}
	}
	return false
}
