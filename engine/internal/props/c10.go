package props

import (
	"fmt"
	"go/token"
	"go/types"
	"sort"

	"golang.org/x/tools/go/ssa"

	"verif/engine/internal/core"
)

func init() { register("C10", checkC10) }

const (
	pkgWal     = "pkg/segment/writer/metrics/wal"
	pkgMetrics = "pkg/segment/writer/metrics"
	pkgMMeta   = "pkg/segment/writer/metrics/meta"
)

// isBenignCall: logging and error construction — allowed on the rejecting
// edge of a guard.
func isBenignCall(ci ssa.CallInstruction) bool {
	f := core.CalleeFunc(ci)
	if f == nil || f.Pkg() == nil {
		return false
	}
	switch f.Pkg().Path() {
	case "github.com/sirupsen/logrus":
		return true
	case "errors":
		return f.Name() == "New"
	case "fmt":
		return f.Name() == "Errorf" || f.Name() == "Sprintf"
	case "os":
		return f.Name() == "Name" // (*os.File).Name in log arguments
	}
	return passesNoData(ci)
}

// passesNoData: a statically resolved call none of whose operands can carry bytes that were read (or the object
// holding them): every argument, the receiver included, is a constant, a scalar of a basic type other than a
// string, or the address of a package-level variable (or of a field of one).  Counters
// (`numReadErrors.Add(1)`), configuration getters (`config.IsDebugMode()`) and clocks are of this kind; a decoder
// is not, it takes the buffer or the reader.
func passesNoData(ci ssa.CallInstruction) bool {
	cc := ci.Common()
	if cc.IsInvoke() || cc.StaticCallee() == nil {
		return false
	}
	if cc.StaticCallee().Parent() != nil || len(cc.StaticCallee().FreeVars) > 0 {
		return false
	}
	var rooted func(v ssa.Value, depth int) bool
	rooted = func(v ssa.Value, depth int) bool {
		if depth > 3 {
			return false
		}
		switch x := v.(type) {
		case *ssa.Global:
			return true
		case *ssa.FieldAddr:
			return rooted(x.X, depth+1)
		}
		return false
	}
	for _, a := range cc.Args {
		if _, isK := a.(*ssa.Const); isK {
			continue
		}
		if bt, ok := a.Type().Underlying().(*types.Basic); ok && bt.Info()&types.IsString == 0 && bt.Kind() != types.UnsafePointer {
			continue
		}
		if rooted(a, 0) {
			continue
		}
		return false
	}
	return true
}

// fieldOfLoad: v is a load of recv.field (possibly sliced); returns the field.
func fieldOfLoad(v ssa.Value) (*types.Var, ssa.Value) {
	for {
		switch x := v.(type) {
		case *ssa.Slice:
			v = x.X
			continue
		case *ssa.UnOp:
			if fa, ok := x.X.(*ssa.FieldAddr); ok {
				st := fa.X.Type().Underlying().(*types.Pointer).Elem().Underlying().(*types.Struct)
				return st.Field(fa.Field), fa.X
			}
		}
		return nil, nil
	}
}

func checkC10(c *core.Ctx, r *core.Report) {
	r.Explanation = "C10 (metrics WAL replays a faithful prefix), structural clauses only: " +
		"(1) GUARD verify-before-decode in every WAL reader (functions of package wal that io.ReadFull a block): the CRC32 of the very buffer that was read is compared with the checksum read from the file, every payload-interpreting call and every success return after the read is dominated by the equal edge, the rejecting edges do nothing but log and return an error, and the size field is range-checked before the subtraction; decoded-record buffers are written only by code running under that edge; " +
		"(2) writer/reader framing agreement (CRC over the bytes written, size = len+K on both sides, field order size|crc|payload); " +
		"(3) ORDER persist-before-discard: every call that may delete a WAL file is preceded on all paths by the call that makes its content durable, and only where that call's error is nil; every discard site is owned by such an obligation; " +
		"(4) ATOMIC for the WAL that is rewritten instead of appended; " +
		"(8) LIVE — every field of the per-block datapoint-WAL state that is advanced while a block is filled (buffer position, file index, file list) is reset where the block's WAL is discarded and re-initialised; " +
		"(5) a datapoint WAL file is created (truncating open) only after the name component that distinguishes it from the live file was advanced, or after the block's previous files were deliberately discarded."
	r.NotCovered = "that replayed datapoints equal the appended ones (zstd and binary encodings), buffering before append, torn writes inside one write call"
	sm := newSummaries(c)

	walPkg := c.SSAPkg(pkgWal)
	if walPkg == nil {
		panic(core.AnchorError{What: pkgWal})
	}
	readFull := c.ExtObj("io", "ReadFull")
	crcFn := c.ExtObj("hash/crc32", "ChecksumIEEE")
	binRead := c.ExtObj("encoding/binary", "Read")

	// ------------------------------------------------------------- (1) readers
	var readers []*ssa.Function
	for _, fn := range c.RepoFunctions() {
		if core.FnPkgPath(fn) != core.ModPath+"/"+pkgWal {
			continue
		}
		if len(callsTo(fn, readFull)) > 0 {
			readers = append(readers, fn)
		}
	}
	r.Floor("GUARD", "WAL block readers (io.ReadFull in package wal)", len(readers), 3)
	readerK := map[string]int64{}
	for _, fn := range readers {
		name := shortFn(fn)
		rf := callsTo(fn, readFull)
		if len(rf) != 1 {
			r.Undecided("GUARD", name+":crc-verify", c.Pos(fn.Pos()), fmt.Sprintf("%d io.ReadFull calls; the reader shape is not the confirmed one", len(rf)))
			continue
		}
		read := rf[0]
		bufField, bufRecv := fieldOfLoad(read.Call.Args[1])
		// find the CRC comparison
		var guardIf *ssa.If
		var eqSucc *ssa.BasicBlock
		var crcCall *ssa.Call
		var other ssa.Value
		for _, b := range fn.Blocks {
			ifi, ok := core.LastIf(b)
			if !ok {
				continue
			}
			bo, ok := ifi.Cond.(*ssa.BinOp)
			if !ok || (bo.Op != token.EQL && bo.Op != token.NEQ) {
				continue
			}
			var cc *ssa.Call
			var oth ssa.Value
			if x, ok := bo.X.(*ssa.Call); ok && core.IsCallTo(x, crcFn) {
				cc, oth = x, bo.Y
			} else if y, ok := bo.Y.(*ssa.Call); ok && core.IsCallTo(y, crcFn) {
				cc, oth = y, bo.X
			}
			if cc == nil {
				continue
			}
			guardIf, crcCall, other = ifi, cc, oth
			if bo.Op == token.EQL {
				eqSucc = b.Succs[0]
			} else {
				eqSucc = b.Succs[1]
			}
		}
		if guardIf == nil {
			r.Violation("GUARD", name+":crc-verify", c.Pos(read.Pos()), "the block read from the WAL file is not compared against its CRC32 before use: a damaged block would be decoded into datapoints that were never written")
			continue
		}
		ok := true
		// (a) CRC computed over the buffer that was read
		cf, crcRecv := fieldOfLoad(crcCall.Call.Args[0])
		if bufField == nil || cf != bufField || crcRecv != bufRecv {
			r.Violation("GUARD", name+":crc-over-read-buffer", c.Pos(crcCall.Pos()), "crc32.ChecksumIEEE is not computed over the buffer that io.ReadFull filled")
			ok = false
		} else if !core.InstrDominates(read, crcCall) {
			r.Violation("GUARD", name+":crc-over-read-buffer", c.Pos(crcCall.Pos()), "the checksum is computed before the block was read")
			ok = false
		} else {
			r.OK("GUARD", name+":crc-over-read-buffer", c.Pos(crcCall.Pos()), "CRC computed over "+bufField.Name()+" after ReadFull")
		}
		// (b) compared with the checksum read from the file
		fromFile := false
		if ld, isLoad := other.(*ssa.UnOp); isLoad {
			if al, isAlloc := ld.X.(*ssa.Alloc); isAlloc {
				for _, br := range callsTo(fn, binRead) {
					if len(br.Call.Args) == 3 && core.Unwrap(br.Call.Args[2]) == ssa.Value(al) && core.InstrDominates(br, guardIf) {
						fromFile = true
					}
				}
			}
		}
		r.Check(fromFile, "GUARD", name+":crc-compared-with-stored", c.Pos(guardIf.Pos()), "compared with the value binary.Read from the file", "the computed CRC is not compared with a checksum read from the file")
		// (c) after the read, only the checksum computation and benign calls happen outside the equal edge;
		// (d) returns outside the equal edge report an error
		if len(eqSucc.Preds) != 1 {
			r.Undecided("GUARD", name+":decode-under-crc", c.Pos(guardIf.Pos()), "the accepting successor has several predecessors; dominance by the equal edge cannot be decided")
			continue
		}
		var badCall ssa.Instruction
		var badRet *ssa.Return
		nGuarded := 0
		core.WalkForward(fn, read, func(in ssa.Instruction) bool {
			under := eqSucc.Dominates(in.Block())
			switch x := in.(type) {
			case ssa.CallInstruction:
				if x == ssa.CallInstruction(crcCall) || isBenignCall(x) {
					return true
				}
				if under {
					nGuarded++
				} else if badCall == nil {
					badCall = in
				}
			case *ssa.Return:
				if !under && core.ReturnSuccess(x) != core.No && badRet == nil {
					badRet = x
				}
			}
			return true
		})
		if badCall != nil {
			r.Violation("GUARD", name+":decode-under-crc", c.Pos(badCall.Pos()), "a call that can interpret the payload executes after the block read without being dominated by the CRC-equal edge")
			ok = false
		} else {
			r.OK("GUARD", name+":decode-under-crc", c.Pos(guardIf.Pos()), fmt.Sprintf("%d payload-interpreting calls, all dominated by the CRC-equal edge", nGuarded))
		}
		if badRet != nil {
			r.Violation("GUARD", name+":reject-returns-error", c.Pos(badRet.Pos()), "after the block read, a return that may report success is reachable outside the CRC-equal edge (short read / mismatch must return an error)")
			ok = false
		} else {
			r.OK("GUARD", name+":reject-returns-error", c.Pos(guardIf.Pos()), "every return outside the CRC-equal edge after the read carries a non-nil error")
		}
		// (e) size field checked before "size - K"
		foundSub := false
		for _, b := range fn.Blocks {
			for _, in := range b.Instrs {
				bo, isBin := in.(*ssa.BinOp)
				if !isBin || bo.Op != token.SUB {
					continue
				}
				k, isK := core.ConstIntValue(bo.Y)
				ld, isLoad := bo.X.(*ssa.UnOp)
				if !isK || !isLoad {
					continue
				}
				al, isAlloc := ld.X.(*ssa.Alloc)
				if !isAlloc {
					continue
				}
				isSize := false
				for _, br := range callsTo(fn, binRead) {
					if len(br.Call.Args) == 3 && core.Unwrap(br.Call.Args[2]) == ssa.Value(al) {
						isSize = true
					}
				}
				if !isSize {
					continue
				}
				foundSub = true
				readerK[name] = k
				if lowerBoundChecked(al, k, bo.Block()) {
					r.OK("GUARD", name+":size-field-range-checked", c.Pos(bo.Pos()), fmt.Sprintf("size - %d is dominated by the rejection of size < %d", k, k))
				} else {
					r.Violation("GUARD", name+":size-field-range-checked", c.Pos(bo.Pos()), fmt.Sprintf("the on-disk block size is decremented by %d without a dominating check that it is at least %d (unsigned underflow on a damaged or truncated log)", k, k))
				}
			}
		}
		if !foundSub {
			r.Undecided("GUARD", name+":size-field-range-checked", c.Pos(fn.Pos()), "no `size - K` computation on the size read from the file was found; framing shape changed")
		}
		// (f) decoded-record buffers written only under the CRC edge
		if ok {
			checkDecodedBufferOwners(c, r, fn, eqSucc, bufField)
		}
	}

	// ------------------------------------------------------------- (2) writer
	wfn := c.Fn(pkgWal, "Wal.writeBlockToFile")
	{
		name := shortFn(wfn)
		crcs := callsTo(wfn, crcFn)
		var writes []*ssa.Call
		for _, ci := range core.CallsIn(wfn) {
			if call, ok := ci.(*ssa.Call); ok {
				if f := core.CalleeFunc(call); f != nil && f.Pkg() != nil && f.Pkg().Path() == "os" && f.Name() == "Write" {
					writes = append(writes, call)
				}
			}
		}
		if len(crcs) != 1 || len(writes) != 3 {
			r.Undecided("TABLE", name+":framing", c.Pos(wfn.Pos()), fmt.Sprintf("expected 1 checksum and 3 writes (size|crc|payload), found %d and %d", len(crcs), len(writes)))
		} else {
			// the payload is named by the field it is loaded from or by the parameter it arrives in
			srcOf := func(v ssa.Value) interface{} {
				if f, _ := fieldOfLoad(v); f != nil {
					return f
				}
				for {
					if sl, ok := v.(*ssa.Slice); ok {
						v = sl.X
						continue
					}
					break
				}
				if p, ok := v.(*ssa.Parameter); ok {
					return p
				}
				return nil
			}
			pf := srcOf(crcs[0].Call.Args[0])
			lastF := srcOf(writes[2].Call.Args[1])
			r.Check(pf != nil && pf == lastF && core.InstrDominates(writes[0], writes[1]) && core.InstrDominates(writes[1], writes[2]),
				"TABLE", name+":crc-over-written-payload", c.Pos(crcs[0].Pos()), "the CRC is computed over the field that is written last (size|crc|payload)", "the CRC is not computed over the bytes written as the payload, or the field order changed")
			// the second write carries the checksum
			crcFlows := false
			if f2, _ := fieldOfLoad(writes[1].Call.Args[1]); f2 != nil {
				// binary.LittleEndian.PutUint32(field, checksum)
				for _, ci := range core.CallsIn(wfn) {
					if call, ok := ci.(*ssa.Call); ok && len(call.Call.Args) >= 2 {
						if ff, _ := fieldOfLoad(call.Call.Args[len(call.Call.Args)-2]); ff == f2 && call.Call.Args[len(call.Call.Args)-1] == ssa.Value(crcs[0]) && core.InstrDominates(call, writes[1]) {
							crcFlows = true
						}
					}
				}
			}
			r.Check(crcFlows, "TABLE", name+":crc-field-written", c.Pos(writes[1].Pos()), "the second field written holds the computed checksum", "the second field written is not filled from the computed checksum")
			// size = len(payload) + K
			var kW int64 = -1
			for _, b := range wfn.Blocks {
				for _, in := range b.Instrs {
					if bo, ok := in.(*ssa.BinOp); ok && bo.Op == token.ADD {
						if k, ok := core.ConstIntValue(bo.Y); ok {
							if call, ok := bo.X.(*ssa.Call); ok {
								if bi, ok := call.Call.Value.(*ssa.Builtin); ok && bi.Name() == "len" {
									if lf := srcOf(call.Call.Args[0]); lf != nil && lf == pf {
										kW = k
									}
								}
							}
						}
					}
				}
			}
			names := []string{}
			for n := range readerK {
				names = append(names, n)
			}
			sort.Strings(names)
			for _, n := range names {
				r.Check(readerK[n] == kW, "TABLE", "framing:size-constant:"+n, c.Pos(wfn.Pos()),
					fmt.Sprintf("writer size = len+%d, reader payload = size-%d", kW, readerK[n]),
					fmt.Sprintf("writer size = len+%d but reader %s uses size-%d", kW, n, readerK[n]))
			}
		}
	}

	// ------------------------------------------------------------- (3) persist before discard
	deleteWAL := c.Obj(pkgWal, "Wal.DeleteWAL")
	// the discard primitives: Wal.DeleteWAL, the file-removing helper of the metrics package when there is one
	// (today deleteWalFile), and — in the two recovery functions, which delete replayed files themselves — a
	// direct os.Remove
	discard := objs(deleteWAL)
	if dwf := c.TryObj(pkgMetrics, "deleteWalFile"); dwf != nil {
		discard = objs(deleteWAL, dwf)
	}
	osRemove := c.ExtObj("os", "Remove")
	flushBlock := c.Obj(pkgMetrics, "MetricsBlock.flushBlock")
	flushNames := c.Obj(pkgMetrics, "MetricsSegment.FlushMetricNames")
	addMeta := c.Obj(pkgMMeta, "AddMetricsMetaEntry")
	cleanDp := c.TryObj(pkgMetrics, "MetricsBlock.cleanAndInitNewDpWal")
	cleanMN := c.TryObj(pkgMetrics, "MetricsSegment.cleanAndInitNewMNameWal")
	delDp := c.TryObj(pkgMetrics, "MetricsBlock.deleteDpWalFiles")
	delMN := c.TryObj(pkgMetrics, "MetricsSegment.deleteMNameWALFile")

	type rule struct {
		fn      *ssa.Function
		persist types.Object
		pname   string
		isB     callPred
		bname   string
		why     string
	}
	rotateBlock := c.Fn(pkgMetrics, "MetricsBlock.rotateBlock")
	rotateSegment := c.Fn(pkgMetrics, "MetricsSegment.rotateSegment")
	recoverDp := c.Fn(pkgMetrics, "RecoverWALData")
	recoverMN := c.Fn(pkgMetrics, "RecoverMNameWALData")
	// a tabled function that has become a wrapper (a ...WithStats / ...WithOptions variant now holds the body):
	// the obligations move to the one function of the package it calls that makes the persisting call itself
	workerOf := func(fn *ssa.Function, persist types.Object) *ssa.Function {
		if len(callsTo(fn, persist)) > 0 {
			return fn
		}
		// only a pure forwarder hands its obligations on: a function that discards WAL files itself (directly or
		// through the discard wrappers) keeps them, even when the persisting call sits in a helper it calls
		for _, ci := range core.CallsIn(fn) {
			if core.IsCallTo(ci, deleteWAL) || core.IsCallTo(ci, osRemove) || core.IsCallTo(ci, cleanDp) || core.IsCallTo(ci, cleanMN) || core.IsCallTo(ci, delDp) || core.IsCallTo(ci, delMN) {
				return fn
			}
			if dwf := c.TryObj(pkgMetrics, "deleteWalFile"); dwf != nil && core.IsCallTo(ci, dwf) {
				return fn
			}
		}
		var cands []*ssa.Function
		for _, ci := range core.CallsIn(fn) {
			if h := ci.Common().StaticCallee(); h != nil && h.Blocks != nil && h.Parent() == nil && core.FnPkgPath(h) == core.FnPkgPath(fn) && len(callsTo(h, persist)) > 0 {
				dup := false
				for _, x := range cands {
					if x == h {
						dup = true
					}
				}
				if !dup {
					cands = append(cands, h)
				}
			}
		}
		if len(cands) == 1 {
			return cands[0]
		}
		return fn
	}
	rotateBlock = workerOf(rotateBlock, flushBlock)
	rotateSegment = workerOf(rotateSegment, flushNames)
	recoverDp = workerOf(recoverDp, flushBlock)
	recoverMN = workerOf(recoverMN, flushNames)
	rules := []rule{
		{rotateBlock, flushBlock, "flushBlock", sm.mayPred(objs(cleanDp, delDp, deleteWAL)), "datapoint-WAL discard", "the datapoint WAL may be dropped only after the block it protects is on disk"},
		{rotateSegment, flushNames, "FlushMetricNames", sm.mayPred(objs(cleanMN, delMN)), "metric-name-WAL discard", "the metric-name WAL may be dropped only after the names file is on disk"},
		{rotateSegment, addMeta, "AddMetricsMetaEntry", directPred(objs(deleteWAL)), "meta-entry-WAL discard", "the meta-entry WAL may be dropped only after the segment's meta entry is durable"},
	}
	mayDiscard := sm.mayPred(discard)
	recoverDiscard := func(ci ssa.CallInstruction) bool { return mayDiscard(ci) || core.IsCallTo(ci, osRemove) }
	recoverRules := []rule{
		{recoverDp, flushBlock, "flushBlock", recoverDiscard, "datapoint-WAL discard", "a WAL file replayed during recovery may be deleted only after the rebuilt block was flushed; a second crash in between loses the datapoints for good"},
		{recoverMN, flushNames, "FlushMetricNames", recoverDiscard, "metric-name-WAL discard", "a metric-name WAL replayed during recovery may be deleted only after the names were flushed"},
	}
	owned := map[ssa.CallInstruction]bool{}
	for _, ru := range rules {
		isA := sm.mustPred(objs(ru.persist))
		sites := mustPrecede(ru.fn, isA, ru.isB)
		construct := fmt.Sprintf("%s:%s<%s", shortFn(ru.fn), ru.pname, ru.bname)
		if len(sites) == 0 {
			r.Undecided("ORDER", construct, c.Pos(ru.fn.Pos()), "no discard site found in this function; the table must be re-confirmed")
			continue
		}
		// the error of the persisting call
		var persistCalls []*ssa.Call
		for _, ci := range core.CallsIn(ru.fn) {
			if call, ok := ci.(*ssa.Call); ok && isA(ci) {
				persistCalls = append(persistCalls, call)
			}
		}
		for i, s := range sites {
			owned[s.Site] = true
			k := construct
			if len(sites) > 1 {
				k = fmt.Sprintf("%s@%d", construct, i)
			}
			if !s.OK {
				r.Violation("ORDER", k, c.Pos(s.Site.Pos()), fmt.Sprintf("a WAL file can be deleted before %s ran — %s", ru.pname, ru.why))
				continue
			}
			// only where persist succeeded
			succeeded := false
			for _, pc := range persistCalls {
				if errv, _ := errResultOf(pc); errv != nil && core.NilnessAt(errv, s.Site.Block()) == core.Yes {
					succeeded = true
				}
			}
			if !succeeded {
				r.Violation("ORDER", k+":persist-succeeded", c.Pos(s.Site.Pos()), fmt.Sprintf("the WAL is discarded although %s may have failed (its error is not known to be nil here) — %s", ru.pname, ru.why))
				continue
			}
			r.OK("ORDER", k, c.Pos(s.Site.Pos()), "discard is preceded by "+ru.pname+" on every path and lies on its err == nil edge")
		}
	}
	for _, ru := range recoverRules {
		checkRecoverDiscard(c, r, sm, ru.fn, ru.persist, ru.pname, ru.isB, ru.bname, ru.why, owned)
	}
	// rotateSegment's datapoint-WAL reset relies on the caller having rotated the block
	for _, ci := range core.CallsIn(rotateSegment) {
		if core.IsCallTo(ci, cleanDp) {
			owned[ci] = true
			r.Assume("ORDER", shortFn(rotateSegment)+":cleanAndInitNewDpWal", c.Pos(ci.Pos()),
				"rotateSegment is documented to run after the prior block was rotated (CheckAndRotate rotates a non-empty block first; the block-rotation condition subsumes the segment-rotation condition when the block is non-empty) — a path-sensitive fact outside this rule")
		}
	}
	// every other call that may reach a discard must be a pure wrapper whose callers are owned
	wrappers := objs(cleanDp, cleanMN, delDp, delMN)
	stop := map[*ssa.Function]bool{rotateBlock: true, rotateSegment: true, recoverDp: true, recoverMN: true}
	may := sm.mayPredAvoid(discard, stop)
	unowned := 0
	nSites := 0
	for _, fn := range c.RepoFunctions() {
		for _, ci := range core.CallsIn(fn) {
			if !may(ci) {
				continue
			}
			nSites++
			if owned[ci] {
				continue
			}
			// inside a wrapper (function object in wrappers, or the discard primitives themselves)
			top := fn
			for top.Parent() != nil {
				top = top.Parent()
			}
			if o := top.Object(); o != nil && (wrappers[o] || discard[o]) {
				continue
			}
			unowned++
			r.Violation("ORDER", fmt.Sprintf("%s:unowned-WAL-discard", shortFn(fn)), c.Pos(ci.Pos()),
				"this call may delete a metrics WAL file but no persist-before-discard obligation covers it (not in the table of rotate/recover functions and not inside a discard wrapper)")
		}
	}
	r.Count("wal_discard_call_sites", nSites)
	if unowned == 0 {
		r.OK("ORDER", "all-WAL-discard-sites-owned", "-", fmt.Sprintf("%d call sites that may delete a WAL file, each covered by an obligation or inside a wrapper", nSites))
	}

	// ------------------------------------------------------------- (3b) append under the buffer lock
	{
		la := lockAnalysis(c)
		walAppend := c.Obj(pkgWal, "Wal.Append")
		nApp := 0
		for _, fn := range c.RepoFunctions() {
			ff := la.Facts[fn]
			for _, call := range callsTo(fn, walAppend) {
				// the receiver is loaded from a field of a *WalState struct that also has a `lock` field
				ld, ok := call.Call.Args[0].(*ssa.UnOp)
				if !ok {
					continue
				}
				fa, ok := ld.X.(*ssa.FieldAddr)
				if !ok {
					continue
				}
				pt, ok := fa.X.Type().Underlying().(*types.Pointer)
				if !ok {
					continue
				}
				st, ok := pt.Elem().Underlying().(*types.Struct)
				if !ok {
					continue
				}
				lockIdx := -1
				for i := 0; i < st.NumFields(); i++ {
					if c.BaseName(st.Field(i)) == "lock" {
						lockIdx = i
					}
				}
				if lockIdx < 0 {
					continue
				}
				nApp++
				tn := ""
				if n, ok := pt.Elem().(*types.Named); ok {
					tn = n.Obj().Name()
				}
				want := "(" + pkgMetrics + "." + tn + ").lock"
				held := false
				for _, h := range ff.MustAt[call] {
					if h.Class.Name == want && !h.Read {
						held = true
					}
				}
				construct := fmt.Sprintf("%s:Wal.Append(%s.%s)-under-%s.lock", shortFn(fn), tn, st.Field(fa.Field).Name(), tn)
				if held {
					r.OK("HELD", construct, c.Pos(call.Pos()), "the buffer's lock is must-held at the append")
				} else {
					r.Violation("HELD", construct, c.Pos(call.Pos()), "the WAL block is encoded and appended without holding the lock of the buffer it reads: concurrent ingestion overwrites entries while they are encoded, so the log (with a valid CRC) contains datapoints that were never written and misses others")
				}
			}
		}
		r.Floor("HELD", "Wal.Append sites on lock-guarded WAL states", nApp, 3)
	}

	// ------------------------------------------------------------- (4) rewritten WAL
	walWrite := c.Fn(pkgWal, "Wal.Write")
	trunc := c.ExtObj("os", "File.Truncate")
	truncReach := sm.staticMayReach(objs(trunc))
	inPlace := false
	var at ssa.Instruction
	for _, ci := range core.CallsIn(walWrite) {
		if core.IsCallTo(ci, trunc) {
			inPlace, at = true, ci
		}
		if callee := ci.Common().StaticCallee(); callee != nil && truncReach[callee] {
			inPlace, at = true, ci
		}
	}
	// the live path is w.filePath; a file opened for writing at exactly that path is the live log
	filePathF := c.Field(pkgWal, "Wal.filePath")
	isLivePath := func(v ssa.Value) bool {
		if ld, ok := core.Unwrap(v).(*ssa.UnOp); ok && ld.Op == token.MUL {
			if fa, ok := ld.X.(*ssa.FieldAddr); ok && core.FieldOfAddr(fa) == filePathF {
				return true
			}
		}
		return false
	}
	var renames []ssa.Instruction
	for _, ci := range core.CallsIn(walWrite) {
		f := core.CalleeFunc(ci)
		if f == nil || f.Pkg() == nil || f.Pkg().Path() != "os" {
			continue
		}
		args := ci.Common().Args
		switch f.Name() {
		case "OpenFile", "Create", "WriteFile":
			if len(args) > 0 && isLivePath(args[0]) && !inPlace {
				inPlace, at = true, ci
			}
		case "Rename":
			if len(args) == 2 && isLivePath(args[1]) && !isLivePath(args[0]) {
				renames = append(renames, ci)
			}
		}
	}
	if inPlace {
		r.Violation("ATOMIC", "wal.Wal.Write:rewrite-in-place", c.Pos(at.Pos()),
			"Wal.Write truncates the live meta-entry WAL and then writes the new content: a crash between the two system calls leaves a log with no entries, so the meta entries of the open metrics segments are lost")
	} else {
		r.OK("ATOMIC", "wal.Wal.Write:rewrite-in-place", c.Pos(walWrite.Pos()), "the rewritten WAL is neither truncated nor re-opened for writing at its live path")
	}
	{
		// the new content reaches the live path only by a rename, on every successful return
		var bad *ssa.Return
		for _, ret := range core.Returns(walWrite) {
			if core.ReturnSuccess(ret) == core.No {
				continue
			}
			dominated := false
			for _, rn := range renames {
				if core.InstrDominates(rn, ret) {
					dominated = true
				}
			}
			if !dominated && bad == nil {
				bad = ret
			}
		}
		if bad != nil {
			r.Violation("ATOMIC", "wal.Wal.Write:published-by-rename", c.Pos(bad.Pos()), "Wal.Write can report success without having renamed the new content over the live meta-entry WAL: the completed write is not what a restart replays")
		} else {
			r.OK("ATOMIC", "wal.Wal.Write:published-by-rename", c.Pos(walWrite.Pos()), "every successful return of Wal.Write is dominated by os.Rename(<other path>, w.filePath)")
		}
	}

	// ---------------------------------------------------------------- (5) a datapoint WAL file is created under a fresh name
	{
		initWal := c.Fn(pkgMetrics, "MetricsBlock.initNewDpWal")
		idxF := c.Field(pkgMetrics, "dpWalState.currentWALIndex")
		segF := c.Field(pkgMetrics, "dpWalState.segID")
		blkF := c.Field("pkg/segment/structs", "MBlockSummary.Blknum")
		deleteFiles := c.Obj(pkgMetrics, "MetricsBlock.deleteDpWalFiles")
		newSeg := c.Obj(pkgMetrics, "InitMetricsSegment")
		// the name really is built from these components
		uses := map[*types.Var]bool{}
		for _, b := range initWal.Blocks {
			for _, in := range b.Instrs {
				if ld, ok := in.(*ssa.UnOp); ok {
					if fa, ok := ld.X.(*ssa.FieldAddr); ok {
						uses[core.FieldOfAddr(fa)] = true
					}
				}
			}
		}
		// the WAL index may also arrive as an integer parameter whose every argument is the per-block index field
		// (plus a constant) or a constant
		idxParam := -1
		if !uses[idxF] {
			for i, p := range initWal.Params {
				if bt, ok := p.Type().Underlying().(*types.Basic); ok && bt.Info()&types.IsInteger != 0 && p.Referrers() != nil && len(*p.Referrers()) > 0 {
					idxParam = i
				}
			}
			if idxParam >= 0 {
				for _, site := range c.StaticCallers()[initWal] {
					ok := false
					arg := site.Common().Args[idxParam]
					if _, isK := core.ConstIntValue(arg); isK {
						ok = true
					}
					for _, o := range c.Origins(arg, 0) {
						if o.Kind == "field" && o.Obj == types.Object(idxF) {
							ok = true
						}
					}
					if !ok {
						idxParam = -1
						break
					}
				}
			}
		}
		r.Check((uses[idxF] || idxParam >= 0) && uses[blkF], "ORDER", "metrics.MetricsBlock.initNewDpWal:file-name-from-block-number-and-wal-index", c.Pos(initWal.Pos()), "the WAL file name is built from the block number and the per-block WAL index", "the datapoint WAL file name no longer depends on the block number and the WAL index")
		n := 0
		for _, fn := range c.RepoFunctions() {
			for i, call := range callsTo(fn, initWal.Object()) {
				n++
				fresh := ""
				for _, b := range fn.Blocks {
					for _, in := range b.Instrs {
						if !core.InstrDominates(in, call) {
							continue
						}
						switch x := in.(type) {
						case *ssa.Store:
							if fa, ok := x.Addr.(*ssa.FieldAddr); ok {
								f := core.FieldOfAddr(fa)
								if f == idxF || f == segF || f == blkF {
									fresh = "the name component " + f.Name() + " is changed first"
								}
							}
						case ssa.CallInstruction:
							if core.IsCallTo(x, deleteFiles) {
								fresh = "the block's previous WAL files are deleted first"
							}
							if core.IsCallTo(x, newSeg) {
								fresh = "the metrics segment was just created"
							}
						}
					}
				}
				if fresh == "" && idxParam >= 0 && idxParam < len(call.Call.Args) {
					// the index handed over is the current index plus a positive constant
					if bo, ok := call.Call.Args[idxParam].(*ssa.BinOp); ok && bo.Op == token.ADD {
						if k, ok := core.ConstIntValue(bo.Y); ok && k >= 1 {
							for _, o := range c.Origins(bo.X, 0) {
								if o.Kind == "field" && o.Obj == types.Object(idxF) {
									fresh = "the WAL index handed over is the current one plus a positive constant"
								}
							}
						}
					}
				}
				construct := fmt.Sprintf("%s:initNewDpWal#%d-creates-a-file-under-a-fresh-name", shortFn(fn), i+1)
				r.Check(fresh != "", "ORDER", construct, c.Pos(call.Pos()), fresh,
					"a datapoint WAL file is created (opened with O_TRUNC) without first advancing the WAL index, changing the block / segment number or discarding the block's previous files: the name is that of the live WAL file, whose completed appends are wiped, so a crash before the block is flushed replays only the tail written after the rotation")
			}
		}
		r.Floor("ORDER", "call sites of initNewDpWal", n, 3)

		checkWalAfterBlockNumber(c, r, sm)
		checkNoEmptyNameBlock(c, r)
		checkWalStateReset(c, r)
	}

	// ---------------------------------------------------------------- (7) the WAL files of a block are replayed in index order
	// The listing order of a directory is either unspecified (Readdirnames) or by name (os.ReadDir), and in name order
	// ..._10.wal precedes ..._2.wal.  The per-block file list that recovery replays must therefore be sorted explicitly,
	// by a comparison of parsed numbers, on every path that returns it.
	{
		fn := c.Fn(pkgMetrics, "extractWALFileInfo")
		filesF := c.Field(pkgMetrics, "walFilesInfo.walFiles")
		numeric := sm.staticMayReach(objs(c.ExtObj("strconv", "ParseUint"), c.ExtObj("strconv", "Atoi"), c.ExtObj("strconv", "ParseInt")))
		var sorts []ssa.Instruction
		for _, ci := range core.CallsIn(fn) {
			f := core.CalleeFunc(ci)
			if f == nil || f.Pkg() == nil || !((f.Pkg().Path() == "sort" && (f.Name() == "Slice" || f.Name() == "SliceStable")) || (f.Pkg().Path() == "slices" && (f.Name() == "SortFunc" || f.Name() == "SortStableFunc"))) {
				continue
			}
			args := ci.Common().Args
			subject := args[0]
			if mi, ok := subject.(*ssa.MakeInterface); ok {
				subject = mi.X
			}
			ld, ok := subject.(*ssa.UnOp)
			if !ok {
				continue
			}
			fa, ok := ld.X.(*ssa.FieldAddr)
			if !ok || core.FieldOfAddr(fa) != filesF {
				continue
			}
			byNumber := false
			for _, less := range funcValues(args[1]) {
				for _, lc := range core.CallsIn(less) {
					if callee := lc.Common().StaticCallee(); callee != nil && (numeric[callee]) {
						byNumber = true
					}
					if lf := core.CalleeFunc(lc); lf != nil && lf.Pkg() != nil && lf.Pkg().Path() == "strconv" {
						byNumber = true
					}
				}
			}
			if byNumber {
				sorts = append(sorts, ci)
			}
		}
		loops := core.Loops(fn)
		ok := len(sorts) > 0
		for _, ret := range core.Returns(fn) {
			if core.ReturnSuccess(ret) == core.No {
				continue
			}
			covered := false
			for _, s := range sorts {
				b := s.Block()
				if lp := core.InnermostLoop(loops, b); lp != nil {
					b = lp.Header
				}
				if b.Dominates(ret.Block()) {
					covered = true
				}
			}
			if !covered {
				ok = false
			}
		}
		_ = ok
		r.Check(ok, "ORDER", "metrics.extractWALFileInfo:wal-files-of-a-block-in-index-order", c.Pos(fn.Pos()),
			"every successful return is preceded by a sort of each block's WAL file list that compares parsed numbers",
			"the WAL files of a block are handed to the replay loop in directory-listing order (unspecified, or by name, where ..._10.wal precedes ..._2.wal): completed appends are replayed out of order after a restart")
	}

	// ---------------------------------------------------------------- (8) an encoded block is private to its WAL until it is written
	// Wal.Append encodes a block (PrepareEncode, which serialises the shared zstd encoder with a package lock) and writes it
	// with its CRC afterwards, outside that lock.  Several WAL files are appended to concurrently (one per metrics segment,
	// the metric-name WALs), so the bytes PrepareEncode hands back must belong to the encoder instance: no function of the
	// wal package returns a slice that shares memory with a package-level variable.
	{
		nFn, nRet := 0, 0
		var bad ssa.Instruction
		var badG *ssa.Global
		for _, fn := range c.RepoFunctions() {
			if core.FnPkgPath(fn) != core.ModPath+"/"+pkgWal || fn.Blocks == nil {
				continue
			}
			nFn++
			for _, ret := range core.Returns(fn) {
				for _, res := range ret.Results {
					if _, isSlice := res.Type().Underlying().(*types.Slice); !isSlice {
						continue
					}
					nRet++
					seen := map[ssa.Value]bool{}
					var fromGlobal func(v ssa.Value, depth int) *ssa.Global
					fromGlobal = func(v ssa.Value, depth int) *ssa.Global {
						if v == nil || seen[v] || depth > 8 {
							return nil
						}
						seen[v] = true
						switch x := v.(type) {
						case *ssa.UnOp:
							if g, ok := x.X.(*ssa.Global); ok && x.Op == token.MUL {
								return g
							}
							// a local that was assigned from the global
							if al, ok := x.X.(*ssa.Alloc); ok && al.Referrers() != nil {
								for _, u := range *al.Referrers() {
									if st, ok := u.(*ssa.Store); ok && st.Addr == ssa.Value(al) {
										if g := fromGlobal(st.Val, depth+1); g != nil {
											return g
										}
									}
								}
							}
						case *ssa.Slice:
							return fromGlobal(x.X, depth+1)
						case *ssa.Phi:
							for _, e := range x.Edges {
								if g := fromGlobal(e, depth+1); g != nil {
									return g
								}
							}
						case *ssa.Call:
							// append(g[:0], ...) and encoders that fill a destination slice (EncodeAll(src, dst)) may return dst's array
							for _, a := range x.Call.Args {
								if _, isSlice := a.Type().Underlying().(*types.Slice); isSlice {
									if g := fromGlobal(a, depth+1); g != nil {
										return g
									}
								}
							}
						}
						return nil
					}
					if g := fromGlobal(res, 0); g != nil && bad == nil {
						bad, badG = ret, g
					}
				}
			}
		}
		r.Floor("OWN", "functions of the wal package", nFn, 20)
		if bad != nil {
			r.Violation("OWN", "wal:returned-slices-do-not-share-package-level-buffers", c.Pos(bad.Pos()), "a function of the wal package returns a slice that shares memory with the package-level variable "+badG.Name()+": the encoded block is written to the WAL file after the encoder lock is released, so another WAL's append can overwrite it in between; the file then holds a block with a valid CRC that carries another log's datapoints, or a bad block that hides every later completed append")
		} else {
			r.OK("OWN", "wal:returned-slices-do-not-share-package-level-buffers", "-", fmt.Sprintf("%d slice results of %d functions examined", nRet, nFn))
		}
	}
}

// lowerBoundChecked: block b is dominated by the rejecting-false edge of
// `load(al) < k` (or the accepting edge of >= k).
func lowerBoundChecked(al *ssa.Alloc, k int64, b *ssa.BasicBlock) bool {
	for x := b; x != nil; x = x.Idom() {
		idom := x.Idom()
		if idom == nil {
			break
		}
		ifi, ok := core.LastIf(idom)
		if !ok {
			continue
		}
		bo, ok := ifi.Cond.(*ssa.BinOp)
		if !ok {
			continue
		}
		ld, ok := bo.X.(*ssa.UnOp)
		if !ok || ld.X != ssa.Value(al) {
			continue
		}
		kk, ok := core.ConstIntValue(bo.Y)
		if !ok {
			continue
		}
		onTrue := idom.Succs[0] == x && len(x.Preds) == 1
		onFalse := idom.Succs[1] == x && len(x.Preds) == 1
		switch bo.Op {
		case token.LSS: // size < kk rejected: we are on the false edge, size >= kk
			if onFalse && kk >= k {
				return true
			}
		case token.LEQ:
			if onFalse && kk+1 >= k {
				return true
			}
		case token.GEQ:
			if onTrue && kk >= k {
				return true
			}
		case token.GTR:
			if onTrue && kk+1 >= k {
				return true
			}
		}
	}
	return false
}

// checkDecodedBufferOwners: fields of the iterator from which Next returns
// records without re-verifying (the cached-batch fast path) may be written
// only under the CRC-equal edge, by functions called only from there, or at
// construction.
func checkDecodedBufferOwners(c *core.Ctx, r *core.Report, next *ssa.Function, eqSucc *ssa.BasicBlock, rawBuf *types.Var) {
	name := shortFn(next)
	recv := next.Signature.Recv()
	if recv == nil {
		return
	}
	pt, ok := recv.Type().(*types.Pointer)
	if !ok {
		return
	}
	st, ok := pt.Elem().Underlying().(*types.Struct)
	if !ok {
		return
	}
	// candidate fields: slice-typed fields other than the raw read buffer, loaded in a block not under the CRC edge
	cached := map[*types.Var]bool{}
	for _, b := range next.Blocks {
		if eqSucc.Dominates(b) {
			continue
		}
		for _, in := range b.Instrs {
			if fa, ok := in.(*ssa.FieldAddr); ok && fa.X == ssa.Value(next.Params[0]) {
				f := st.Field(fa.Field)
				if _, isSlice := f.Type().Underlying().(*types.Slice); isSlice && f != rawBuf {
					cached[f] = true
				}
			}
		}
	}
	if len(cached) == 0 {
		return
	}
	// functions called (statically) only from under the CRC edge of next
	underOnly := map[*ssa.Function]bool{}
	callers := c.StaticCallers()
	for _, ci := range core.CallsIn(next) {
		callee := ci.Common().StaticCallee()
		if callee == nil || !core.IsRepoPkg(core.FnPkgPath(callee)) {
			continue
		}
		all := true
		for _, site := range callers[callee] {
			if site.Parent() != next || !eqSucc.Dominates(site.Block()) {
				all = false
			}
		}
		if all {
			underOnly[callee] = true
		}
	}
	var fields []string
	for f := range cached {
		fields = append(fields, f.Name())
	}
	sort.Strings(fields)
	for _, fn := range c.RepoFunctions() {
		for _, b := range fn.Blocks {
			for _, in := range b.Instrs {
				stI, ok := in.(*ssa.Store)
				if !ok {
					continue
				}
				fa, ok := stI.Addr.(*ssa.FieldAddr)
				if !ok {
					continue
				}
				p, ok := fa.X.Type().Underlying().(*types.Pointer)
				if !ok || !types.Identical(p.Elem(), pt.Elem()) {
					continue
				}
				f := st.Field(fa.Field)
				if !cached[f] {
					continue
				}
				okSite := false
				switch {
				case fn == next && eqSucc.Dominates(b):
					okSite = true
				case underOnly[fn]:
					okSite = true
				default:
					if _, fresh := fa.X.(*ssa.Alloc); fresh {
						okSite = true // construction of a new iterator
					}
				}
				k := fmt.Sprintf("%s:decoded-buffer(%s)-written-under-crc:%s", name, f.Name(), shortFn(fn))
				if okSite {
					r.OK("GUARD", k, c.Pos(stI.Pos()), "store happens under the CRC-equal edge / in a decoder called only from there / at construction")
				} else {
					r.Violation("GUARD", k, c.Pos(stI.Pos()), "records returned by the cached fast path of Next come from this buffer, but it is written outside the CRC-verified region")
				}
			}
		}
	}
	_ = fields
}

// checkRecoverDiscard: in a WAL recovery function the replayed files may be
// deleted (B) only after the rebuilt data was persisted (A) — except when
// nothing was replayed.  "Nothing was replayed" is accepted only in the form
// of an accumulator flag: the If that skips A tests a value whose phi web is
// initialised outside the replay loops and is only ever *set* (to one constant,
// or by non-constant increments) inside them.  B must not be reachable from the
// failure edge of A within the same iteration.
func checkRecoverDiscard(c *core.Ctx, r *core.Report, sm *summaries, fn *ssa.Function, persist types.Object, pname string, isB callPred, bname, why string, owned map[ssa.CallInstruction]bool) {
	construct := fmt.Sprintf("%s:%s<%s", shortFn(fn), pname, bname)
	isA := sm.mustPred(objs(persist))
	var aCalls []*ssa.Call
	var bSites []ssa.CallInstruction
	for _, ci := range core.CallsIn(fn) {
		if call, ok := ci.(*ssa.Call); ok && isA(ci) {
			aCalls = append(aCalls, call)
		}
		if isB(ci) {
			bSites = append(bSites, ci)
			owned[ci] = true
		}
	}
	if len(aCalls) == 0 {
		// the rebuild-and-flush part extracted into a helper: the call of a same-package function from which the
		// persisting call is reachable and that reports an error stands for it (its failure edge is then the
		// failure of the flush, or of something before it — either way the replayed files must stay)
		may := sm.mayPred(objs(persist))
		for _, ci := range core.CallsIn(fn) {
			call, ok := ci.(*ssa.Call)
			if !ok || !may(ci) {
				continue
			}
			h := call.Call.StaticCallee()
			if h == nil || core.FnPkgPath(h) != core.FnPkgPath(fn) {
				continue
			}
			if ev, _ := errResultOf(call); ev != nil {
				aCalls = append(aCalls, call)
			}
		}
	}
	if len(aCalls) != 1 || len(bSites) == 0 {
		r.Undecided("ORDER", construct, c.Pos(fn.Pos()), fmt.Sprintf("expected one %s call and at least one discard site, found %d and %d", pname, len(aCalls), len(bSites)))
		return
	}
	A := aCalls[0]
	loops := core.Loops(fn)
	// the If that can skip A: the nearest If dominating A one of whose successors cannot reach A any more within
	// the same iteration of A's innermost loop
	var skipIf *ssa.If
	var skipFrom, skipTo *ssa.BasicBlock
	aLoop := core.InnermostLoop(loops, A.Block())
	reachesA := func(from *ssa.BasicBlock) bool {
		seen := map[*ssa.BasicBlock]bool{}
		stack := []*ssa.BasicBlock{from}
		for len(stack) > 0 {
			x := stack[len(stack)-1]
			stack = stack[:len(stack)-1]
			if seen[x] {
				continue
			}
			seen[x] = true
			if x == A.Block() {
				return true
			}
			for _, sx := range x.Succs {
				if aLoop != nil && sx == aLoop.Header {
					continue
				}
				stack = append(stack, sx)
			}
		}
		return false
	}
	for b := A.Block().Idom(); b != nil && skipIf == nil; b = b.Idom() {
		if aLoop != nil && !aLoop.Body[b] {
			break
		}
		ifi, ok := core.LastIf(b)
		if !ok {
			continue
		}
		t, f := b.Succs[0], b.Succs[1]
		rt := t == A.Block() || reachesA(t)
		rf := f == A.Block() || reachesA(f)
		if aLoop != nil && t == aLoop.Header {
			rt = false
		}
		if aLoop != nil && f == aLoop.Header {
			rf = false
		}
		switch {
		case rt && !rf:
			skipIf, skipFrom, skipTo = ifi, b, f
		case rf && !rt:
			skipIf, skipFrom, skipTo = ifi, b, t
		}
		if skipIf != nil && aLoop != nil && !aLoop.Body[skipTo] {
			skipIf = nil // leaving the loop altogether is not a skip within the iteration
		}
	}
	edgeOK := func(from, to *ssa.BasicBlock) bool { return true }
	if skipIf != nil {
		if ok, detail := accumulatorFlag(skipIf, loops); !ok {
			r.Violation("ORDER", construct+":skip-flag-is-accumulator", c.Pos(skipIf.Pos()), "the test that skips "+pname+" ('nothing was replayed') does not read an accumulator: "+detail+" — a later WAL file can reset it, the flush is skipped and the already replayed files are deleted")
			return
		}
		r.OK("ORDER", construct+":skip-flag-is-accumulator", c.Pos(skipIf.Pos()), "the only way around "+pname+" is an accumulator flag initialised outside the replay loops and only set inside them")
		edgeOK = func(from, to *ssa.BasicBlock) bool { return !(from == skipFrom && to == skipTo) }
	}
	isBSite := map[ssa.Instruction]bool{}
	for _, b := range bSites {
		isBSite[b] = true
	}
	var early ssa.Instruction
	core.WalkForwardEdges(fn, nil, func(in ssa.Instruction) bool {
		if in == ssa.Instruction(A) {
			return false
		}
		if isBSite[in] {
			early = in
		}
		return true
	}, edgeOK)
	if early != nil {
		r.Violation("ORDER", construct, c.Pos(early.Pos()), fmt.Sprintf("a WAL file can be deleted before %s ran — %s", pname, why))
		return
	}
	// failure edge of A must not reach B within the iteration
	errv, _ := errResultOf(A)
	if errv == nil {
		r.Violation("ORDER", construct+":persist-succeeded", c.Pos(A.Pos()), "the error of "+pname+" is discarded")
		return
	}
	loop := core.InnermostLoop(loops, A.Block())
	var afterFail ssa.Instruction
	core.WalkForwardEdges(fn, A, func(in ssa.Instruction) bool {
		if core.NilnessAt(errv, in.Block()) == core.Yes {
			return false
		}
		if isBSite[in] {
			afterFail = in
		}
		return true
	}, func(from, to *ssa.BasicBlock) bool {
		if loop != nil && to == loop.Header {
			return false // next iteration: another WAL group
		}
		// do not leave through the success edge
		if ifi, ok := core.LastIf(from); ok {
			if bo, ok := ifi.Cond.(*ssa.BinOp); ok && (bo.X == errv || bo.Y == errv) {
				isNilEdge := (bo.Op == token.EQL && to == from.Succs[0]) || (bo.Op == token.NEQ && to == from.Succs[1])
				if isNilEdge {
					return false
				}
			}
		}
		return true
	})
	if afterFail != nil {
		r.Violation("ORDER", construct+":persist-succeeded", c.Pos(afterFail.Pos()), fmt.Sprintf("the WAL is discarded although %s failed — %s", pname, why))
		return
	}
	r.OK("ORDER", construct, c.Pos(bSites[0].Pos()), "the replayed files are deleted only after "+pname+" ran and succeeded (or nothing was replayed)")
}

// accumulatorFlag: the condition of ifi reads a phi web whose constant leaves
// arriving from inside loops that do not contain the If are all the same
// constant, and that has a different constant arriving from outside those
// loops (the initial value).
func accumulatorFlag(ifi *ssa.If, loops []*core.Loop) (bool, string) {
	v := ifi.Cond
	for {
		switch x := v.(type) {
		case *ssa.UnOp:
			v = x.X
			continue
		case *ssa.BinOp:
			if _, ok := x.Y.(*ssa.Const); ok {
				v = x.X
				continue
			}
			if _, ok := x.X.(*ssa.Const); ok {
				v = x.Y
				continue
			}
		}
		break
	}
	root, ok := v.(*ssa.Phi)
	if !ok {
		return false, "the condition is not a loop-carried variable"
	}
	inLoopsOf := func(b *ssa.BasicBlock) map[*core.Loop]bool {
		m := map[*core.Loop]bool{}
		for _, l := range loops {
			if l.Body[b] {
				m[l] = true
			}
		}
		return m
	}
	ifLoops := inLoopsOf(ifi.Block())
	inner := map[string]bool{}
	outer := map[string]bool{}
	seen := map[*ssa.Phi]bool{}
	var walk func(p *ssa.Phi)
	walk = func(p *ssa.Phi) {
		if seen[p] {
			return
		}
		seen[p] = true
		for i, e := range p.Edges {
			pred := p.Block().Preds[i]
			switch x := e.(type) {
			case *ssa.Phi:
				walk(x)
			case *ssa.Const:
				isInner := false
				for l := range inLoopsOf(pred) {
					if !ifLoops[l] {
						isInner = true
					}
				}
				if isInner {
					inner[x.Value.String()] = true
				} else {
					outer[x.Value.String()] = true
				}
			}
		}
	}
	walk(root)
	if len(outer) == 0 {
		return false, "no initial value outside the replay loops"
	}
	if len(inner) > 1 {
		return false, "it is assigned different constants inside the replay loops (reset per file)"
	}
	for k := range inner {
		if outer[k] {
			return false, "it is re-initialised inside the replay loops (reset per file)"
		}
	}
	return true, ""
}

// checkWalAfterBlockNumber (shared by C08 and C10): the WAL of the next block carries the next block's number.
func checkWalAfterBlockNumber(c *core.Ctx, r *core.Report, sm *summaries) {
	initWal := c.Fn(pkgMetrics, "MetricsBlock.initNewDpWal")
	blkF := c.Field("pkg/segment/structs", "MBlockSummary.Blknum")
	// (6) the WAL of the next block carries the next block's number: recovery takes the block number from the file
	// name and re-flushes that block, so a WAL created before the number advanced makes a restart overwrite the
	// block that was just rotated.  In every function that changes the block number, each call that (transitively)
	// creates a datapoint WAL file is dominated by the change.
	reach := sm.staticMayReach(objs(initWal.Object()))
	m := 0
	for _, fn := range c.RepoFunctions() {
		var stores []ssa.Instruction
		for _, b := range fn.Blocks {
			for _, in := range b.Instrs {
				if st, ok := in.(*ssa.Store); ok {
					if fa, ok := st.Addr.(*ssa.FieldAddr); ok && core.FieldOfAddr(fa) == blkF {
						stores = append(stores, in)
					}
				}
			}
		}
		if len(stores) == 0 {
			continue
		}
		k := 0
		for _, ci := range core.CallsIn(fn) {
			callee := ci.Common().StaticCallee()
			if callee == nil || !(callee == initWal || reach[callee]) {
				continue
			}
			m++
			k++
			after := false
			for _, st := range stores {
				if core.InstrDominates(st, ci) {
					after = true
				}
			}
			r.Check(after, "ORDER", fmt.Sprintf("%s:wal-creation#%d-after-the-block-number-change", shortFn(fn), k), c.Pos(ci.Pos()),
				"the block number is changed before the next block's WAL file is created",
				"a datapoint WAL file is created before the block number of this function's block change is stored: the new block's WAL carries the number of the block that was just flushed, and after a crash recovery re-flushes that number from the new WAL, replacing the rotated block's files with the few datapoints logged since")
		}
	}
	r.Floor("ORDER", "WAL creations in functions that change the block number", m, 1)
}

// checkNoEmptyNameBlock — (9): the metric-name WAL reader reports a block with zero names exactly like the end of the
// log (Next returns nil, nil), so an empty block in the middle of the file hides every later completed append from
// recovery.  The writer must therefore never append an empty list: every Wal.Append of a segment's pending metric
// names lies where the length of that list is known to be non-zero.
func checkNoEmptyNameBlock(c *core.Ctx, r *core.Report) {
	namesF := c.Field(pkgMetrics, "mNameWalState.metricsNames")
	appendFn := c.Obj(pkgWal, "Wal.Append")
	n := 0
	for _, fn := range c.RepoFunctions() {
		if core.FnPkgPath(fn) != core.ModPath+"/"+pkgMetrics {
			continue
		}
		for i, call := range callsTo(fn, appendFn) {
			arg := call.Call.Args[len(call.Call.Args)-1]
			if mi, ok := arg.(*ssa.MakeInterface); ok {
				arg = mi.X
			}
			ld, ok := arg.(*ssa.UnOp)
			if !ok {
				continue
			}
			fa, ok := ld.X.(*ssa.FieldAddr)
			if !ok || core.FieldOfAddr(fa) != namesF {
				continue
			}
			n++
			nonEmpty := false
			for _, b := range fn.Blocks {
				for _, in := range b.Instrs {
					cmp, ok := in.(*ssa.BinOp)
					if !ok {
						continue
					}
					lc, ok := cmp.X.(*ssa.Call)
					if !ok {
						continue
					}
					bi, ok := lc.Call.Value.(*ssa.Builtin)
					if !ok || bi.Name() != "len" {
						continue
					}
					l2, ok := lc.Call.Args[0].(*ssa.UnOp)
					if !ok {
						continue
					}
					fa2, ok := l2.X.(*ssa.FieldAddr)
					if !ok || core.FieldOfAddr(fa2) != namesF {
						continue
					}
					k, ok := core.ConstIntValue(cmp.Y)
					if !ok {
						continue
					}
					known := core.BoolKnownAt(cmp, call.Block())
					switch cmp.Op {
					case token.GTR:
						nonEmpty = nonEmpty || (known == core.Yes && k >= 0)
					case token.NEQ:
						nonEmpty = nonEmpty || (known == core.Yes && k == 0)
					case token.EQL:
						nonEmpty = nonEmpty || (known == core.No && k == 0)
					case token.GEQ:
						nonEmpty = nonEmpty || (known == core.Yes && k >= 1)
					}
				}
			}
			r.Check(nonEmpty, "GUARD", fmt.Sprintf("%s:metric-name-append#%d-is-never-empty", shortFn(fn), i+1), c.Pos(call.Pos()),
				"the pending name list is known to be non-empty where it is appended",
				"the pending metric names are appended to the name WAL without knowing that there are any: an empty block is indistinguishable from the end of the log for the reader, so after a restart every name logged after the empty block is never replayed (and the file is then deleted)")
		}
	}
	r.Floor("GUARD", "appends of pending metric names to the name WAL", n, 1)
}

// checkWalStateReset — clause (8).  When a block is rotated its datapoint WAL is discarded and a new one is started
// (MetricsBlock.cleanAndInitNewDpWal).  Everything the per-block WAL state accumulates has to start over there:
// the position in the in-memory WAL buffer (datapoints still buffered were persisted with the rotated block; left
// in the buffer they are appended to the NEXT block's WAL and replayed into the wrong block after a crash), the
// per-block file index and the list of the block's WAL files.  The fields are not frozen in a table: they are the
// fields of dpWalState that some code of the package advances from their own value (x++, x = x + k — also through
// a parameter — or append(x, …)).  For each of them the cone of cleanAndInitNewDpWal contains a store of a start
// value: the constant 0, x[:0], or a parameter that is the constant 0 at the call made from that cone.
func checkWalStateReset(c *core.Ctx, r *core.Report) {
	clean := c.Fn(pkgMetrics, "MetricsBlock.cleanAndInitNewDpWal")
	stT := c.NamedType(pkgMetrics, "dpWalState")
	st := stT.Underlying().(*types.Struct)
	own := map[*types.Var]bool{}
	for i := 0; i < st.NumFields(); i++ {
		own[st.Field(i)] = true
	}
	inPkg := func(fn *ssa.Function) bool { return core.FnPkgPath(fn) == core.ModPath+"/"+pkgMetrics }
	// advanced fields
	advanced := map[*types.Var]ssa.Instruction{}
	for _, fn := range c.RepoFunctions() {
		if !inPkg(fn) {
			continue
		}
		for _, b := range fn.Blocks {
			for _, in := range b.Instrs {
				s, ok := in.(*ssa.Store)
				if !ok {
					continue
				}
				fa, ok := s.Addr.(*ssa.FieldAddr)
				if !ok {
					continue
				}
				f := core.FieldOfAddr(fa)
				if f == nil || !own[f] {
					continue
				}
				if _, isK := s.Val.(*ssa.Const); isK {
					continue
				}
				for _, o := range c.Origins(s.Val, 1) {
					if o.Kind == "field" && o.Obj == types.Object(f) {
						if _, isSlice := s.Val.(*ssa.Slice); isSlice {
							continue // x = x[:0] is a reset, not an advance
						}
						advanced[f] = s
					}
				}
			}
		}
	}
	// the cone of the clean-and-init function
	cone := []*ssa.Function{clean}
	seen := map[*ssa.Function]bool{clean: true}
	for i := 0; i < len(cone) && i < 32; i++ {
		for _, ci := range core.CallsIn(cone[i]) {
			if h := ci.Common().StaticCallee(); h != nil && h.Blocks != nil && inPkg(h) && !seen[h] {
				seen[h] = true
				cone = append(cone, h)
			}
		}
	}
	startValue := func(fn *ssa.Function, v ssa.Value) bool {
		if k, ok := core.ConstIntValue(v); ok {
			return k == 0
		}
		if core.IsNilConst(v) {
			return true
		}
		switch x := v.(type) {
		case *ssa.Slice:
			if x.High != nil {
				if k, ok := core.ConstIntValue(x.High); ok && k == 0 {
					return true
				}
			}
		case *ssa.MakeSlice, *ssa.MakeMap:
			return true
		case *ssa.Parameter:
			// the constant 0 at the call made from the cone
			idx := -1
			for i, p := range fn.Params {
				if p == x {
					idx = i
				}
			}
			for _, g := range cone {
				for _, call := range core.CallsIn(g) {
					if call.Common().StaticCallee() == fn && idx >= 0 && idx < len(call.Common().Args) {
						if k, ok := core.ConstIntValue(call.Common().Args[idx]); ok && k == 0 {
							return true
						}
					}
				}
			}
		}
		return false
	}
	var fields []*types.Var
	for f := range advanced {
		fields = append(fields, f)
	}
	sort.Slice(fields, func(i, j int) bool { return fields[i].Name() < fields[j].Name() })
	for _, f := range fields {
		reset := false
		for _, g := range cone {
			for _, b := range g.Blocks {
				for _, in := range b.Instrs {
					s, ok := in.(*ssa.Store)
					if !ok {
						continue
					}
					if fa, ok := s.Addr.(*ssa.FieldAddr); ok && core.FieldOfAddr(fa) == f && startValue(g, s.Val) {
						reset = true
					}
				}
			}
		}
		r.Check(reset, "LIVE", fmt.Sprintf("metrics.MetricsBlock.cleanAndInitNewDpWal:%s-starts-over-with-the-new-block", f.Name()), c.Pos(advanced[f].Pos()),
			"reset to its start value when the block's WAL is discarded and re-initialised",
			fmt.Sprintf("dpWalState.%s is advanced while a block is being filled but is not reset where the block's datapoint WAL is discarded and a new one started: what it accumulated for the rotated block (datapoints still in the WAL buffer, the file index, the file list) is carried into the next block's WAL — datapoints already persisted with the rotated block are appended to the next block's WAL and replayed into the wrong block after a crash", f.Name()))
	}
	r.Floor("LIVE", "fields of the per-block WAL state that are advanced", len(fields), 2)
}
