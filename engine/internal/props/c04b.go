package props

import (
	"fmt"
	"go/token"
	"go/types"
	"sort"

	"golang.org/x/tools/go/ssa"

	"verif/engine/internal/core"
)

// (5) FLOORSNAP — a bucket start is `base + floor((t - base) / span) * span`.  Go's integer division truncates
// toward zero, so the integer idiom (d / s) * s (or d - d % s) snaps a NEGATIVE d to the bucket above it: an
// event before the base is labelled with a bucket that starts after its own timestamp.  Every signed integer
// snap whose dividend is a difference of two non-constant values must therefore lie where the difference is
// known to be non-negative (a dominating comparison of its operands or of the difference with zero); unsigned
// arithmetic and float arithmetic passed through math.Floor are not instances.
func c04FloorSnap(c *core.Ctx, r *core.Report) {
	signedInt := func(t types.Type) bool {
		b, ok := t.Underlying().(*types.Basic)
		return ok && b.Info()&types.IsInteger != 0 && b.Info()&types.IsUnsigned == 0
	}
	sameDivisor := func(a, b ssa.Value) bool {
		if a == b {
			return true
		}
		ka, ok1 := core.ConstIntValue(a)
		kb, ok2 := core.ConstIntValue(b)
		return ok1 && ok2 && ka == kb
	}
	isDiff := func(v ssa.Value) *ssa.BinOp {
		for i := 0; i < 3; i++ {
			if cv, ok := v.(*ssa.Convert); ok && signedInt(cv.X.Type()) {
				v = cv.X
			}
		}
		bo, ok := v.(*ssa.BinOp)
		if !ok || bo.Op != token.SUB {
			return nil
		}
		if _, isK := bo.Y.(*ssa.Const); isK {
			return nil
		}
		if _, isK := bo.X.(*ssa.Const); isK {
			return nil
		}
		return bo
	}
	nonNegativeAt := func(fn *ssa.Function, d *ssa.BinOp, at *ssa.BasicBlock) bool {
		for _, b := range fn.Blocks {
			for _, in := range b.Instrs {
				cmp, ok := in.(*ssa.BinOp)
				if !ok {
					continue
				}
				k := core.BoolKnownAt(cmp, at)
				if k == core.Maybe {
					continue
				}
				holds := k == core.Yes
				x, y, op := cmp.X, cmp.Y, cmp.Op
				// normalise to  x OP y  with OP in {>=, >} meaning x >= y
				ge := func(a, b ssa.Value) bool {
					if a == d.X && b == d.Y {
						return true
					}
					if a == ssa.Value(d) {
						if kv, ok := core.ConstIntValue(b); ok && kv == 0 {
							return true
						}
					}
					return false
				}
				switch op {
				case token.GEQ, token.GTR:
					if holds && ge(x, y) {
						return true
					}
					if !holds && op == token.GTR && ge(y, x) { // !(y > x)  =>  x >= y
						return true
					}
				case token.LEQ, token.LSS:
					if holds && ge(y, x) {
						return true
					}
					if !holds && op == token.LSS && ge(x, y) { // !(x < y)  =>  x >= y
						return true
					}
				}
			}
		}
		return false
	}
	type hit struct {
		fn *ssa.Function
		in *ssa.BinOp
		d  *ssa.BinOp
	}
	var hits []hit
	for _, fn := range c.RepoFunctions() {
		for _, b := range fn.Blocks {
			for _, in := range b.Instrs {
				bo, ok := in.(*ssa.BinOp)
				if !ok || !signedInt(bo.Type()) {
					continue
				}
				switch bo.Op {
				case token.MUL:
					for _, pair := range [][2]ssa.Value{{bo.X, bo.Y}, {bo.Y, bo.X}} {
						q, ok := pair[0].(*ssa.BinOp)
						if !ok || q.Op != token.QUO || !sameDivisor(q.Y, pair[1]) {
							continue
						}
						if d := isDiff(q.X); d != nil {
							hits = append(hits, hit{fn, bo, d})
						}
					}
				case token.SUB:
					// d - d % s
					if m, ok := bo.Y.(*ssa.BinOp); ok && m.Op == token.REM && m.X == bo.X {
						if d := isDiff(bo.X); d != nil {
							hits = append(hits, hit{fn, bo, d})
						}
					}
				}
			}
		}
	}
	sort.Slice(hits, func(i, j int) bool {
		if hits[i].fn.String() != hits[j].fn.String() {
			return hits[i].fn.String() < hits[j].fn.String()
		}
		return hits[i].in.Pos() < hits[j].in.Pos()
	})
	per := map[string]int{}
	for _, h := range hits {
		name := shortFn(h.fn)
		per[name]++
		construct := fmt.Sprintf("%s:integer-snap#%d-of-a-difference-is-a-floor", name, per[name])
		if nonNegativeAt(h.fn, h.d, h.in.Block()) {
			r.OK("FLOORSNAP", construct, c.Pos(h.in.Pos()), "the difference is known to be non-negative where it is snapped")
		} else {
			r.Violation("FLOORSNAP", construct, c.Pos(h.in.Pos()), "a signed difference is snapped to a multiple of the span with integer division, which truncates toward zero: for a value below the base the result is the bucket ABOVE the value (the bucket's span does not contain the value), and the bucket at the base receives the values of two spans")
		}
	}
	r.Count("signed_integer_snaps_of_a_difference", len(hits))
	// the rule has no instance on a tree that computes these snaps in floats: keep it honest with the float form
	align := c.Fn(pkgProcessor, "getTimeBucketWithAlign")
	floor := c.ExtObj("math", "Floor")
	usesFloor := len(callsTo(align, floor)) > 0
	if len(hits) == 0 {
		r.Check(usesFloor, "FLOORSNAP", "processor.getTimeBucketWithAlign:aligned-bucket-is-a-floor", c.Pos(align.Pos()),
			"the aligned bucket is computed with math.Floor", "the aligned bucket of bin/timechart is computed without math.Floor and without an integer snap the rule recognises")
	}
}

// (6) USAGEJOIN — DetermineAggColUsage folds the measures of one stats command into a per-column usage mode.
// The modes form a join semilattice (absent < NoEvalUsage, WithEvalUsage < BothUsage) and the segment-statistics
// collectors keep raw values only for WithEval/Both and numeric summaries only for NoEval/Both, so the fold
// must never lower an entry: a store of NoEvalUsage or WithEvalUsage into the usage map is allowed only where
// the key is known to be absent (the not-found edge of a comma-ok lookup of the same key, or the map is known
// to be empty) or where the entry is known to hold that same mode already; BothUsage may be stored anywhere.
func c04UsageLattice(c *core.Ctx, r *core.Report) {
	fn := c.Fn("pkg/segment/aggregations", "DetermineAggColUsage")
	both := c.ConstVal(pkgSutils, "BothUsage")
	modeT := c.NamedType(pkgSutils, "AggColUsageMode")
	var usage ssa.Value
	for _, p := range fn.Params {
		if m, ok := p.Type().Underlying().(*types.Map); ok && types.Identical(m.Elem(), modeT) {
			usage = p
		}
	}
	if usage == nil {
		panic(core.AnchorError{What: "usage map parameter of DetermineAggColUsage"})
	}
	sameKey := func(a, b ssa.Value) bool {
		if a == b {
			return true
		}
		// two loads of the same field of the same object, or two calls of the same getter without arguments
		la, ok1 := a.(*ssa.UnOp)
		lb, ok2 := b.(*ssa.UnOp)
		if ok1 && ok2 {
			fa, ok3 := la.X.(*ssa.FieldAddr)
			fb, ok4 := lb.X.(*ssa.FieldAddr)
			return ok3 && ok4 && fa.X == fb.X && fa.Field == fb.Field
		}
		ca, ok1 := a.(*ssa.Call)
		cb, ok2 := b.(*ssa.Call)
		if ok1 && ok2 && len(ca.Call.Args) == 0 && len(cb.Call.Args) == 0 {
			return ca.Call.StaticCallee() != nil && ca.Call.StaticCallee() == cb.Call.StaticCallee()
		}
		return false
	}
	n := 0
	for _, b := range fn.Blocks {
		for _, in := range b.Instrs {
			mu, ok := in.(*ssa.MapUpdate)
			if !ok || mu.Map != usage {
				continue
			}
			n++
			construct := fmt.Sprintf("%s:usage-store#%d-never-lowers-an-entry", shortFn(fn), n)
			kv, isK := core.ConstIntValue(mu.Value)
			if !isK {
				r.Undecided("USAGEJOIN", construct, c.Pos(mu.Pos()), "the stored mode is not a constant")
				continue
			}
			if kv == both {
				r.OK("USAGEJOIN", construct, c.Pos(mu.Pos()), "BothUsage is the top of the lattice")
				continue
			}
			ok = false
			why := ""
			for _, b2 := range fn.Blocks {
				for _, in2 := range b2.Instrs {
					switch x := in2.(type) {
					case *ssa.Lookup:
						if x.X != usage || !sameKey(x.Index, mu.Key) || x.Referrers() == nil {
							continue
						}
						for _, u := range *x.Referrers() {
							ex, isEx := u.(*ssa.Extract)
							if !isEx {
								continue
							}
							if ex.Index == 1 && core.BoolKnownAt(ex, b) == core.No {
								ok, why = true, "the key is known to be absent (not-found edge of a lookup of the same key)"
							}
							if ex.Index == 0 && ex.Referrers() != nil {
								for _, cu := range *ex.Referrers() {
									if cmp, isCmp := cu.(*ssa.BinOp); isCmp && cmp.Op == token.EQL {
										if k2, isK2 := core.ConstIntValue(cmp.Y); isK2 && k2 == kv && core.BoolKnownAt(cmp, b) == core.Yes {
											ok, why = true, "the entry is known to hold this mode already"
										}
									}
								}
							}
						}
					case *ssa.BinOp:
						// len(usage) == 0 known true
						if x.Op != token.EQL {
							continue
						}
						if call, isCall := x.X.(*ssa.Call); isCall {
							if bi, isB := call.Call.Value.(*ssa.Builtin); isB && bi.Name() == "len" && call.Call.Args[0] == usage {
								if k0, isK0 := core.ConstIntValue(x.Y); isK0 && k0 == 0 && core.BoolKnownAt(x, b) == core.Yes {
									ok, why = true, "the map is known to be empty"
								}
							}
						}
					}
				}
			}
			withEval := c.ConstVal(pkgSutils, "WithEvalUsage")
			tsKey := c.Obj(pkgConfig, "GetTimeStampKey")
			if call, isCall := mu.Key.(*ssa.Call); !ok && isCall && core.IsCallTo(call, tsKey) && kv == withEval {
				r.Assume("USAGEJOIN", construct, c.Pos(mu.Pos()), "accepted by reading: the key is the timestamp column, which is numeric; the collectors keep numeric summaries of a numeric column under every mode and its raw values under WithEvalUsage and BothUsage alike, so WithEvalUsage loses nothing an earlier NoEvalUsage or BothUsage entry provided (checked with min(timestamp) next to list(eval(constant)) in both orders)")
				continue
			}
			if ok {
				r.OK("USAGEJOIN", construct, c.Pos(mu.Pos()), why)
			} else {
				r.Violation("USAGEJOIN", construct, c.Pos(mu.Pos()), "a usage mode below BothUsage is stored for a column whose entry may already hold another mode: an entry of BothUsage (or of the other single mode) is lowered, the statistics collectors then keep only one of {raw values, numeric summaries} for the column, and the aggregate of the other kind is computed over nothing")
			}
		}
	}
	r.Floor("USAGEJOIN", "stores into the column usage map", n, 3)
}

// (7) DCBYTES — dc() merges one HyperLogLog sketch per segment, and a segment is answered either from its .sst
// (sketch filled at ingest) or from its records (sketch filled at query time by stats.AddSegStatsNums, which hashes the
// 8 value bytes of a number).  Both sides must hash the same bytes for the same number, or a value present in two
// segments that take different paths is counted twice.  At ingest the bytes handed to addSegStatsNums for a number
// taken from a parsed event are the 8 value bytes of its 9-byte encoding (the slice [1:9] after the type byte).
func c04DistinctCountBytes(c *core.Ctx, r *core.Report) {
	fn := c.Fn(pkgWriter, "SegStore.doLogEventFilling")
	add := c.Obj(pkgWriter, "addSegStatsNums")
	calls := callsTo(fn, add)
	r.Floor("SIBLING", "numeric statistics updates in doLogEventFilling", len(calls), 1)
	for i, call := range calls {
		arg := call.Call.Args[len(call.Call.Args)-1]
		ok := false
		if sl, isSlice := arg.(*ssa.Slice); isSlice && sl.Low != nil && sl.High != nil {
			lo, ok1 := core.ConstIntValue(sl.Low)
			hi, ok2 := core.ConstIntValue(sl.High)
			ok = ok1 && ok2 && lo == 1 && hi == 9
		}
		r.Check(ok, "SIBLING", fmt.Sprintf("%s:distinct-count-bytes#%d-are-the-8-value-bytes", shortFn(fn), i+1), c.Pos(call.Pos()),
			"the sketch is fed the slice [1:9] of the number's 9-byte encoding",
			"the bytes hashed into the column's distinct-count sketch at ingest are not provably the 8 value bytes of the number (the query-time side hashes exactly those): with a different byte string per value the ingest-time and the recomputed sketches disagree on every value, and dc() over segments answered by different paths counts shared values twice")
	}
}

// checkRunningExtremes — ACCUM (shared by C04 and C06): a running minimum / maximum kept in a struct field is folded as
// F = min/max(F, x).  A fold that reads a DIFFERENT field of the same object on its right-hand side (F = max(G, x))
// forgets what F had accumulated; for a value that is built over several batches the result then depends on how the
// input was cut into batches.  Every store of math.Min / math.Max (or the min / max builtins) into a field, one of whose
// arguments is a load of a field of the same object, loads that same field.
func checkRunningExtremes(c *core.Ctx, r *core.Report) {
	n := 0
	type hit struct {
		fn *ssa.Function
		st *ssa.Store
		f  string
		g  string
	}
	var hits []hit
	for _, fn := range c.RepoFunctions() {
		for _, b := range fn.Blocks {
			for _, in := range b.Instrs {
				st, ok := in.(*ssa.Store)
				if !ok {
					continue
				}
				fa, ok := st.Addr.(*ssa.FieldAddr)
				if !ok {
					continue
				}
				call, ok := st.Val.(*ssa.Call)
				if !ok {
					continue
				}
				isExt := false
				if f := core.CalleeFunc(call); f != nil && f.Pkg() != nil && f.Pkg().Path() == "math" && (f.Name() == "Max" || f.Name() == "Min") {
					isExt = true
				}
				if bi, ok := call.Call.Value.(*ssa.Builtin); ok && (bi.Name() == "max" || bi.Name() == "min") {
					isExt = true
				}
				if !isExt {
					continue
				}
				F := core.FieldOfAddr(fa)
				var other *ssa.FieldAddr
				same := false
				for _, a := range call.Call.Args {
					if ld, ok := a.(*ssa.UnOp); ok {
						if fa2, ok := ld.X.(*ssa.FieldAddr); ok && fa2.X == fa.X {
							if core.FieldOfAddr(fa2) == F {
								same = true
							} else {
								other = fa2
							}
						}
					}
				}
				if !same && other == nil {
					continue
				}
				n++
				if !same && other != nil {
					hits = append(hits, hit{fn, st, F.Name(), core.FieldOfAddr(other).Name()})
				}
			}
		}
	}
	sort.Slice(hits, func(i, j int) bool { return hits[i].fn.String()+hits[i].f < hits[j].fn.String()+hits[j].f })
	for _, h := range hits {
		r.Violation("ACCUM", fmt.Sprintf("%s:running-extreme(%s)-folds-its-own-field", shortFn(h.fn), h.f), c.Pos(h.st.Pos()), fmt.Sprintf("the running extreme %s is recomputed from the field %s and the new value: what %s had accumulated from earlier batches is forgotten, so the final value (and everything derived from it, e.g. an automatic bin span) depends on how the stream was cut into batches", h.f, h.g, h.f))
	}
	if len(hits) == 0 {
		r.OK("ACCUM", "running-extremes-fold-their-own-field", "-", fmt.Sprintf("%d min/max folds into struct fields, each reads the field it writes", n))
	}
	r.Floor("ACCUM", "min/max folds into struct fields", n, 4)
}

// (14) PERBUCKET — timechart with a split-by limit folds the series that are over the limit into one "other" value
// per time bucket.  The accumulator for it (TMLimitResult.OtherCValArr) is a field of a result object that lives
// for the whole conversion, so it has to be replaced by a fresh one for every time bucket: in the loop over the
// buckets of GroupByBuckets.ConvertToAggregationResult, every read of an element of the accumulator — in the
// loop itself or in a helper of the package called from it — is reached from the head of the iteration only
// through a store of the field (made in the loop, or by that helper before its own reads).  Otherwise a bucket's
// "other" value also carries the values of the buckets converted before it.
func c04PerBucketAccumulator(c *core.Ctx, r *core.Report) {
	const pkgBlockRes = "pkg/segment/results/blockresults"
	fn := c.Fn(pkgBlockRes, "GroupByBuckets.ConvertToAggregationResult")
	otherF := c.Field(pkgStructs, "TMLimitResult.OtherCValArr")
	isFieldAddr := func(v ssa.Value) bool {
		fa, ok := v.(*ssa.FieldAddr)
		return ok && core.FieldOfAddr(fa) == otherF
	}
	elemRead := func(in ssa.Instruction) bool {
		ld, ok := in.(*ssa.UnOp)
		if !ok || ld.Op != token.MUL || !isFieldAddr(ld.X) {
			return false
		}
		if refs := ld.Referrers(); refs != nil {
			for _, u := range *refs {
				ia, ok := u.(*ssa.IndexAddr)
				if !ok || ia.Referrers() == nil {
					continue
				}
				for _, eu := range *ia.Referrers() {
					if el, ok := eu.(*ssa.UnOp); ok && el.Op == token.MUL {
						return true // the element is loaded (filling the elements of a new accumulator is not a read)
					}
				}
			}
		}
		return false
	}
	fieldStore := func(in ssa.Instruction) bool {
		st, ok := in.(*ssa.Store)
		return ok && isFieldAddr(st.Addr)
	}
	// helper summary: does h read elements, and is every such read preceded in h by a store of the field?
	type hsum struct{ reads, storesFirst bool }
	sums := map[*ssa.Function]hsum{}
	summary := func(h *ssa.Function) hsum {
		if s, ok := sums[h]; ok {
			return s
		}
		var s hsum
		for _, b := range h.Blocks {
			for _, in := range b.Instrs {
				if elemRead(in) {
					s.reads = true
				}
			}
		}
		if s.reads {
			s.storesFirst = true
			core.WalkForward(h, nil, func(in ssa.Instruction) bool {
				if fieldStore(in) {
					return false
				}
				if elemRead(in) {
					s.storesFirst = false
				}
				return true
			})
		}
		sums[h] = s
		return s
	}
	kind := func(in ssa.Instruction) string {
		if fieldStore(in) {
			return "store"
		}
		if elemRead(in) {
			return "read"
		}
		if call, ok := in.(*ssa.Call); ok {
			if h := call.Call.StaticCallee(); h != nil && h.Blocks != nil && core.FnPkgPath(h) == core.FnPkgPath(fn) {
				if s := summary(h); s.reads {
					if s.storesFirst {
						return "store"
					}
					return "read"
				}
			}
		}
		return ""
	}
	nReads := 0
	allLoops := core.Loops(fn)
	for _, l := range allLoops {
		// only outermost loops that contain a read: the iteration is one time bucket
		nested := false
		for _, o := range allLoops {
			if o != l && o.Body[l.Header] {
				nested = true
			}
		}
		if nested {
			continue
		}
		var reads []ssa.Instruction
		for b := range l.Body {
			for _, in := range b.Instrs {
				if kind(in) == "read" {
					reads = append(reads, in)
				} else if call, ok := in.(*ssa.Call); ok {
					// a helper that reads the accumulator after replacing it itself
					if h := call.Call.StaticCallee(); h != nil && h.Blocks != nil && core.FnPkgPath(h) == core.FnPkgPath(fn) && summary(h).reads {
						reads = append(reads, in)
					}
				}
			}
		}
		if len(reads) == 0 {
			continue
		}
		nReads += len(reads)
		var reached ssa.Instruction
		start := l.Header.Instrs[len(l.Header.Instrs)-1]
		core.WalkForwardEdges(fn, start, func(in ssa.Instruction) bool {
			switch kind(in) {
			case "store":
				return false
			case "read":
				if reached == nil {
					reached = in
				}
			}
			return true
		}, func(from, to *ssa.BasicBlock) bool { return l.Body[to] && to != l.Header })
		construct := shortFn(fn) + ":other-series-accumulator-is-fresh-for-every-time-bucket"
		if reached != nil {
			r.Violation("LIVE", construct, c.Pos(reached.Pos()), "an element of TMLimitResult.OtherCValArr is read in an iteration of the bucket loop that has not replaced the accumulator first: the `other` value of a time bucket also carries what the buckets converted before it folded in, so events are counted in buckets that do not contain their timestamps")
		} else {
			r.OK("LIVE", construct, c.Pos(reads[0].Pos()), fmt.Sprintf("%d read(s) in the bucket loop, each reached only through a store of a fresh accumulator in the same iteration", len(reads)))
		}
	}
	r.Floor("LIVE", "reads of the timechart other-series accumulator in the bucket loop", nReads, 1)
}
