package props

import (
	"fmt"
	"go/types"
	"sort"
	"strings"

	"golang.org/x/tools/go/ssa"

	"verif/engine/internal/core"
)

// checkPooledEvent — POOL: parsed log events are recycled through writer.plePool.  Whatever an event object held in
// its previous life must not leak into the next event: an object taken from the pool carries no field value of its
// previous use when it is handed out.  Two disciplines are accepted (and recognised from the code):
//
//	reset-on-get : after Get the object's Reset is called and, together with the fields Reset assigns, every other
//	               field of the type is assigned unconditionally before the function's successful return;
//	reset-on-put : every Put of the pool in the repository is preceded (dominated) by Reset of the object put, and
//	               the fields Reset does not assign are assigned unconditionally after every Get.
//
// A field that is assigned only on some paths (for instance only when the document carries a value) keeps the
// previous event's value on the others; a Put of an object that was filled but not reset hands its columns to the
// next event that takes it.
func checkPooledEvent(c *core.Ctx, r *core.Report) {
	pool := c.Global(pkgWriter, "plePool")
	T := c.NamedType(pkgWriter, "ParsedLogEvent")
	st := T.Underlying().(*types.Struct)
	all := map[*types.Var]bool{}
	for i := 0; i < st.NumFields(); i++ {
		all[st.Field(i)] = true
	}
	resetFn := c.Fn(pkgWriter, "ParsedLogEvent.Reset")
	ra := newFieldAccess()
	collectAccess(resetFn, []ssa.Value{resetFn.Params[0]}, ra, map[*ssa.Function]bool{}, 0)
	isPoolOp := func(ci ssa.CallInstruction, name string) bool {
		f := core.CalleeFunc(ci)
		if f == nil || f.Pkg() == nil || f.Pkg().Path() != "sync" || f.Name() != name || len(ci.Common().Args) == 0 {
			return false
		}
		return ci.Common().Args[0] == ssa.Value(pool)
	}
	// all Put sites: is the object reset first?
	nPut, putsReset := 0, true
	var badPut ssa.Instruction
	for _, fn := range c.RepoFunctions() {
		for _, ci := range core.CallsIn(fn) {
			if !isPoolOp(ci, "Put") {
				continue
			}
			nPut++
			obj := ci.Common().Args[1]
			if mi, ok := obj.(*ssa.MakeInterface); ok {
				obj = mi.X
			}
			reset := false
			for _, rc := range callsTo(fn, resetFn.Object()) {
				if len(rc.Call.Args) > 0 && rc.Call.Args[0] == obj && core.InstrDominates(rc, ci) {
					reset = true
				}
			}
			if !reset {
				putsReset = false
				if badPut == nil {
					badPut = ci
				}
			}
		}
	}
	nGet := 0
	for _, fn := range c.RepoFunctions() {
		for _, ci := range core.CallsIn(fn) {
			if !isPoolOp(ci, "Get") {
				continue
			}
			nGet++
			call, _ := ci.(*ssa.Call)
			construct := fmt.Sprintf("%s:pooled-event#%d-carries-nothing-of-its-previous-use", shortFn(fn), nGet)
			if call == nil || call.Referrers() == nil {
				r.Undecided("POOL", construct, c.Pos(ci.Pos()), "the result of Get is not used as a value")
				continue
			}
			var obj ssa.Value
			for _, u := range *call.Referrers() {
				if ta, ok := u.(*ssa.TypeAssert); ok {
					obj = ta
				}
			}
			if obj == nil {
				r.Undecided("POOL", construct, c.Pos(ci.Pos()), "the result of Get is not asserted to *ParsedLogEvent")
				continue
			}
			// successful returns of the object
			var rets []*ssa.Return
			for _, ret := range core.Returns(fn) {
				if core.ReturnSuccess(ret) != core.No {
					rets = append(rets, ret)
				}
			}
			domAll := func(in ssa.Instruction) bool {
				for _, ret := range rets {
					if !core.InstrDominates(in, ret) {
						return false
					}
				}
				return len(rets) > 0
			}
			covered := map[*types.Var]bool{}
			resetAfterGet := false
			for _, b := range fn.Blocks {
				for _, in := range b.Instrs {
					switch x := in.(type) {
					case *ssa.Store:
						if fa, ok := x.Addr.(*ssa.FieldAddr); ok && fa.X == obj && domAll(in) {
							covered[core.FieldOfAddr(fa)] = true
						}
					case ssa.CallInstruction:
						callee := x.Common().StaticCallee()
						if callee == nil || len(x.Common().Args) == 0 || x.Common().Args[0] != obj || !domAll(in) || !core.InstrDominates(ci, in) {
							continue
						}
						if callee == resetFn {
							resetAfterGet = true
							continue
						}
						if callee.Signature.Recv() == nil {
							continue
						}
						// a setter: fields it assigns on every path (stores in its entry block region dominating its returns)
						for _, cb := range callee.Blocks {
							for _, cin := range cb.Instrs {
								if cst, ok := cin.(*ssa.Store); ok {
									if fa, ok := cst.Addr.(*ssa.FieldAddr); ok && fa.X == ssa.Value(callee.Params[0]) {
										dom := true
										for _, cret := range core.Returns(callee) {
											if !core.InstrDominates(cst, cret) {
												dom = false
											}
										}
										if dom {
											covered[core.FieldOfAddr(fa)] = true
										}
									}
								}
							}
						}
					}
				}
			}
			missing := func(withReset bool) []string {
				var out []string
				for f := range all {
					_, inReset := ra.writes[f]
					if covered[f] || (withReset && inReset) {
						continue
					}
					out = append(out, f.Name())
				}
				sort.Strings(out)
				return out
			}
			switch {
			case resetAfterGet && len(missing(true)) == 0:
				r.OK("POOL", construct, c.Pos(ci.Pos()), "reset-on-get: Reset after Get, and every field Reset leaves alone is assigned unconditionally before the object is handed out")
			case putsReset && nPut > 0 && len(missing(true)) == 0:
				r.OK("POOL", construct, c.Pos(ci.Pos()), "reset-on-put: every Put of the pool is preceded by Reset, and every field Reset leaves alone is assigned unconditionally after Get")
			case len(missing(true)) > 0:
				r.Violation("POOL", construct, c.Pos(ci.Pos()), "an event object taken from the pool is handed out with field(s) "+strings.Join(missing(true), ", ")+" assigned neither by Reset nor unconditionally afterwards: on the paths that skip the assignment the object keeps the value of the previous event that used it (for a timestamp: the event is stored with an unrelated earlier event's time)")
			default:
				at := c.Pos(ci.Pos())
				if badPut != nil {
					at = c.Pos(badPut.Pos())
				}
				r.Violation("POOL", construct, at, "the object is not reset after Get, and not every Put of the pool is preceded by Reset: an object that was filled (for instance by a parse that failed half-way) goes back to the pool as it is, and the columns it holds become part of the next event that takes it")
			}
		}
	}
	r.Floor("POOL", "Get sites of the parsed-event pool", nGet, 1)
	r.Floor("POOL", "Put sites of the parsed-event pool", nPut, 1)
}

// checkGenericDocumentNumbers — NUMBERS: a protocol handler that decodes a whole document into a generic
// map[string]interface{} and encodes that map again for storage must decode numbers as json.Number (a Decoder on
// which UseNumber was called): the default decoding turns every number into a float64, so integers above 2^53 are
// stored with other digits and integers near the int64 limits become a float column.
func checkGenericDocumentNumbers(c *core.Ctx, r *core.Report) {
	ingest := []string{"pkg/es/writer", "pkg/integrations", "pkg/otlp", "pkg/server/ingest"}
	isGenericDoc := func(t types.Type) bool {
		p, ok := t.Underlying().(*types.Pointer)
		if !ok {
			return false
		}
		m, ok := p.Elem().Underlying().(*types.Map)
		if !ok {
			return false
		}
		kb, ok := m.Key().Underlying().(*types.Basic)
		_, isIface := m.Elem().Underlying().(*types.Interface)
		return ok && kb.Info()&types.IsString != 0 && isIface
	}
	n := 0
	for _, fn := range c.RepoFunctions() {
		in := false
		for _, p := range ingest {
			if strings.HasPrefix(core.FnPkgPath(fn), core.ModPath+"/"+p) {
				in = true
			}
		}
		if !in || fn.Blocks == nil {
			continue
		}
		k := 0
		for _, ci := range core.CallsIn(fn) {
			cc := ci.Common()
			name := ""
			if f := core.CalleeFunc(ci); f != nil {
				name = f.Name()
			} else if cc.IsInvoke() {
				name = cc.Method.Name()
			}
			if name != "Unmarshal" && name != "Decode" {
				continue
			}
			// the decode target
			var target ssa.Value
			for _, a := range cc.Args {
				v := a
				if mi, ok := v.(*ssa.MakeInterface); ok {
					v = mi.X
				}
				if isGenericDoc(v.Type()) {
					target = v
				}
			}
			if target == nil {
				continue
			}
			// is the decoded map encoded again in this function?
			reencoded := false
			if refs := target.Referrers(); refs != nil {
				for _, u := range *refs {
					ld, ok := u.(*ssa.UnOp)
					if !ok || ld.Referrers() == nil {
						continue
					}
					for _, lu := range *ld.Referrers() {
						v := ssa.Value(nil)
						if mi, ok := lu.(*ssa.MakeInterface); ok {
							v = mi
						}
						if v == nil || v.Referrers() == nil {
							continue
						}
						for _, mu := range *v.Referrers() {
							if mc, ok := mu.(ssa.CallInstruction); ok {
								mn := ""
								if f := core.CalleeFunc(mc); f != nil {
									mn = f.Name()
								} else if mc.Common().IsInvoke() {
									mn = mc.Common().Method.Name()
								}
								if mn == "Marshal" || mn == "MarshalToString" || mn == "Encode" {
									reencoded = true
								}
							}
						}
					}
				}
			}
			if !reencoded {
				continue
			}
			n++
			k++
			construct := fmt.Sprintf("%s:generic-document-decode#%d-keeps-number-literals", shortFn(fn), k)
			usesNumber := false
			if name == "Decode" {
				// the decoder value: receiver of Decode; UseNumber called on the same value before
				recv := cc.Value
				if !cc.IsInvoke() && len(cc.Args) > 0 {
					recv = cc.Args[0]
				}
				for _, uc := range core.CallsIn(fn) {
					un := ""
					if f := core.CalleeFunc(uc); f != nil {
						un = f.Name()
					} else if uc.Common().IsInvoke() {
						un = uc.Common().Method.Name()
					}
					if un != "UseNumber" {
						continue
					}
					ur := uc.Common().Value
					if !uc.Common().IsInvoke() && len(uc.Common().Args) > 0 {
						ur = uc.Common().Args[0]
					}
					if ur == recv && core.InstrDominates(uc, ci) {
						usesNumber = true
					}
				}
			}
			r.Check(usesNumber, "NUMBERS", construct, c.Pos(ci.Pos()),
				"decoded by a Decoder with UseNumber: number literals are kept as they were sent",
				"a document is decoded into a generic map with the default number decoding (float64) and encoded again for storage: integer fields above 2^53 are stored with other digits and values near the int64 limits become floats, while the same event sent through another protocol is stored exactly")
		}
	}
	r.Floor("NUMBERS", "generic documents decoded and re-encoded on the ingest paths", n, 1)
}
