package props

import (
	"fmt"
	"go/token"
	"go/types"
	"sort"
	"strings"

	"golang.org/x/tools/go/ssa"

	"verif/engine/internal/core"
)

// checkPooledEvent — POOL: parsed log events are recycled through writer.plePool.  Whatever an event object held in
// its previous life must not leak into the next event: an object taken from the pool carries no field value of its
// previous use when it is handed out.  Two disciplines are accepted (and recognised from the code):
//
//	reset-on-get : after Get the object's Reset is called and, together with the fields Reset assigns, every other
//	               field of the type is assigned unconditionally before the function's successful return;
//	reset-on-put : every Put of the pool in the repository is preceded (dominated) by Reset of the object put, and
//	               the fields Reset does not assign are assigned unconditionally after every Get.
//
// A field that is assigned only on some paths (for instance only when the document carries a value) keeps the
// previous event's value on the others; a Put of an object that was filled but not reset hands its columns to the
// next event that takes it.
func checkPooledEvent(c *core.Ctx, r *core.Report) {
	pool := c.Global(pkgWriter, "plePool")
	T := c.NamedType(pkgWriter, "ParsedLogEvent")
	st := T.Underlying().(*types.Struct)
	all := map[*types.Var]bool{}
	for i := 0; i < st.NumFields(); i++ {
		all[st.Field(i)] = true
	}
	resetFn := c.Fn(pkgWriter, "ParsedLogEvent.Reset")
	ra := newFieldAccess()
	collectAccess(resetFn, []ssa.Value{resetFn.Params[0]}, ra, map[*ssa.Function]bool{}, 0)
	isPoolOp := func(ci ssa.CallInstruction, name string) bool {
		f := core.CalleeFunc(ci)
		if f == nil || f.Pkg() == nil || f.Pkg().Path() != "sync" || f.Name() != name || len(ci.Common().Args) == 0 {
			return false
		}
		return ci.Common().Args[0] == ssa.Value(pool)
	}
	// all Put sites: is the object reset first?
	nPut, putsReset := 0, true
	var badPut ssa.Instruction
	for _, fn := range c.RepoFunctions() {
		for _, ci := range core.CallsIn(fn) {
			if !isPoolOp(ci, "Put") {
				continue
			}
			nPut++
			obj := ci.Common().Args[1]
			if mi, ok := obj.(*ssa.MakeInterface); ok {
				obj = mi.X
			}
			reset := false
			for _, rc := range callsTo(fn, resetFn.Object()) {
				if len(rc.Call.Args) > 0 && rc.Call.Args[0] == obj && core.InstrDominates(rc, ci) {
					reset = true
				}
			}
			if !reset {
				putsReset = false
				if badPut == nil {
					badPut = ci
				}
			}
		}
	}
	nGet := 0
	for _, fn := range c.RepoFunctions() {
		for _, ci := range core.CallsIn(fn) {
			if !isPoolOp(ci, "Get") {
				continue
			}
			nGet++
			call, _ := ci.(*ssa.Call)
			construct := fmt.Sprintf("%s:pooled-event#%d-carries-nothing-of-its-previous-use", shortFn(fn), nGet)
			if call == nil || call.Referrers() == nil {
				r.Undecided("POOL", construct, c.Pos(ci.Pos()), "the result of Get is not used as a value")
				continue
			}
			var obj ssa.Value
			for _, u := range *call.Referrers() {
				if ta, ok := u.(*ssa.TypeAssert); ok {
					obj = ta
				}
			}
			if obj == nil {
				r.Undecided("POOL", construct, c.Pos(ci.Pos()), "the result of Get is not asserted to *ParsedLogEvent")
				continue
			}
			// successful returns of the object
			var rets []*ssa.Return
			for _, ret := range core.Returns(fn) {
				if core.ReturnSuccess(ret) != core.No {
					rets = append(rets, ret)
				}
			}
			domAll := func(in ssa.Instruction) bool {
				for _, ret := range rets {
					if !core.InstrDominates(in, ret) {
						return false
					}
				}
				return len(rets) > 0
			}
			covered := map[*types.Var]bool{}
			resetAfterGet := false
			for _, b := range fn.Blocks {
				for _, in := range b.Instrs {
					switch x := in.(type) {
					case *ssa.Store:
						if fa, ok := x.Addr.(*ssa.FieldAddr); ok && fa.X == obj && domAll(in) {
							covered[core.FieldOfAddr(fa)] = true
						}
					case ssa.CallInstruction:
						callee := x.Common().StaticCallee()
						if callee == nil || len(x.Common().Args) == 0 || x.Common().Args[0] != obj || !domAll(in) || !core.InstrDominates(ci, in) {
							continue
						}
						if callee == resetFn {
							resetAfterGet = true
							continue
						}
						if callee.Signature.Recv() == nil {
							continue
						}
						// a setter: fields it assigns on every path (stores in its entry block region dominating its returns)
						for _, cb := range callee.Blocks {
							for _, cin := range cb.Instrs {
								if cst, ok := cin.(*ssa.Store); ok {
									if fa, ok := cst.Addr.(*ssa.FieldAddr); ok && fa.X == ssa.Value(callee.Params[0]) {
										dom := true
										for _, cret := range core.Returns(callee) {
											if !core.InstrDominates(cst, cret) {
												dom = false
											}
										}
										if dom {
											covered[core.FieldOfAddr(fa)] = true
										}
									}
								}
							}
						}
					}
				}
			}
			missing := func(withReset bool) []string {
				var out []string
				for f := range all {
					_, inReset := ra.writes[f]
					if covered[f] || (withReset && inReset) {
						continue
					}
					out = append(out, f.Name())
				}
				sort.Strings(out)
				return out
			}
			switch {
			case resetAfterGet && len(missing(true)) == 0:
				r.OK("POOL", construct, c.Pos(ci.Pos()), "reset-on-get: Reset after Get, and every field Reset leaves alone is assigned unconditionally before the object is handed out")
			case putsReset && nPut > 0 && len(missing(true)) == 0:
				r.OK("POOL", construct, c.Pos(ci.Pos()), "reset-on-put: every Put of the pool is preceded by Reset, and every field Reset leaves alone is assigned unconditionally after Get")
			case len(missing(true)) > 0:
				r.Violation("POOL", construct, c.Pos(ci.Pos()), "an event object taken from the pool is handed out with field(s) "+strings.Join(missing(true), ", ")+" assigned neither by Reset nor unconditionally afterwards: on the paths that skip the assignment the object keeps the value of the previous event that used it (for a timestamp: the event is stored with an unrelated earlier event's time)")
			default:
				at := c.Pos(ci.Pos())
				if badPut != nil {
					at = c.Pos(badPut.Pos())
				}
				r.Violation("POOL", construct, at, "the object is not reset after Get, and not every Put of the pool is preceded by Reset: an object that was filled (for instance by a parse that failed half-way) goes back to the pool as it is, and the columns it holds become part of the next event that takes it")
			}
		}
	}
	r.Floor("POOL", "Get sites of the parsed-event pool", nGet, 1)
	r.Floor("POOL", "Put sites of the parsed-event pool", nPut, 1)
}

// checkGenericDocumentNumbers — NUMBERS: a protocol handler that decodes a whole document into a generic
// map[string]interface{} and encodes that map again for storage must decode numbers as json.Number (a Decoder on
// which UseNumber was called): the default decoding turns every number into a float64, so integers above 2^53 are
// stored with other digits and integers near the int64 limits become a float column.
func checkGenericDocumentNumbers(c *core.Ctx, r *core.Report) {
	ingest := []string{"pkg/es/writer", "pkg/integrations", "pkg/otlp", "pkg/server/ingest"}
	isGenericDoc := func(t types.Type) bool {
		p, ok := t.Underlying().(*types.Pointer)
		if !ok {
			return false
		}
		m, ok := p.Elem().Underlying().(*types.Map)
		if !ok {
			return false
		}
		kb, ok := m.Key().Underlying().(*types.Basic)
		_, isIface := m.Elem().Underlying().(*types.Interface)
		return ok && kb.Info()&types.IsString != 0 && isIface
	}
	n := 0
	for _, fn := range c.RepoFunctions() {
		in := false
		for _, p := range ingest {
			if strings.HasPrefix(core.FnPkgPath(fn), core.ModPath+"/"+p) {
				in = true
			}
		}
		if !in || fn.Blocks == nil {
			continue
		}
		k := 0
		for _, ci := range core.CallsIn(fn) {
			cc := ci.Common()
			name := ""
			if f := core.CalleeFunc(ci); f != nil {
				name = f.Name()
			} else if cc.IsInvoke() {
				name = cc.Method.Name()
			}
			if name != "Unmarshal" && name != "Decode" {
				continue
			}
			// the decode target
			var target ssa.Value
			for _, a := range cc.Args {
				v := a
				if mi, ok := v.(*ssa.MakeInterface); ok {
					v = mi.X
				}
				if isGenericDoc(v.Type()) {
					target = v
				}
			}
			if target == nil {
				continue
			}
			// is the decoded map encoded again in this function?
			reencoded := false
			if refs := target.Referrers(); refs != nil {
				for _, u := range *refs {
					ld, ok := u.(*ssa.UnOp)
					if !ok || ld.Referrers() == nil {
						continue
					}
					for _, lu := range *ld.Referrers() {
						v := ssa.Value(nil)
						if mi, ok := lu.(*ssa.MakeInterface); ok {
							v = mi
						}
						if v == nil || v.Referrers() == nil {
							continue
						}
						for _, mu := range *v.Referrers() {
							if mc, ok := mu.(ssa.CallInstruction); ok {
								mn := ""
								if f := core.CalleeFunc(mc); f != nil {
									mn = f.Name()
								} else if mc.Common().IsInvoke() {
									mn = mc.Common().Method.Name()
								}
								if mn == "Marshal" || mn == "MarshalToString" || mn == "Encode" {
									reencoded = true
								}
							}
						}
					}
				}
			}
			if !reencoded {
				continue
			}
			n++
			k++
			construct := fmt.Sprintf("%s:generic-document-decode#%d-keeps-number-literals", shortFn(fn), k)
			usesNumber := false
			if name == "Decode" {
				// the decoder value: receiver of Decode; UseNumber called on the same value before
				recv := cc.Value
				if !cc.IsInvoke() && len(cc.Args) > 0 {
					recv = cc.Args[0]
				}
				for _, uc := range core.CallsIn(fn) {
					un := ""
					if f := core.CalleeFunc(uc); f != nil {
						un = f.Name()
					} else if uc.Common().IsInvoke() {
						un = uc.Common().Method.Name()
					}
					if un != "UseNumber" {
						continue
					}
					ur := uc.Common().Value
					if !uc.Common().IsInvoke() && len(uc.Common().Args) > 0 {
						ur = uc.Common().Args[0]
					}
					if ur == recv && core.InstrDominates(uc, ci) {
						usesNumber = true
					}
				}
			}
			r.Check(usesNumber, "NUMBERS", construct, c.Pos(ci.Pos()),
				"decoded by a Decoder with UseNumber: number literals are kept as they were sent",
				"a document is decoded into a generic map with the default number decoding (float64) and encoded again for storage: integer fields above 2^53 are stored with other digits and values near the int64 limits become floats, while the same event sent through another protocol is stored exactly")
		}
	}
	r.Floor("NUMBERS", "generic documents decoded and re-encoded on the ingest paths", n, 1)
}

// checkFlattenerDispatch — FLATTEN: the JSON flattener turns every key of a document into a column.  In the per-key
// callback of ParseRawJsonObject every successful return is preceded by the hand-over of the key's value to one of the
// value handlers (the recursion for objects and arrays, parseSingleString / Number / Bool / Null): no key is dropped by
// an early `return nil`.  (The one legitimate exclusion, the root-level timestamp field, is made inside the value
// handlers on the full dotted column name; a test on the leaf key in the callback would fire at every depth.)
func checkFlattenerDispatch(c *core.Ctx, r *core.Report) {
	outer := c.Fn(pkgWriter, "ParseRawJsonObject")
	handlers := map[types.Object]bool{}
	for _, n := range []string{"ParseRawJsonObject", "parseNonJaegerRawJsonArray", "parseSingleString", "parseSingleNumber", "parseSingleBool", "parseSingleNull"} {
		handlers[c.Obj(pkgWriter, n)] = true
	}
	// the function hosting the per-key callback: ParseRawJsonObject itself, or — when that has become a wrapper
	// (options, a depth counter) — the worker of the package it hands over to: found as the functions reachable
	// from it through calls inside the package (two levels) that walk an object with jsonparser.ObjectEach.  The
	// worker is a value handler as well (it is what the recursion for objects calls).
	objectEach := c.ExtObj("github.com/buger/jsonparser", "ObjectEach")
	var hosts []*ssa.Function
	seenHost := map[*ssa.Function]bool{}
	var findHosts func(f *ssa.Function, depth int)
	findHosts = func(f *ssa.Function, depth int) {
		if f == nil || f.Blocks == nil || seenHost[f] || depth > 2 {
			return
		}
		seenHost[f] = true
		walks := false
		for _, ci := range core.CallsIn(f) {
			if core.IsCallTo(ci, objectEach) {
				walks = true
			}
		}
		if walks {
			hosts = append(hosts, f)
			if f.Object() != nil {
				handlers[f.Object()] = true
			}
			return
		}
		for _, ci := range core.CallsIn(f) {
			if h := ci.Common().StaticCallee(); h != nil && core.FnPkgPath(h) == core.FnPkgPath(outer) {
				findHosts(h, depth+1)
			}
		}
	}
	findHosts(outer, 0)
	hset := objSet{}
	for o := range handlers {
		hset[o] = true
	}
	viaHelper := newSummaries(c).successMustPred(hset)
	typeConst := map[string]int64{}
	for _, tn := range []string{"Object", "Array"} {
		if k, ok := c.ExtObj("github.com/buger/jsonparser", tn).(*types.Const); ok {
			if v, ok := constInt64(k); ok {
				typeConst[tn] = v
			}
		}
	}
	n := 0
	var callbacks []*ssa.Function
	for _, h := range hosts {
		callbacks = append(callbacks, core.Closures(h)...)
	}
	for _, cl := range callbacks {
		if len(cl.Params) < 3 {
			continue
		}
		n++
		var early *ssa.Return
		core.WalkForward(cl, nil, func(in ssa.Instruction) bool {
			if ci, ok := in.(ssa.CallInstruction); ok {
				if f := core.CalleeFunc(ci); f != nil && handlers[f.Origin()] {
					return false
				}
				// a helper of the package that has handed the value to a handler whenever it reports success
				// (one arm of the dispatch extracted into a function of its own)
				if viaHelper(ci) {
					return false
				}
			}
			if ret, ok := in.(*ssa.Return); ok && core.ReturnSuccess(ret) != core.No && early == nil && !isTimestampScalarSkip(cl, ret.Block(), typeConst) {
				early = ret
			}
			return true
		})
		if early != nil {
			r.Violation("FLATTEN", shortFn(outer)+":every-key-reaches-a-value-handler", c.Pos(early.Pos()), "the per-key callback of the JSON flattener can return successfully without handing the key's value to a value handler: the key (and, for an object or array, its whole subtree) is silently missing from the stored event")
		} else {
			r.OK("FLATTEN", shortFn(outer)+":every-key-reaches-a-value-handler", c.Pos(cl.Pos()), "every successful return of the callback is preceded by a value handler call")
		}
	}
	r.Floor("FLATTEN", "per-key callbacks of the JSON flattener", n, 1)
}

// isTimestampScalarSkip: the block lies where the full column name is known to equal the timestamp key handed to
// the flattener AND the value is known to be a scalar (its JSON type is known not to be Object and not to be
// Array): the one key the flattener may leave out, because the event's time is carried separately.  The same test
// made inside the scalar value handlers (where it lives today) or hoisted into the callback in front of them is
// accepted; a test that also covers objects and arrays drops their whole subtree and is not.
func isTimestampScalarSkip(cl *ssa.Function, b *ssa.BasicBlock, typeConst map[string]int64) bool {
	keyIsTs := false
	notObj, notArr := false, false
	isTsKey := func(v ssa.Value) bool {
		ld, ok := v.(*ssa.UnOp)
		if !ok || ld.Op != token.MUL {
			return false
		}
		switch p := ld.X.(type) {
		case *ssa.FreeVar:
			pt, ok := p.Type().Underlying().(*types.Pointer)
			return ok && types.Identical(pt.Elem(), types.Typ[types.String])
		case *ssa.Parameter:
			pt, ok := p.Type().Underlying().(*types.Pointer)
			return ok && types.Identical(pt.Elem(), types.Typ[types.String])
		case *ssa.UnOp:
			// the captured pointer is itself loaded from the closure's free variable cell
			if fv, ok := p.X.(*ssa.FreeVar); ok {
				_ = fv
				return true
			}
		}
		return false
	}
	isValueType := func(v ssa.Value) bool {
		n, ok := v.Type().(*types.Named)
		return ok && n.Obj().Name() == "ValueType"
	}
	for x := b; x != nil && x.Idom() != nil; x = x.Idom() {
		idom := x.Idom()
		ifi, ok := core.LastIf(idom)
		if !ok || len(x.Preds) != 1 || idom.Succs[0] == idom.Succs[1] {
			continue
		}
		onTrue := idom.Succs[0] == x
		bo, ok := ifi.Cond.(*ssa.BinOp)
		if !ok || (bo.Op != token.EQL && bo.Op != token.NEQ) {
			continue
		}
		equal := (bo.Op == token.EQL) == onTrue
		if (isTsKey(bo.X) || isTsKey(bo.Y)) && equal {
			// what is compared with the timestamp key must be the full dotted column name, not the member name of
			// the current nesting level (string(key) alone would drop every member called like the timestamp key,
			// at any depth)
			other := bo.X
			if isTsKey(bo.X) {
				other = bo.Y
			}
			leaf := false
			if cv, ok := other.(*ssa.Convert); ok && len(cl.Params) > 0 && cv.X == ssa.Value(cl.Params[0]) {
				leaf = true
			}
			if !leaf {
				keyIsTs = true
			}
			continue
		}
		vt, kv := bo.X, bo.Y
		if !isValueType(vt) {
			vt, kv = bo.Y, bo.X
		}
		if !isValueType(vt) {
			continue
		}
		k, isK := core.ConstIntValue(kv)
		if !isK {
			continue
		}
		if equal {
			// the type is known exactly
			if k != typeConst["Object"] {
				notObj = true
			}
			if k != typeConst["Array"] {
				notArr = true
			}
		} else {
			if k == typeConst["Object"] {
				notObj = true
			}
			if k == typeConst["Array"] {
				notArr = true
			}
		}
	}
	return keyIsTs && notObj && notArr
}

// checkIndexTimestampKey — the timestamp field of a document depends on the index it goes to (jaeger-* indexes carry
// their time in startTimeMillis; ProcessIndexRequestPle is the only place that knows the index), while GetNewPLE
// always leaves a non-zero time behind (the configured key's value or the arrival time).  So the extraction with the
// index's key has to run for EVERY event of the batch; whether its result or a fallback is stored is then decided by
// the fallback discipline (clause 1).  In ProcessIndexRequestPle no iteration of the event loop can reach the next
// one without having called ExtractTimeStamp.
func checkIndexTimestampKey(c *core.Ctx, r *core.Report) {
	fn := c.Fn(pkgEsWriter, "ProcessIndexRequestPle")
	extract := c.Obj(pkgUtils, "ExtractTimeStamp")
	// the extraction loop lives in ProcessIndexRequestPle itself or in a helper of the same package that it
	// calls on every path to a successful return (the loop extracted into a function of its own)
	type site struct {
		in   *ssa.Function
		call *ssa.Call
	}
	var sites []site
	for _, call := range callsTo(fn, extract) {
		sites = append(sites, site{fn, call})
	}
	if len(sites) == 0 {
		for _, ci := range core.CallsIn(fn) {
			cg, ok := ci.(*ssa.Call)
			if !ok {
				continue
			}
			g := cg.Call.StaticCallee()
			if g == nil || g.Blocks == nil || core.FnPkgPath(g) != core.FnPkgPath(fn) {
				continue
			}
			inner := callsTo(g, extract)
			if len(inner) == 0 {
				continue
			}
			// the helper call is not skippable: it dominates every return that may report success
			always := true
			for _, ret := range core.Returns(fn) {
				if core.ReturnSuccess(ret) == core.No {
					continue
				}
				if !core.InstrDominates(cg, ret) {
					always = false
				}
			}
			if !always {
				r.Violation("DEPENDS", fmt.Sprintf("%s:extraction-helper-%s-runs-on-every-successful-path", shortFn(fn), g.Name()), c.Pos(cg.Pos()),
					"the helper that extracts the events' times with the index's key is skipped on a path that reports success: those events keep the parse-time value or the arrival time")
			}
			for _, call := range inner {
				sites = append(sites, site{g, call})
			}
		}
	}
	// which key that is depends on the index the batch goes to — the REAL index: a name handed in may be an alias, so
	// the test that picks the key of a jaeger-* index (strings.HasPrefix(name, "jaeger-")) is made on the result of
	// AddAndGetRealIndexName, in ProcessIndexRequestPle or in a helper it hands the resolved name to
	{
		hasPrefix := c.ExtObj("strings", "HasPrefix")
		resolve := c.Obj(pkgEsWriter, "AddAndGetRealIndexName")
		scan := []*ssa.Function{fn}
		for _, ci := range core.CallsIn(fn) {
			if h := ci.Common().StaticCallee(); h != nil && h.Blocks != nil && core.FnPkgPath(h) == core.FnPkgPath(fn) {
				scan = append(scan, h)
			}
		}
		fromResolve := func(v ssa.Value) bool {
			// inside ProcessIndexRequestPle its own parameters are unresolved names; a helper's parameter stands
			// for what ProcessIndexRequestPle hands it
			depth := 1
			if in, ok := v.(ssa.Instruction); ok && in.Parent() == fn {
				depth = 0
			}
			if p, ok := v.(*ssa.Parameter); ok && p.Parent() == fn {
				return false
			}
			for _, o := range c.Origins(v, depth) {
				if o.Kind == "call" && o.Obj == resolve {
					return true
				}
				if o.Kind != "field" {
					continue
				}
				carrier, ok := o.Obj.(*types.Var)
				if !ok {
					continue
				}
				for _, g := range scan {
					for _, b := range g.Blocks {
						for _, in := range b.Instrs {
							st, ok := in.(*ssa.Store)
							if !ok {
								continue
							}
							fa, ok := st.Addr.(*ssa.FieldAddr)
							if !ok || core.FieldOfAddr(fa) != carrier {
								continue
							}
							for _, o2 := range c.Origins(st.Val, 1) {
								if o2.Kind == "call" && o2.Obj == resolve {
									return true
								}
							}
						}
					}
				}
			}
			return false
		}
		nTests := 0
		for _, g := range scan {
			for _, call := range callsTo(g, hasPrefix) {
				lit, ok := core.ConstStringValue(call.Call.Args[1])
				if !ok || !strings.HasPrefix(lit, "jaeger") {
					continue
				}
				nTests++
				resolved := fromResolve(call.Call.Args[0])
				r.Check(resolved, "DEPENDS", fmt.Sprintf("%s:jaeger-index-test#%d-on-the-resolved-index-name", shortFn(fn), nTests), c.Pos(call.Pos()),
					"the name tested is the result of AddAndGetRealIndexName",
					"the test that selects the timestamp key (and signal type) of jaeger-* indexes is made on a name that was not resolved through AddAndGetRealIndexName: spans sent through an alias of a jaeger-* index are read with the default key and stored with the arrival time")
			}
		}
		r.Floor("DEPENDS", "tests for jaeger-* indexes in ProcessIndexRequestPle", nTests, 1)
		// ... and the same resolved name is the table the batch is stored under (the open segment is created
		// with it: events stored under an alias name are answered 201 and found by no search)
		store := c.Obj(pkgWriter, "AddEntryToInMemBuf")
		nStore := 0
		for _, g := range scan {
			for _, call := range callsTo(g, store) {
				nStore++
				r.Check(fromResolve(call.Call.Args[1]), "DEPENDS", fmt.Sprintf("%s:AddEntryToInMemBuf#%d-stores-under-the-resolved-index-name", shortFn(fn), nStore), c.Pos(call.Pos()),
					"the table name handed to the store is the result of AddAndGetRealIndexName",
					"the batch is stored under a name that was not resolved through AddAndGetRealIndexName: a request addressed to an alias creates (or fills) an open segment labelled with the alias, its items are answered 201, and neither a search through the alias nor one on the real index finds them")
			}
		}
		r.Floor("DEPENDS", "store calls of ProcessIndexRequestPle", nStore, 1)
	}
	r.Floor("DEPENDS", "timestamp extractions in ProcessIndexRequestPle", len(sites), 1)
	for i, st := range sites {
		call := st.call
		loops := core.Loops(st.in)
		construct := fmt.Sprintf("%s:extraction#%d-with-the-index's-key-runs-for-every-event", shortFn(fn), i+1)
		lp := core.InnermostLoop(loops, call.Block())
		if lp == nil {
			r.Violation("DEPENDS", construct, c.Pos(call.Pos()), "the extraction with the index's timestamp key is not part of the loop over the batch's events")
			continue
		}
		skipped := false
		seen := map[*ssa.BasicBlock]bool{}
		var work []*ssa.BasicBlock
		for _, sc := range lp.Header.Succs {
			if lp.Body[sc] {
				work = append(work, sc)
				seen[sc] = true
			}
		}
		for len(work) > 0 {
			x := work[len(work)-1]
			work = work[:len(work)-1]
			if x == call.Block() {
				continue
			}
			for _, sc := range x.Succs {
				if sc == lp.Header {
					skipped = true
				}
				if lp.Body[sc] && !seen[sc] && sc != lp.Header {
					seen[sc] = true
					work = append(work, sc)
				}
			}
		}
		r.Check(!skipped, "DEPENDS", construct, c.Pos(call.Pos()),
			"every iteration of the event loop calls ExtractTimeStamp with the index's key",
			"an event can pass through ProcessIndexRequestPle without its time being extracted with the index's timestamp key (for instance because it already carries a time): the parse-time value, taken with the default key or the arrival time, is kept, so documents of an index with its own time field (jaeger-* spans: startTimeMillis) are stored with the arrival time")
	}
}

// checkInputNotClobbered — OWN: ConvertSliceToMap builds the per-index batches of a bulk request from the list of all
// parsed events, and the caller keeps using that list afterwards (it releases every event to the pool once).  The
// helper must therefore not write into its input: no append in it grows a slice that may share the backing array of
// the parameter (a bucket that starts as slice[:1] and is appended to overwrites the caller's later elements, so one
// event is released twice and a later request stores one document twice and another not at all).  The same is
// required of every slice-to-container helper of pkg/utils that returns a new container.
func checkInputNotClobbered(c *core.Ctx, r *core.Report) {
	n := 0
	var bad []string
	var badAt ssa.Instruction
	for _, fn := range c.RepoFunctions() {
		if core.FnPkgPath(fn) != core.ModPath+"/pkg/utils" || fn.Parent() != nil || fn.Blocks == nil {
			continue
		}
		// returns a map or a fresh container (not "the same slice")
		res := fn.Signature.Results()
		if res.Len() == 0 {
			continue
		}
		if _, isMap := res.At(0).Type().Underlying().(*types.Map); !isMap {
			continue
		}
		var params []ssa.Value
		for _, p := range fn.Params {
			if _, ok := p.Type().Underlying().(*types.Slice); ok {
				params = append(params, p)
			}
		}
		if len(params) == 0 {
			continue
		}
		n++
		al := &core.Alias{C: c, Scope: func(f *ssa.Function) bool { return f == fn || f.Parent() == fn }}
		for _, p := range params {
			al.AddAny(p, nil)
		}
		al.Run()
		for _, ci := range core.CallsIn(fn) {
			bi, ok := ci.Common().Value.(*ssa.Builtin)
			if !ok || bi.Name() != "append" || len(ci.Common().Args) == 0 {
				continue
			}
			if al.Has(ci.Common().Args[0]) {
				bad = append(bad, shortFn(fn))
				if badAt == nil {
					badAt = ci
				}
			}
		}
	}
	if len(bad) > 0 {
		r.Violation("OWN", "utils:container-builders-do-not-append-into-their-input", c.Pos(badAt.Pos()), "a helper that builds a new container from a slice appends to a slice that may share the input's backing array ("+strings.Join(bad, ", ")+"): the caller's list is overwritten behind its back; in the bulk handler the list of parsed events then holds one event twice, it is released to the pool twice, and a later request stores one document twice and another not at all while every item says created")
	} else {
		r.OK("OWN", "utils:container-builders-do-not-append-into-their-input", "-", fmt.Sprintf("%d map-building helpers with slice parameters, no append grows a slice that may alias a parameter", n))
	}
	r.Floor("OWN", "map-building helpers of pkg/utils with slice parameters", n, 1)
}

// checkSharedItemTemplate — the bulk response is a slice of items; every successful action's slot holds the SAME
// package-level map (resp_status_201), shared by all requests of the process.  Nothing may therefore write through an
// item: a map update whose map may be that shared template (reached through the items slice) changes the answer of
// every other item of this request and of all later requests.
func checkSharedItemTemplate(c *core.Ctx, r *core.Report) {
	tmpl := c.Global(pkgEsWriter, "resp_status_201")
	al := &core.Alias{C: c, AnyType: true, Scope: func(f *ssa.Function) bool {
		for f.Parent() != nil {
			f = f.Parent()
		}
		return core.FnPkgPath(f) == core.ModPath+"/"+pkgEsWriter
	}}
	nSeeds := 0
	initFn := map[*ssa.Function]bool{}
	for _, fn := range c.RepoFunctions() {
		if core.FnPkgPath(fn) != core.ModPath+"/"+pkgEsWriter {
			continue
		}
		for _, b := range fn.Blocks {
			for _, in := range b.Instrs {
				if ld, ok := in.(*ssa.UnOp); ok && ld.X == ssa.Value(tmpl) {
					al.AddAny(ld, nil)
					nSeeds++
				}
				// the function that builds the template (stores the fresh map into the global) may fill it
				if st, ok := in.(*ssa.Store); ok && st.Addr == ssa.Value(tmpl) {
					initFn[fn] = true
				}
			}
		}
	}
	al.Run()
	var bad ssa.Instruction
	nUpd := 0
	for _, fn := range c.RepoFunctions() {
		if core.FnPkgPath(fn) != core.ModPath+"/"+pkgEsWriter || initFn[fn] {
			continue
		}
		for _, b := range fn.Blocks {
			for _, in := range b.Instrs {
				mu, ok := in.(*ssa.MapUpdate)
				if !ok {
					continue
				}
				nUpd++
				if al.Has(mu.Map) && bad == nil {
					bad = in
				}
			}
		}
	}
	r.Floor("OWN", "uses of the shared created-item template", nSeeds, 1)
	if bad != nil {
		r.Violation("OWN", "writer:shared-created-item-template-is-never-written-through", c.Pos(bad.Pos()), "a map update is made through a value that may be the process-wide `created` item template (every successful slot of the items slice holds that one map): the first such write changes the status of every other item of the request and of all later bulk requests, which are then reported as failed although their documents are stored")
	} else {
		r.OK("OWN", "writer:shared-created-item-template-is-never-written-through", "-", fmt.Sprintf("%d map updates in the package, none through a value that may alias the template", nUpd))
	}
}

// aliasFiles describes, by effect, where the alias files of pkg/virtualtable are touched: a function of that
// package that calls os.ReadFile / os.WriteFile / os.Remove (or opens / creates a file) and that reads the
// alias directory (the package variable VTableAliasesDir) itself or through a helper of the package it calls.
// The helpers around those primitives (writeAliasFile, removeAliasFile today) are found, not named: inlining
// one into its caller or extracting the name builder leaves the set of primitives the same.
type aliasFiles struct {
	// kind of primitive per call: "read", "write", "remove"
	prims map[ssa.CallInstruction]string
	// functions hosting at least one primitive, with the kinds hosted
	hosts map[*ssa.Function]map[string]bool
	// functions of the package that change an alias file, directly or through package callees
	changers map[*ssa.Function]bool
}

func findAliasFiles(c *core.Ctx) *aliasFiles {
	af := &aliasFiles{prims: map[ssa.CallInstruction]string{}, hosts: map[*ssa.Function]map[string]bool{}, changers: map[*ssa.Function]bool{}}
	dir := c.Global(pkgVtable, "VTableAliasesDir")
	pkgPath := core.ModPath + "/" + pkgVtable
	readsDir := func(fn *ssa.Function) bool {
		for _, b := range fn.Blocks {
			for _, in := range b.Instrs {
				if u, ok := in.(*ssa.UnOp); ok && u.Op == token.MUL && u.X == ssa.Value(dir) {
					return true
				}
			}
		}
		return false
	}
	var pkgFns []*ssa.Function
	for _, fn := range c.RepoFunctions() {
		if core.FnPkgPath(fn) == pkgPath && fn.Blocks != nil {
			pkgFns = append(pkgFns, fn)
		}
	}
	for _, fn := range pkgFns {
		uses := readsDir(fn)
		for _, ci := range core.CallsIn(fn) {
			if h := ci.Common().StaticCallee(); h != nil && h.Blocks != nil && core.FnPkgPath(h) == pkgPath && len(core.Returns(h)) > 0 {
				// a name-building helper: one of its results is a string (possibly next to an error) and it reads the directory
				hasStr := false
				for i := 0; i < h.Signature.Results().Len(); i++ {
					if types.Identical(h.Signature.Results().At(i).Type(), types.Typ[types.String]) {
						hasStr = true
					}
				}
				if hasStr && readsDir(h) {
					uses = true
				}
			}
		}
		if !uses {
			continue
		}
		for _, ci := range core.CallsIn(fn) {
			f := core.CalleeFunc(ci)
			if f == nil || f.Pkg() == nil || f.Pkg().Path() != "os" {
				continue
			}
			kind := ""
			switch f.Name() {
			case "ReadFile", "Open":
				kind = "read"
			case "WriteFile", "Create", "OpenFile":
				kind = "write"
			case "Remove", "RemoveAll":
				kind = "remove"
			}
			if kind == "" {
				continue
			}
			af.prims[ci] = kind
			if af.hosts[fn] == nil {
				af.hosts[fn] = map[string]bool{}
			}
			af.hosts[fn][kind] = true
			if kind != "read" {
				af.changers[fn] = true
			}
		}
	}
	return af
}

// isChange: the call changes an alias file: a write/remove primitive, or a call of a function hosting one.
func (af *aliasFiles) isChange(ci ssa.CallInstruction) bool {
	if k, ok := af.prims[ci]; ok && k != "read" {
		return true
	}
	if h := ci.Common().StaticCallee(); h != nil && af.changers[h] {
		return true
	}
	return false
}
