package props

import (
	"fmt"
	"go/token"
	"go/types"
	"os"
	"sort"
	"strings"

	"golang.org/x/tools/go/ssa"

	"verif/engine/internal/core"
	"verif/engine/internal/locks"
)

func init() { register("C17", checkC17) }

var lockScopeC17 = []string{"pkg/segment/query", "pkg/ast/pipesearch", "pkg/segment", "pkg/querytracker", "pkg/integrations/prometheus/promql", "pkg/server/query", "pkg/scroll"}

func checkC17(c *core.Ctx, r *core.Report) {
	r.Explanation = "C17 (every query is answered or rejected, terminates, frees its resources), structural clauses only: " +
		"(1) PAIR query lifecycle — in every function that calls query.StartQuery/StartQueryAsCoordinator, each return reachable from the success edge of the start is preceded on its path by DeleteQuery (called, deferred, or delegated to a goroutine that deletes its qid on every loop exit) for the same qid variable (phi web), so no entry stays in the running/waiting tables; " +
		"(2) PAIR/LOCKORDER on the query-table locks (arqMapLock, waitingQueriesLock, RunningQueryState.rqsLock, …) in the query front-end packages; " +
		"(3) no blocking channel send while the global running-queries lock may be held (a full StateChan would block every other query), except on a channel created in the same function; " +
		"(4b) SCANALL — an index loop of the query package over the waiting queue is bounded by a length, not by a length minus a constant (a deleted or cancelled query is found wherever it waits); " +
		"(4) ASSERT — in the PromQL front end and in the Elasticsearch query-DSL walker (pkg/es/query) every unchecked type assertion on an interface value is dominated by a successful comma-ok/type-switch test of the same value to the same type, is trivially true, or asserts a parameter that every static caller passes as a value of that static type or after its own successful type test; " +
		"(7) ADMIT — in the admission loop a query taken from the waiting queue is registered in the running table by a synchronous call before canRunQuery() is evaluated again; " +
		"(8) CLEANED — DataProcessor.Fetch hands input to its processor only where isCleanupCalled, read under processorLock, is known false; " +
		"(9) TERMINAL — every state in whose arm the coordinator loop can return is a state in whose arm the multiplexer closes its output; " +
		"(6) the SQL front end re-enters itself only with a text that a regexp replacement, guarded by a successful match of the same pattern on the same text, has rewritten (progress of the recursion); (5) TABLE — every QueryState constant sent on a state channel is a case of RunQueryForNewPipeline's state switch."
	r.NotCovered = "parser termination and determinism, bounded answer time, goroutine leaks other than through the lifecycle pairing, admission-limit arithmetic, panics from other causes (index, nil)"
	a := lockAnalysis(c)
	c17Admission(c, r, newSummaries(c))
	c17ScanAll(c, r)
	c17Cleaned(c, r, a)
	c17SingleAdmitter(c, r, a, newSummaries(c))
	c17TerminalStates(c, r)

	// ---------------------------------------------------------------- (1)
	startQ := c.Obj(pkgQuery, "StartQuery")
	startC := c.Obj(pkgQuery, "StartQueryAsCoordinator")
	deleteQ := c.Obj(pkgQuery, "DeleteQuery")
	starts := objs(startQ, startC)
	nStarts := 0
	delegates := map[*ssa.Function]int{} // function -> index of the qid parameter it always deletes
	for _, fn := range c.RepoFunctions() {
		if idx, ok := deletesParamOnExit(c, fn, deleteQ); ok {
			delegates[fn] = idx
		}
	}
	for _, fn := range c.RepoFunctions() {
		if core.FnPkgPath(fn) == core.ModPath+"/"+pkgQuery {
			continue // the table's own implementation (RestartQuery hands the new qid to its caller)
		}
		for _, ci := range core.CallsIn(fn) {
			call, ok := ci.(*ssa.Call)
			if !ok || !starts.hasCallee(call) {
				continue
			}
			nStarts++
			checkLifecycle(c, r, fn, call, deleteQ, delegates)
		}
	}
	r.Floor("PAIR", "query start sites outside package query", nStarts, 3)
	// delegation relies on the state channel never being closed
	{
		stateChan := c.Field(pkgQuery, "RunningQueryState.StateChan")
		closed := 0
		for _, fn := range c.RepoFunctions() {
			for _, ci := range core.CallsIn(fn) {
				if bi, ok := ci.Common().Value.(*ssa.Builtin); ok && bi.Name() == "close" {
					for _, o := range c.Origins(ci.Common().Args[0], 1) {
						if o.Kind == "field" && o.Obj == types.Object(stateChan) {
							closed++
							r.Violation("PAIR", shortFn(fn)+":close(StateChan)", c.Pos(ci.Pos()), "a query's state channel is closed: goroutines ranging over it (manageStateForMetricsQuery) would exit without deleting the query")
						}
					}
				}
			}
		}
		if closed == 0 {
			r.OK("PAIR", "StateChan-never-closed", "-", "no close() of a RunningQueryState.StateChan exists; goroutines ranging over it exit only through their DeleteQuery returns")
		}
	}

	// ---------------------------------------------------------------- (2)
	checkPair(c, r, a, lockScopeC17, map[string]string{})
	queryLocks := func(cl locks.Class) bool { return true }
	checkLockOrder(c, r, a, lockScopeC17, queryLocks)

	// ---------------------------------------------------------------- (3)
	arq := locks.ClassOf(c.Global(pkgQuery, "arqMapLock"))
	nSend := 0
	for _, fn := range c.RepoFunctions() {
		ff := a.Facts[fn]
		if ff == nil {
			continue
		}
		for _, b := range fn.Blocks {
			for _, in := range b.Instrs {
				var ch ssa.Value
				switch x := in.(type) {
				case *ssa.Send:
					ch = x.Chan
				case *ssa.Select:
					if !x.Blocking {
						continue
					}
					for _, st := range x.States {
						if st.Dir == types.SendOnly {
							ch = st.Chan
						}
					}
				}
				if ch == nil {
					continue
				}
				held := false
				for _, h := range ff.MayHolds(in) {
					if h.Class == arq {
						held = true
					}
				}
				// lock held by the callers (caller-holds helpers like withLockRunQuery)
				if !held && callersMayHold(c, a, fn, arq, map[*ssa.Function]bool{}, 0) {
					held = true
				}
				if !held {
					continue
				}
				nSend++
				construct := fmt.Sprintf("%s:no-blocking-send-under(%s)", shortFn(fn), arq.Name)
				if _, fresh := ch.(*ssa.MakeChan); fresh {
					r.OK("HELD", construct, c.Pos(in.Pos()), "the channel was created in this function")
					continue
				}
				r.Violation("HELD", construct, c.Pos(in.Pos()), "a channel send that can block is executed while the global running-queries lock may be held: if the receiver is slow or gone the lock is never released and every other query (start, delete, status) blocks")
			}
		}
	}
	r.Count("sends_under_arqMapLock", nSend)

	// ---------------------------------------------------------------- (4)
	nAssert := 0
	for _, fn := range c.RepoFunctions() {
		if core.FnPkgPath(fn) != core.ModPath+"/pkg/integrations/prometheus/promql" {
			continue
		}
		for _, b := range fn.Blocks {
			for _, in := range b.Instrs {
				ta, ok := in.(*ssa.TypeAssert)
				if !ok || ta.CommaOk {
					continue
				}
				nAssert++
				construct := fmt.Sprintf("%s:checked-assertion(%s)", shortFn(fn), types.TypeString(ta.AssertedType, func(p *types.Package) string { return p.Name() }))
				if assertTrivial(ta) || assertGuarded(ta) {
					r.OK("ASSERT", construct, c.Pos(ta.Pos()), "dominated by a successful test of the same value, or trivially true")
				} else {
					r.Violation("ASSERT", construct, c.Pos(ta.Pos()), "unchecked type assertion on a parsed PromQL node: a query whose AST has another node kind here panics, and with no recover in the server the process exits")
				}
			}
		}
	}
	r.Floor("ASSERT", "unchecked-form assertions in the PromQL front end", nAssert, 3)

	// (4b) the Elasticsearch query-DSL walker: values decoded from the request body
	nEs := 0
	esCount := map[string]int{}
	for _, fn := range c.RepoFunctions() {
		if core.FnPkgPath(fn) != core.ModPath+"/pkg/es/query" {
			continue
		}
		for _, b := range fn.Blocks {
			for _, in := range b.Instrs {
				ta, ok := in.(*ssa.TypeAssert)
				if !ok || ta.CommaOk {
					continue
				}
				if _, isIface := ta.X.Type().Underlying().(*types.Interface); !isIface {
					continue
				}
				nEs++
				key := shortFn(fn) + ":" + types.TypeString(ta.AssertedType, func(p *types.Package) string { return p.Name() })
				esCount[key]++
				construct := fmt.Sprintf("%s#%d:checked-assertion", key, esCount[key])
				if assertTrivial(ta) || assertGuarded(ta) || assertGuardedByTypeSwitchArm(ta) || assertArgAlwaysTyped(c, ta, 0) {
					r.OK("ASSERT", construct, c.Pos(ta.Pos()), "dominated by a successful test of the same value, or trivially true")
				} else {
					r.Violation("ASSERT", construct, c.Pos(ta.Pos()), "unchecked type assertion on a value decoded from the request body: a query-DSL document with another JSON type at this place panics, and with no recover in the server the process exits")
				}
			}
		}
	}
	r.Floor("ASSERT", "unchecked-form assertions in the Elasticsearch query-DSL walker", nEs, 10)

	// ---------------------------------------------------------------- (6) the SQL front end's self-recursion makes progress
	{
		conv := c.Fn("pkg/ast/sql", "ConvertToASTNodeSQL")
		nRec := 0
		for i, call := range callsTo(conv, conv.Object()) {
			nRec++
			construct := fmt.Sprintf("sql.ConvertToASTNodeSQL:self-call#%d-re-enters-with-a-rewritten-text", i+1)
			// the text argument is the result of a rewrite function
			var rewrite *ssa.Function
			if ex, ok := call.Call.Args[0].(*ssa.Extract); ok {
				if rc, ok := ex.Tuple.(*ssa.Call); ok {
					rewrite = rc.Call.StaticCallee()
				}
			} else if rc, ok := call.Call.Args[0].(*ssa.Call); ok {
				rewrite = rc.Call.StaticCallee()
			}
			if rewrite == nil || rewrite.Blocks == nil {
				r.Violation("ORDER", construct, c.Pos(call.Pos()), "ConvertToASTNodeSQL calls itself with a text that is not the result of a rewrite step: the recursion need not terminate (stack overflow is not recoverable and ends the process)")
				continue
			}
			// in the rewrite function every success return yields R.ReplaceAllString(x, …) under R.MatchString(x) == true
			okAll, nSucc := true, 0
			why := ""
			for _, ret := range core.Returns(rewrite) {
				if core.ReturnSuccess(ret) == core.No {
					continue
				}
				nSucc++
				rep, ok := core.RetResult(ret, 0).(*ssa.Call)
				if !ok {
					okAll, why = false, "a success return does not yield the result of the replacement"
					continue
				}
				rf := core.CalleeFunc(rep)
				if rf == nil || !strings.HasPrefix(rf.Name(), "ReplaceAll") || len(rep.Call.Args) < 2 {
					okAll, why = false, "a success return does not yield the result of a regexp replacement"
					continue
				}
				re, subject := rep.Call.Args[0], rep.Call.Args[1]
				matched := false
				for _, b := range rewrite.Blocks {
					for _, in := range b.Instrs {
						mc, ok := in.(*ssa.Call)
						if !ok {
							continue
						}
						mf := core.CalleeFunc(mc)
						if mf == nil || !strings.HasPrefix(mf.Name(), "Match") || len(mc.Call.Args) < 2 {
							continue
						}
						if mc.Call.Args[0] == re && mc.Call.Args[1] == subject && core.BoolKnownAt(mc, ret.Block()) == core.Yes {
							matched = true
						}
					}
				}
				if !matched {
					okAll, why = false, "the replacement is not guarded by a successful match of the same regular expression on the same text"
				}
			}
			r.Check(okAll && nSucc > 0, "ORDER", construct, c.Pos(call.Pos()),
				"the text passed to the recursive call was produced by a regexp replacement whose pattern is known to have matched",
				"ConvertToASTNodeSQL re-enters itself with the text returned by "+rewrite.Name()+", and "+why+": a statement the guard accepts but the pattern does not match (e.g. a mixed-case DESCRIBE) is returned unchanged, the recursion never ends and the stack overflow terminates the process")
		}
		r.Floor("ORDER", "self-recursive calls of ConvertToASTNodeSQL", nRec, 1)
	}
	if os.Getenv("VERIF_EXPLORE_ASSERT") != "" {
		per := map[string]int{}
		for _, fn := range c.RepoFunctions() {
			for _, b := range fn.Blocks {
				for _, in := range b.Instrs {
					ta, ok := in.(*ssa.TypeAssert)
					if !ok || ta.CommaOk {
						continue
					}
					if _, isIface := ta.X.Type().Underlying().(*types.Interface); !isIface {
						continue
					}
					if assertTrivial(ta) || assertGuarded(ta) || assertArgAlwaysTyped(c, ta, 0) {
						continue
					}
					per[core.FnPkgPath(fn)]++
					fmt.Fprintf(os.Stderr, "EXPLORE %s %s %s\n", c.Pos(ta.Pos()), shortFn(fn), ta.AssertedType)
				}
			}
		}
	}

	// ---------------------------------------------------------------- (5)
	checkStateTable(c, r)
}

// phiWeb returns the set of values connected to v through phi edges.
func phiWeb(fn *ssa.Function, v ssa.Value) map[ssa.Value]bool {
	// union-find over all phis of fn
	parent := map[ssa.Value]ssa.Value{}
	var find func(x ssa.Value) ssa.Value
	find = func(x ssa.Value) ssa.Value {
		p, ok := parent[x]
		if !ok || p == x {
			parent[x] = x
			return x
		}
		r := find(p)
		parent[x] = r
		return r
	}
	union := func(a, b ssa.Value) { parent[find(a)] = find(b) }
	for _, b := range fn.Blocks {
		for _, in := range b.Instrs {
			if p, ok := in.(*ssa.Phi); ok {
				for _, e := range p.Edges {
					if _, isConst := e.(*ssa.Const); isConst {
						continue
					}
					union(p, e)
				}
			}
		}
	}
	root := find(v)
	web := map[ssa.Value]bool{v: true}
	for x := range parent {
		if find(x) == root {
			web[x] = true
		}
	}
	return web
}

// deletesParamOnExit: fn calls DeleteQuery(param_i) and every return that lies
// inside a loop is preceded by such a call (the goroutine pattern
// `for state := range ch { switch … { case terminal: DeleteQuery(qid); return } }`).
func deletesParamOnExit(c *core.Ctx, fn *ssa.Function, deleteQ types.Object) (int, bool) {
	idx := -1
	for _, call := range callsTo(fn, deleteQ) {
		for i, p := range fn.Params {
			if call.Call.Args[0] == ssa.Value(p) {
				idx = i
			}
		}
	}
	if idx < 0 {
		return 0, false
	}
	loops := core.Loops(fn)
	if len(loops) == 0 {
		return 0, false
	}
	param := fn.Params[idx]
	ok := true
	reached := map[*ssa.Return]bool{}
	core.WalkForward(fn, nil, func(in ssa.Instruction) bool {
		if ci, isCall := in.(ssa.CallInstruction); isCall && core.IsCallTo(ci, deleteQ) && ci.Common().Args[0] == ssa.Value(param) {
			return false
		}
		if ret, isRet := in.(*ssa.Return); isRet {
			reached[ret] = true
		}
		return true
	})
	for ret := range reached {
		if core.InnermostLoop(loops, ret.Block()) != nil {
			ok = false // a return from inside the state loop without deleting the query
		}
	}
	return idx, ok
}

func checkLifecycle(c *core.Ctx, r *core.Report, fn *ssa.Function, start *ssa.Call, deleteQ types.Object, delegates map[*ssa.Function]int) {
	qidArg := start.Call.Args[0]
	web := phiWeb(fn, qidArg)
	construct := fmt.Sprintf("%s:query-started-is-deleted(%s)", shortFn(fn), qidName(qidArg))
	errv, _ := errResultOf(start)
	isDelete := func(in ssa.Instruction) bool {
		ci, ok := in.(ssa.CallInstruction)
		if !ok {
			return false
		}
		if core.IsCallTo(ci, deleteQ) && web[ci.Common().Args[0]] {
			return true
		}
		if callee := ci.Common().StaticCallee(); callee != nil {
			if idx, ok := delegates[callee]; ok && idx < len(ci.Common().Args) && web[ci.Common().Args[idx]] {
				return true
			}
		}
		return false
	}
	// branch correlation: conditions (SSA values) known at the start site keep their truth value on every path
	known := map[ssa.Value]bool{}
	for b := start.Block(); b != nil; b = b.Idom() {
		idom := b.Idom()
		if idom == nil {
			break
		}
		if ifi, ok := core.LastIf(idom); ok && len(b.Preds) == 1 {
			if idom.Succs[0] == b {
				known[ifi.Cond] = true
			} else if idom.Succs[1] == b {
				known[ifi.Cond] = false
			}
		}
	}
	// after a successful start the query it returned is not nil: the nil edge of a test of that value (or of the
	// variable it was merged into) is not taken
	startedWeb := map[ssa.Value]bool{}
	if refs := start.Referrers(); refs != nil {
		for _, u := range *refs {
			if ex, ok := u.(*ssa.Extract); ok && ex.Index == 0 {
				for v := range phiWeb(fn, ex) {
					startedWeb[v] = true
				}
				startedWeb[ex] = true
			}
		}
	}
	edgeOK := func(from, to *ssa.BasicBlock) bool {
		if ifi, ok := core.LastIf(from); ok {
			if bo, ok := ifi.Cond.(*ssa.BinOp); ok && (bo.Op == token.EQL || bo.Op == token.NEQ) && core.IsNilConst(bo.Y) && startedWeb[bo.X] && from.Succs[0] != from.Succs[1] {
				nilSucc := from.Succs[0]
				if bo.Op == token.NEQ {
					nilSucc = from.Succs[1]
				}
				if to == nilSucc {
					return false
				}
			}
			if val, ok := known[ifi.Cond]; ok {
				if val && to == from.Succs[1] && from.Succs[0] != from.Succs[1] {
					return false
				}
				if !val && to == from.Succs[0] && from.Succs[0] != from.Succs[1] {
					return false
				}
			}
		}
		return true
	}
	var leak *ssa.Return
	var failLeak *ssa.Return // a leaking return that reports an error: never a hand-over
	core.WalkForwardEdges(fn, start, func(in ssa.Instruction) bool {
		if errv != nil && core.NilnessAt(errv, in.Block()) == core.No {
			return false // the start failed: nothing to delete
		}
		if isDelete(in) {
			return false
		}
		if ret, ok := in.(*ssa.Return); ok {
			if leak == nil {
				leak = ret
			}
			if failLeak == nil && core.ReturnSuccess(ret) == core.No {
				failLeak = ret
			}
		}
		return true
	}, edgeOK)
	if failLeak != nil {
		leak = failLeak
	}
	if leak != nil && firstStateNotReadyExit(c, start, leak) {
		r.Assume("PAIR", construct+":first-state-not-READY-exit", c.Pos(leak.Pos()),
			"this return is taken only when the first state received on the new query's own StateChan is not READY; withLockRunQuery is the only sender before the query is published and always sends READY first, so the exit is unreachable (named exception: the shape `state := <-rQuery.StateChan; if state.StateName != READY { return }` directly after the start)")
		leak = nil
		// re-walk ignoring that exit
		core.WalkForwardEdges(fn, start, func(in ssa.Instruction) bool {
			if errv != nil && core.NilnessAt(errv, in.Block()) == core.No {
				return false
			}
			if isDelete(in) {
				return false
			}
			if ret, ok := in.(*ssa.Return); ok && leak == nil && !firstStateNotReadyExit(c, start, ret) {
				leak = ret
			}
			return true
		}, edgeOK)
	}
	if leak != nil && core.ReturnSuccess(leak) != core.No && fn.Parent() == nil {
		// hand-over: a helper that starts the query and, on success, returns it to its caller does not delete it —
		// its callers do.  The return must hand the started query out (the value the start returned), and in every
		// static caller the obligation is checked from the helper's call, with the qid mapped to the caller's value.
		handsOut := false
		var started ssa.Value
		if refs := start.Referrers(); refs != nil {
			for _, u := range *refs {
				if ex, ok := u.(*ssa.Extract); ok && ex.Index == 0 {
					started = ex
				}
			}
		}
		if started != nil {
			sw := phiWeb(fn, started)
			for _, rv := range leak.Results {
				if sw[rv] || rv == started {
					handsOut = true
				}
			}
		}
		sites := c.StaticCallers()[fn]
		if handsOut && len(sites) > 0 {
			allOK := true
			for _, site := range sites {
				cs, ok := site.(*ssa.Call)
				if !ok {
					allOK = false
					continue
				}
				// the qid in the caller: the argument, or the result through which the helper returns it
				var qidInCaller ssa.Value
				if p, ok := qidArg.(*ssa.Parameter); ok {
					for i, fp := range fn.Params {
						if fp == p && i < len(cs.Call.Args) {
							qidInCaller = cs.Call.Args[i]
						}
					}
				} else {
					for j, rv := range leak.Results {
						if web[rv] {
							if refs := cs.Referrers(); refs != nil {
								for _, u := range *refs {
									if ex, ok := u.(*ssa.Extract); ok && ex.Index == j {
										qidInCaller = ex
									}
								}
							}
						}
					}
				}
				if qidInCaller == nil {
					allOK = false
					continue
				}
				caller := cs.Parent()
				cweb := phiWeb(caller, qidInCaller)
				cerr, _ := errResultOf(cs)
				isCallerDelete := func(in ssa.Instruction) bool {
					ci, ok := in.(ssa.CallInstruction)
					if !ok {
						return false
					}
					if core.IsCallTo(ci, deleteQ) && cweb[ci.Common().Args[0]] {
						return true
					}
					if callee := ci.Common().StaticCallee(); callee != nil {
						if idx, ok := delegates[callee]; ok && idx < len(ci.Common().Args) && cweb[ci.Common().Args[idx]] {
							return true
						}
					}
					return false
				}
				// the helper starts this query only under a condition (a companion query that may not exist): the
				// caller then deletes it under a condition too.  The two conditions are not compared (they are
				// computed in different functions); a test whose guarded arm deletes the query is taken to be the
				// condition under which it was started (named assumption)
				conditionalStart := false
				for _, ret := range core.Returns(fn) {
					if core.ReturnSuccess(ret) != core.No && !start.Block().Dominates(ret.Block()) {
						conditionalStart = true
					}
				}
				guardedDelete := map[*ssa.BasicBlock]bool{}
				if conditionalStart {
					for _, gb := range caller.Blocks {
						if _, ok := core.LastIf(gb); !ok {
							continue
						}
						for _, arm := range gb.Succs {
							if len(arm.Preds) != 1 {
								continue
							}
							for _, in := range arm.Instrs {
								if isCallerDelete(in) {
									guardedDelete[gb] = true
								}
							}
						}
					}
				}
				usedGuard := false
				var cleak *ssa.Return
				core.WalkForwardEdges(caller, cs, func(in ssa.Instruction) bool {
					if cerr != nil && core.NilnessAt(cerr, in.Block()) == core.No {
						return false
					}
					if isCallerDelete(in) {
						return false
					}
					if ret, ok := in.(*ssa.Return); ok && cleak == nil {
						cleak = ret
					}
					return true
				}, func(from, to *ssa.BasicBlock) bool {
					if guardedDelete[from] {
						usedGuard = true
						return false
					}
					return true
				})
				if usedGuard && cleak == nil {
					r.Assume("PAIR", construct+":caller-deletes-under-the-start-condition", c.Pos(cs.Pos()), fn.Name()+" starts this query only under a condition and "+caller.Name()+" deletes it under a test of its own; the two conditions are taken to be the same (they are computed in different functions and are not compared)")
				}
				if cleak != nil {
					allOK = false
					r.Violation("PAIR", construct, c.Pos(cleak.Pos()), fmt.Sprintf("%s starts the query and hands it to %s, where this return is reachable without DeleteQuery for it: its entry stays in the running/waiting tables and keeps an admission slot forever", fn.Name(), caller.Name()))
				}
			}
			if allOK {
				r.OK("PAIR", construct, c.Pos(start.Pos()), "on success the started query is handed to the caller, where every return after the call is preceded by DeleteQuery for the same qid")
			}
			return
		}
	}
	if leak != nil {
		r.Violation("PAIR", construct, c.Pos(leak.Pos()), fmt.Sprintf("after %s succeeded at %s this return is reachable without DeleteQuery for that query: its entry stays in the running/waiting tables and keeps an admission slot forever", core.ObjName(core.CalleeFunc(start)), c.Pos(start.Pos())))
		return
	}
	r.OK("PAIR", construct, c.Pos(start.Pos()), "every return after a successful start is preceded by DeleteQuery (direct, deferred or delegated) for the same qid variable")
}

func qidName(v ssa.Value) string {
	switch x := v.(type) {
	case *ssa.Parameter:
		return x.Name()
	case *ssa.Phi:
		if x.Comment != "" {
			return x.Comment
		}
	case *ssa.Call:
		if f := core.CalleeFunc(x); f != nil {
			return "result-of-" + f.Name()
		}
	}
	return "qid"
}

// callersMayHold: some static caller chain reaches fn with cl may-held.
func callersMayHold(c *core.Ctx, a *locks.Analysis, fn *ssa.Function, cl locks.Class, seen map[*ssa.Function]bool, depth int) bool {
	if seen[fn] || depth > 4 {
		return false
	}
	seen[fn] = true
	for _, site := range c.StaticCallers()[fn] {
		if _, isGo := site.(*ssa.Go); isGo {
			continue
		}
		caller := site.Parent()
		if ff := a.Facts[caller]; ff != nil {
			for _, h := range ff.MayHolds(site) {
				if h.Class == cl {
					return true
				}
			}
		}
		if callersMayHold(c, a, caller, cl, seen, depth+1) {
			return true
		}
	}
	return false
}

// assertTrivial: the operand is an interface value just built from a value
// whose static type is the asserted type.
func assertTrivial(ta *ssa.TypeAssert) bool {
	if mi, ok := ta.X.(*ssa.MakeInterface); ok {
		return types.Identical(mi.X.Type(), ta.AssertedType)
	}
	return false
}

// checkStateTable: QueryState constants sent vs handled.
func checkStateTable(c *core.Ctx, r *core.Report) {
	qs := c.NamedType(pkgQuery, "QueryState")
	stateName := c.Field(pkgQuery, "QueryStateChanData.StateName")
	// produced: constants stored into QueryStateChanData.StateName anywhere
	produced := map[int64]string{}
	for _, fn := range c.RepoFunctions() {
		for _, b := range fn.Blocks {
			for _, in := range b.Instrs {
				st, ok := in.(*ssa.Store)
				if !ok || !isFieldAddrOf(st.Addr, stateName) {
					continue
				}
				if k, ok := core.ConstIntValue(st.Val); ok {
					produced[k] = c.Pos(st.Pos())
				}
			}
		}
	}
	// handled: comparisons of a QueryState value with constants in RunQueryForNewPipeline
	run := c.Fn("pkg/ast/pipesearch", "RunQueryForNewPipeline")
	handled := map[int64]bool{}
	for _, b := range run.Blocks {
		for _, in := range b.Instrs {
			bo, ok := in.(*ssa.BinOp)
			if !ok || !types.Identical(bo.X.Type(), qs) {
				continue
			}
			if k, ok := core.ConstIntValue(bo.Y); ok {
				handled[k] = true
			}
		}
	}
	names := map[int64]string{}
	scope := c.Pkg(pkgQuery).Types.Scope()
	for _, n := range scope.Names() {
		if k, ok := scope.Lookup(n).(*types.Const); ok && types.Identical(k.Type(), qs) {
			if v, ok := core.ConstIntValue(ssa.NewConst(k.Val(), k.Type())); ok {
				names[v] = n
			}
		}
	}
	var ks []int64
	for k := range produced {
		ks = append(ks, k)
	}
	sort.Slice(ks, func(i, j int) bool { return ks[i] < ks[j] })
	for _, k := range ks {
		n := names[k]
		if n == "" {
			n = fmt.Sprint(k)
		}
		r.Check(handled[k], "TABLE", "query-state-handled("+n+")", produced[k], "produced on a state channel and handled by RunQueryForNewPipeline", "this query state is sent on a state channel but RunQueryForNewPipeline has no case for it: the coordinator loop would ignore it and never finish the query")
	}
	r.Floor("TABLE", "query states produced", len(produced), 5)
	_ = strings.TrimSpace
}

// firstStateNotReadyExit: ret lies on the true edge of `x.StateName != READY`
// where x is received from the StateChan of the query returned by start, and
// that receive is the first one after the start (it dominates ret and no other
// receive on that channel lies between).
func firstStateNotReadyExit(c *core.Ctx, start *ssa.Call, ret *ssa.Return) bool {
	stateChan := c.Field(pkgQuery, "RunningQueryState.StateChan")
	stateName := c.Field(pkgQuery, "QueryStateChanData.StateName")
	ready := c.ConstVal(pkgQuery, "READY")
	var rq ssa.Value
	if _, others := errResultOf(start); len(others) > 0 {
		rq = others[0]
	}
	if rq == nil {
		return false
	}
	for b := ret.Block(); b != nil; b = b.Idom() {
		idom := b.Idom()
		if idom == nil {
			break
		}
		ifi, ok := core.LastIf(idom)
		if !ok || idom.Succs[0] != b || len(b.Preds) != 1 {
			continue
		}
		bo, ok := ifi.Cond.(*ssa.BinOp)
		if !ok || bo.Op.String() != "!=" {
			continue
		}
		k, ok := core.ConstIntValue(bo.Y)
		if !ok || k != ready {
			continue
		}
		ld, ok := bo.X.(*ssa.UnOp)
		if !ok {
			continue
		}
		fa, ok := ld.X.(*ssa.FieldAddr)
		if !ok || core.FieldOfAddr(fa) != stateName {
			continue
		}
		recv, ok := fa.X.(*ssa.UnOp) // <-ch
		if !ok || recv.Op.String() != "<-" {
			continue
		}
		chLoad, ok := recv.X.(*ssa.UnOp)
		if !ok {
			continue
		}
		cfa, ok := chLoad.X.(*ssa.FieldAddr)
		if !ok || core.FieldOfAddr(cfa) != stateChan || cfa.X != rq {
			continue
		}
		// first receive: no other receive from this query's channel dominates this one
		first := true
		for _, bb := range start.Parent().Blocks {
			for _, in := range bb.Instrs {
				if u, ok := in.(*ssa.UnOp); ok && u != recv && u.Op.String() == "<-" && core.InstrDominates(start, u) && core.InstrDominates(u, recv) {
					first = false
				}
			}
		}
		return first
	}
	return false
}

// assertGuardedByTypeSwitchArm: `switch t := v.(type) { case T: ... v.(T) ...}` — the assertion of the same value
// to T inside the arm whose comma-ok test of T succeeded (handled by assertGuarded), or the asserted value is the
// result of a reflect/kind test; placeholder for idioms found while arming the rule.
func assertGuardedByTypeSwitchArm(ta *ssa.TypeAssert) bool { return false }

// assertArgAlwaysTyped: the asserted value is a parameter and every static caller passes a value that is
// statically of the asserted type (a map key, a literal, a typed local converted to interface at the call).
func assertArgAlwaysTyped(c *core.Ctx, ta *ssa.TypeAssert, depth int) bool {
	p, ok := ta.X.(*ssa.Parameter)
	if !ok {
		return false
	}
	return paramAlwaysTyped(c, p, ta.AssertedType, depth)
}

func paramAlwaysTyped(c *core.Ctx, p *ssa.Parameter, t types.Type, depth int) bool {
	if depth > 3 {
		return false
	}
	fn := p.Parent()
	idx := -1
	for i, q := range fn.Params {
		if q == p {
			idx = i
		}
	}
	sites := c.StaticCallers()[fn]
	if idx < 0 || len(sites) == 0 {
		return false
	}
	for _, ci := range sites {
		a := ci.Common().Args[idx]
		switch x := a.(type) {
		case *ssa.MakeInterface:
			if !types.Identical(x.X.Type(), t) {
				return false
			}
		case *ssa.Parameter:
			if !typeKnownAt(x, t, ci.Block()) && !paramAlwaysTyped(c, x, t, depth+1) {
				return false
			}
		default:
			// the caller tested the value's type (type-switch arm) before the call
			if !typeKnownAt(a, t, ci.Block()) {
				return false
			}
		}
	}
	return true
}
