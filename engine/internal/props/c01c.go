package props

import (
	"fmt"
	"go/token"

	"golang.org/x/tools/go/ssa"

	"verif/engine/internal/core"
)

// c01ConstantSize — C01 clause CONSTSIZE (added after seeded change C01-m13).  SegStore.AllSeenColumnSizes tells the
// reader "every record of this column has this encoded length", and the reader then seeks by multiplication instead
// of decoding lengths.  A column that first appears when the store already holds records gets backfill markers of a
// different length for the earlier records (MIDBLOCK), and those markers are not reported to the size table: the
// twin of the backfill predicate must therefore govern the table.  Rule: a write of anything but
// INCONSISTENT_CVAL_SIZE into the table lies where the store's record count is known to be zero (an edge of a
// comparison of RecordCount with 0 dominates it).
func c01ConstantSize(c *core.Ctx, r *core.Report) {
	tbl := c.Field(pkgWriter, "SegStore.AllSeenColumnSizes")
	rc := c.Field(pkgWriter, "SegStore.RecordCount")
	inc := c.ConstVal(pkgSutils, "INCONSISTENT_CVAL_SIZE")
	isRC := func(v ssa.Value) bool {
		for i := 0; i < 3; i++ {
			if cv, ok := v.(*ssa.Convert); ok {
				v = cv.X
			}
		}
		ld, ok := v.(*ssa.UnOp)
		if !ok {
			return false
		}
		fa, ok := ld.X.(*ssa.FieldAddr)
		return ok && core.FieldOfAddr(fa) == rc
	}
	nConst, nInc := 0, 0
	for _, fn := range c.RepoFunctions() {
		if core.FnPkgPath(fn) != core.ModPath+"/"+pkgWriter {
			continue
		}
		k := 0
		for _, b := range fn.Blocks {
			for _, in := range b.Instrs {
				mu, ok := in.(*ssa.MapUpdate)
				if !ok {
					continue
				}
				ld, ok := mu.Map.(*ssa.UnOp)
				if !ok {
					continue
				}
				fa, ok := ld.X.(*ssa.FieldAddr)
				if !ok || core.FieldOfAddr(fa) != tbl {
					continue
				}
				if v, ok := core.ConstIntValue(mu.Value); ok && (v == inc || uint32(v) == uint32(inc)) {
					nInc++
					continue
				}
				nConst++
				k++
				construct := fmt.Sprintf("%s:constant-size#%d-recorded-only-for-a-column-present-from-record-0", shortFn(fn), k)
				zero := false
				for d := b; d != nil && !zero; d = d.Idom() {
					id := d.Idom()
					if id == nil {
						break
					}
					ifi, ok := core.LastIf(id)
					if !ok || len(id.Succs) != 2 {
						continue
					}
					bo, ok := ifi.Cond.(*ssa.BinOp)
					if !ok {
						continue
					}
					x, y, op := bo.X, bo.Y, bo.Op
					if kv, ok := core.ConstIntValue(x); ok && kv == 0 && isRC(y) { // 0 < rc
						x, y = y, x
						switch op {
						case token.LSS:
							op = token.GTR
						case token.GTR:
							op = token.LSS
						case token.LEQ:
							op = token.GEQ
						case token.GEQ:
							op = token.LEQ
						}
					}
					kv, ok := core.ConstIntValue(y)
					if !ok || kv != 0 || !isRC(x) {
						continue
					}
					var zeroEdge *ssa.BasicBlock
					switch op {
					case token.GTR, token.NEQ: // rc > 0, rc != 0: zero on the false edge
						zeroEdge = id.Succs[1]
					case token.EQL, token.LEQ: // rc == 0, rc <= 0: zero on the true edge
						zeroEdge = id.Succs[0]
					}
					if zeroEdge != nil && core.EdgeDominates(id, zeroEdge, b) {
						zero = true
					}
				}
				r.Check(zero, "CONSTSIZE", construct, c.Pos(mu.Pos()), "recorded where the store's record count is known to be zero", "a constant encoded length is recorded for a column while the store may already hold records: the earlier records of that column are backfill markers of another length, which the size table never hears about; the reader then seeks by multiplication and hands back the values of the wrong records (a column that first appears mid-way with equal-length values, above the dictionary limit)")
			}
		}
	}
	r.Floor("CONSTSIZE", "constant sizes recorded in AllSeenColumnSizes", nConst, 1)
	r.Count("inconsistent_size_marks", nInc)
}
