package props

import (
	"fmt"
	"go/token"
	"go/types"

	"golang.org/x/tools/go/ssa"

	"verif/engine/internal/core"
)

// (10) REWRITE — the query-tree simplifier may replace a node by one of its children only where that keeps the
// meaning of the node:
//
//	AND node replaced by child X : the OTHER child is known to be match-all   (* AND x = x)
//	OR  node replaced by child X : X ITSELF is known to be match-all          (* OR x = *)
//	any other node kind          : never
//
// "known" means: the test dominates the replacement on its accepting edge.  The replacement is recognised by
// its shape (*n = *n.Left / *n = *n.Right: a store through the receiver of a value loaded through one of the
// receiver's child pointers), in every function of the ast package that has a *Node receiver.
func c02Rewrite(c *core.Ctx, r *core.Report) {
	nodeT := c.NamedType("pkg/ast", "Node")
	leftF, rightF := c.Field("pkg/ast", "Node.Left"), c.Field("pkg/ast", "Node.Right")
	typeF := c.Field("pkg/ast", "Node.NodeType")
	isMatchAll := c.Fn("pkg/ast", "Node.isMatchAll")
	andK, orK := c.ConstVal("pkg/ast", "NodeAnd"), c.ConstVal("pkg/ast", "NodeOr")
	n := 0
	for _, fn := range c.RepoFunctions() {
		if core.FnPkgPath(fn) != core.ModPath+"/pkg/ast" || fn.Signature.Recv() == nil || len(fn.Params) == 0 {
			continue
		}
		pt, ok := fn.Params[0].Type().(*types.Pointer)
		if !ok || !types.Identical(pt.Elem(), nodeT) {
			continue
		}
		recv := ssa.Value(fn.Params[0])
		childOf := func(v ssa.Value) *types.Var {
			// v = *(recv.Left) or *(recv.Right) as a pointer value
			ld, ok := v.(*ssa.UnOp)
			if !ok || ld.Op != token.MUL {
				return nil
			}
			fa, ok := ld.X.(*ssa.FieldAddr)
			if !ok || fa.X != recv {
				return nil
			}
			f := core.FieldOfAddr(fa)
			if f == leftF || f == rightF {
				return f
			}
			return nil
		}
		perChild := map[*types.Var]int{}
		for _, b := range fn.Blocks {
			for _, in := range b.Instrs {
				st, ok := in.(*ssa.Store)
				if !ok || st.Addr != recv {
					continue
				}
				// the stored struct value is a load through a child pointer
				ld, ok := st.Val.(*ssa.UnOp)
				if !ok || ld.Op != token.MUL {
					continue
				}
				child := childOf(ld.X)
				if child == nil {
					continue
				}
				n++
				perChild[child]++
				construct := fmt.Sprintf("%s:replace-by-%s#%d-keeps-the-meaning", shortFn(fn), child.Name(), perChild[child])
				// node kind known here?
				kind := ""
				for _, b2 := range fn.Blocks {
					for _, in2 := range b2.Instrs {
						bo, ok := in2.(*ssa.BinOp)
						if !ok || bo.Op != token.EQL {
							continue
						}
						tl, ok := bo.X.(*ssa.UnOp)
						if !ok {
							continue
						}
						fa, ok := tl.X.(*ssa.FieldAddr)
						if !ok || fa.X != recv || core.FieldOfAddr(fa) != typeF {
							continue
						}
						kv, ok := core.ConstIntValue(bo.Y)
						if !ok || core.BoolKnownAt(bo, b) != core.Yes {
							continue
						}
						switch kv {
						case andK:
							kind = "AND"
						case orK:
							kind = "OR"
						default:
							kind = "other"
						}
					}
				}
				knownMatchAll := func(f *types.Var) bool {
					for _, ci := range core.CallsIn(fn) {
						call, ok := ci.(*ssa.Call)
						if !ok || ci.Common().StaticCallee() != isMatchAll || len(call.Call.Args) == 0 {
							continue
						}
						if childOf(call.Call.Args[0]) == f && core.BoolKnownAt(call, b) == core.Yes {
							return true
						}
					}
					return false
				}
				other := leftF
				if child == leftF {
					other = rightF
				}
				switch kind {
				case "AND":
					r.Check(knownMatchAll(other), "REWRITE", construct, c.Pos(st.Pos()),
						"an AND node is replaced by one operand only where the other operand is known to be match-all",
						"an AND node is replaced by its "+child.Name()+" operand where the "+other.Name()+" operand is not known to be match-all: the other operand's condition is dropped from the search")
				case "OR":
					r.Check(knownMatchAll(child), "REWRITE", construct, c.Pos(st.Pos()),
						"an OR node is replaced by an operand only where that operand is known to be match-all",
						"an OR node is replaced by its "+child.Name()+" operand where that operand is not known to be match-all (`x OR *` must become `*`, not `x`): events that satisfy only the other operand are lost")
				default:
					r.Violation("REWRITE", construct, c.Pos(st.Pos()), "a node whose kind is not known to be AND or OR at this point is replaced by one of its operands")
				}
			}
		}
	}
	r.Floor("REWRITE", "node-by-child replacements in the query tree simplifier", n, 2)
}

// (11) BLOOMTWIN — a text filter matches case-insensitively, and the block bloom filter is probed with the
// lower-cased literal.  So whenever the ingest side adds a piece of a value to the block bloom in its original
// spelling, it must also add that piece lower-cased if the value has an upper-case letter (utils.HasUpper).
// For every original-form bloom insertion O(s) in addToBlockBloomBothCasesWithBuf: on the assumption that the
// upper-case flag is true, no path from O reaches a successful return, or O again, without passing an
// insertion of BytesToLower(s') where s' is the same piece (the same value, or a slice of the same base with
// the same bounds).
func c02BloomTwin(c *core.Ctx, r *core.Report) {
	fn := c.Fn(pkgWriter, "addToBlockBloomBothCasesWithBuf")
	hasUpper := c.Obj("pkg/utils", "HasUpper")
	toLower := c.Obj("pkg/utils", "BytesToLower")
	var flag *ssa.Call
	for _, call := range callsTo(fn, hasUpper) {
		flag = call
	}
	if flag == nil {
		r.Undecided("BLOOMTWIN", shortFn(fn)+":upper-case-flag", c.Pos(fn.Pos()), "utils.HasUpper is not called: the rule's slot cannot be filled")
		return
	}
	isAdd := func(ci ssa.CallInstruction) (ssa.Value, bool) {
		f := core.CalleeFunc(ci)
		if f == nil || f.Name() != "TestAndAdd" || len(ci.Common().Args) < 2 {
			if f == nil || (f.Name() != "TestAndAdd" && f.Name() != "Add") {
				return nil, false
			}
		}
		args := ci.Common().Args
		return args[len(args)-1], true
	}
	// lower-cased pieces: value -> the piece it was made from
	lowered := map[ssa.Value]ssa.Value{}
	for _, call := range callsTo(fn, toLower) {
		if refs := call.Referrers(); refs != nil {
			for _, u := range *refs {
				if ex, ok := u.(*ssa.Extract); ok && ex.Index == 0 {
					lowered[ex] = call.Call.Args[0]
				}
			}
		}
	}
	samePiece := func(a, b ssa.Value) bool {
		if a == b {
			return true
		}
		sa, ok1 := a.(*ssa.Slice)
		sb, ok2 := b.(*ssa.Slice)
		return ok1 && ok2 && sa.X == sb.X && sa.Low == sb.Low && sa.High == sb.High
	}
	type add struct {
		ci    ssa.CallInstruction
		piece ssa.Value
		lower bool
	}
	var adds []add
	for _, ci := range core.CallsIn(fn) {
		arg, ok := isAdd(ci)
		if !ok {
			continue
		}
		if src, isLower := lowered[arg]; isLower {
			adds = append(adds, add{ci, src, true})
		} else {
			adds = append(adds, add{ci, arg, false})
		}
	}
	n := 0
	for _, o := range adds {
		if o.lower {
			continue
		}
		n++
		construct := fmt.Sprintf("%s:original-form-insertion#%d-has-a-lower-case-twin", shortFn(fn), n)
		twins := map[ssa.Instruction]bool{}
		for _, t := range adds {
			if t.lower && samePiece(t.piece, o.piece) {
				twins[t.ci] = true
			}
		}
		var escape ssa.Instruction
		core.WalkForwardEdges(fn, o.ci, func(in ssa.Instruction) bool {
			if twins[in] {
				return false
			}
			if in == ssa.Instruction(o.ci) {
				if escape == nil {
					escape = in
				}
				return false
			}
			if ret, ok := in.(*ssa.Return); ok && core.ReturnSuccess(ret) != core.No && escape == nil {
				escape = in
			}
			return true
		}, func(from, to *ssa.BasicBlock) bool {
			ifi, ok := core.LastIf(from)
			if !ok {
				return true
			}
			cond, neg := ifi.Cond, false
			if u, ok := cond.(*ssa.UnOp); ok && u.Op == token.NOT {
				cond, neg = u.X, true
			}
			if cond != ssa.Value(flag) {
				return true
			}
			// the value has an upper-case letter: only the flag's true edge is taken
			if !neg {
				return to == from.Succs[0]
			}
			return to == from.Succs[1]
		})
		if escape != nil {
			r.Violation("BLOOMTWIN", construct, c.Pos(o.ci.Pos()), "a piece of the value is added to the block bloom in its original spelling, but for a value with an upper-case letter there is a path to "+c.Pos(escape.Pos())+" that never adds the same piece lower-cased: the bloom is probed with the lower-cased literal, so the block is pruned for a filter that differs from the stored value only in case")
		} else {
			r.OK("BLOOMTWIN", construct, c.Pos(o.ci.Pos()), "for a value with an upper-case letter every path from this insertion passes the insertion of the same piece lower-cased")
		}
	}
	r.Floor("BLOOMTWIN", "original-form bloom insertions", n, 3)
}

// (12) NEGDICT — for a negated match filter the record-level pass is the second of two passes over the block: the
// dictionary pass has already marked (positively) the records whose dictionary-encoded columns contain the term.
// A record may therefore be added as a hit of the negated filter only where the dictionary pass's mark for it
// (blockHelper.DoesRecordMatch) is known to be absent — otherwise `NOT word` keeps every event whose occurrence of
// the word sits in a dictionary-encoded column, and `word` and `NOT word` overlap.  On every path from the edge on
// which NegateMatch is true to an AddMatchedRecord call, that call lies where DoesRecordMatch is known false.
func c02NegationAndDictionaryPass(c *core.Ctx, r *core.Report) {
	fn := c.Fn("pkg/segment/search", "filterRecordsFromSearchQuery")
	negF := c.Field(pkgStructs, "MatchFilter.NegateMatch")
	add := c.Obj("pkg/segment/structs", "BlockSearchHelper.AddMatchedRecord")
	does := c.Obj("pkg/segment/structs", "BlockSearchHelper.DoesRecordMatch")
	// edges on which the flag is true
	var starts []*ssa.BasicBlock
	for _, b := range fn.Blocks {
		ifi, ok := core.LastIf(b)
		if !ok {
			continue
		}
		cond, neg := ifi.Cond, false
		if u, ok := cond.(*ssa.UnOp); ok && u.Op == token.NOT {
			cond, neg = u.X, true
		}
		ld, ok := cond.(*ssa.UnOp)
		if !ok {
			continue
		}
		fa, ok := ld.X.(*ssa.FieldAddr)
		if !ok || core.FieldOfAddr(fa) != negF {
			continue
		}
		if neg {
			starts = append(starts, b.Succs[1])
		} else {
			starts = append(starts, b.Succs[0])
		}
	}
	r.Floor("GUARD", "tests of NegateMatch in filterRecordsFromSearchQuery", len(starts), 1)
	dcalls := callsTo(fn, does)
	n := 0
	seen := map[*ssa.BasicBlock]bool{}
	var work []*ssa.BasicBlock
	for _, s := range starts {
		if !seen[s] {
			seen[s] = true
			work = append(work, s)
		}
	}
	reported := map[ssa.Instruction]bool{}
	// the flag does not change during the scan of a block: the walk stays inside one iteration of the record loop
	loops := core.Loops(fn)
	for _, s := range starts {
		if lp := core.InnermostLoop(loops, s); lp != nil {
			seen[lp.Header] = true
		}
	}
	for len(work) > 0 {
		b := work[len(work)-1]
		work = work[:len(work)-1]
		for _, in := range b.Instrs {
			ci, ok := in.(ssa.CallInstruction)
			if !ok || !core.IsCallTo(ci, add) || reported[in] {
				continue
			}
			reported[in] = true
			n++
			ok = false
			for _, d := range dcalls {
				if core.BoolKnownAt(d, b) == core.No {
					ok = true
				}
			}
			r.Check(ok, "GUARD", fmt.Sprintf("%s:negated-hit#%d-only-where-the-dictionary-pass-found-nothing", shortFn(fn), n), c.Pos(in.Pos()),
				"the record is added under a negated filter only where DoesRecordMatch is known false",
				"with a negated match filter a record is added as a hit without knowing that the dictionary pass left it unmarked: events whose occurrence of the term sits in a dictionary-encoded column satisfy both `term` and `NOT term`")
		}
		for _, s := range b.Succs {
			if !seen[s] {
				seen[s] = true
				work = append(work, s)
			}
		}
	}
	r.Floor("GUARD", "hits added on paths where the filter is negated", n, 1)
}

// (13) FLOATVIEW — a DtypeEnclosure carries one number in three views (SignedVal, UnsignedVal, FloatVal) and a tag
// saying which one is the number; the comparison code reads the float view whenever the other operand is a float.
// Wherever code fills the float view of an enclosure whose tag it has just set, the float must be computed from the
// member the tag selects: the unsigned view of a negative number (and the signed view of a number above MaxInt64)
// is a wrapped value, so a float made from it is a different number.  For every store into FloatVal in the
// repository whose value is traced (through float conversions and ConvertToFloatAndReturnString) to a load of
// SignedVal / UnsignedVal of the same enclosure, or through a sign-changing integer conversion, the tag stored
// last on the same enclosure before it (same function, dominating) must be the matching one.
func c02FloatView(c *core.Ctx, r *core.Report) {
	fltF := c.Field(pkgSutils, "DtypeEnclosure.FloatVal")
	sgnF := c.Field(pkgSutils, "DtypeEnclosure.SignedVal")
	unsF := c.Field(pkgSutils, "DtypeEnclosure.UnsignedVal")
	tagF := c.Field(pkgSutils, "DtypeEnclosure.Dtype")
	kSigned, kUnsigned := c.ConstVal(pkgSutils, "SS_DT_SIGNED_NUM"), c.ConstVal(pkgSutils, "SS_DT_UNSIGNED_NUM")
	isSignedInt := func(t types.Type) bool {
		b, ok := t.Underlying().(*types.Basic)
		return ok && b.Info()&types.IsInteger != 0 && b.Info()&types.IsUnsigned == 0
	}
	isUnsignedInt := func(t types.Type) bool {
		b, ok := t.Underlying().(*types.Basic)
		return ok && b.Info()&types.IsUnsigned != 0
	}
	// source: which member the float is made from ("signed", "unsigned", "" unknown) and whether the chain
	// changes sign interpretation on the way
	var source func(v ssa.Value, base ssa.Value, depth int) (string, bool)
	source = func(v ssa.Value, base ssa.Value, depth int) (string, bool) {
		if depth > 8 || v == nil {
			return "", false
		}
		switch x := v.(type) {
		case *ssa.Convert:
			m, flip := source(x.X, base, depth+1)
			if (isSignedInt(x.X.Type()) && isUnsignedInt(x.Type())) || (isUnsignedInt(x.X.Type()) && isSignedInt(x.Type())) {
				flip = true
			}
			if m == "" {
				switch {
				case isSignedInt(x.X.Type()):
					m = "signed"
				case isUnsignedInt(x.X.Type()):
					m = "unsigned"
				}
			}
			return m, flip
		case *ssa.MakeInterface:
			return source(x.X, base, depth+1)
		case *ssa.Extract:
			if call, ok := x.Tuple.(*ssa.Call); ok && x.Index == 0 {
				if f := core.CalleeFunc(call); f != nil && c.BaseName(f) == "ConvertToFloatAndReturnString" && len(call.Call.Args) > 0 {
					return source(call.Call.Args[0], base, depth+1)
				}
			}
		case *ssa.UnOp:
			if fa, ok := x.X.(*ssa.FieldAddr); ok && x.Op == token.MUL && fa.X == base {
				switch core.FieldOfAddr(fa) {
				case sgnF:
					return "signed", false
				case unsF:
					return "unsigned", false
				}
			}
		}
		return "", false
	}
	n := 0
	perFn := map[string]int{}
	for _, fn := range c.RepoFunctions() {
		for _, b := range fn.Blocks {
			for i, in := range b.Instrs {
				st, ok := in.(*ssa.Store)
				if !ok {
					continue
				}
				fa, ok := st.Addr.(*ssa.FieldAddr)
				if !ok || core.FieldOfAddr(fa) != fltF {
					continue
				}
				base := fa.X
				// the tag stored last on this enclosure: earlier in this block, else in a dominating block
				tag := int64(-1)
				find := func(blk *ssa.BasicBlock, upto int) bool {
					for j := upto - 1; j >= 0; j-- {
						if ts, ok := blk.Instrs[j].(*ssa.Store); ok {
							if tfa, ok := ts.Addr.(*ssa.FieldAddr); ok && tfa.X == base && core.FieldOfAddr(tfa) == tagF {
								if k, ok := core.ConstIntValue(ts.Val); ok {
									tag = k
								}
								return true
							}
						}
					}
					return false
				}
				if !find(b, i) {
					for d := b.Idom(); d != nil; d = d.Idom() {
						if find(d, len(d.Instrs)) {
							break
						}
					}
				}
				if tag != kSigned && tag != kUnsigned {
					continue
				}
				member, flip := source(st.Val, base, 0)
				if member == "" {
					continue
				}
				n++
				perFn[shortFn(fn)]++
				want := "signed"
				if tag == kUnsigned {
					want = "unsigned"
				}
				construct := fmt.Sprintf("%s:float-view#%d-made-from-the-%s-member", shortFn(fn), perFn[shortFn(fn)], want)
				r.Check(member == want && !flip, "TAGUNION", construct, c.Pos(st.Pos()),
					"the float view is computed from the member the tag just stored selects",
					fmt.Sprintf("the enclosure is tagged as a %s number but its float view is computed from the %s view (or through a sign-changing conversion): for a negative number (resp. one above MaxInt64) that view is a wrapped value, so comparisons with a float operand use a different number (col > -1 matches nothing on a float column)", want, member))
			}
		}
	}
	r.Floor("TAGUNION", "float views filled next to a tag", n, 2) // consolidating the twelve sites into two helpers is a legitimate clean-up
}
