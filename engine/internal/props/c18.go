package props

import (
	"fmt"
	"go/token"
	"go/types"
	"strings"

	"golang.org/x/tools/go/ssa"

	"verif/engine/internal/core"
)

func init() { register("C18", checkC18) }

const (
	pkgUtils     = "pkg/utils"
	pkgSegread   = "pkg/segment/reader/segread"
	pkgSegreader = "pkg/segment/reader/segread/segreader"
)

func checkC18(c *core.Ctx, r *core.Report) {
	r.Explanation = "C18 (damaged segment files are detected), checksum path only: " +
		"(1) GUARD in ChecksumFile.readChunkAt — once the chunk magic matched, every return that can carry a byte count is dominated by the equal edge of crc32(buf[:n]) == checksum-read-from-the-chunk-header, the length field is range-checked against the buffer first, and the legacy raw read is taken only when the file's first word is not the magic either; " +
		"(2) who-may-read — every *os.File that can hold a column (.csg) file (value-flow closure from the .csg opens and the reader structs' fd fields) is read only inside utils.ChecksumFile; " +
		"(3) every caller of ChecksumFile.ReadAt runs its decoders and returns data only on the err == nil edge; " +
		"(4) loaded-block cache keys of the readers (SegmentFileReader.currBlockNum/isBlockLoaded, TimeRangeReader.loadedBlock/loadedBlockNum) are set only where the checksummed load is known to have succeeded; " +
		"(6) NARROWSUM — in the reader packages no length decoded from a file is added to or multiplied with another value in its narrow unsigned type before it is widened (the sum wraps and a damaged length passes the bounds check built on it); " +
		"(7) DRAIN — a worker goroutine fed through an unbuffered channel (producer sends without select and closes at the end) leaves its receive loop only through the closed channel; " +
		"(5) writer side — writeWip writes the column file only through AppendPartialChunk and every success return is preceded by Flush."
	r.NotCovered = "robustness of the un-checksummed decoders (block summaries, SST, PQMR, sort index, tags tree, series blocks), bounds of on-disk lengths inside a CRC-valid block, isolation between segments"
	c18NarrowSum(c, r)
	c18Drain(c, r)
	c18ShortReads(c, r)
	sm := newSummaries(c)

	crcFn := c.ExtObj("hash/crc32", "ChecksumIEEE")
	readChunk := c.Fn(pkgUtils, "ChecksumFile.readChunkAt")
	// the 4-byte reader of the checksum file: a function (fd, offset) today, or a method (csf, offset)
	readU32 := c.TryObj(pkgUtils, "readUint32At")
	if readU32 == nil {
		readU32 = c.Obj(pkgUtils, "ChecksumFile.readUint32At")
	}
	magicConst := c.ConstVal(pkgUtils, "magicNumber")
	csfReadAt := c.Obj(pkgUtils, "ChecksumFile.ReadAt")
	osReadAt := c.ExtObj("os", "File.ReadAt")

	// ---------------------------------------------------------------- (1)
	name := shortFn(readChunk)
	// the chunk offset and the caller's buffer, found by their roles rather than by parameter position: the
	// offset is the value V such that the 4-byte reader is called with V and with V + constant (magic at V,
	// checksum and length at fixed distances); the buffer is the slice the CRC is computed over (set below)
	// A header word is a 32-bit value read from the file at a known place: the result of the 4-byte reader called
	// with V / V + K / 0, or the decoding of bytes [K, K+4) of a header block that was read at V in one piece
	// (hdrWord below).  The chunk offset is the base V at which the most header words are read.
	hw := &hdrWords{c: c, readU32: readU32, osReadAt: osReadAt, pkg: core.FnPkgPath(readChunk)}
	var offVal ssa.Value
	{
		distinct := map[ssa.Value]map[int64]bool{}
		for _, b := range readChunk.Blocks {
			for _, in := range b.Instrs {
				v, ok := in.(ssa.Value)
				if !ok {
					continue
				}
				if base, off, ok := hw.word(v); ok && base != nil {
					if distinct[base] == nil {
						distinct[base] = map[int64]bool{}
					}
					distinct[base][off] = true
				}
			}
		}
		best := 1
		for base, offs := range distinct {
			if len(offs) > best {
				best, offVal = len(offs), base
			}
		}
	}
	var bufParam ssa.Value
	for _, call := range callsTo(readChunk, crcFn) {
		if sl, ok := call.Call.Args[0].(*ssa.Slice); ok {
			bufParam = sl.X
		}
	}
	if offVal == nil || bufParam == nil {
		r.Undecided("GUARD", name+":magic-dispatch", c.Pos(readChunk.Pos()), "the chunk offset (a value read at V and at V + constant) or the checksummed buffer was not found")
		return
	}
	// magic comparison on the value read at the chunk offset
	var magicIf *ssa.If
	var matchSucc, mismatchSucc *ssa.BasicBlock
	var crcIf *ssa.If
	var crcEq *ssa.BasicBlock
	var crcCall *ssa.Call
	var crcOther ssa.Value
	var legacyIfs []*ssa.If
	for _, b := range readChunk.Blocks {
		ifi, ok := core.LastIf(b)
		if !ok {
			continue
		}
		bo, ok := ifi.Cond.(*ssa.BinOp)
		if !ok || (bo.Op != token.EQL && bo.Op != token.NEQ) {
			continue
		}
		eq, ne := b.Succs[0], b.Succs[1]
		if bo.Op == token.NEQ {
			eq, ne = ne, eq
		}
		if k, ok := core.ConstIntValue(bo.Y); ok && k == magicConst {
			if base, off, ok := hw.word(bo.X); ok {
				if base == nil && off == 0 {
					legacyIfs = append(legacyIfs, ifi)
				} else if base == offVal && off == 0 {
					magicIf, matchSucc, mismatchSucc = ifi, eq, ne
				}
			}
			continue
		}
		var cc *ssa.Call
		var oth ssa.Value
		if x, ok := bo.X.(*ssa.Call); ok && core.IsCallTo(x, crcFn) {
			cc, oth = x, bo.Y
		} else if y, ok := bo.Y.(*ssa.Call); ok && core.IsCallTo(y, crcFn) {
			cc, oth = y, bo.X
		}
		if cc != nil {
			crcIf, crcEq, crcCall, crcOther = ifi, eq, cc, oth
		}
	}
	if magicIf == nil || len(matchSucc.Preds) != 1 {
		r.Undecided("GUARD", name+":magic-dispatch", c.Pos(readChunk.Pos()), "the comparison of the chunk's first word with the magic number was not found in the confirmed shape")
	} else if crcIf == nil {
		r.Violation("GUARD", name+":crc-verify", c.Pos(readChunk.Pos()), "no comparison of crc32.ChecksumIEEE(...) with the stored checksum exists: a damaged column block would be served as data")
	} else {
		// CRC over buf[:n] where n is the count returned by the data ReadAt into the same buffer
		okOver := false
		var dataRead *ssa.Call
		if sl, ok := crcCall.Call.Args[0].(*ssa.Slice); ok && sl.X == ssa.Value(bufParam) {
			if ex, ok := sl.High.(*ssa.Extract); ok && ex.Index == 0 {
				if call, ok := ex.Tuple.(*ssa.Call); ok && core.IsCallTo(call, osReadAt) {
					if s2, ok := call.Call.Args[1].(*ssa.Slice); ok && s2.X == ssa.Value(bufParam) {
						okOver = true
						dataRead = call
					}
				}
			}
		}
		r.Check(okOver, "GUARD", name+":crc-over-bytes-read", c.Pos(crcCall.Pos()), "CRC computed over buf[:n], n = bytes the data ReadAt placed into buf", "the CRC is not computed over exactly the bytes that were read into the caller's buffer")
		// stored checksum read from offset+checksumOffset
		okStored := false
		if base, off, ok := hw.word(crcOther); ok && base == offVal && off == c.ConstVal(pkgUtils, "checksumOffset") {
			okStored = true
		}
		r.Check(okStored, "GUARD", name+":crc-compared-with-stored", c.Pos(crcIf.Pos()), "compared with the word read at offset+checksumOffset", "the computed CRC is not compared with the checksum stored in the chunk header")
		// every return in the magic-matched region that may carry bytes is under the CRC-equal edge
		bad := 0
		nret := 0
		for _, ret := range core.Returns(readChunk) {
			if !matchSucc.Dominates(ret.Block()) {
				continue
			}
			nret++
			if k, isConst := core.ConstIntValue(core.RetResult(ret, 0)); isConst && k == 0 {
				continue
			}
			if len(crcEq.Preds) == 1 && crcEq.Dominates(ret.Block()) {
				continue
			}
			bad++
			r.Violation("GUARD", name+":data-return-under-crc", c.Pos(ret.Pos()), "a return that can report bytes read from a checksummed chunk is not dominated by the CRC-equal edge: unverified (damaged or truncated) data would be handed to the decoders")
		}
		if bad == 0 {
			r.OK("GUARD", name+":data-return-under-crc", c.Pos(crcIf.Pos()), fmt.Sprintf("%d returns in the checksummed branch; every one that can carry a byte count is under the CRC-equal edge", nret))
		}
		// length field bounded by the buffer before the data read
		if dataRead != nil {
			okLen := false
			for b := dataRead.Block(); b != nil; b = b.Idom() {
				idom := b.Idom()
				if idom == nil {
					break
				}
				ifi, ok := core.LastIf(idom)
				if !ok {
					continue
				}
				bo, ok := ifi.Cond.(*ssa.BinOp)
				if !ok || bo.Op != token.GTR || idom.Succs[1] != b {
					continue
				}
				if _, _, isWord := hw.word(bo.X); isWord {
					if lenCall, ok := core.Unwrap(bo.Y).(*ssa.Call); ok {
						if bi, ok := lenCall.Call.Value.(*ssa.Builtin); ok && bi.Name() == "len" && lenCall.Call.Args[0] == ssa.Value(bufParam) {
							okLen = true
						}
					}
				}
			}
			r.Check(okLen, "GUARD", name+":length-bounded-by-buffer", c.Pos(dataRead.Pos()), "the data read is dominated by the rejection of length > len(buf)", "the on-disk chunk length is not checked against the caller's buffer before reading")
		}
		// legacy raw read only when the file's first word is not the magic; nothing but the legacy read returns
		// data on the mismatch edge.  The region is the mismatch successor in readChunkAt, or the whole body of a
		// helper whose result that region returns (the fallback extracted into a method of its own).
		var legacyRegion func(fn *ssa.Function, root *ssa.BasicBlock, depth int)
		visited := map[*ssa.Function]bool{}
		legacyRegion = func(fn *ssa.Function, root *ssa.BasicBlock, depth int) {
			inRegion := func(b *ssa.BasicBlock) bool { return root == nil || root.Dominates(b) }
			fname := shortFn(fn)
			var firstWordIfs []*ssa.If
			for _, b := range fn.Blocks {
				ifi, ok := core.LastIf(b)
				if !ok {
					continue
				}
				bo, ok := ifi.Cond.(*ssa.BinOp)
				if !ok || (bo.Op != token.EQL && bo.Op != token.NEQ) {
					continue
				}
				if k, ok := core.ConstIntValue(bo.Y); ok && k == magicConst {
					if base, off, ok := hw.word(bo.X); ok && base == nil && off == 0 {
						firstWordIfs = append(firstWordIfs, ifi)
					}
				}
			}
			for _, ci := range core.CallsIn(fn) {
				call, ok := ci.(*ssa.Call)
				if !ok || !core.IsCallTo(call, osReadAt) || !inRegion(call.Block()) {
					continue
				}
				guarded := false
				for _, li := range firstWordIfs {
					bo := li.Cond.(*ssa.BinOp)
					ne := li.Block().Succs[1]
					if bo.Op == token.NEQ {
						ne = li.Block().Succs[0]
					}
					if len(ne.Preds) == 1 && ne.Dominates(call.Block()) {
						guarded = true
					}
				}
				r.Check(guarded, "GUARD", fname+":legacy-read-only-for-legacy-files", c.Pos(call.Pos()), "raw read dominated by first-word != magic", "the un-checksummed raw read can be taken for a checksummed file (offset not at a chunk start or damaged magic)")
			}
			for _, ret := range core.Returns(fn) {
				if !inRegion(ret.Block()) {
					continue
				}
				if k, isConst := core.ConstIntValue(core.RetResult(ret, 0)); isConst && k == 0 {
					continue
				}
				if ex, ok := core.RetResult(ret, 0).(*ssa.Extract); ok {
					if call, ok := ex.Tuple.(*ssa.Call); ok {
						if core.IsCallTo(call, osReadAt) {
							continue
						}
						if h := call.Call.StaticCallee(); h != nil && h.Blocks != nil && depth < 2 && core.FnPkgPath(h) == core.FnPkgPath(fn) && h != readChunk {
							if !visited[h] {
								visited[h] = true
								legacyRegion(h, nil, depth+1)
							}
							continue
						}
					}
				}
				r.Violation("GUARD", fname+":mismatch-edge-returns", c.Pos(ret.Pos()), "a return on the magic-mismatch edge reports bytes that do not come from the legacy raw read")
			}
		}
		if len(mismatchSucc.Preds) == 1 {
			legacyRegion(readChunk, mismatchSucc, 0)
		}
	}

	// ---------------------------------------------------------------- (2) who may read a column file
	csfType := c.NamedType(pkgUtils, "ChecksumFile")
	allowed := map[*ssa.Function]bool{}
	for _, fn := range c.RepoFunctions() {
		if recv := fn.Signature.Recv(); recv != nil {
			t := recv.Type()
			if p, ok := t.(*types.Pointer); ok {
				t = p.Elem()
			}
			if types.Identical(t, csfType) {
				allowed[fn] = true
			}
		}
	}
	// helpers called only from ChecksumFile methods
	callers := c.StaticCallers()
	for changed := true; changed; {
		changed = false
		for _, fn := range c.RepoFunctions() {
			if allowed[fn] || core.FnPkgPath(fn) != core.ModPath+"/"+pkgUtils || len(callers[fn]) == 0 {
				continue
			}
			all := true
			for _, site := range callers[fn] {
				if !allowed[site.Parent()] {
					all = false
				}
			}
			if all {
				allowed[fn] = true
				changed = true
			}
		}
	}
	osFile := c.ExtObj("os", "File").Type()
	t := &core.Taint{C: c, Filter: func(v ssa.Value) bool { return typeHolds(v.Type(), osFile, 0) }}
	seeds := 0
	for _, fld := range []string{"SegmentFileReader.currFD"} {
		t.AddField(c.Field(pkgSegreader, fld), nil)
		seeds++
	}
	t.AddField(c.Field(pkgSegread, "TimeRangeReader.timeFD"), nil)
	t.AddField(c.Field(pkgSegread, "SharedMultiColReaders.allFDs"), nil)
	seeds += 2
	tbl := &classTable{Funcs: map[types.Object]string{}, Globals: map[types.Object]string{}, Consts: map[string]string{".csg": ".csg"}}
	for _, fn := range c.RepoFunctions() {
		for _, ci := range core.CallsIn(fn) {
			f := core.CalleeFunc(ci)
			if f == nil || f.Pkg() == nil || f.Pkg().Path() != "os" || (f.Name() != "Open" && f.Name() != "OpenFile") {
				continue
			}
			pc := classifyPath(c, ci.Common().Args[0], tbl, 2)
			if pc.Classes[".csg"] {
				if call, ok := ci.(*ssa.Call); ok {
					_, others := errResultOf(call)
					for _, o := range others {
						t.Add(o, nil)
						seeds++
					}
				}
			}
		}
	}
	t.Run()
	r.Count("csg_fd_seed_values", seeds)
	rawReads := 0
	badReads := 0
	for _, fn := range c.RepoFunctions() {
		for _, ci := range core.CallsIn(fn) {
			f := core.CalleeFunc(ci)
			if f == nil || f.Pkg() == nil {
				continue
			}
			var fileArg ssa.Value
			switch f.Pkg().Path() + "." + f.Name() {
			case "os.Read", "os.ReadAt", "os.ReadFrom", "os.Seek":
				if sig := f.Type().(*types.Signature); sig.Recv() != nil {
					fileArg = ci.Common().Args[0]
				}
			case "io.ReadFull", "io.ReadAll", "io.ReadAtLeast", "bufio.NewReader", "bufio.NewReaderSize", "bufio.NewScanner", "io.Copy":
				idx := 0
				if f.Name() == "Copy" {
					idx = 1
				}
				fileArg = core.Unwrap(ci.Common().Args[idx])
			}
			if fileArg == nil || !t.Has(fileArg) {
				continue
			}
			rawReads++
			top := fn
			for top.Parent() != nil {
				top = top.Parent()
			}
			if allowed[top] {
				continue
			}
			if f.Name() == "Seek" && strings.HasPrefix(shortFn(fn), "writer.") {
				continue // the column writer positions its append offset
			}
			badReads++
			r.Violation("GUARD", fmt.Sprintf("%s:raw-read-of-column-file(%s)", shortFn(fn), f.Name()), c.Pos(ci.Pos()),
				"a file descriptor that can hold a column (.csg) file is read outside utils.ChecksumFile: the CRC of the block is bypassed", taintPath(c, t, fileArg)...)
		}
	}
	r.Count("raw_reads_on_column_fds", rawReads)
	if badReads == 0 {
		r.OK("GUARD", "column-files-read-only-through-ChecksumFile", "-", fmt.Sprintf("%d raw read calls on column-file descriptors, all inside utils.ChecksumFile", rawReads))
	}
	r.Floor("GUARD", "raw reads inside ChecksumFile reached by the fd closure", rawReads, 3)

	// ---------------------------------------------------------------- (3) callers of ChecksumFile.ReadAt
	nCallers := 0
	for _, fn := range c.RepoFunctions() {
		if allowed[fn] {
			continue
		}
		for _, call := range callsTo(fn, csfReadAt) {
			nCallers++
			checkReadAtCaller(c, r, fn, call)
		}
	}
	r.Floor("GUARD", "callers of ChecksumFile.ReadAt", nCallers, 3)

	// ---------------------------------------------------------------- (4) cache keys
	loaders := objs(csfReadAt)
	loaderReach := sm.staticMayReach(loaders)
	type keyField struct {
		pkg, name string
	}
	keys := []keyField{
		{pkgSegreader, "SegmentFileReader.currBlockNum"},
		{pkgSegreader, "SegmentFileReader.isBlockLoaded"},
		{pkgSegread, "TimeRangeReader.loadedBlock"},
		{pkgSegread, "TimeRangeReader.loadedBlockNum"},
	}
	for _, kf := range keys {
		fld := c.Field(kf.pkg, kf.name)
		n := 0
		for _, fn := range c.RepoFunctions() {
			for _, b := range fn.Blocks {
				for _, in := range b.Instrs {
					st, ok := in.(*ssa.Store)
					if !ok || !isFieldAddrOf(st.Addr, fld) {
						continue
					}
					// resets are fine: storing false / constructing a fresh reader
					if k, ok := st.Val.(*ssa.Const); ok && k.Value != nil && k.Value.String() == "false" {
						continue
					}
					if fa := st.Addr.(*ssa.FieldAddr); isFreshAlloc(fa.X) {
						continue
					}
					n++
					construct := fmt.Sprintf("%s:cache-key(%s)-set-after-verified-load", shortFn(fn), fld.Name())
					okSet := false
					for _, ci := range core.CallsIn(fn) {
						call, ok := ci.(*ssa.Call)
						if !ok {
							continue
						}
						callee := call.Call.StaticCallee()
						if !(loaders.hasCallee(call) || (callee != nil && loaderReach[callee])) {
							continue
						}
						if errv, _ := errResultOf(call); errv != nil && core.NilnessAt(errv, b) == core.Yes {
							okSet = true
						}
					}
					if okSet {
						r.OK("GUARD", construct, c.Pos(st.Pos()), "the store lies on the err == nil edge of the checksummed load")
					} else {
						r.Violation("GUARD", construct, c.Pos(st.Pos()), "the reader marks a block as loaded where the checksummed load is not known to have succeeded: after a CRC failure the next request for that block would be served from the buffers of another block")
					}
				}
			}
		}
		r.Floor("GUARD", "stores of cache key "+fld.Name(), n, 1)
	}

	// ---------------------------------------------------------------- (5) writer
	writeWip := c.Fn(pkgWriter, "writeWip")
	flush := c.Obj(pkgUtils, "ChecksumFile.Flush")
	appendPartial := c.Obj(pkgUtils, "ChecksumFile.AppendPartialChunk")
	checkBeforeSuccessReturn(c, r, writeWip, "ChecksumFile.Flush", directPred(objs(flush)), "a chunk whose header (magic, CRC, length) was not written is unreadable or unverifiable")
	nAppend := len(callsTo(writeWip, appendPartial))
	r.Floor("GUARD", "AppendPartialChunk calls in writeWip", nAppend, 2)
	rawW := 0
	for _, ci := range core.CallsIn(writeWip) {
		if f := core.CalleeFunc(ci); f != nil && f.Pkg() != nil && f.Pkg().Path() == "os" {
			switch f.Name() {
			case "Write", "WriteAt", "WriteString":
				rawW++
				r.Violation("GUARD", "writer.writeWip:raw-write", c.Pos(ci.Pos()), "bytes are written to the column file outside the checksummed chunk writer")
			}
		}
	}
	if rawW == 0 {
		r.OK("GUARD", "writer.writeWip:raw-write", c.Pos(writeWip.Pos()), "no raw write to the column file")
	}
}

func isFreshAlloc(v ssa.Value) bool {
	_, ok := v.(*ssa.Alloc)
	return ok
}

// checkReadAtCaller: after ChecksumFile.ReadAt, non-benign calls and returns
// that carry data are dominated by the err == nil edge.
func checkReadAtCaller(c *core.Ctx, r *core.Report, fn *ssa.Function, call *ssa.Call) {
	construct := shortFn(fn) + ":decode-after-verified-read"
	errv, _ := errResultOf(call)
	if errv == nil {
		r.Violation("GUARD", construct, c.Pos(call.Pos()), "the error of ChecksumFile.ReadAt is discarded")
		return
	}
	var bad ssa.Instruction
	what := ""
	core.WalkForward(fn, call, func(in ssa.Instruction) bool {
		isNil := core.NilnessAt(errv, in.Block()) == core.Yes
		switch x := in.(type) {
		case *ssa.Call:
			if isBenignCall(x) || isNil {
				return true
			}
			if _, isBuiltin := x.Call.Value.(*ssa.Builtin); isBuiltin {
				return true
			}
			if bad == nil {
				bad, what = in, "a call runs after the checksummed read where its error is not known to be nil"
			}
		case *ssa.Return:
			if isNil || core.ReturnSuccess(x) == core.No {
				return true
			}
			// success return outside the nil edge: tolerated only if it carries no data
			idx := core.ErrResultIndex(fn)
			for i := range x.Results {
				if i == idx {
					continue
				}
				res := core.RetResult(x, i)
				if _, isConst := res.(*ssa.Const); !isConst && bad == nil {
					bad, what = in, "a return that may report success and carries data is reachable where the checksummed read is not known to have succeeded"
				}
			}
		}
		return true
	})
	if bad != nil {
		r.Violation("GUARD", construct, c.Pos(bad.Pos()), what)
		return
	}
	r.OK("GUARD", construct, c.Pos(call.Pos()), "decoders and data-carrying returns are on the err == nil edge")
}

// taintPath renders the provenance of a tainted value.
func taintPath(c *core.Ctx, t *core.Taint, v ssa.Value) []string {
	var out []string
	for _, p := range t.Path(v) {
		fn := "?"
		if in, ok := p.(ssa.Instruction); ok && in.Parent() != nil {
			fn = shortFn(in.Parent())
		} else if pa, ok := p.(*ssa.Parameter); ok {
			fn = shortFn(pa.Parent())
		}
		out = append(out, fmt.Sprintf("%s: %s = %s  (%s)", fn, p.Name(), p.String(), c.Pos(p.Pos())))
	}
	if len(out) > 60 {
		out = append(out[:7], append([]string{"..."}, out[len(out)-6:]...)...)
	}
	return out
}

// typeHolds: a value of type t can (transitively, through pointers, slices,
// arrays, maps, channels and struct fields) hold a value of type target.
func typeHolds(t, target types.Type, depth int) bool {
	if depth > 4 {
		return false
	}
	if tup, ok := t.(*types.Tuple); ok {
		for i := 0; i < tup.Len(); i++ {
			if typeHolds(tup.At(i).Type(), target, depth+1) {
				return true
			}
		}
		return false
	}
	switch t.(type) {
	case *types.Named, *types.Basic, *types.Pointer, *types.Slice, *types.Array, *types.Map, *types.Chan, *types.Struct, *types.Interface, *types.Signature, *types.Alias, *types.TypeParam:
	default:
		return true // go/ssa's opaque iterator types: keep the flow
	}
	if types.Identical(t, target) {
		return true
	}
	switch u := t.Underlying().(type) {
	case *types.Pointer:
		return typeHolds(u.Elem(), target, depth+1)
	case *types.Slice:
		return typeHolds(u.Elem(), target, depth+1)
	case *types.Array:
		return typeHolds(u.Elem(), target, depth+1)
	case *types.Map:
		return typeHolds(u.Elem(), target, depth+1) || typeHolds(u.Key(), target, depth+1)
	case *types.Chan:
		return typeHolds(u.Elem(), target, depth+1)
	case *types.Tuple:
		for i := 0; i < u.Len(); i++ {
			if typeHolds(u.At(i).Type(), target, depth+1) {
				return true
			}
		}
	case *types.Struct:
		for i := 0; i < u.NumFields(); i++ {
			if typeHolds(u.Field(i).Type(), target, depth+1) {
				return true
			}
		}
	case *types.Interface:
		return u.Empty()
	}
	return false
}

// hdrWords recognises the 32-bit words that the checksum file reader takes from known places of the file.
type hdrWords struct {
	c        *core.Ctx
	readU32  types.Object
	osReadAt types.Object
	pkg      string
}

// word: v is the 32-bit word at file position base+off (base == nil: the start of the file).
//   - the value result of the 4-byte reader called with 0, V or V + K
//   - a little-endian decode of bytes [K, K+4) of a header block read in one piece at V: the block is a local
//     array filled by (*os.File).ReadAt(block[:], V) in this function, or handed back by a function of the
//     package that does so with the offset it was given
func (h *hdrWords) word(v ssa.Value) (base ssa.Value, off int64, ok bool) {
	if ex, isEx := v.(*ssa.Extract); isEx && ex.Index == 0 {
		if call, isCall := ex.Tuple.(*ssa.Call); isCall && core.IsCallTo(call, h.readU32) {
			pos := call.Call.Args[len(call.Call.Args)-1]
			if k, isK := core.ConstIntValue(pos); isK {
				if k == 0 {
					return nil, 0, true
				}
				return nil, 0, false
			}
			if add, isAdd := pos.(*ssa.BinOp); isAdd && add.Op == token.ADD {
				if k, isK := core.ConstIntValue(add.Y); isK {
					return add.X, k, true
				}
			}
			return pos, 0, true
		}
		return nil, 0, false
	}
	call, isCall := v.(*ssa.Call)
	if !isCall || len(call.Call.Args) == 0 {
		return nil, 0, false
	}
	f := core.CalleeFunc(call)
	if f == nil || !(f.Name() == "BytesToUint32LittleEndian" || f.Name() == "Uint32") {
		return nil, 0, false
	}
	sl, isSl := call.Call.Args[len(call.Call.Args)-1].(*ssa.Slice)
	if !isSl {
		return nil, 0, false
	}
	var lo int64
	if sl.Low != nil {
		k, isK := core.ConstIntValue(sl.Low)
		if !isK {
			return nil, 0, false
		}
		lo = k
	}
	if sl.High != nil {
		if k, isK := core.ConstIntValue(sl.High); !isK || k != lo+4 {
			return nil, 0, false
		}
	}
	al, isAl := sl.X.(*ssa.Alloc)
	if !isAl || al.Referrers() == nil {
		return nil, 0, false
	}
	fn := al.Parent()
	// filled in this function by ReadAt(block[:], V)
	for _, ci := range core.CallsIn(fn) {
		if !core.IsCallTo(ci, h.osReadAt) || len(ci.Common().Args) < 3 {
			continue
		}
		if s2, ok := ci.Common().Args[1].(*ssa.Slice); ok && s2.X == ssa.Value(al) {
			return ci.Common().Args[2], lo, true
		}
	}
	// or stored from the result of a header-reading helper of the package
	for _, rf := range *al.Referrers() {
		st, isSt := rf.(*ssa.Store)
		if !isSt || st.Addr != ssa.Value(al) {
			continue
		}
		src := st.Val
		idx := 0
		if ex, isEx := src.(*ssa.Extract); isEx {
			src, idx = ex.Tuple, ex.Index
		}
		hc, isCall := src.(*ssa.Call)
		if !isCall {
			continue
		}
		helper := hc.Call.StaticCallee()
		if helper == nil || helper.Blocks == nil || core.FnPkgPath(helper) != h.pkg {
			continue
		}
		// the helper returns (as result idx) a local block it filled with ReadAt(block[:], <its parameter>)
		for _, ret := range core.Returns(helper) {
			if idx >= len(ret.Results) {
				continue
			}
			ld, isLd := core.RetResult(ret, idx).(*ssa.UnOp)
			if !isLd {
				continue
			}
			blk, isAl := ld.X.(*ssa.Alloc)
			if !isAl {
				continue
			}
			for _, ci := range core.CallsIn(helper) {
				if !core.IsCallTo(ci, h.osReadAt) || len(ci.Common().Args) < 3 {
					continue
				}
				if s2, ok := ci.Common().Args[1].(*ssa.Slice); ok && s2.X == ssa.Value(blk) {
					if par, isPar := ci.Common().Args[2].(*ssa.Parameter); isPar {
						for i, q := range helper.Params {
							if q == par && i < len(hc.Call.Args) {
								return hc.Call.Args[i], lo, true
							}
						}
					}
				}
			}
		}
	}
	return nil, 0, false
}
