package props

import (
	"fmt"
	"go/token"
	"go/types"
	"os"
	"sort"
	"strings"

	"golang.org/x/tools/go/ssa"

	"verif/engine/internal/core"
	"verif/engine/internal/locks"
)

// (5) HOLDWAIT — a goroutine that holds a lock L, starts worker goroutines and then blocks for them (WaitGroup.Wait,
// a channel receive or a range over a channel) before it releases L must not start workers that acquire L themselves,
// in any mode: sync.RWMutex blocks new readers as soon as a writer is queued, so worker (waits behind the writer),
// writer (waits for the spawner's lock) and spawner (waits for the worker) block each other forever.
// For every `go` statement executed with L must-held in a function that can afterwards reach a blocking wait with L
// still must-held: L is not in the may-acquire summary (transitive over static calls) of the started function.
func checkHoldWait(c *core.Ctx, r *core.Report, a *locks.Analysis, scope []string) {
	wgWait := c.ExtObj("sync", "WaitGroup.Wait")
	type inst struct {
		fn  *ssa.Function
		g   *ssa.Go
		cls locks.Class
	}
	var found []inst
	for _, fn := range c.RepoFunctions() {
		if !inScope(fn, scope) || fn.Blocks == nil {
			continue
		}
		ff := a.Facts[fn]
		if ff == nil {
			continue
		}
		// blocking waits of this function and the locks must-held there
		type wait struct {
			in   ssa.Instruction
			held map[string]bool
		}
		var waits []wait
		for _, b := range fn.Blocks {
			for _, in := range b.Instrs {
				blocking := false
				switch x := in.(type) {
				case *ssa.UnOp:
					blocking = x.Op == token.ARROW
				case *ssa.Select:
					blocking = x.Blocking
				case ssa.CallInstruction:
					blocking = core.IsCallTo(x, wgWait)
				}
				if !blocking {
					continue
				}
				h := map[string]bool{}
				for _, e := range ff.MustAt[in] {
					h[e.Class.Name] = true
				}
				if len(h) > 0 {
					waits = append(waits, wait{in, h})
				}
			}
		}
		if len(waits) == 0 {
			continue
		}
		for _, b := range fn.Blocks {
			for _, in := range b.Instrs {
				g, ok := in.(*ssa.Go)
				if !ok {
					continue
				}
				for _, e := range ff.MustAt[in] {
					// a wait with the same lock still held, reachable from the go statement
					reach := false
					core.WalkForward(fn, g, func(x ssa.Instruction) bool {
						for _, w := range waits {
							if w.in == x && w.held[e.Class.Name] {
								reach = true
							}
						}
						return !reach
					})
					if reach {
						found = append(found, inst{fn, g, e.Class})
					}
				}
			}
		}
	}
	sort.Slice(found, func(i, j int) bool {
		if found[i].fn.String() != found[j].fn.String() {
			return found[i].fn.String() < found[j].fn.String()
		}
		return found[i].g.Pos() < found[j].g.Pos()
	})
	per := map[string]int{}
	for _, it := range found {
		name := shortFn(it.fn)
		per[name+it.cls.Name]++
		construct := fmt.Sprintf("%s:worker#%d-started-under(%s)-does-not-take-it", name, per[name+it.cls.Name], it.cls.Name)
		var target *ssa.Function
		switch v := it.g.Call.Value.(type) {
		case *ssa.Function:
			target = v
		case *ssa.MakeClosure:
			target, _ = v.Fn.(*ssa.Function)
		}
		if target == nil {
			target = it.g.Call.StaticCallee()
		}
		if target == nil {
			r.Undecided("HOLDWAIT", construct, c.Pos(it.g.Pos()), "the started function is not statically known")
			continue
		}
		takes := a.Acquires[target][it.cls]
		// closures defined inside the worker are part of it
		if !takes {
			for _, cl := range core.Closures(target) {
				if a.Acquires[cl][it.cls] {
					takes = true
				}
			}
		}
		if takes {
			r.Violation("HOLDWAIT", construct, c.Pos(it.g.Pos()), fmt.Sprintf("%s holds %s, starts this goroutine and waits for it before releasing the lock, and the goroutine acquires %s itself: once a writer queues for the lock the worker waits behind the writer, the writer for %s, and %s for the worker — searches, flushes and ingestion that need the lock hang forever", name, it.cls.Name, it.cls.Name, name, name))
		} else {
			r.OK("HOLDWAIT", construct, c.Pos(it.g.Pos()), "the started function never acquires the lock its spawner holds while waiting for it")
		}
	}
	r.Floor("HOLDWAIT", "goroutines started under a lock that is held until they are waited for", len(found), 1)
	_ = strings.Join
	_ = types.Typ
}

// (6) UNREGISTER — a SegStore that is removed from allSegStores is never walked again by the flush timers, the forced
// rotation or the shutdown flush, so whatever its buffer holds at that moment is lost.  Ingest fills a store holding
// only the READ side of allSegStoresLock; a decision taken before the write lock was acquired is therefore stale.
// Every deletion from allSegStores is (a) preceded in the same write-locked section by the store's flush
// (AppendWipToSegfile), or (b) control-dependent on isSegstoreUnusedSinceTime evaluated with the write lock held, or
// (c) the deletion of the whole index (DeleteVirtualTableSegStore: the data is dropped on purpose).
func checkUnregister(c *core.Ctx, r *core.Report, a *locks.Analysis) {
	table := c.Global(pkgWriter, "allSegStores")
	unused := c.Obj(pkgWriter, "SegStore.isSegstoreUnusedSinceTime")
	flush := c.Obj(pkgWriter, "SegStore.AppendWipToSegfile")
	n := 0
	for _, fn := range c.RepoFunctions() {
		if core.FnPkgPath(fn) != core.ModPath+"/"+pkgWriter {
			continue
		}
		ff := a.Facts[fn]
		k := 0
		for _, ci := range core.CallsIn(fn) {
			bi, ok := ci.Common().Value.(*ssa.Builtin)
			if !ok || bi.Name() != "delete" {
				continue
			}
			ld, ok := ci.Common().Args[0].(*ssa.UnOp)
			if !ok || ld.X != ssa.Value(table) {
				continue
			}
			n++
			k++
			construct := fmt.Sprintf("%s:unregister#%d-decided-under-the-write-lock", shortFn(fn), k)
			// held locally, or — for a helper that is only ever called with it held (the body of the removal loop
			// extracted into a function) — at every static call of this function
			var callersHold func(f *ssa.Function, depth int) bool
			callersHold = func(f *ssa.Function, depth int) bool {
				sites := c.StaticCallers()[f]
				if len(sites) == 0 || depth > 2 || f.Object() == nil || f.Object().Exported() {
					return false
				}
				for _, site := range sites {
					if _, isCall := site.(*ssa.Call); !isCall {
						return false
					}
					held := false
					if cf := a.Facts[site.Parent()]; cf != nil {
						for _, h := range cf.MustAt[site] {
							if strings.HasSuffix(h.Class.Name, "allSegStoresLock") && !h.Read {
								held = true
							}
						}
					}
					if !held && !callersHold(site.Parent(), depth+1) {
						return false
					}
				}
				return true
			}
			entryHeld := callersHold(fn, 0)
			writeHeld := func(in ssa.Instruction) bool {
				if entryHeld {
					return true
				}
				if ff == nil {
					return false
				}
				for _, h := range ff.MustAt[in] {
					if strings.HasSuffix(h.Class.Name, "allSegStoresLock") && !h.Read {
						return true
					}
				}
				return false
			}
			why := ""
			if c.BaseName(fn.Object()) == "DeleteVirtualTableSegStore" {
				why = "deletion of the whole index: its open stores are dropped on purpose"
			}
			for _, call := range callsTo(fn, unused) {
				if core.BoolKnownAt(call, ci.Block()) == core.Yes && writeHeld(call) {
					// ... and an ingest that looked the store up earlier is told: the store's own lock is held here
					// and a flag of the store is set that AddEntry tests under the same lock before it adds anything
					ownLock := false
					if ff != nil {
						for _, h := range ff.MustAt[ci] {
							if strings.HasSuffix(h.Class.Name, "SegStore).Lock") {
								ownLock = true
							}
						}
					}
					var flag *types.Var
					for _, in := range ci.Block().Instrs {
						if st, ok := in.(*ssa.Store); ok {
							if fa, ok := st.Addr.(*ssa.FieldAddr); ok {
								if k, ok := st.Val.(*ssa.Const); ok && k.Value != nil && k.Value.String() == "true" {
									flag = core.FieldOfAddr(fa)
								}
							}
						}
					}
					switch {
					case !ownLock:
						why = ""
						r.Violation("HELD", construct+":store-lock", c.Pos(ci.Pos()), "the stale store is unregistered without holding the store's own lock: an ingest that looked the store up before can be adding events to it at this moment, and they are never flushed")
					case flag == nil || !addEntryTests(c, a, flag):
						why = ""
						r.Violation("HELD", construct+":ingest-is-told", c.Pos(ci.Pos()), "the stale store is unregistered without setting a flag that SegStore.AddEntry tests under the store's lock before adding events: an ingest that looked the store up before the removal adds its events to a store that nothing flushes any more")
					default:
						why = "the store is known unused by a test made with the write lock held, and AddEntry refuses a store marked " + flag.Name()
					}
				}
			}
			// (b') the test-and-mark made by a helper of the store in one critical section of the store's own lock:
			// the helper is called with the write lock held, answered true on the way to the deletion, and its
			// summary says: one acquisition of the store's lock, under it the unused-test, where that is known true a
			// flag of the store is set that AddEntry tests, and `true` is returned only after the flag was set
			for _, hc := range core.CallsIn(fn) {
				hcall, ok := hc.(*ssa.Call)
				if !ok || why != "" {
					continue
				}
				h := hcall.Call.StaticCallee()
				if h == nil || h.Blocks == nil || core.FnPkgPath(h) != core.FnPkgPath(fn) || len(callsTo(h, unused)) == 0 {
					continue
				}
				if os.Getenv("VERIF_DBG_C11") != "" {
					fmt.Fprintf(os.Stderr, "DBG cand %s known=%v held=%v\n", h.Name(), core.BoolKnownAt(hcall, ci.Block()), writeHeld(hcall))
				}
				if core.BoolKnownAt(hcall, ci.Block()) != core.Yes || !writeHeld(hcall) {
					continue
				}
				hf := a.Facts[h]
				ownHeld := func(in ssa.Instruction) bool {
					if hf == nil {
						return false
					}
					for _, hl := range hf.MustAt[in] {
						if strings.HasSuffix(hl.Class.Name, "SegStore).Lock") {
							return true
						}
					}
					return false
				}
				acq := 0
				for _, x := range core.CallsIn(h) {
					if site, ok := a.SiteOf(x); ok && strings.HasSuffix(site.Class.Name, "SegStore).Lock") && site.Op == locks.OpLock {
						acq++
					}
				}
				var flag *types.Var
				var flagStore *ssa.Store
				for _, hb := range h.Blocks {
					for _, in := range hb.Instrs {
						st, ok := in.(*ssa.Store)
						if !ok {
							continue
						}
						fa, ok := st.Addr.(*ssa.FieldAddr)
						if !ok {
							continue
						}
						if kk, ok := st.Val.(*ssa.Const); !ok || kk.Value == nil || kk.Value.String() != "true" {
							continue
						}
						tested := false
						for _, uc := range callsTo(h, unused) {
							if core.BoolKnownAt(uc, hb) == core.Yes && ownHeld(uc) {
								tested = true
							}
						}
						if tested && ownHeld(st) {
							flag, flagStore = core.FieldOfAddr(fa), st
						}
					}
				}
				if os.Getenv("VERIF_DBG_C11") != "" {
					fmt.Fprintf(os.Stderr, "DBG helper %s acq=%d flag=%v known=%v\n", h.Name(), acq, flag, core.BoolKnownAt(hcall, ci.Block()))
				}
				if acq != 1 || flag == nil {
					continue
				}
				allAfter := true
				for _, ret := range core.Returns(h) {
					if kk, ok := core.RetResult(ret, 0).(*ssa.Const); ok && kk.Value != nil && kk.Value.String() == "false" {
						continue
					}
					if !core.InstrDominates(flagStore, ret) {
						allAfter = false
					}
				}
				if allAfter && addEntryTests(c, a, flag) {
					why = "the store is tested and marked " + flag.Name() + " by " + h.Name() + " in one critical section of its own lock, called with the write lock held; AddEntry refuses a marked store"
				}
			}
			for _, call := range callsTo(fn, flush) {
				if core.InstrDominates(call, ci) && writeHeld(call) {
					why = "the store was flushed in the same write-locked section"
				}
			}
			if why != "" && writeHeld(ci) {
				r.OK("HELD", construct, c.Pos(ci.Pos()), why)
			} else {
				r.Violation("HELD", construct, c.Pos(ci.Pos()), "a SegStore is removed from allSegStores on a decision that was not taken under the write lock (no flush and no unused-test of the store in this write-locked section): ingest may have put events into the store in between; an unregistered store is never flushed, so those accepted events are lost")
			}
		}
	}
	r.Floor("HELD", "deletions from allSegStores", n, 3)
}

// addEntryTests: every call of doLogEventFilling in SegStore.AddEntry lies where the flag is known to be false and
// the store's lock is held.
func addEntryTests(c *core.Ctx, a *locks.Analysis, flag *types.Var) bool {
	add := c.Fn(pkgWriter, "SegStore.AddEntry")
	fill := c.Obj(pkgWriter, "SegStore.doLogEventFilling")
	ff := a.Facts[add]
	var loads []ssa.Value
	for _, b := range add.Blocks {
		for _, in := range b.Instrs {
			if ld, ok := in.(*ssa.UnOp); ok && ld.Op == token.MUL {
				if fa, ok := ld.X.(*ssa.FieldAddr); ok && core.FieldOfAddr(fa) == flag {
					held := false
					if ff != nil {
						for _, h := range ff.MustAt[in] {
							if strings.HasSuffix(h.Class.Name, "SegStore).Lock") {
								held = true
							}
						}
					}
					if held {
						loads = append(loads, ld)
					}
				}
			}
		}
	}
	calls := callsTo(add, fill)
	if len(calls) == 0 || len(loads) == 0 {
		return false
	}
	for _, call := range calls {
		ok := false
		for _, ld := range loads {
			if core.BoolKnownAt(ld, call.Block()) == core.No {
				ok = true
			}
		}
		if !ok {
			return false
		}
	}
	return true
}

// (7) ONCE — a segment that rotates while a search is being planned is legitimately present in both segment
// snapshots, so the searcher can hold two requests for the same segment key; what returns every event once is the
// searcher's record of the blocks it has handed out.  In Searcher.getFilteredBlocks every block that is added to the
// batch is recorded in processedBlocks before the loop moves on: no path from the append to the next iteration or to
// the return avoids the insertion into the per-segment block set.
func checkHandedOutOnce(c *core.Ctx, r *core.Report) {
	fn := c.Fn(pkgProcessor, "Searcher.getFilteredBlocks")
	pbF := c.Field(pkgProcessor, "Searcher.processedBlocks")
	fromProcessed := func(m ssa.Value) bool {
		// processedBlocks[k] (a Lookup of the field's map), possibly through a phi / extract
		seen := map[ssa.Value]bool{}
		var walk func(v ssa.Value, d int) bool
		walk = func(v ssa.Value, d int) bool {
			if d > 5 || seen[v] {
				return false
			}
			seen[v] = true
			switch x := v.(type) {
			case *ssa.Lookup:
				return walk(x.X, d+1)
			case *ssa.Extract:
				return walk(x.Tuple, d+1)
			case *ssa.Phi:
				for _, e := range x.Edges {
					if walk(e, d+1) {
						return true
					}
				}
			case *ssa.UnOp:
				if fa, ok := x.X.(*ssa.FieldAddr); ok && core.FieldOfAddr(fa) == pbF {
					return true
				}
			case *ssa.MakeMap:
				// a fresh inner map that is stored into processedBlocks
				if x.Referrers() != nil {
					for _, u := range *x.Referrers() {
						if mu, ok := u.(*ssa.MapUpdate); ok && mu.Value == ssa.Value(x) && walk(mu.Map, d+1) {
							return true
						}
					}
				}
			}
			return false
		}
		return walk(m, 0)
	}
	loops := core.Loops(fn)
	n := 0
	for _, ci := range core.CallsIn(fn) {
		bi, ok := ci.Common().Value.(*ssa.Builtin)
		if !ok || bi.Name() != "append" {
			continue
		}
		lp := core.InnermostLoop(loops, ci.Block())
		if lp == nil {
			continue
		}
		n++
		// one iteration of the loop: is there a path from the header back to the header (or to a return) on which the
		// block is appended but not recorded?  The order of the two within the iteration does not matter.
		type st struct {
			b        *ssa.BasicBlock
			app, rec bool
		}
		var leak ssa.Instruction
		seen := map[st]bool{}
		var work []st
		for _, sc := range lp.Header.Succs {
			if lp.Body[sc] {
				work = append(work, st{sc, false, false})
			}
		}
		for len(work) > 0 && leak == nil {
			x := work[len(work)-1]
			work = work[:len(work)-1]
			if seen[x] {
				continue
			}
			seen[x] = true
			app, rec := x.app, x.rec
			for _, in := range x.b.Instrs {
				if in == ssa.Instruction(ci) {
					app = true
				}
				if mu, ok := in.(*ssa.MapUpdate); ok && fromProcessed(mu.Map) {
					if _, inner := mu.Value.Type().Underlying().(*types.Map); !inner {
						rec = true
					}
				}
				if _, ok := in.(*ssa.Return); ok && app && !rec {
					leak = in
				}
			}
			for _, sc := range x.b.Succs {
				if sc == lp.Header || !lp.Body[sc] {
					if app && !rec && leak == nil {
						leak = x.b.Instrs[len(x.b.Instrs)-1]
					}
					continue
				}
				work = append(work, st{sc, app, rec})
			}
		}
		r.Check(leak == nil, "PAIR", fmt.Sprintf("%s:handed-out-block#%d-is-recorded", shortFn(fn), n), c.Pos(ci.Pos()),
			"every path from the append to the next iteration records the block in processedBlocks",
			"a block is added to the batch on a path that does not record it in processedBlocks: when a rotating segment is present in both snapshots the second request for the same segment key hands the block out again and every event of the block is returned twice")
	}
	r.Floor("PAIR", "blocks handed out by getFilteredBlocks", n, 1)
}

// checkNewSharedVariables — C11 clause NEWSHARED.  A package-level variable that the pinned tree does not have (it is
// absent from tables/baseline_symbols.json and is not the new name of a renamed one) and that is assigned outside the
// package initialiser is new shared state.  For such a variable the contradiction rule needs no table: if some of its
// accesses are made with a lock certainly held (in the accessing function or by every caller) and another access is
// made without that lock, one of the two is wrong — a scratch buffer "protected by smrLock" that one of its three
// users fills before taking the lock is corrupted by two concurrent rotations.  Variables of the sync and sync/atomic
// types, and variables nobody assigns after initialisation, are not state of this kind.  A variable that no access
// locks at all gives no contradiction and is not judged.
func checkNewSharedVariables(c *core.Ctx, r *core.Report, a *locks.Analysis) {
	if c.Baseline == nil {
		return
	}
	callers := c.StaticCallers()
	type access struct {
		in    ssa.Instruction
		write bool
	}
	accesses := map[*ssa.Global][]access{}
	isNew := func(g *ssa.Global) bool {
		if g.Pkg == nil || g.Pkg.Pkg == nil || !core.IsRepoPkg(g.Pkg.Pkg.Path()) {
			return false
		}
		rel := strings.TrimPrefix(strings.TrimPrefix(g.Pkg.Pkg.Path(), core.ModPath), "/")
		base, ok := c.Baseline[rel]
		if !ok {
			return false
		}
		if _, known := base[g.Name()]; known {
			return false
		}
		if g.Object() != nil && c.BaseName(g.Object()) != g.Name() {
			return false // a renamed variable
		}
		t := g.Type().(*types.Pointer).Elem()
		if n, ok := t.(*types.Named); ok && n.Obj().Pkg() != nil {
			switch n.Obj().Pkg().Path() {
			case "sync", "sync/atomic":
				return false
			}
		}
		return true
	}
	rootGlobal := func(v ssa.Value) *ssa.Global {
		for d := 0; d < 4; d++ {
			switch x := v.(type) {
			case *ssa.Global:
				return x
			case *ssa.FieldAddr:
				v = x.X
			case *ssa.IndexAddr:
				v = x.X
			default:
				return nil
			}
		}
		return nil
	}
	for _, fn := range c.RepoFunctions() {
		if isInitFunc(fn) {
			continue
		}
		for _, b := range fn.Blocks {
			for _, in := range b.Instrs {
				switch x := in.(type) {
				case *ssa.Store:
					if g := rootGlobal(x.Addr); g != nil && isNew(g) {
						accesses[g] = append(accesses[g], access{in, true})
					}
				case *ssa.UnOp:
					if x.Op == token.MUL {
						if g := rootGlobal(x.X); g != nil && isNew(g) {
							accesses[g] = append(accesses[g], access{in, false})
						}
					}
				}
			}
		}
	}
	var gs []*ssa.Global
	for g := range accesses {
		gs = append(gs, g)
	}
	sort.Slice(gs, func(i, j int) bool { return gs[i].String() < gs[j].String() })
	for _, g := range gs {
		acc := accesses[g]
		written := false
		for _, x := range acc {
			if x.write {
				written = true
			}
		}
		if !written {
			continue
		}
		// the lock classes certainly held at some access
		classes := map[locks.Class]bool{}
		for _, x := range acc {
			if ff := a.Facts[x.in.Parent()]; ff != nil {
				for _, h := range ff.MayHolds(x.in) {
					if ff.MustHold(x.in, h.Class, false) {
						classes[h.Class] = true
					}
				}
			}
		}
		if len(classes) == 0 {
			continue
		}
		construct := fmt.Sprintf("%s:every-access-under-one-lock", strings.TrimPrefix(g.String(), core.ModPath+"/"))
		consistent := false
		var lacking ssa.Instruction
		var lackName string
		for cl := range classes {
			all := true
			for _, x := range acc {
				ff := a.Facts[x.in.Parent()]
				if ff != nil && ff.MustHold(x.in, cl, false) {
					continue
				}
				if ok, _ := callersHold(c, a, callers, x.in.Parent(), cl, false, map[*ssa.Function]bool{}, 0); ok {
					continue
				}
				all = false
				if lacking == nil {
					lacking, lackName = x.in, cl.Name
				}
			}
			if all {
				consistent = true
			}
		}
		if consistent {
			r.OK("HELD", construct, c.Pos(acc[0].in.Pos()), fmt.Sprintf("%d accesses, all with one lock held", len(acc)))
		} else {
			r.Violation("HELD", construct, c.Pos(lacking.Pos()), fmt.Sprintf("this package-level variable is new; some of its accesses are made with %s held and this one is not: two goroutines (two rotations, a rotation and a clean-up) use it at the same time, so one overwrites what the other is still reading or writing", lackName))
		}
	}
}
