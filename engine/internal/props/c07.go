package props

import (
	"fmt"
	"go/token"
	"go/types"
	"sort"

	"golang.org/x/tools/go/ssa"

	"verif/engine/internal/core"
)

func sortStrings(s []string) { sort.Strings(s) }

func init() { register("C07", checkC07) }

const (
	pkgWriter = "pkg/segment/writer"
	pkgSuffix = "pkg/segment/writer/suffix"
	pkgQuery  = "pkg/segment/query"
	pkgMeta   = "pkg/segment/metadata"
	pkgConfig = "pkg/config"
)

// checkC07: flush ordering, atomic rewrites of recovery-critical files,
// rotation hand-over order, recovery adopts only what parsed.
func checkC07(c *core.Ctx, r *core.Report) {
	r.Explanation = "C07 (crash safety of flushed log data), structural clauses only: " +
		"(1) ORDER in SegStore.AppendWipToSegfile — column writer goroutines are awaited (WaitGroup.Wait on the group they Done) before the block summary, the unrotated block info, the running .sfm and the wip reset; block summary and segment statistics precede the running .sfm; " +
		"(2) ATOMIC — no in-place truncating open (O_TRUNC without O_APPEND, os.Create, os.WriteFile) of a recovery-critical file class (.sfm, segmeta.json, .sst, suffix file): only O_APPEND or tmp+rename, and no write to the tmp file after the rename; " +
		"(3) ORDER in checkAndRotateColFiles (durable segmeta entry, then rotated metadata, then removal from the unrotated table) and in suffix.getAndIncrementSuffixFromFile (increment, persist, then return); " +
		"(4) GUARD — recovery adopts a segment directory only when its .sfm was read and parsed without error; " +
		"(5) GUARD — ReadSfm reports success only after it has decoded file content (a missing .sfm is an error, not an empty answer)."
	r.NotCovered = "partial writes inside one system call, fsync ordering, I/O error paths, content equality after recovery, exactly-once visibility of recovered events"
	sm := newSummaries(c)

	// ---------------------------------------------------------------- (5) a missing .sfm is an error, not an empty answer
	// Start-up recovery adopts a segment directory on ReadSfm's nil error and then uses the parsed meta (clause 4).  So
	// ReadSfm may report success only after it has parsed file content: every return that can carry a nil error is
	// dominated by the JSON decoding of the bytes read.
	{
		readSfm := c.Fn(pkgWriter, "ReadSfm")
		var decodes []ssa.Instruction
		for _, ci := range core.CallsIn(readSfm) {
			if f := core.CalleeFunc(ci); f != nil && (f.Name() == "Unmarshal" || f.Name() == "Decode") {
				decodes = append(decodes, ci)
			}
		}
		r.Floor("GUARD", "JSON decodes in ReadSfm", len(decodes), 1)
		n := 0
		for _, ret := range core.Returns(readSfm) {
			if core.ReturnSuccess(ret) == core.No {
				continue
			}
			n++
			ok := false
			for _, d := range decodes {
				if core.InstrDominates(d, ret) {
					ok = true
				}
			}
			r.Check(ok, "GUARD", fmt.Sprintf("%s:success#%d-only-after-the-file-was-parsed", shortFn(readSfm), n), c.Pos(ret.Pos()),
				"the return is dominated by the decoding of the bytes read",
				"ReadSfm can report success without having parsed a .sfm (for instance for a file that does not exist): recovery then adopts the directory and dereferences the empty result, the start-up goroutine panics and the segments with completed flushes are never adopted")
		}
		r.Floor("GUARD", "returns of ReadSfm that can report success", n, 1)
	}

	// ---------------------------------------------------------------- (1)
	appendWip := c.Fn(pkgWriter, "SegStore.AppendWipToSegfile")
	writeWip := c.Obj(pkgWriter, "writeWip")
	flushBlockSummary := c.Obj(pkgWriter, "SegStore.flushBlockSummary")
	flushSegStats := c.Obj(pkgWriter, "SegStore.FlushSegStats")
	writeRunning := c.Obj(pkgWriter, "WriteRunningSegMeta")
	writeSfm := c.Obj(pkgWriter, "WriteSfm")
	updUnrot := c.Obj(pkgWriter, "updateUnrotatedBlockInfo")
	resetWip := c.Obj(pkgWriter, "SegStore.resetWipBlock")
	wgWait := c.ExtObj("sync", "WaitGroup.Wait")
	wgDone := c.ExtObj("sync", "WaitGroup.Done")

	colReach := sm.staticMayReach(objs(writeWip))
	// goroutines that write column data
	nGo := 0
	for _, ci := range core.CallsIn(appendWip) {
		g, ok := ci.(*ssa.Go)
		if !ok {
			continue
		}
		mc, ok := g.Call.Value.(*ssa.MakeClosure)
		if !ok {
			if callee := g.Call.StaticCallee(); callee != nil && colReach[callee] {
				r.Undecided("ORDER", core.FnName(appendWip)+":column-writer-goroutine", c.Pos(g.Pos()), "column writer spawned as a plain function; completion cannot be tied to a WaitGroup")
				nGo++
			}
			continue
		}
		clo := mc.Fn.(*ssa.Function)
		if !colReach[clo] {
			continue
		}
		nGo++
		construct := core.FnName(appendWip) + ":column-writers-awaited"
		// the closure must Done a WaitGroup on every exit: a `defer wg.Done()` that dominates all returns
		var wgFree *ssa.FreeVar
		for _, cci := range core.CallsIn(clo) {
			d, ok := cci.(*ssa.Defer)
			if !ok || !core.IsCallTo(d, wgDone) {
				continue
			}
			allDom := true
			for _, ret := range core.Returns(clo) {
				if !core.InstrDominates(d, ret) {
					allDom = false
				}
			}
			if !allDom {
				continue
			}
			if fv, ok := derefFreeVar(d.Call.Args[0]); ok {
				wgFree = fv
			}
		}
		if wgFree == nil {
			r.Violation("ORDER", construct, c.Pos(g.Pos()), "the goroutine that writes column data does not `defer wg.Done()` on every exit; completion of the column writes cannot be awaited")
			continue
		}
		var bound ssa.Value
		for i, fv := range clo.FreeVars {
			if fv == wgFree {
				bound = mc.Bindings[i]
			}
		}
		isWait := func(ci ssa.CallInstruction) bool {
			if !core.IsCallTo(ci, wgWait) {
				return false
			}
			if _, isGo := ci.(*ssa.Go); isGo {
				return false
			}
			return sameCell(ci.Common().Args[0], bound)
		}
		// every path from the spawn to each consumer passes the Wait
		consumers := []struct {
			name string
			set  objSet
			why  string
		}{
			{"flushBlockSummary", objs(flushBlockSummary), "the block summary makes the block visible to recovery; it must follow the column data"},
			{"updateUnrotatedBlockInfo", objs(updUnrot), "the unrotated block info makes the block visible to searches; it must follow the column data"},
			{"WriteRunningSegMeta", objs(writeRunning, writeSfm), "the running .sfm is what recovery adopts; it must follow the column data"},
			{"resetWipBlock", objs(resetWip), "the wip buffers are reused after the reset; writers must be done"},
		}
		for _, cons := range consumers {
			reached := []ssa.Instruction{}
			core.WalkForward(appendWip, g, func(in ssa.Instruction) bool {
				if ci, ok := in.(ssa.CallInstruction); ok {
					if isWait(ci) {
						return false
					}
					if cons.set.hasCallee(ci) {
						reached = append(reached, in)
					} else if h := ci.Common().StaticCallee(); h != nil && h.Blocks != nil && core.IsRepoPkg(core.FnPkgPath(h)) {
						// the consumer inside a helper called from here (the block extracted into a method)
						for _, cj := range core.CallsIn(h) {
							if cons.set.hasCallee(cj) {
								reached = append(reached, in)
								break
							}
						}
					}
				}
				return true
			})
			k := construct + ":" + cons.name
			if len(reached) > 0 {
				r.Violation("ORDER", k, c.Pos(reached[0].Pos()), fmt.Sprintf("%s is reachable from the spawn of a column-writer goroutine without waiting for it — %s", cons.name, cons.why))
			} else {
				r.OK("ORDER", k, c.Pos(g.Pos()), "every path from the spawn to "+cons.name+" passes Wait() on the goroutine's WaitGroup")
			}
		}
	}
	r.Floor("ORDER", "column-writer goroutines in AppendWipToSegfile", nGo, 1)

	isRunningMeta := objs(writeRunning, writeSfm)
	checkOrderDeep(c, r, sm, appendWip, "flushBlockSummary", objs(flushBlockSummary), "WriteRunningSegMeta", isRunningMeta, false, 1,
		"the running .sfm carries NumBlocks/RecordCount and is what recovery adopts; a crash after it but before the block summary exposes a block recovery cannot read")
	checkOrderDeep(c, r, sm, appendWip, "FlushSegStats", objs(flushSegStats), "WriteRunningSegMeta", isRunningMeta, false, 1,
		"the running .sfm must not announce records whose segment statistics are not on disk yet")
	checkOrderDeep(c, r, sm, appendWip, "flushBlockSummary", objs(flushBlockSummary), "resetWipBlock", objs(resetWip), false, 1,
		"the wip block must not be reset before its summary was flushed")
	checkOrderDeep(c, r, sm, appendWip, "WriteRunningSegMeta", objs(writeRunning, writeSfm), "resetWipBlock", objs(resetWip), false, 1,
		"the flush is complete (and acknowledged by the caller) only when the running .sfm covers the block")

	// once the block summary of a block was written the flush is only complete — and may only be reported as
	// successful — after the running .sfm covers the block and the wip block was reset: every return that may
	// report success and is reachable after flushBlockSummary passes WriteRunningSegMeta and resetWipBlock (made
	// directly, or by a helper that has made them whenever it reports success).  A success return in between
	// acknowledges events that a crash loses, and the next flush writes the same records again as the same block.
	{
		bsPred := sm.successMustPred(objs(flushBlockSummary))
		for _, need := range []struct {
			name string
			set  objSet
		}{{"WriteRunningSegMeta", objs(writeRunning, writeSfm)}, {"resetWipBlock", objs(resetWip)}} {
			isNeed := sm.successMustPred(need.set)
			construct := fmt.Sprintf("%s:success-after-flushBlockSummary-passes-%s", core.FnName(appendWip), need.name)
			var bad *ssa.Return
			nStart := 0
			for _, ci := range core.CallsIn(appendWip) {
				if !bsPred(ci) {
					continue
				}
				nStart++
				if isNeed(ci) {
					continue // the same helper also does what is needed whenever it reports success
				}
				core.WalkForward(appendWip, ci, func(in ssa.Instruction) bool {
					if x, ok := in.(ssa.CallInstruction); ok && isNeed(x) {
						return false
					}
					if ret, ok := in.(*ssa.Return); ok && core.ReturnSuccess(ret) != core.No && bad == nil {
						bad = ret
					}
					return true
				})
			}
			switch {
			case nStart == 0:
				r.Undecided("ORDER", construct, c.Pos(appendWip.Pos()), "no call that writes the block summary found in AppendWipToSegfile")
			case bad != nil:
				r.Violation("ORDER", construct, c.Pos(bad.Pos()), fmt.Sprintf("after the block summary was written AppendWipToSegfile can return success without %s: the caller takes the flush as done, but the block is not covered by the running .sfm (lost after a crash) and/or the wip block is not reset, so the next flush writes the same records again under the same block number", need.name))
			default:
				r.OK("ORDER", construct, c.Pos(appendWip.Pos()), "every success return reachable after the block summary passes "+need.name)
			}
		}
	}

	// ---------------------------------------------------------------- (3)
	rotate := c.Fn(pkgWriter, "SegStore.checkAndRotateColFiles")
	addSegmeta := c.Obj(pkgWriter, "addSegmeta")
	bulkAdd := c.Obj(pkgWriter, "BulkAddRotatedSegmetas")
	addToMeta := c.Obj(pkgMeta, "AddSegMetaToMetadata")
	cleanup := c.Obj(pkgWriter, "CleanupUnrotatedSegment")
	removeUnrot := c.Obj(pkgWriter, "removeSegKeyFromUnrotatedInfo")
	checkOrderDeep(c, r, sm, rotate, "addSegmeta", objs(addSegmeta, bulkAdd), "AddSegMetaToMetadata", objs(addToMeta), false, 1,
		"a segment becomes visible as rotated only after its segmeta entry is durable")
	checkOrderDeep(c, r, sm, rotate, "addSegmeta", objs(addSegmeta, bulkAdd), "CleanupUnrotatedSegment", objs(cleanup, removeUnrot), true, 1,
		"the open segment is forgotten only after its segmeta entry is durable")
	checkOrderDeep(c, r, sm, rotate, "AddSegMetaToMetadata", objs(addToMeta), "CleanupUnrotatedSegment", objs(cleanup, removeUnrot), true, 1,
		"the segment must be searchable as rotated before it is removed from the unrotated table")
	// inside BulkAddRotatedSegmetas the per-segment .sfm precedes the segmeta.json append
	bulk := c.Fn(pkgWriter, "BulkAddRotatedSegmetas")
	_ = bulk

	getAndInc := c.Fn(pkgSuffix, "getAndIncrementSuffixFromFile")
	// the persisting step is the rename that publishes the new suffix file, made by getAndIncrement itself
	// or by a helper that has renamed whenever it reports success (today: writeSuffix)
	persists := sm.successMustPred(objs(c.ExtObj("os", "Rename")))
	checkBeforeSuccessReturn(c, r, getAndInc, "writeSuffix", persists,
		"a suffix handed out without being persisted is handed out again after a restart and later ingestion overwrites recovered data")
	// the persisted value must be past the returned one: an increment of NextSuffix precedes writeSuffix
	nextSuffix := c.Field(pkgSuffix, "entry.NextSuffix")
	{
		construct := core.FnName(getAndInc) + ":NextSuffix-incremented<writeSuffix"
		var reached ssa.Instruction
		core.WalkForward(getAndInc, nil, func(in ssa.Instruction) bool {
			if st, ok := in.(*ssa.Store); ok && isFieldAddrOf(st.Addr, nextSuffix) {
				if bo, ok := st.Val.(*ssa.BinOp); ok && bo.Op == token.ADD {
					if k, ok := core.ConstIntValue(bo.Y); ok && k >= 1 {
						return false
					}
				}
			}
			if ci, ok := in.(ssa.CallInstruction); ok && persists(ci) {
				// the counter kept in a local: the persisting call is handed X + k (k >= 1) and X is what every
				// successful return hands out
				local := false
				for _, a := range ci.Common().Args {
					bo, ok := a.(*ssa.BinOp)
					if !ok || bo.Op != token.ADD {
						continue
					}
					if k, ok := core.ConstIntValue(bo.Y); !ok || k < 1 {
						continue
					}
					all, nSucc := true, 0
					for _, ret := range core.Returns(getAndInc) {
						if core.ReturnSuccess(ret) == core.No {
							continue
						}
						nSucc++
						if core.RetResult(ret, 0) != bo.X {
							all = false
						}
					}
					if all && nSucc > 0 {
						local = true
					}
				}
				if !local {
					reached = in
				}
			}
			return true
		})
		if reached != nil {
			r.Violation("ORDER", construct, c.Pos(reached.Pos()), "writeSuffix is reachable without a preceding increment of entry.NextSuffix: the persisted suffix is not past the one handed out")
		} else {
			r.OK("ORDER", construct, c.Pos(getAndInc.Pos()), "the counter is incremented on every path before it is persisted")
		}
	}

	// ---------------------------------------------------------------- (2)
	tbl := &classTable{
		Funcs: map[types.Object]string{
			c.Obj(pkgWriter, "GetSegFullMetaFnameFromSegkey"): ".sfm",
			c.Obj(pkgWriter, "GetLocalSegmetaFName"):          "segmeta.json",
			c.Obj(pkgConfig, "GetSuffixFile"):                 "suffix",
		},
		Globals: map[types.Object]string{
			c.Obj(pkgWriter, "localSegmetaFname"): "segmeta.json",
		},
		Consts: map[string]string{".sst": ".sst", ".sfm": ".sfm", "segmeta.json": "segmeta.json"},
	}
	checkAtomic(c, r, tbl, []string{".sfm", "segmeta.json", ".sst", "suffix"}, map[string]string{})

	// ---------------------------------------------------------------- (4)
	syncFn := c.Fn(pkgQuery, "syncSegMetaWithSegFullMeta")
	readSfm := c.Obj(pkgWriter, "ReadSfm")
	n := 0
	// the .sfm is read by the recovery function itself or, through helpers of the same package (a populate helper,
	// a per-directory scan extracted into a function), further down; the guards are required at every level:
	// the read's result is used only where its error is nil, a helper propagates the failure, the top level
	// adopts what was read, and — new with round 7 — inside a scan loop the failure of ONE segment's read does not
	// end the scan (the other segments of the directory hold completed flushes too)
	nRead := 0
	readers := map[*ssa.Function]bool{} // functions of the package from which ReadSfm is reached
	var cone []*ssa.Function
	{
		seen := map[*ssa.Function]bool{syncFn: true}
		cone = []*ssa.Function{syncFn}
		for i := 0; i < len(cone) && i < 64; i++ {
			for _, ci := range core.CallsIn(cone[i]) {
				h := ci.Common().StaticCallee()
				if h != nil && h.Blocks != nil && !seen[h] && core.FnPkgPath(h) == core.FnPkgPath(syncFn) {
					seen[h] = true
					cone = append(cone, h)
				}
			}
		}
		for changed := true; changed; {
			changed = false
			for _, g := range cone {
				if readers[g] {
					continue
				}
				for _, ci := range core.CallsIn(g) {
					if core.IsCallTo(ci, readSfm) || (ci.Common().StaticCallee() != nil && readers[ci.Common().StaticCallee()]) {
						readers[g] = true
						changed = true
					}
				}
			}
		}
	}
	for _, g := range cone {
		if !readers[g] {
			continue
		}
		loops := core.Loops(g)
		for _, ci := range core.CallsIn(g) {
			call, ok := ci.(*ssa.Call)
			if !ok {
				continue
			}
			isRead := core.IsCallTo(call, readSfm)
			h := call.Call.StaticCallee()
			if !isRead && !(h != nil && readers[h]) {
				continue
			}
			what := "ReadSfm"
			if !isRead {
				what = h.Name()
			} else {
				nRead++
			}
			n++
			checkErrGuardedUse(c, r, "GUARD", call, what, "recovery must adopt a segment directory only when its .sfm was read and parsed")
			if g == syncFn {
				checkAdoptedOnSuccess(c, r, "GUARD", call, what, "every open segment whose .sfm parses carries completed flushes and must be adopted at restart, whatever its counters say (the running .sfm is written before numBlocks is incremented)")
			}
			lp := core.InnermostLoop(loops, call.Block())
			if lp == nil {
				if g != syncFn {
					checkErrPropagated(c, r, "GUARD", call, what, "a half-written .sfm must make the populate step fail")
				}
				continue
			}
			// inside a scan loop: the failure edge stays in the loop
			errv, _ := errResultOf(call)
			construct := fmt.Sprintf("%s:failure-of(%s)-does-not-end-the-scan", core.FnName(g), what)
			if errv == nil {
				r.Undecided("GUARD", construct, c.Pos(call.Pos()), "the read's error result was not found")
				continue
			}
			var leaves ssa.Instruction
			core.WalkForwardEdges(g, call, func(in ssa.Instruction) bool {
				if core.NilnessAt(errv, in.Block()) == core.Yes {
					return false // the success side
				}
				return true
			}, func(from, to *ssa.BasicBlock) bool {
				if to == lp.Header {
					return false // next segment: fine
				}
				if !lp.Body[to] {
					if core.NilnessAt(errv, from) == core.No || core.NilnessAt(errv, to) == core.No {
						if leaves == nil {
							leaves = from.Instrs[len(from.Instrs)-1]
						}
					}
					return false
				}
				return true
			})
			if leaves != nil {
				at := leaves.Pos()
				if !at.IsValid() {
					at = call.Pos()
				}
				r.Violation("GUARD", construct, c.Pos(at), "inside the scan over the segment directories the failure of one segment's .sfm read leaves the loop (return / break): one unreadable or still empty directory — rotation creates the next segment's directory before its first flush — hides every other open segment of the stream directory from recovery, and their completed flushes are never searchable again")
			} else {
				r.OK("GUARD", construct, c.Pos(call.Pos()), "on failure the scan goes on with the next directory")
			}
		}
	}
	r.Floor("GUARD", "reads of the .sfm in the recovery of open segments", nRead, 1)
	readSfmFn := c.Fn(pkgWriter, "ReadSfm")
	jsonUnmarshal := c.ExtObj("encoding/json", "Unmarshal")
	for _, call := range callsTo(readSfmFn, jsonUnmarshal) {
		n++
		checkErrPropagated(c, r, "GUARD", call, "json.Unmarshal", "ReadSfm must fail on a truncated or damaged .sfm")
	}
	r.Floor("GUARD", "recovery error-guard sites", n, 3)
}

// derefFreeVar: v is a free variable of pointer type, or a load of a free
// variable that holds a captured variable.
func derefFreeVar(v ssa.Value) (*ssa.FreeVar, bool) {
	switch x := v.(type) {
	case *ssa.FreeVar:
		return x, true
	case *ssa.UnOp:
		if fv, ok := x.X.(*ssa.FreeVar); ok {
			return fv, true
		}
	}
	return nil, false
}

// sameCell: a and b denote the same storage: identical values, or loads of the
// same address.
func sameCell(a, b ssa.Value) bool {
	if a == b {
		return true
	}
	ua, ok1 := a.(*ssa.UnOp)
	ub, ok2 := b.(*ssa.UnOp)
	if ok1 && ok2 && ua.X == ub.X {
		return true
	}
	if ok1 && ua.X == b {
		return true
	}
	if ok2 && ub.X == a {
		return true
	}
	return false
}

func isFieldAddrOf(addr ssa.Value, fld *types.Var) bool {
	fa, ok := addr.(*ssa.FieldAddr)
	if !ok {
		return false
	}
	pt, ok := fa.X.Type().Underlying().(*types.Pointer)
	if !ok {
		return false
	}
	st, ok := pt.Elem().Underlying().(*types.Struct)
	if !ok {
		return false
	}
	return st.Field(fa.Field) == fld
}

func sharesClass(a map[string]bool, b map[string]bool) bool {
	for k := range a {
		if b[k] {
			return true
		}
	}
	return false
}

// checkAtomic applies ATOMIC to every write-open site of the repository whose
// path may denote one of the critical classes.
func checkAtomic(c *core.Ctx, r *core.Report, tbl *classTable, classes []string, exceptions map[string]string) {
	rename := c.ExtObj("os", "Rename")
	critical := map[string]bool{}
	for _, cl := range classes {
		critical[cl] = true
	}
	sites := fileOpenSites(c)
	r.Count("file_open_sites_examined", len(sites))
	perClass := map[string]int{}
	for _, s := range sites {
		if s.ReadOnly {
			continue
		}
		pc := classifyPath(c, s.Path, tbl, 4)
		hit := map[string]bool{}
		for cl := range pc.Classes {
			if critical[cl] {
				hit[cl] = true
			}
		}
		if len(hit) == 0 {
			continue
		}
		fname := shortFn(s.Fn)
		construct := fmt.Sprintf("%s:%s(%s)", fname, s.API, classNames(hit))
		for cl := range hit {
			perClass[cl]++
		}
		switch {
		case s.Append:
			r.OK("ATOMIC", construct, c.Pos(s.Call.Pos()), "opened with O_APPEND")
		case pc.Tmp:
			// tmp idiom: a Rename of this very path value must follow, and no write to the file after it
			okRename := false
			for _, ci := range core.CallsIn(s.Fn) {
				if core.IsCallTo(ci, rename) && ci.Common().Args[0] == s.Path {
					okRename = true
					// the live path is not removed or emptied before the rename replaces it (rename is the atomic step)
					live := ci.Common().Args[1]
					for _, rc := range core.CallsIn(s.Fn) {
						rf := core.CalleeFunc(rc)
						if rf == nil || rf.Pkg() == nil || rf.Pkg().Path() != "os" || len(rc.Common().Args) == 0 {
							continue
						}
						switch rf.Name() {
						case "Remove", "RemoveAll", "Truncate":
						default:
							continue
						}
						if rc.Common().Args[0] != live {
							continue
						}
						before := false
						core.WalkForward(s.Fn, rc, func(in ssa.Instruction) bool {
							if in == ssa.Instruction(ci) {
								before = true
							}
							return !before
						})
						if before {
							r.Violation("ATOMIC", construct+":live-file-kept-until-the-rename", c.Pos(rc.Pos()), "the live recovery-critical file is removed (or emptied) before the temporary file is renamed onto it: a crash between the two system calls leaves no file at all, so everything that was recoverable from the previous version is lost")
						}
					}
					// no write on the opened file after the rename
					var fd ssa.Value
					if call, ok := s.Call.(*ssa.Call); ok {
						_, others := errResultOf(call)
						if len(others) > 0 {
							fd = others[0]
						}
					}
					if fd != nil {
						var late ssa.Instruction
						core.WalkForward(s.Fn, ci, func(in ssa.Instruction) bool {
							if w, ok := in.(*ssa.Call); ok {
								if f := core.CalleeFunc(w); f != nil && f.Pkg() != nil && f.Pkg().Path() == "os" && len(w.Call.Args) > 0 && w.Call.Args[0] == fd {
									switch f.Name() {
									case "Write", "WriteString", "WriteAt":
										late = in
									}
								}
							}
							return true
						})
						if late != nil {
							r.Violation("ATOMIC", construct+":write-after-rename", c.Pos(late.Pos()), "the temporary file is written after it was renamed onto the live path")
						}
					}
				}
			}
			handedOver := false
			if !okRename {
				// the temporary file is written by a helper that gets its name from the caller: the rename of that
				// very name must then follow the helper's call in every caller (and the live file must not be removed
				// or emptied between the two)
				if par, isPar := s.Path.(*ssa.Parameter); isPar && s.Fn.Parent() == nil {
					idx := -1
					for i, p := range s.Fn.Params {
						if p == par {
							idx = i
						}
					}
					callers := c.StaticCallers()[s.Fn]
					all := idx >= 0 && len(callers) > 0
					for _, cs := range callers {
						if idx < 0 || idx >= len(cs.Common().Args) {
							all = false
							continue
						}
						arg := cs.Common().Args[idx]
						found := false
						core.WalkForward(cs.Parent(), cs, func(in ssa.Instruction) bool {
							if ci, ok := in.(ssa.CallInstruction); ok && core.IsCallTo(ci, rename) && ci.Common().Args[0] == arg {
								found = true
								return false
							}
							if rc, ok := in.(ssa.CallInstruction); ok {
								if rf := core.CalleeFunc(rc); rf != nil && rf.Pkg() != nil && rf.Pkg().Path() == "os" && len(rc.Common().Args) > 0 {
									switch rf.Name() {
									case "Remove", "RemoveAll", "Truncate":
										// removing the temporary file itself (clean-up after a failed write) is fine
										if rc.Common().Args[0] != arg {
											if pcl := classifyPath(c, rc.Common().Args[0], tbl, 4); !pcl.Tmp && sharesClass(pcl.Classes, hit) {
												r.Violation("ATOMIC", construct+":live-file-kept-until-the-rename", c.Pos(rc.Pos()), "the live recovery-critical file is removed (or emptied) before the temporary file is renamed onto it: a crash between the two system calls leaves no file at all, so everything that was recoverable from the previous version is lost")
											}
										}
									}
								}
							}
							return true
						})
						if !found {
							all = false
						}
					}
					if all {
						okRename, handedOver = true, true
					}
				}
			}
			if okRename && s.Trunc != core.Yes {
				r.Violation("ATOMIC", construct+":temporary-file-starts-empty", c.Pos(s.Call.Pos()), "the temporary file is opened without truncation: after a pass that was interrupted between writing the temporary file and the rename, the next pass overwrites the stale file in place, and if it writes fewer bytes the stale tail is renamed onto the live path (entries that were just removed come back)")
			}
			if okRename {
				how := "temporary file, renamed onto the live path in the same function"
				if handedOver {
					how = "temporary file named by the caller, renamed onto the live path after this helper's call in every caller"
				}
				r.OK("ATOMIC", construct, c.Pos(s.Call.Pos()), how)
			} else {
				r.Violation("ATOMIC", construct, c.Pos(s.Call.Pos()), "temporary file is never renamed onto the live path in this function")
			}
		case s.Trunc == core.No:
			r.OK("ATOMIC", construct, c.Pos(s.Call.Pos()), "opened without truncation")
		case dominatedByNotExist(s.Call):
			r.OK("ATOMIC", construct, c.Pos(s.Call.Pos()), "truncating open taken only on the ErrNotExist edge of a previous open: there is no previous content to lose")
		default:
			if why, ok := exceptions[fname]; ok {
				r.Assume("ATOMIC", construct, c.Pos(s.Call.Pos()), "exception: "+why)
				continue
			}
			r.Violation("ATOMIC", construct, c.Pos(s.Call.Pos()),
				fmt.Sprintf("%s truncates/overwrites a live recovery-critical file (%s) in place: a crash between the truncation and the completed write leaves it empty or partial; the accepted idioms are O_APPEND or write-to-tmp + os.Rename", s.API, classNames(hit)))
		}
	}
	for _, cl := range classes {
		r.Floor("ATOMIC", "write sites of class "+cl, perClass[cl], 1)
	}
}

// shortFn renders pkgname.Func / pkgname.Type.Method without pointer noise.
func shortFn(fn *ssa.Function) string {
	for fn.Parent() != nil {
		fn = fn.Parent()
	}
	name := fn.Name()
	if recv := fn.Signature.Recv(); recv != nil {
		t := recv.Type()
		if p, ok := t.(*types.Pointer); ok {
			t = p.Elem()
		}
		if n, ok := t.(*types.Named); ok {
			name = n.Obj().Name() + "." + name
		}
	}
	if fn.Pkg != nil {
		return fn.Pkg.Pkg.Name() + "." + name
	}
	return name
}

// dominatedByNotExist: the instruction lies on the true edge of
// errors.Is(err, os.ErrNotExist) / os.IsNotExist(err) — the file did not exist.
func dominatedByNotExist(in ssa.Instruction) bool {
	for b := in.Block(); b != nil; b = b.Idom() {
		idom := b.Idom()
		if idom == nil {
			break
		}
		ifi, ok := core.LastIf(idom)
		if !ok || idom.Succs[0] != b || len(b.Preds) != 1 {
			continue
		}
		call, ok := ifi.Cond.(*ssa.Call)
		if !ok {
			continue
		}
		f := core.CalleeFunc(call)
		if f == nil || f.Pkg() == nil {
			continue
		}
		switch f.Pkg().Path() + "." + f.Name() {
		case "os.IsNotExist":
			return true
		case "errors.Is":
			if u, ok := call.Call.Args[1].(*ssa.UnOp); ok {
				if g, ok := u.X.(*ssa.Global); ok && g.Pkg.Pkg.Path() == "io/fs" || ok && g.Name() == "ErrNotExist" {
					return true
				}
			}
		}
	}
	return false
}
