package props

import (
	"fmt"
	"go/token"
	"go/types"
	"sort"
	"strings"

	"golang.org/x/tools/go/ssa"

	"verif/engine/internal/core"
)

// checkSchedulerAdmission — C05 clause (5).  The time-ordered segment scheduler (Searcher.getQSRSToProcess)
// releases records up to a cut-off; a segment must be read in a round iff it overlaps the released range and
// may be retired iff it lies wholly inside it:
//
//	newest-first:  admit  end >= cut-off     retire  start >= cut-off
//	oldest-first:  admit  start <= cut-off   retire  end <= cut-off
//
// The clause is decided on the SSA form, per sort mode, whatever the spelling: the condition under which the
// segment is appended to the round's list (and under which it is removed from the pending list) is resolved
// through boolean locals (phis), same-package predicate functions (today shouldProcessQSR and
// willProcessQSRCompletely) and negations to ONE comparison atom over {start, end, cut-off}, taking in each
// place only the arms that are feasible for the mode (the `switch s.sortMode` arms).
func checkSchedulerAdmission(c *core.Ctx, r *core.Report) {
	get := c.Fn(pkgProcessor, "Searcher.getQSRSToProcess")
	sortMode := c.Field(pkgProcessor, "Searcher.sortMode")
	cutoff := c.Field(pkgProcessor, "Searcher.cutOffTimestampInMs")
	modes := map[string]int64{"recentFirst": c.ConstVal(pkgProcessor, "recentFirst"), "recentLast": c.ConstVal(pkgProcessor, "recentLast")}
	startM := c.Obj("pkg/segment/query", "QuerySegmentRequest.GetStartEpochMs")
	endM := c.Obj("pkg/segment/query", "QuerySegmentRequest.GetEndEpochMs")

	// parameters of a predicate function stand for the arguments of the call being resolved (the mode and the
	// cut-off may be read by the caller and handed in)
	bind := map[*ssa.Parameter]ssa.Value{}
	unbind := func(v ssa.Value) ssa.Value {
		for i := 0; i < 4; i++ {
			p, ok := v.(*ssa.Parameter)
			if !ok {
				return v
			}
			b, ok := bind[p]
			if !ok {
				return v
			}
			v = b
		}
		return v
	}
	// --- facts about the sort mode that hold in a block (or on an edge out of it)
	modeTest := func(b *ssa.BasicBlock) (k int64, eqSucc int, ok bool) {
		ifi, isIf := core.LastIf(b)
		if !isIf {
			return 0, 0, false
		}
		bo, isBin := ifi.Cond.(*ssa.BinOp)
		if !isBin || (bo.Op != token.EQL && bo.Op != token.NEQ) {
			return 0, 0, false
		}
		x, y := bo.X, bo.Y
		if _, isConst := x.(*ssa.Const); isConst {
			x, y = y, x
		}
		x = unbind(x)
		ld, isLd := x.(*ssa.UnOp)
		if !isLd {
			return 0, 0, false
		}
		fa, isFa := ld.X.(*ssa.FieldAddr)
		if !isFa || core.FieldOfAddr(fa) != sortMode {
			return 0, 0, false
		}
		k, isK := core.ConstIntValue(y)
		if !isK {
			return 0, 0, false
		}
		if bo.Op == token.NEQ {
			return k, 1, true
		}
		return k, 0, true
	}
	feasible := func(b, edgeTo *ssa.BasicBlock, mode int64) bool {
		eq, ne := map[int64]bool{}, map[int64]bool{}
		learn := func(from, to *ssa.BasicBlock) {
			k, eqSucc, ok := modeTest(from)
			if !ok || from.Succs[0] == from.Succs[1] {
				return
			}
			if from.Succs[eqSucc] == to {
				eq[k] = true
			}
			if from.Succs[1-eqSucc] == to {
				ne[k] = true
			}
		}
		if edgeTo != nil {
			learn(b, edgeTo)
		}
		for x := b; x != nil && x.Idom() != nil; x = x.Idom() {
			if len(x.Preds) == 1 {
				learn(x.Idom(), x)
			}
		}
		if ne[mode] {
			return false
		}
		for k := range eq {
			if k != mode {
				return false
			}
		}
		return true
	}

	// --- resolution of a boolean value to one atom under a mode
	flip := map[token.Token]token.Token{token.GEQ: token.LEQ, token.LEQ: token.GEQ, token.GTR: token.LSS, token.LSS: token.GTR, token.EQL: token.EQL, token.NEQ: token.NEQ}
	negate := map[string]string{">=": "<", "<": ">=", "<=": ">", ">": "<=", "==": "!=", "!=": "=="}
	leaf := func(v ssa.Value) string {
		v = unbind(v)
		switch x := v.(type) {
		case *ssa.Call:
			if core.IsCallTo(x, startM) {
				return "start"
			}
			if core.IsCallTo(x, endM) {
				return "end"
			}
		case *ssa.UnOp:
			if fa, ok := x.X.(*ssa.FieldAddr); ok && x.Op == token.MUL && core.FieldOfAddr(fa) == cutoff {
				return "cutoff"
			}
		}
		return ""
	}
	negAtom := func(a string) string {
		switch a {
		case "true":
			return "false"
		case "false":
			return "true"
		}
		parts := strings.Split(a, " ")
		if len(parts) == 3 && negate[parts[1]] != "" {
			return parts[0] + " " + negate[parts[1]] + " " + parts[2]
		}
		return ""
	}
	var resolve func(v ssa.Value, mode int64, depth int) string
	resolve = func(v ssa.Value, mode int64, depth int) string {
		if depth > 6 || v == nil {
			return ""
		}
		same := func(vals []string) string {
			if len(vals) == 0 {
				return ""
			}
			for _, x := range vals {
				if x == "" || x != vals[0] {
					return ""
				}
			}
			return vals[0]
		}
		switch x := v.(type) {
		case *ssa.Const:
			if x.Value != nil && (x.Value.String() == "true" || x.Value.String() == "false") {
				return x.Value.String()
			}
		case *ssa.UnOp:
			if x.Op == token.NOT {
				return negAtom(resolve(x.X, mode, depth+1))
			}
		case *ssa.BinOp:
			op := x.Op
			if _, isCmp := flip[op]; !isCmp {
				return ""
			}
			l, rr := leaf(x.X), leaf(x.Y)
			if l == "" || rr == "" {
				return ""
			}
			if l == "cutoff" {
				l, rr, op = rr, l, flip[op]
			}
			return l + " " + op.String() + " " + rr
		case *ssa.Phi:
			var vals []string
			for i, e := range x.Edges {
				if feasible(x.Block().Preds[i], x.Block(), mode) {
					vals = append(vals, resolve(e, mode, depth+1))
				}
			}
			return same(vals)
		case *ssa.Call:
			callee := x.Call.StaticCallee()
			if callee == nil || callee.Blocks == nil || !core.IsRepoPkg(core.FnPkgPath(callee)) || callee.Signature.Results().Len() != 1 {
				return ""
			}
			saved := map[*ssa.Parameter]ssa.Value{}
			for i, p := range callee.Params {
				if i < len(x.Call.Args) {
					if old, had := bind[p]; had {
						saved[p] = old
					}
					bind[p] = unbind(x.Call.Args[i])
				}
			}
			var vals []string
			for _, ret := range core.Returns(callee) {
				if feasible(ret.Block(), nil, mode) {
					vals = append(vals, resolve(ret.Results[0], mode, depth+1))
				}
			}
			for _, p := range callee.Params {
				if old, had := saved[p]; had {
					bind[p] = old
				} else {
					delete(bind, p)
				}
			}
			return same(vals)
		}
		return ""
	}
	// the comparison atoms that guard a block under a mode
	guards := func(b *ssa.BasicBlock, mode int64) []string {
		var out []string
		for x := b; x != nil && x.Idom() != nil; x = x.Idom() {
			idom := x.Idom()
			if len(x.Preds) != 1 {
				continue
			}
			ifi, ok := core.LastIf(idom)
			if !ok || idom.Succs[0] == idom.Succs[1] {
				continue
			}
			if _, _, isMode := modeTest(idom); isMode {
				continue
			}
			a := resolve(ifi.Cond, mode, 0)
			if a == "" {
				continue
			}
			if idom.Succs[1] == x {
				a = negAtom(a)
			}
			if a != "" && a != "true" {
				out = append(out, a)
			}
		}
		sort.Strings(out)
		return out
	}

	// --- the two actions
	isQsrSlice := func(t types.Type) bool {
		sl, ok := t.Underlying().(*types.Slice)
		if !ok {
			return false
		}
		p, ok := sl.Elem().(*types.Pointer)
		if !ok {
			return false
		}
		n, ok := p.Elem().(*types.Named)
		return ok && n.Obj().Name() == "QuerySegmentRequest"
	}
	loops := core.Loops(get)
	var admits, retires []*ssa.BasicBlock
	for _, b := range get.Blocks {
		if core.InnermostLoop(loops, b) == nil {
			continue
		}
		for _, in := range b.Instrs {
			call, ok := in.(*ssa.Call)
			if !ok {
				continue
			}
			if bi, ok := call.Call.Value.(*ssa.Builtin); ok && bi.Name() == "append" && isQsrSlice(call.Type()) {
				admits = append(admits, b)
			}
			if f := core.CalleeFunc(call); f != nil && f.Name() == "Remove" && f.Pkg() != nil && f.Pkg().Path() == "container/list" {
				retires = append(retires, b)
			}
		}
	}
	want := map[string]map[string]string{
		"admission":  {"recentFirst": "end >= cutoff", "recentLast": "start <= cutoff"},
		"retirement": {"recentFirst": "start >= cutoff", "recentLast": "end <= cutoff"},
	}
	meaning := map[string]string{
		"admission":  "a segment is read in this round iff it overlaps the released range (newest-first: end >= cut-off; oldest-first: start <= cut-off); otherwise records of a partially overlapping segment are released after older (newer) ones",
		"retirement": "a segment is retired iff it lies wholly in the released range (newest-first: start >= cut-off; oldest-first: end <= cut-off); otherwise the rest of a partially read segment is never read",
	}
	for _, act := range []struct {
		name  string
		sites []*ssa.BasicBlock
	}{{"admission", admits}, {"retirement", retires}} {
		for _, mname := range []string{"recentFirst", "recentLast"} {
			mode := modes[mname]
			construct := fmt.Sprintf("processor.Searcher.getQSRSToProcess:%s:%s", act.name, mname)
			n := 0
			bad := ""
			var at *ssa.BasicBlock
			for _, b := range act.sites {
				if !feasible(b, nil, mode) {
					continue
				}
				n++
				g := guards(b, mode)
				if len(g) != 1 || g[0] != want[act.name][mname] {
					bad = fmt.Sprintf("%v", g)
					at = b
				}
			}
			switch {
			case n == 0:
				r.Violation("ORDERTABLE", construct, c.Pos(get.Pos()), "no "+act.name+" of a segment is reachable in this sort mode: "+meaning[act.name])
			case bad != "":
				pos := get.Pos()
				for _, in := range at.Instrs {
					if in.Pos().IsValid() {
						pos = in.Pos()
						break
					}
				}
				r.Violation("ORDERTABLE", construct, c.Pos(pos), fmt.Sprintf("in this sort mode the %s is guarded by %s; it must be guarded by exactly `%s`: %s", act.name, bad, want[act.name][mname], meaning[act.name]))
			default:
				r.OK("ORDERTABLE", construct, c.Pos(get.Pos()), fmt.Sprintf("%d site(s), guarded by exactly `%s`", n, want[act.name][mname]))
			}
		}
	}
}

// checkSortLimitCut — C05 clause (10).  The sort command keeps the best rows seen so far in
// sortProcessor.resultsSoFar and hands that out at the end; `sort N` means at most N rows come out, whatever the
// batching.  Every IQR stored into resultsSoFar — by Process or by a method of the processor it calls — is cut to
// the limit: IQR.DiscardAfter is called with the command's Limit on that very IQR before the store, or on every
// path from the store to a return that does not report an error.  (IQR.Sort's limit argument is a top-N selection
// hint that is only honoured for small limits; it is not a cut.)
func checkSortLimitCut(c *core.Ctx, r *core.Report) {
	resF := c.Field(pkgProcessor, "sortProcessor.resultsSoFar")
	limitF := c.Field("pkg/segment/structs", "SortExpr.Limit")
	discard := c.Obj("pkg/segment/query/iqr", "IQR.DiscardAfter")
	sortT := c.NamedType(pkgProcessor, "sortProcessor")
	fromLimit := func(v ssa.Value) bool {
		for _, o := range c.Origins(v, 1) {
			if o.Kind == "field" && o.Obj == types.Object(limitF) {
				return true
			}
		}
		return false
	}
	n := 0
	for _, fn := range c.RepoFunctions() {
		recv := fn.Signature.Recv()
		if recv == nil {
			continue
		}
		rt := recv.Type()
		if p, ok := rt.(*types.Pointer); ok {
			rt = p.Elem()
		}
		if !types.Identical(rt, sortT) {
			continue
		}
		k := 0
		for _, b := range fn.Blocks {
			for _, in := range b.Instrs {
				st, ok := in.(*ssa.Store)
				if !ok {
					continue
				}
				fa, ok := st.Addr.(*ssa.FieldAddr)
				if !ok || core.FieldOfAddr(fa) != resF || core.IsNilConst(st.Val) {
					continue
				}
				n++
				k++
				construct := fmt.Sprintf("%s:resultsSoFar-store#%d-is-cut-to-the-limit", shortFn(fn), k)
				// a cut of the stored IQR: DiscardAfter(Limit) on the stored value, or on a load of the field
				isCut := func(x ssa.Instruction) bool {
					call, ok := x.(*ssa.Call)
					if !ok || !core.IsCallTo(call, discard) || len(call.Call.Args) < 2 || !fromLimit(call.Call.Args[1]) {
						return false
					}
					rcv := call.Call.Args[0]
					if rcv == st.Val {
						return true
					}
					if ld, ok := rcv.(*ssa.UnOp); ok {
						if lfa, ok := ld.X.(*ssa.FieldAddr); ok && core.FieldOfAddr(lfa) == resF {
							return true
						}
					}
					return false
				}
				before := false
				for _, bb := range fn.Blocks {
					for _, x := range bb.Instrs {
						if isCut(x) && core.InstrDominates(x, st) {
							if call := x.(*ssa.Call); call.Call.Args[0] == st.Val {
								before = true
							}
						}
					}
				}
				var leak ssa.Instruction
				if !before {
					core.WalkForward(fn, st, func(x ssa.Instruction) bool {
						if isCut(x) {
							return false
						}
						if ret, ok := x.(*ssa.Return); ok && core.ReturnSuccess(ret) != core.No && leak == nil {
							leak = ret
						}
						return true
					})
				}
				if leak != nil {
					r.Violation("BOUND", construct, c.Pos(st.Pos()), "an IQR is kept as the sort command's result so far without being cut to the command's limit (no DiscardAfter(Limit) on it before the store or before the function returns): with a single large batch, or a limit above the top-N threshold of IQR.Sort, `sort N` returns more than N rows")
				} else {
					r.OK("BOUND", construct, c.Pos(st.Pos()), "cut to the limit before it is stored or before the function returns")
				}
			}
		}
	}
	r.Floor("BOUND", "stores of the sort command's result so far", n, 2)
}

// checkMergeLimitCut — C05 clause (11).  When a limited command (sort N, head N) runs as several parallel chains, the
// merging DataProcessor enforces N across the chains: mergeSettings.numReturned counts the rows handed on, and each
// batch is cut to what is left of the limit before it is counted.  Wherever the rows of an IQR are added to
// numReturned, that IQR has, on every path from the function's entry, either passed IQR.DiscardAfter (directly or in a
// helper of the package that applies it to the IQR it is given) or come along the edge on which no limit is set.  A
// fast path that hands a batch on and counts it without the cut returns more than N rows whenever the other chains ran
// dry early.
func checkMergeLimitCut(c *core.Ctx, r *core.Report) {
	numF := c.Field(pkgProcessor, "mergeSettings.numReturned")
	discard := c.Obj("pkg/segment/query/iqr", "IQR.DiscardAfter")
	numRecs := c.Obj("pkg/segment/query/iqr", "IQR.NumberOfRecords")
	pkgPath := core.ModPath + "/" + pkgProcessor
	// helpers that cut the IQR they are given: parameter index -> true
	cutters := map[*ssa.Function]map[int]bool{}
	for _, fn := range c.RepoFunctions() {
		if core.FnPkgPath(fn) != pkgPath || fn.Blocks == nil {
			continue
		}
		for _, call := range callsTo(fn, discard) {
			if par, ok := call.Call.Args[0].(*ssa.Parameter); ok {
				for i, q := range fn.Params {
					if q == par {
						if cutters[fn] == nil {
							cutters[fn] = map[int]bool{}
						}
						cutters[fn][i] = true
					}
				}
			}
		}
	}
	n := 0
	for _, fn := range c.RepoFunctions() {
		if core.FnPkgPath(fn) != pkgPath || fn.Blocks == nil {
			continue
		}
		k := 0
		for _, b := range fn.Blocks {
			for _, in := range b.Instrs {
				st, ok := in.(*ssa.Store)
				if !ok {
					continue
				}
				fa, ok := st.Addr.(*ssa.FieldAddr)
				if !ok || core.FieldOfAddr(fa) != numF {
					continue
				}
				if _, isK := st.Val.(*ssa.Const); isK {
					continue // reset
				}
				// the IQR whose rows are counted
				var counted ssa.Value
				var find func(v ssa.Value, d int)
				find = func(v ssa.Value, d int) {
					if d > 4 || counted != nil {
						return
					}
					switch x := v.(type) {
					case *ssa.BinOp:
						find(x.X, d+1)
						find(x.Y, d+1)
					case *ssa.Convert:
						find(x.X, d+1)
					case *ssa.Call:
						if core.IsCallTo(x, numRecs) && len(x.Call.Args) > 0 {
							counted = x.Call.Args[0]
						}
					}
				}
				find(st.Val, 0)
				if counted == nil {
					continue
				}
				n++
				k++
				construct := fmt.Sprintf("%s:rows-counted-against-the-merge-limit#%d-were-cut-to-it", shortFn(fn), k)
				isCut := func(x ssa.Instruction) bool {
					call, ok := x.(*ssa.Call)
					if !ok {
						return false
					}
					if core.IsCallTo(call, discard) && len(call.Call.Args) > 0 && call.Call.Args[0] == counted {
						return true
					}
					if h := call.Call.StaticCallee(); h != nil && cutters[h] != nil {
						for i, a := range call.Call.Args {
							if a == counted && cutters[h][i] {
								return true
							}
						}
					}
					return false
				}
				reached := false
				core.WalkForwardEdges(fn, nil, func(x ssa.Instruction) bool {
					if isCut(x) {
						return false
					}
					if x == ssa.Instruction(st) {
						reached = true
						return false
					}
					return true
				}, func(from, to *ssa.BasicBlock) bool {
					// the edge on which no limit is set: the `ok` of Option.Get() is false
					ifi, ok := core.LastIf(from)
					if !ok {
						return true
					}
					cond, neg := ifi.Cond, false
					if u, ok := cond.(*ssa.UnOp); ok && u.Op == token.NOT {
						cond, neg = u.X, true
					}
					ex, ok := cond.(*ssa.Extract)
					if !ok || ex.Index != 1 {
						return true
					}
					get, ok := ex.Tuple.(*ssa.Call)
					if !ok {
						return true
					}
					if f := core.CalleeFunc(get); f == nil || f.Name() != "Get" {
						return true
					}
					noLimit := from.Succs[1]
					if neg {
						noLimit = from.Succs[0]
					}
					return to != noLimit
				})
				if reached {
					// the no-limit edge was pruned above; walk it separately: it is fine by definition
					r.Violation("GUARD", construct, c.Pos(st.Pos()), "the rows of a batch are counted against the merge limit (and the batch handed on) on a path where the batch was not cut to what is left of the limit: when the other parallel chains ran dry early, `sort N` / `head N` returns more than N rows")
				} else {
					r.OK("GUARD", construct, c.Pos(st.Pos()), "on every path with a limit the counted IQR passed DiscardAfter first")
				}
			}
		}
	}
	r.Floor("GUARD", "places where rows are counted against the merge limit", n, 1)
}
