package props

import (
	"fmt"
	"go/token"
	"go/types"
	"strings"

	"golang.org/x/tools/go/ssa"

	"verif/engine/internal/core"
	"verif/engine/internal/locks"
)

// (6) CURSOR — the block reader of a rotated metrics block narrows its next binary search over the series offset
// table with a cursor (last series id, its index) left by the previous lookup.  The index a failed lookup returns
// is not a position, so the cursor may be moved only by a lookup that found its series: every store to a cursor
// field in GetTimeSeriesIterator lies where the lookup's `found` result is known to be true.
func c08Cursor(c *core.Ctx, r *core.Report) {
	fn := c.Fn("pkg/segment/reader/metrics/series", "TimeSeriesBlockReader.GetTimeSeriesIterator")
	lookup := c.Obj("pkg/segment/reader/metrics/series", "getOffsetFromTsoFile")
	cursor := map[*types.Var]bool{
		c.Field("pkg/segment/reader/metrics/series", "TimeSeriesBlockReader.first"):     true,
		c.Field("pkg/segment/reader/metrics/series", "TimeSeriesBlockReader.lastTSID"):  true,
		c.Field("pkg/segment/reader/metrics/series", "TimeSeriesBlockReader.lastTSidx"): true,
	}
	// the `found` value: result #0 of the lookup calls, possibly joined by phis
	found := map[ssa.Value]bool{}
	for _, call := range callsTo(fn, lookup) {
		if refs := call.Referrers(); refs != nil {
			for _, u := range *refs {
				if ex, ok := u.(*ssa.Extract); ok && ex.Index == 0 {
					found[ex] = true
				}
			}
		}
	}
	for changed := true; changed; {
		changed = false
		for _, b := range fn.Blocks {
			for _, in := range b.Instrs {
				if ph, ok := in.(*ssa.Phi); ok && !found[ph] {
					for _, e := range ph.Edges {
						if found[e] {
							found[ph] = true
							changed = true
						}
					}
				}
			}
		}
	}
	r.Floor("CURSOR", "lookups of the series offset table in GetTimeSeriesIterator", len(callsTo(fn, lookup)), 2)
	n := 0
	for _, b := range fn.Blocks {
		for _, in := range b.Instrs {
			st, ok := in.(*ssa.Store)
			if !ok {
				continue
			}
			fa, ok := st.Addr.(*ssa.FieldAddr)
			if !ok || !cursor[core.FieldOfAddr(fa)] {
				continue
			}
			n++
			known := false
			for v := range found {
				if core.BoolKnownAt(v, b) == core.Yes {
					known = true
				}
			}
			r.Check(known, "CURSOR", fmt.Sprintf("%s:store(%s)-only-after-a-successful-lookup", shortFn(fn), core.FieldOfAddr(fa).Name()), c.Pos(st.Pos()),
				"the cursor field is written where the lookup is known to have found the series",
				"the search cursor of the block reader is moved by a lookup that may have failed: the index of a failed lookup is not a position, so the next lookup searches a wrong window of the offset table, does not find a series that is in the block, and that series' datapoints are silently missing from the result")
		}
	}
	r.Floor("CURSOR", "stores to the block reader's cursor fields", n, 3)
}

// (8) LENPREFIX — a length-prefixed field is written as "length, then bytes".  The reader takes the length at its
// word, so the number written must be the length of exactly the bytes that follow; a length taken from another form
// of the value (its escaped spelling, its raw JSON bytes) shifts everything behind it: the reader swallows the series
// ids as part of the value, the series cannot be found by selector and every later entry of the chunk is lost.
// In the metrics writer packages, for every buffer write of an encoded integer that is len(A) of some A, the next
// write to the same buffer writes A.
func c08LenPrefix(c *core.Ctx, r *core.Report) {
	scope := []string{core.ModPath + "/" + pkgMetrics}
	type pair struct {
		fn   *ssa.Function
		lenW ssa.CallInstruction
		of   ssa.Value
	}
	lenOf := func(v ssa.Value) ssa.Value {
		// UintNNToBytesLittleEndian(uintNN(len(A)))  ->  A
		call, ok := v.(*ssa.Call)
		if !ok {
			return nil
		}
		f := core.CalleeFunc(call)
		if f == nil || !strings.HasPrefix(f.Name(), "Uint") || !strings.Contains(f.Name(), "ToBytes") || len(call.Call.Args) != 1 {
			return nil
		}
		x := call.Call.Args[0]
		for i := 0; i < 3; i++ {
			if cv, ok := x.(*ssa.Convert); ok {
				x = cv.X
			}
		}
		lc, ok := x.(*ssa.Call)
		if !ok {
			return nil
		}
		if bi, ok := lc.Call.Value.(*ssa.Builtin); ok && bi.Name() == "len" {
			return lc.Call.Args[0]
		}
		return nil
	}
	isBufWrite := func(ci ssa.CallInstruction) (buf, data ssa.Value, ok bool) {
		f := core.CalleeFunc(ci)
		if f == nil || f.Pkg() == nil || f.Pkg().Path() != "bytes" || (f.Name() != "Write" && f.Name() != "WriteString") {
			return nil, nil, false
		}
		args := ci.Common().Args
		if len(args) != 2 {
			return nil, nil, false
		}
		return args[0], args[1], true
	}
	sameData := func(a, b ssa.Value) bool {
		strip := func(v ssa.Value) ssa.Value {
			for i := 0; i < 3; i++ {
				switch x := v.(type) {
				case *ssa.Convert:
					v = x.X
				case *ssa.Slice:
					if x.Low == nil && x.High == nil {
						v = x.X
					}
				}
			}
			return v
		}
		return strip(a) == strip(b)
	}
	n := 0
	for _, fn := range c.RepoFunctions() {
		in := false
		for _, p := range scope {
			if strings.HasPrefix(core.FnPkgPath(fn), p) {
				in = true
			}
		}
		if !in {
			continue
		}
		k := 0
		for _, ci := range core.CallsIn(fn) {
			buf, data, ok := isBufWrite(ci)
			if !ok {
				continue
			}
			A := lenOf(data)
			if A == nil {
				continue
			}
			// a byte length (string / []byte), not an element count that is followed by a loop over the elements
			isBytes := false
			switch t := A.Type().Underlying().(type) {
			case *types.Basic:
				isBytes = t.Info()&types.IsString != 0
			case *types.Slice:
				if eb, ok := t.Elem().Underlying().(*types.Basic); ok && eb.Kind() == types.Uint8 {
					isBytes = true
				}
			}
			if !isBytes {
				continue
			}
			n++
			k++
			construct := fmt.Sprintf("%s:length-prefix#%d-is-the-length-of-what-follows", shortFn(fn), k)
			// the next write to the same buffer on the straight path (skipping error-return branches)
			var next ssa.CallInstruction
			core.WalkForward(fn, ci, func(in ssa.Instruction) bool {
				if next != nil {
					return false
				}
				if c2, ok := in.(ssa.CallInstruction); ok {
					if b2, _, ok := isBufWrite(c2); ok && b2 == buf {
						next = c2
						return false
					}
				}
				return true
			})
			if next == nil {
				r.Undecided("LENPREFIX", construct, c.Pos(ci.Pos()), "no following write to the same buffer found")
				continue
			}
			_, d2, _ := isBufWrite(next)
			r.Check(sameData(A, d2), "LENPREFIX", construct, c.Pos(ci.Pos()),
				"the length written is len() of the value written next",
				"the length prefix is the length of one value and the bytes written after it are another value (for instance the raw, escaped form against the unescaped one): whenever the two lengths differ the reader mis-frames the entry, swallows the series ids that follow as part of the value and loses the rest of the chunk")
		}
	}
	r.Floor("LENPREFIX", "length-prefixed buffer writes in the metrics writer", n, 1)
}

// (9) COUNT16 — the tags tree stores, per tag value, a 16-bit count followed by that many series ids, and a 16-bit
// length followed by the value's bytes.  A count or length above 65535 does not fit: written through a bare uint16()
// conversion it is silently reduced modulo 65536 while ALL the ids / bytes are still written, so the reader mis-frames
// the entry and everything behind it.  Every uint16 conversion of a len() in encodeTagsTree lies where the length is
// known to be at most 65535 (a dominating comparison whose other edge leaves the encoder).
func c08Count16(c *core.Ctx, r *core.Report) {
	fn := c.Fn(pkgMetrics, "TagTree.encodeTagsTree")
	n := 0
	for _, b := range fn.Blocks {
		for _, in := range b.Instrs {
			cv, ok := in.(*ssa.Convert)
			if !ok {
				continue
			}
			tb, ok := cv.Type().Underlying().(*types.Basic)
			if !ok || tb.Kind() != types.Uint16 {
				continue
			}
			lc, ok := cv.X.(*ssa.Call)
			if !ok {
				continue
			}
			bi, ok := lc.Call.Value.(*ssa.Builtin)
			if !ok || bi.Name() != "len" {
				continue
			}
			n++
			what := "count"
			if _, isStr := lc.Call.Args[0].Type().Underlying().(*types.Basic); isStr {
				what = "length"
			}
			// bounded: some comparison of this len value with a constant <= 65535 is known to hold here
			bounded := false
			for _, b2 := range fn.Blocks {
				for _, in2 := range b2.Instrs {
					cmp, ok := in2.(*ssa.BinOp)
					if !ok || cmp.X != ssa.Value(lc) {
						continue
					}
					k, ok := core.ConstIntValue(cmp.Y)
					if !ok {
						continue
					}
					known := core.BoolKnownAt(cmp, b)
					switch cmp.Op {
					case token.GTR:
						bounded = bounded || (known == core.No && k <= 65535)
					case token.GEQ:
						bounded = bounded || (known == core.No && k <= 65536)
					case token.LEQ:
						bounded = bounded || (known == core.Yes && k <= 65535)
					case token.LSS:
						bounded = bounded || (known == core.Yes && k <= 65536)
					}
				}
			}
			// name the narrowed length by where its operand comes from, so that the obligation's key survives unrelated edits
			subject := fmt.Sprintf("#%d", n)
			switch a := lc.Call.Args[0].(type) {
			case *ssa.UnOp:
				if fa, ok := a.X.(*ssa.FieldAddr); ok {
					subject = "len(" + core.FieldOfAddr(fa).Name() + ")"
				}
			case *ssa.Extract:
				if call, ok := a.Tuple.(*ssa.Call); ok {
					if f := core.CalleeFunc(call); f != nil {
						subject = "len(result of " + f.Name() + ")"
					}
				}
			case *ssa.Call:
				if f := core.CalleeFunc(a); f != nil {
					subject = "len(result of " + f.Name() + ")"
				}
			}
			r.Check(bounded, "BOUND", fmt.Sprintf("%s:16-bit-%s-%s-is-bounded", shortFn(fn), what, subject), c.Pos(cv.Pos()),
				"the value is known to be at most 65535 where it is narrowed",
				"a "+what+" is narrowed to 16 bits without being known to fit: above 65535 the stored "+what+" is the true one modulo 65536 while all ids / bytes are still written, so the reader takes the surplus as the next entries; every series behind it in the chunk is lost or attributed to wrong tag values")
		}
	}
	r.Floor("BOUND", "16-bit narrowings of lengths in encodeTagsTree", n, 2)
}

// (10) REDIRECT — a metrics query is planned against the block numbers it saw and executed later; if the in-memory block
// was rotated in between, SearchUnrotatedMetricsBlock re-directs the planned block to the on-disk search
// (searchReq.BlocksToSearch) — this is what keeps the datapoints of a block that rotates during a query in the result.
// The re-direction must therefore be decided before the function can give up for any reason that concerns the NEW
// in-memory block: once the segment's lock is taken, no return is reachable without passing the test of the planned
// block numbers (the lookup in searchReq.UnrotatedBlkToSearch).
func c08Redirect(c *core.Ctx, r *core.Report, a *locks.Analysis) {
	fn := c.Fn(pkgMetrics, "SearchUnrotatedMetricsBlock")
	plannedF := c.Field(pkgStructs, "MetricsSearchRequest.UnrotatedBlkToSearch")
	var lookups []ssa.Instruction
	for _, b := range fn.Blocks {
		for _, in := range b.Instrs {
			if lk, ok := in.(*ssa.Lookup); ok {
				if ld, ok := lk.X.(*ssa.UnOp); ok {
					if fa, ok := ld.X.(*ssa.FieldAddr); ok && core.FieldOfAddr(fa) == plannedF {
						lookups = append(lookups, in)
					}
				}
			}
		}
	}
	r.Floor("ORDER", "tests of the planned unrotated block numbers", len(lookups), 1)
	// the lock acquisition
	var lockCall ssa.Instruction
	for _, ci := range core.CallsIn(fn) {
		if site, ok := a.SiteOf(ci); ok && (site.Op == locks.OpRLock || site.Op == locks.OpLock) && !site.Deferred && lockCall == nil {
			lockCall = ci
		}
	}
	if lockCall == nil {
		r.Undecided("ORDER", shortFn(fn)+":redirect-decided-first", c.Pos(fn.Pos()), "no lock acquisition found")
		return
	}
	isLookup := map[ssa.Instruction]bool{}
	for _, l := range lookups {
		isLookup[l] = true
	}
	var early *ssa.Return
	core.WalkForward(fn, lockCall, func(in ssa.Instruction) bool {
		if isLookup[in] {
			return false
		}
		if ret, ok := in.(*ssa.Return); ok && early == nil {
			early = ret
		}
		return true
	})
	if early != nil {
		r.Violation("ORDER", shortFn(fn)+":redirect-decided-first", c.Pos(early.Pos()), "after the segment lock is taken the function can return before it has tested whether the planned block is still the in-memory block: when the block was rotated between planning and execution and the function gives up early (the fresh in-memory block overlaps nothing), the rotated block is searched neither in memory nor on disk and all its datapoints are missing from the result")
	} else {
		r.OK("ORDER", shortFn(fn)+":redirect-decided-first", c.Pos(lookups[0].Pos()), "every return after the lock acquisition is preceded by the test of the planned block numbers")
	}
}

// (11) PAIR — a datapoint that is put into a block's series (MetricsBlock.InsertTimeSeries with the new series,
// TimeSeries.AddSingleEntry) is also counted in the block's time range: in every function of the metrics writer
// that stores a datapoint, each such call is followed by MBlockSummary.UpdateTimeRange on every path that goes on
// successfully (to a success return or, inside a loop, to the next iteration).  The block summary's range is what
// a time-bounded query prunes blocks with, and what the WAL replay flushes; a datapoint outside it is never found.
func c08DatapointCounted(c *core.Ctx, r *core.Report) {
	insert := c.Obj(pkgMetrics, "MetricsBlock.InsertTimeSeries")
	addOne := c.Obj(pkgMetrics, "TimeSeries.AddSingleEntry")
	update := c.Obj("pkg/segment/structs", "MBlockSummary.UpdateTimeRange")
	// goesOnUncounted: from `from` (a store, or the call of a helper that stored), the function can go on
	// successfully — return success, or take the next record of a loop — without UpdateTimeRange.  A success
	// return of an unexported helper hands the obligation to its callers (the update made after the helper call).
	var goesOnUncounted func(fn *ssa.Function, from *ssa.Call, depth int) ssa.Instruction
	goesOnUncounted = func(fn *ssa.Function, from *ssa.Call, depth int) ssa.Instruction {
		errv, _ := errResultOf(from)
		loops := core.Loops(fn)
		lp := core.InnermostLoop(loops, from.Block())
		var leak ssa.Instruction
		var handOver bool
		core.WalkForwardEdges(fn, from, func(in ssa.Instruction) bool {
			if x, ok := in.(ssa.CallInstruction); ok && core.IsCallTo(x, update) {
				return false
			}
			if ret, ok := in.(*ssa.Return); ok && core.ReturnSuccess(ret) != core.No {
				if errv == nil || core.NilnessAt(errv, ret.Block()) != core.No {
					if leak == nil {
						leak = ret
					}
					handOver = true
				}
			}
			return true
		}, func(f, to *ssa.BasicBlock) bool {
			if errv != nil && core.NilnessAt(errv, to) == core.No {
				return false // the store failed: nothing to count
			}
			if lp != nil && to == lp.Header {
				if leak == nil {
					leak = f.Instrs[len(f.Instrs)-1]
				}
				return false
			}
			return true
		})
		if leak == nil {
			return nil
		}
		if _, isRet := leak.(*ssa.Return); isRet && handOver && depth < 2 && fn.Object() != nil && !fn.Object().Exported() {
			sites := c.StaticCallers()[fn]
			if len(sites) > 0 {
				for _, site := range sites {
					cs, ok := site.(*ssa.Call)
					if !ok {
						return leak
					}
					if l2 := goesOnUncounted(cs.Parent(), cs, depth+1); l2 != nil {
						return l2
					}
				}
				return nil
			}
		}
		return leak
	}
	n := 0
	for _, fn := range c.RepoFunctions() {
		if core.FnPkgPath(fn) != core.ModPath+"/"+pkgMetrics || fn.Blocks == nil {
			continue
		}
		var stores []*ssa.Call
		for _, ci := range core.CallsIn(fn) {
			if call, ok := ci.(*ssa.Call); ok && (core.IsCallTo(call, insert) || core.IsCallTo(call, addOne)) {
				stores = append(stores, call)
			}
		}
		if len(stores) == 0 || fn.Object() == insert || fn.Object() == addOne {
			continue
		}
		for i, st := range stores {
			n++
			leak := goesOnUncounted(fn, st, 0)
			construct := fmt.Sprintf("%s:datapoint-store#%d-is-counted-in-the-block's-time-range", shortFn(fn), i+1)
			if leak != nil {
				at := leak.Pos()
				if !at.IsValid() {
					at = st.Pos()
				}
				r.Violation("PAIR", construct, c.Pos(at), "after this datapoint was put into a series of the block the function can go on (return success / take the next record) without MBlockSummary.UpdateTimeRange: the block summary's time range does not cover the datapoint, so time-bounded queries prune the block, and a WAL replay whose datapoints all take this path flushes nothing and then deletes the WAL")
			} else {
				r.OK("PAIR", construct, c.Pos(st.Pos()), "followed by UpdateTimeRange on every path that goes on successfully")
			}
		}
	}
	r.Floor("PAIR", "datapoint stores in the metrics writer", n, 4)
}

// c08StagingBuffersStartEmpty — clause STAGING.  A bytes.Buffer kept in a struct of the metrics writer across calls
// (a staging buffer reused from one block rotation to the next) that the pinned tree does not have is new long-lived
// state.  In every function that appends to such a buffer, either a Reset / Truncate of that buffer precedes the first
// append on every path, or no return is reachable after an append without passing one: a buffer that is emptied on the
// success path only still holds the image of a failed attempt when the rotation is retried, and the reader then takes
// the series table from the stale image at the head of the file.
func c08StagingBuffersStartEmpty(c *core.Ctx, r *core.Report) {
	if c.Baseline == nil {
		return
	}
	prefix := core.ModPath + "/pkg/segment/writer/metrics"
	isBuffer := func(t types.Type) bool {
		if p, ok := t.(*types.Pointer); ok {
			t = p.Elem()
		}
		n, ok := t.(*types.Named)
		return ok && n.Obj().Pkg() != nil && n.Obj().Pkg().Path() == "bytes" && n.Obj().Name() == "Buffer"
	}
	isNewField := func(fa *ssa.FieldAddr) (*types.Var, bool) {
		f := core.FieldOfAddr(fa)
		if f == nil || f.Pkg() == nil || !isBuffer(f.Type()) {
			return nil, false
		}
		pt, ok := fa.X.Type().Underlying().(*types.Pointer)
		if !ok {
			return nil, false
		}
		named, ok := pt.Elem().(*types.Named)
		if !ok {
			return nil, false
		}
		rel := strings.TrimPrefix(strings.TrimPrefix(f.Pkg().Path(), core.ModPath), "/")
		base, ok := c.Baseline[rel]
		if !ok {
			return nil, false
		}
		if _, known := base[named.Obj().Name()+"."+f.Name()]; known {
			return nil, false
		}
		if c.BaseName(f) != f.Name() {
			return nil, false
		}
		return f, true
	}
	fieldOfRecv := func(v ssa.Value) *types.Var {
		switch x := v.(type) {
		case *ssa.FieldAddr:
			if f, ok := isNewField(x); ok {
				return f
			}
		case *ssa.UnOp:
			if fa, ok := x.X.(*ssa.FieldAddr); ok && x.Op == token.MUL {
				if f, ok := isNewField(fa); ok {
					return f
				}
			}
		}
		return nil
	}
	for _, fn := range c.RepoFunctions() {
		if !strings.HasPrefix(core.FnPkgPath(fn), prefix) || fn.Blocks == nil {
			continue
		}
		writes := map[*types.Var][]ssa.Instruction{}
		resets := map[*types.Var][]ssa.Instruction{}
		for _, ci := range core.CallsIn(fn) {
			f := core.CalleeFunc(ci)
			if f == nil || f.Pkg() == nil || f.Pkg().Path() != "bytes" || len(ci.Common().Args) == 0 {
				continue
			}
			fld := fieldOfRecv(ci.Common().Args[0])
			if fld == nil {
				continue
			}
			switch f.Name() {
			case "Write", "WriteByte", "WriteString", "WriteRune", "ReadFrom":
				writes[fld] = append(writes[fld], ci)
			case "Reset", "Truncate":
				resets[fld] = append(resets[fld], ci)
			}
		}
		// a deferred Reset (directly, or in a deferred closure) empties the buffer on every exit
		deferredReset := map[*types.Var]bool{}
		deferredAny := false
		for _, b := range fn.Blocks {
			for _, in := range b.Instrs {
				df, ok := in.(*ssa.Defer)
				if !ok {
					continue
				}
				if f := core.CalleeFunc(df); f != nil && f.Pkg() != nil && f.Pkg().Path() == "bytes" && (f.Name() == "Reset" || f.Name() == "Truncate") && len(df.Call.Args) > 0 {
					if fld := fieldOfRecv(df.Call.Args[0]); fld != nil {
						deferredReset[fld] = true
					}
				}
				if mc, ok := df.Call.Value.(*ssa.MakeClosure); ok {
					if cl, ok := mc.Fn.(*ssa.Function); ok {
						for _, cj := range core.CallsIn(cl) {
							if f := core.CalleeFunc(cj); f != nil && f.Pkg() != nil && f.Pkg().Path() == "bytes" && (f.Name() == "Reset" || f.Name() == "Truncate") {
								deferredAny = true
							}
						}
					}
				}
			}
		}
		for fld, ws := range writes {
			construct := fmt.Sprintf("%s:staging-buffer(%s)-starts-empty", shortFn(fn), fld.Name())
			if deferredReset[fld] || deferredAny {
				r.OK("PAIR", construct, c.Pos(ws[0].Pos()), "emptied by a deferred Reset on every exit")
				continue
			}
			// reset before the first append on every path?
			atEntry := true
			for _, w := range ws {
				dominated := false
				for _, rs := range resets[fld] {
					if core.InstrDominates(rs, w) {
						dominated = true
					}
				}
				if !dominated {
					atEntry = false
				}
			}
			if atEntry {
				r.OK("PAIR", construct, c.Pos(ws[0].Pos()), "emptied before the first append")
				continue
			}
			isReset := map[ssa.Instruction]bool{}
			for _, rs := range resets[fld] {
				isReset[rs] = true
			}
			var dirty *ssa.Return
			for _, w := range ws {
				core.WalkForward(fn, w, func(in ssa.Instruction) bool {
					if isReset[in] {
						return false
					}
					if ret, ok := in.(*ssa.Return); ok && dirty == nil {
						dirty = ret
					}
					return true
				})
			}
			if dirty != nil {
				r.Violation("PAIR", construct, c.Pos(dirty.Pos()), "a buffer kept across calls is appended to and the function can return without emptying it (it is emptied on some paths only, and not before the first append): after a failed attempt the retry appends a second image behind the stale one, and the file's reader takes its tables from the stale head — series added between the two attempts are missing from the rotated block")
			} else {
				r.OK("PAIR", construct, c.Pos(ws[0].Pos()), "every return after an append passes a Reset")
			}
		}
	}
}
