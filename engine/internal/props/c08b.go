package props

import (
	"fmt"
	"go/types"

	"golang.org/x/tools/go/ssa"

	"verif/engine/internal/core"
)

// (6) CURSOR — the block reader of a rotated metrics block narrows its next binary search over the series offset
// table with a cursor (last series id, its index) left by the previous lookup.  The index a failed lookup returns
// is not a position, so the cursor may be moved only by a lookup that found its series: every store to a cursor
// field in GetTimeSeriesIterator lies where the lookup's `found` result is known to be true.
func c08Cursor(c *core.Ctx, r *core.Report) {
	fn := c.Fn("pkg/segment/reader/metrics/series", "TimeSeriesBlockReader.GetTimeSeriesIterator")
	lookup := c.Obj("pkg/segment/reader/metrics/series", "getOffsetFromTsoFile")
	cursor := map[*types.Var]bool{
		c.Field("pkg/segment/reader/metrics/series", "TimeSeriesBlockReader.first"):     true,
		c.Field("pkg/segment/reader/metrics/series", "TimeSeriesBlockReader.lastTSID"):  true,
		c.Field("pkg/segment/reader/metrics/series", "TimeSeriesBlockReader.lastTSidx"): true,
	}
	// the `found` value: result #0 of the lookup calls, possibly joined by phis
	found := map[ssa.Value]bool{}
	for _, call := range callsTo(fn, lookup) {
		if refs := call.Referrers(); refs != nil {
			for _, u := range *refs {
				if ex, ok := u.(*ssa.Extract); ok && ex.Index == 0 {
					found[ex] = true
				}
			}
		}
	}
	for changed := true; changed; {
		changed = false
		for _, b := range fn.Blocks {
			for _, in := range b.Instrs {
				if ph, ok := in.(*ssa.Phi); ok && !found[ph] {
					for _, e := range ph.Edges {
						if found[e] {
							found[ph] = true
							changed = true
						}
					}
				}
			}
		}
	}
	r.Floor("CURSOR", "lookups of the series offset table in GetTimeSeriesIterator", len(callsTo(fn, lookup)), 2)
	n := 0
	for _, b := range fn.Blocks {
		for _, in := range b.Instrs {
			st, ok := in.(*ssa.Store)
			if !ok {
				continue
			}
			fa, ok := st.Addr.(*ssa.FieldAddr)
			if !ok || !cursor[core.FieldOfAddr(fa)] {
				continue
			}
			n++
			known := false
			for v := range found {
				if core.BoolKnownAt(v, b) == core.Yes {
					known = true
				}
			}
			r.Check(known, "CURSOR", fmt.Sprintf("%s:store(%s)-only-after-a-successful-lookup", shortFn(fn), core.FieldOfAddr(fa).Name()), c.Pos(st.Pos()),
				"the cursor field is written where the lookup is known to have found the series",
				"the search cursor of the block reader is moved by a lookup that may have failed: the index of a failed lookup is not a position, so the next lookup searches a wrong window of the offset table, does not find a series that is in the block, and that series' datapoints are silently missing from the result")
		}
	}
	r.Floor("CURSOR", "stores to the block reader's cursor fields", n, 3)
}
