package props

import (
	"fmt"
	"go/token"

	"golang.org/x/tools/go/ssa"

	"verif/engine/internal/core"
)

// c17ScanAll — C17 clause SCANALL (added after seeded change C17-m13).  A query that is deleted or cancelled while it
// waits for admission is taken out of the waiting queue by a scan for its id; if the scan cannot reach an entry, that
// query is admitted after its terminal state and holds an admission slot for ever.  Rule: in the query package, a loop
// that indexes the waiting queue by its induction variable is bounded by the length of a slice (`range`, or
// `i < len(q)`), not by a length minus a constant.  Only that shape is judged; other bounds are left alone.
func c17ScanAll(c *core.Ctx, r *core.Report) {
	g := c.Global(pkgQuery, "waitingQueries")
	isQueue := func(v ssa.Value) bool {
		ld, ok := v.(*ssa.UnOp)
		return ok && ld.Op == token.MUL && ld.X == ssa.Value(g)
	}
	var isLen func(v ssa.Value) bool
	isLen = func(v ssa.Value) bool {
		if cv, ok := v.(*ssa.Convert); ok {
			return isLen(cv.X)
		}
		call, ok := v.(*ssa.Call)
		if !ok {
			return false
		}
		b, ok := call.Call.Value.(*ssa.Builtin)
		return ok && b.Name() == "len"
	}
	n := 0
	for _, fn := range c.RepoFunctions() {
		if core.FnPkgPath(fn) != core.ModPath+"/"+pkgQuery {
			continue
		}
		seen := map[*ssa.Phi]bool{}
		for _, b := range fn.Blocks {
			for _, in := range b.Instrs {
				ia, ok := in.(*ssa.IndexAddr)
				if !ok || !isQueue(ia.X) {
					continue
				}
				// the induction variable: a phi, or phi+1 (range loops)
				var phi *ssa.Phi
				switch x := ia.Index.(type) {
				case *ssa.Phi:
					phi = x
				case *ssa.BinOp:
					if p, ok := x.X.(*ssa.Phi); ok && x.Op == token.ADD {
						phi = p
					}
				}
				if phi == nil || seen[phi] {
					continue
				}
				seen[phi] = true
				// the comparison that bounds the loop: an If in the phi's block or its successors whose condition compares the
				// phi (or phi+1) with something
				var bound ssa.Value
				var at ssa.Instruction
				for _, hb := range append([]*ssa.BasicBlock{phi.Block()}, phi.Block().Succs...) {
					ifi, ok := core.LastIf(hb)
					if !ok {
						continue
					}
					bo, ok := ifi.Cond.(*ssa.BinOp)
					if !ok || (bo.Op != token.LSS && bo.Op != token.LEQ) {
						continue
					}
					lhs := bo.X
					if a, ok := lhs.(*ssa.BinOp); ok && a.Op == token.ADD {
						lhs = a.X
					}
					if lhs == ssa.Value(phi) {
						bound, at = bo.Y, bo
						break
					}
				}
				if bound == nil {
					continue
				}
				n++
				construct := fmt.Sprintf("%s:scan-of-the-waiting-queue#%d-reaches-every-entry", shortFn(fn), len(seen))
				if sub, ok := bound.(*ssa.BinOp); ok && sub.Op == token.SUB && isLen(sub.X) {
					// `i < len-k` misses the last k entries, `i <= len-k` the last k-1
					if k, ok := core.ConstIntValue(sub.Y); ok && ((at.(*ssa.BinOp).Op == token.LSS && k > 0) || (at.(*ssa.BinOp).Op == token.LEQ && k > 1)) {
						r.Violation("SCANALL", construct, c.Pos(at.Pos()), "the scan of the waiting queue stops before the last entry (bound = length minus a constant): a query deleted or cancelled while it is the last one waiting stays in the queue, is admitted after its terminal state and holds an admission slot for ever")
						continue
					}
				}
				r.OK("SCANALL", construct, c.Pos(at.Pos()), "bounded by a length (or a bound this clause does not judge)")
			}
		}
	}
	r.Floor("SCANALL", "index loops over the waiting queue", n, 2)
}
