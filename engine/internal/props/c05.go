package props

import (
	"fmt"
	"go/token"
	"go/types"
	"sort"
	"strings"

	"golang.org/x/tools/go/ssa"

	"verif/engine/internal/core"
)

func init() { register("C05", checkC05) }

const pkgProcessor = "pkg/segment/query/processor"

// toleranceEquality: fn contains `math.Abs(a - b) < eps` (or <=) with constant eps.
func toleranceEquality(fn *ssa.Function) bool {
	for _, b := range fn.Blocks {
		for _, in := range b.Instrs {
			bo, ok := in.(*ssa.BinOp)
			if !ok || (bo.Op != token.LSS && bo.Op != token.LEQ) {
				continue
			}
			call, ok := bo.X.(*ssa.Call)
			if !ok {
				continue
			}
			f := core.CalleeFunc(call)
			if f == nil || f.Pkg() == nil || f.Pkg().Path() != "math" || f.Name() != "Abs" {
				continue
			}
			if sub, ok := call.Call.Args[0].(*ssa.BinOp); ok && sub.Op == token.SUB {
				return true
			}
		}
	}
	return false
}

func checkC05(c *core.Ctx, r *core.Report) {
	r.Explanation = "C05 (result order, limits, pagination), comparator and cut-off clauses only: " +
		"(1) comparator exactness — every ordering function handed to sort.Slice/SliceStable/sort.Sort, IQR.Sort and IQR merging (and the sort command's less functions) is collected from the call sites, and no function reachable from it over static calls is a tolerance equality (|a-b| < eps) or converts a dynamically typed column value between uint64 and int64 (which wraps at 2^63): such a comparator is not the numeric order, so adjacent output can be out of order; " +
		"(7) SIBLING — the parser that ranks a string as numeric in getRank is the parser the comparison converts it with; " +
		"(8) every compareValues call sits inside a whole loop over the sort elements (no ordering decision on one key alone); " +
		"(9) BOUND — a sort's unsigned row limit is clamped before it is converted to a signed count and handed on (no limit = maximum unsigned value); " +
		"(10) BOUND — every IQR that the sort command keeps as its result so far is cut to the command's limit (DiscardAfter(Limit) on it before the store or before the function returns): IQR.Sort's limit is only a top-N selection hint; " +
		"(6) the merger that joins the sort-index and the plain sub-searcher of a pushed-down sort is configured from a private copy of the sort expression whose row limit is the maximum (the plain stream is not in sort-key order, so the merger must not truncate); " +
		"(2) SIBLING — sortProcessor.less and lessDirectRead decide through the same compareValues; " +
		"(4) the sort-index search's decision to stop at the limit is control-dependent on the number of sort keys (the index orders by the first key only); " +
		"(5) in the time-ordered segment scheduler (getQSRSToProcess) the condition under which a segment is added to the round, and the condition under which it is removed from the pending list, resolve per sort mode — through boolean locals, same-package predicate functions and negations — to exactly `end >= cut-off` / `start <= cut-off` (admission, newest-first / oldest-first) and `start >= cut-off` / `end <= cut-off` (retirement): segment overlaps the released range, segment lies wholly in it; " +
		"(3) newest-first cut-off — in Searcher.fetchRRCs the raw end time returned by getNextBlocks is used only as operand of the max/min clamp against the segment cut-off timestamp, or on paths where the sort mode is neither newest-first nor oldest-first: records beyond the cut-off are never released while unread segments may still hold newer ones."
	r.NotCovered = "the streaming merge itself (getNextBlocks, unsent records), limit = prefix, pagination completeness, tie-group completion of the sort-index path: all depend on timestamp values and block histories"

	// ---------------------------------------------------------------- (1)
	tol := map[*ssa.Function]bool{}
	for _, fn := range c.RepoFunctions() {
		if toleranceEquality(fn) {
			tol[fn] = true
		}
	}
	r.Count("tolerance_equality_functions", len(tol))
	// ... nor a sign-changing integer conversion of a dynamically typed value (v.(uint64) -> int64 or back):
	// a column value can use the whole range of its type, so the conversion wraps and the order is not the numeric one
	wrap := map[*ssa.Function]bool{}
	for _, fn := range c.RepoFunctions() {
		if signChangingConversionOfDynamicValue(fn) {
			wrap[fn] = true
		}
	}
	r.Count("functions_with_sign_changing_conversion_of_a_dynamic_value", len(wrap))
	// comparators
	type cmpSite struct {
		fn   *ssa.Function
		at   ssa.Instruction
		kind string
	}
	var cmps []cmpSite
	iqrSort := c.Obj("pkg/segment/query/iqr", "IQR.Sort")
	mergeIQRs := c.TryObj("pkg/segment/query/iqr", "MergeIQRs")
	for _, fn := range c.RepoFunctions() {
		for _, ci := range core.CallsIn(fn) {
			f := core.CalleeFunc(ci)
			if f == nil || f.Pkg() == nil {
				continue
			}
			var arg ssa.Value
			kind := ""
			switch {
			case f.Pkg().Path() == "sort" && (f.Name() == "Slice" || f.Name() == "SliceStable"):
				arg, kind = ci.Common().Args[1], "sort."+f.Name()
			case f == iqrSort:
				arg, kind = ci.Common().Args[len(ci.Common().Args)-1], "IQR.Sort"
			case mergeIQRs != nil && f == mergeIQRs:
				arg, kind = ci.Common().Args[len(ci.Common().Args)-1], "MergeIQRs"
			}
			if arg == nil {
				continue
			}
			for _, target := range funcValues(arg) {
				cmps = append(cmps, cmpSite{target, ci, kind})
			}
		}
	}
	// the sort command's comparators, also reached through method values
	for _, n := range []string{"sortProcessor.less", "sortProcessor.lessDirectRead"} {
		cmps = append(cmps, cmpSite{c.Fn(pkgProcessor, n), nil, "sort command"})
	}
	r.Floor("ORDER", "comparator functions collected", len(cmps), 30)
	seen := map[*ssa.Function]bool{}
	seenW := map[*ssa.Function]bool{}
	sort.Slice(cmps, func(i, j int) bool { return cmps[i].fn.String() < cmps[j].fn.String() })
	nBad := 0
	for _, cs := range cmps {
		if cs.fn == nil || seen[cs.fn] || cs.fn.Blocks == nil {
			continue
		}
		seen[cs.fn] = true
		if !core.IsRepoPkg(core.FnPkgPath(cs.fn)) {
			continue
		}
		if path := reachesAny(cs.fn, tol, map[*ssa.Function]bool{}, 0); path != nil {
			nBad++
			name := shortFn(cs.fn)
			if cs.fn.Parent() != nil {
				name = fmt.Sprintf("%s$closure", shortFn(cs.fn))
			}
			r.Violation("ORDER", name+":comparator-is-exact", c.Pos(cs.fn.Pos()), "this ordering function decides through a tolerance equality (|a-b| < eps): values closer than the tolerance compare equal although they differ, which is not transitive, so the sorted output can have adjacent rows out of order", path...)
		}
	}
	for _, cs := range cmps {
		if cs.fn == nil || cs.fn.Blocks == nil || !core.IsRepoPkg(core.FnPkgPath(cs.fn)) || seenW[cs.fn] {
			continue
		}
		seenW[cs.fn] = true
		if path := reachesAny(cs.fn, wrap, map[*ssa.Function]bool{}, 0); path != nil {
			nBad++
			name := shortFn(cs.fn)
			if cs.fn.Parent() != nil {
				name = fmt.Sprintf("%s$closure", shortFn(cs.fn))
			}
			r.Violation("ORDER", name+":comparator-keeps-the-numeric-order", c.Pos(cs.fn.Pos()), "this ordering function decides through a sign-changing integer conversion of a column value (uint64 <-> int64): values at or above 2^63 wrap to negative numbers, so they sort before small values and a limited sort returns the wrong rows", path...)
		}
	}
	if nBad == 0 {
		r.OK("ORDER", "all-comparators-exact", "-", fmt.Sprintf("%d distinct comparator functions, none reaches a tolerance equality or a sign-changing conversion of a dynamically typed value", len(seen)))
	}

	c05MergeLimit(c, r)
	c05RankParser(c, r)
	c05AllKeys(c, r)
	c05LimitConversion(c, r)
	{
		// (5 of C06, shared) head's row limit is measured against the cumulative count
		ppkg := c.Pkg(pkgProcessor)
		c06RowLimit(c, r, func(named *types.Named, name string) *ssa.Function {
			o, _, _ := types.LookupFieldOrMethod(types.NewPointer(named), true, ppkg.Types, name)
			fo, ok := o.(*types.Func)
			if !ok {
				return nil
			}
			return c.Prog.FuncValue(fo)
		})
	}

	// ---------------------------------------------------------------- (2)
	cv := c.Obj(pkgProcessor, "compareValues")
	for _, n := range []string{"sortProcessor.less", "sortProcessor.lessDirectRead"} {
		fn := c.Fn(pkgProcessor, n)
		r.Check(len(callsTo(fn, cv)) > 0, "SIBLING", "processor."+n+":decides-through-compareValues", c.Pos(fn.Pos()), "uses compareValues", "this comparator no longer decides through compareValues: the two sort paths can order the same rows differently")
	}

	// ---------------------------------------------------------------- (3)
	fetch := c.Fn(pkgProcessor, "Searcher.fetchRRCs")
	getNext := c.Obj(pkgProcessor, "getNextBlocks")
	cutoff := c.Field(pkgProcessor, "Searcher.cutOffTimestampInMs")
	sortMode := c.Field(pkgProcessor, "Searcher.sortMode")
	recentFirst := c.ConstVal(pkgProcessor, "recentFirst")
	recentLast := c.ConstVal(pkgProcessor, "recentLast")
	calls := callsTo(fetch, getNext)
	if len(calls) != 1 {
		r.Undecided("GUARD", "processor.Searcher.fetchRRCs:raw-end-time-clamped", c.Pos(fetch.Pos()), "getNextBlocks call not found")
		return
	}
	var raw ssa.Value
	if refs := calls[0].Referrers(); refs != nil {
		for _, u := range *refs {
			if ex, ok := u.(*ssa.Extract); ok && ex.Index == 1 {
				raw = ex
			}
		}
	}
	if raw == nil {
		r.Undecided("GUARD", "processor.Searcher.fetchRRCs:raw-end-time-clamped", c.Pos(fetch.Pos()), "end time result not found")
		return
	}
	isCutoffLoad := func(v ssa.Value) bool {
		if ld, ok := v.(*ssa.UnOp); ok {
			if fa, ok := ld.X.(*ssa.FieldAddr); ok && core.FieldOfAddr(fa) == cutoff {
				return true
			}
		}
		return false
	}
	// blocks (and edges) where the sort mode is known to be neither recentFirst nor recentLast
	// modeTest reads a block's terminating `sortMode == k` / `sortMode != k` test and returns k and the
	// successor index taken when the mode EQUALS k.
	modeTest := func(b *ssa.BasicBlock) (k int64, eqSucc int, ok bool) {
		ifi, isIf := core.LastIf(b)
		if !isIf {
			return 0, 0, false
		}
		bo, isBin := ifi.Cond.(*ssa.BinOp)
		if !isBin || (bo.Op != token.EQL && bo.Op != token.NEQ) {
			return 0, 0, false
		}
		x, y := bo.X, bo.Y
		if _, isConst := x.(*ssa.Const); isConst {
			x, y = y, x
		}
		ld, isLd := x.(*ssa.UnOp)
		if !isLd {
			return 0, 0, false
		}
		fa, isFa := ld.X.(*ssa.FieldAddr)
		if !isFa || core.FieldOfAddr(fa) != sortMode {
			return 0, 0, false
		}
		k, isK := core.ConstIntValue(y)
		if !isK {
			return 0, 0, false
		}
		if bo.Op == token.NEQ {
			return k, 1, true
		}
		return k, 0, true
	}
	learn := func(excl map[int64]bool, from, to *ssa.BasicBlock) {
		k, eqSucc, ok := modeTest(from)
		if !ok || from.Succs[0] == from.Succs[1] {
			return
		}
		if from.Succs[1-eqSucc] == to {
			excl[k] = true
		}
		if from.Succs[eqSucc] == to && k != recentFirst && k != recentLast {
			excl[recentFirst], excl[recentLast] = true, true
		}
	}
	// edge == nil: facts that hold in b; otherwise facts that hold on the edge b -> edge
	orderedModeExcluded := func(b *ssa.BasicBlock, edge *ssa.BasicBlock) bool {
		excl := map[int64]bool{}
		if edge != nil {
			learn(excl, b, edge)
		}
		for x := b; x != nil; x = x.Idom() {
			idom := x.Idom()
			if idom == nil {
				break
			}
			if len(x.Preds) == 1 {
				learn(excl, idom, x)
			}
		}
		return excl[recentFirst] && excl[recentLast]
	}
	var bad ssa.Instruction
	nUses := 0
	if refs := raw.Referrers(); refs != nil {
		for _, u := range *refs {
			if _, isDbg := u.(*ssa.DebugRef); isDbg {
				continue
			}
			nUses++
			switch x := u.(type) {
			case *ssa.Call:
				if bi, ok := x.Call.Value.(*ssa.Builtin); ok && (bi.Name() == "max" || bi.Name() == "min") {
					other := false
					for _, a := range x.Call.Args {
						if isCutoffLoad(a) {
							other = true
						}
					}
					if other {
						continue
					}
				}
				if isBenignCall(x) {
					continue
				}
				bad = u
			case *ssa.Phi:
				for i, e := range x.Edges {
					if e == raw && !orderedModeExcluded(x.Block().Preds[i], x.Block()) {
						bad = u
					}
				}
			case *ssa.MakeInterface:
				// logging argument
			default:
				if !orderedModeExcluded(u.Block(), nil) {
					bad = u
				}
			}
		}
	}
	construct := "processor.Searcher.fetchRRCs:raw-end-time-clamped-to-cutoff"
	if bad != nil {
		r.Violation("GUARD", construct, c.Pos(firstPos(bad, calls[0])), "the end time returned by getNextBlocks is used without the max/min clamp against the cut-off timestamp on a path where the sort mode is time-ordered: buffered records beyond the cut-off are released before unread overlapping segments were looked at, so newer matches arrive after older ones")
	} else {
		r.OK("GUARD", construct, c.Pos(calls[0].Pos()), fmt.Sprintf("%d uses of the raw end time: clamp operands, or reached only when the sort mode is unordered", nUses))
	}
	_ = types.Universe

	// ---------------------------------------------------------------- (4) sort-index early exit
	{
		fn := c.Fn("pkg/segment/query/processor", "Searcher.fetchSortedRRCsFromQSRs")
		early := c.Field("pkg/segment/query/processor", "sortIndexState.didEarlyExit")
		sortEles := c.Field("pkg/segment/structs", "SortExpr.SortEles")
		n := 0
		for _, b := range fn.Blocks {
			for _, in := range b.Instrs {
				st, ok := in.(*ssa.Store)
				if !ok {
					continue
				}
				fa, ok := st.Addr.(*ssa.FieldAddr)
				if !ok || core.FieldOfAddr(fa) != early {
					continue
				}
				if k, ok := st.Val.(*ssa.Const); !ok || k.Value == nil || k.Value.String() != "true" {
					continue
				}
				n++
				// control-dependent on the number of sort keys
				dep := false
				for d := b; d != nil && d.Idom() != nil; d = d.Idom() {
					ifi, ok := core.LastIf(d.Idom())
					if !ok || len(d.Preds) != 1 {
						continue
					}
					for _, o := range c.Origins(ifi.Cond, 0) {
						if o.Kind == "field" && o.Obj == types.Object(sortEles) {
							dep = true
						}
					}
					// len(x.SortEles) appears as a call origin
					var walk func(v ssa.Value, depth int)
					walk = func(v ssa.Value, depth int) {
						if depth > 4 || v == nil {
							return
						}
						switch x := v.(type) {
						case *ssa.BinOp:
							walk(x.X, depth+1)
							walk(x.Y, depth+1)
						case *ssa.UnOp:
							if fa, ok := x.X.(*ssa.FieldAddr); ok && core.FieldOfAddr(fa) == sortEles {
								dep = true
							}
							walk(x.X, depth+1)
						case *ssa.Call:
							if bi, ok := x.Call.Value.(*ssa.Builtin); ok && bi.Name() == "len" {
								walk(x.Call.Args[0], depth+1)
							}
						case *ssa.Phi:
							for _, e := range x.Edges {
								walk(e, depth+1)
							}
						}
					}
					walk(ifi.Cond, 0)
				}
				r.Check(dep, "DEPENDS", fmt.Sprintf("processor.Searcher.fetchSortedRRCsFromQSRs:early-exit#%d-depends-on-the-number-of-sort-keys", n), c.Pos(st.Pos()),
					"the decision to stop reading the sort index at the limit is control-dependent on the number of sort keys",
					"the sort-index search stops at the limit regardless of the number of sort keys: the index orders by the first key only, so for a multi-key sort records of other segments that tie on the first key with the last value sent are never delivered and the result is not a prefix of the requested order")
			}
		}
		r.Floor("DEPENDS", "early-exit decisions of the sort-index search", n, 1)
	}

	// ---------------------------------------------------------------- (5) admission of segments to the time-ordered scheduler
	checkSchedulerAdmission(c, r)
	checkSortLimitCut(c, r)
	checkMergeLimitCut(c, r)
}

// funcValues resolves a function-typed value to the functions it can denote
// (closures, named functions, bound methods).
func funcValues(v ssa.Value) []*ssa.Function {
	switch x := v.(type) {
	case *ssa.MakeClosure:
		fn := x.Fn.(*ssa.Function)
		// bound method wrapper: follow to the method
		if fn.Synthetic != "" && len(fn.Blocks) > 0 {
			var out []*ssa.Function
			for _, ci := range core.CallsIn(fn) {
				if callee := ci.Common().StaticCallee(); callee != nil {
					out = append(out, callee)
				}
			}
			if len(out) > 0 {
				return out
			}
		}
		return []*ssa.Function{fn}
	case *ssa.Function:
		return []*ssa.Function{x}
	case *ssa.Phi:
		var out []*ssa.Function
		for _, e := range x.Edges {
			out = append(out, funcValues(e)...)
		}
		return out
	case *ssa.ChangeType:
		return funcValues(x.X)
	case *ssa.MakeInterface:
		return funcValues(x.X)
	}
	return nil
}

// reachesAny returns a static call path from fn to a function in set.
func reachesAny(fn *ssa.Function, set map[*ssa.Function]bool, seen map[*ssa.Function]bool, depth int) []string {
	if seen[fn] || depth > 8 || fn.Blocks == nil {
		return nil
	}
	seen[fn] = true
	if set[fn] {
		return []string{shortFn(fn) + " (tolerance equality)"}
	}
	for _, ci := range core.CallsIn(fn) {
		callee := ci.Common().StaticCallee()
		if callee == nil {
			if mc, ok := ci.Common().Value.(*ssa.MakeClosure); ok {
				callee = mc.Fn.(*ssa.Function)
			}
		}
		if callee == nil || !core.IsRepoPkg(core.FnPkgPath(callee)) {
			continue
		}
		if p := reachesAny(callee, set, seen, depth+1); p != nil {
			return append([]string{shortFn(fn) + " calls"}, p...)
		}
	}
	for _, a := range fn.AnonFuncs {
		if p := reachesAny(a, set, seen, depth+1); p != nil {
			return append([]string{shortFn(fn) + " contains"}, p...)
		}
	}
	return nil
}

// signChangingConversionOfDynamicValue: fn converts the result of a type assertion to uint64 / int64 (a value of
// dynamic type, e.g. CValueEnclosure.CVal) to the integer type of the same width and the other signedness.
func signChangingConversionOfDynamicValue(fn *ssa.Function) bool {
	if fn.Blocks == nil {
		return false
	}
	fromAssert := func(v ssa.Value) bool {
		for i := 0; i < 3; i++ {
			switch x := v.(type) {
			case *ssa.Extract:
				v = x.Tuple
				continue
			case *ssa.TypeAssert:
				return true
			case *ssa.Phi:
				for _, e := range x.Edges {
					if ex, ok := e.(*ssa.Extract); ok {
						if _, ok := ex.Tuple.(*ssa.TypeAssert); ok {
							return true
						}
					}
					if _, ok := e.(*ssa.TypeAssert); ok {
						return true
					}
				}
			}
			break
		}
		return false
	}
	for _, b := range fn.Blocks {
		for _, in := range b.Instrs {
			cv, ok := in.(*ssa.Convert)
			if !ok {
				continue
			}
			from, ok1 := cv.X.Type().Underlying().(*types.Basic)
			to, ok2 := cv.Type().Underlying().(*types.Basic)
			if !ok1 || !ok2 || from.Info()&types.IsInteger == 0 || to.Info()&types.IsInteger == 0 {
				continue
			}
			if (from.Info()&types.IsUnsigned != 0) == (to.Info()&types.IsUnsigned != 0) {
				continue
			}
			is64 := func(b *types.Basic) bool {
				switch b.Kind() {
				case types.Int64, types.Uint64, types.Int, types.Uint:
					return true
				}
				return false
			}
			if is64(from) && is64(to) && fromAssert(cv.X) {
				return true
			}
		}
	}
	return false
}

// c05MergeLimit — (6): the sort that is pushed down into the searcher is answered by two sub-searchers (segments
// with and without a sort index) joined by a merger that borrows the sort's less function.  The second stream is
// not in sort-key order, so the merger must not also borrow the sort's row limit: the expression it is
// configured from is a private copy whose Limit is set to the maximum before the sort processor is built.
func c05MergeLimit(c *core.Ctx, r *core.Report) {
	fn := c.Fn(pkgProcessor, "getSubsearchIfNeeded")
	newSortDP := c.Obj(pkgProcessor, "NewSortDP")
	setMerge := c.Obj(pkgProcessor, "DataProcessor.SetMergeSettingsBasedOnStream")
	limitF := c.Field(pkgStructs, "SortExpr.Limit")
	n := 0
	for _, sm := range callsTo(fn, setMerge) {
		args := sm.Call.Args
		stream := args[len(args)-1]
		if mi, ok := stream.(*ssa.MakeInterface); ok {
			stream = mi.X
		}
		dpCall, ok := stream.(*ssa.Call)
		if !ok || !core.IsCallTo(dpCall, newSortDP) {
			continue
		}
		n++
		construct := fmt.Sprintf("%s:merger#%d-does-not-borrow-the-sort-limit", shortFn(fn), n)
		expr := dpCall.Call.Args[0]
		fresh := false
		if call, ok := expr.(*ssa.Call); ok {
			if f := core.CalleeFunc(call); f != nil && c.BaseName(f) == "ShallowCopy" {
				fresh = true
			}
		}
		if _, ok := expr.(*ssa.Alloc); ok {
			fresh = true
		}
		unlimited := false
		if refs := expr.Referrers(); refs != nil {
			for _, u := range *refs {
				fa, ok := u.(*ssa.FieldAddr)
				if !ok || core.FieldOfAddr(fa) != limitF || fa.Referrers() == nil {
					continue
				}
				for _, w := range *fa.Referrers() {
					if st, ok := w.(*ssa.Store); ok && st.Addr == fa {
						if k, ok := core.ConstIntValue(st.Val); ok && k >= 1<<62 && core.InstrDominates(st, dpCall) {
							unlimited = true
						}
					}
				}
			}
		}
		switch {
		case !fresh:
			r.Violation("ORDER", construct, c.Pos(dpCall.Pos()), "the merger of the two sub-searchers is configured from the query's own sort expression, so it stops after the sort's row limit: the stream of segments without a sort index is not in sort-key order, and rows that belong to the first N are cut before the sort sees them")
		case !unlimited:
			r.Violation("ORDER", construct, c.Pos(dpCall.Pos()), "the copy of the sort expression that configures the merger keeps the sort's row limit (its Limit is not set to the maximum before NewSortDP): the merger truncates a stream that is not in sort-key order")
		default:
			r.OK("ORDER", construct, c.Pos(dpCall.Pos()), "configured from a private copy of the sort expression whose Limit is the maximum")
		}
	}
	r.Floor("ORDER", "mergers configured from a sort expression in getSubsearchIfNeeded", n, 1)
}

// c05RankParser — (7): the sort comparator first ranks a string as numeric or text (getRank) and then converts it
// (CValueEnclosure.GetFloatValueIfPossible).  A string that is ranked numeric but cannot be converted takes the
// comparator's unflipped early exits and never compares EQUAL, so it lands in the wrong place and the later sort
// keys are ignored for it.  The two sites must therefore ask the same parser: every float-parsing function called by
// getRank is also called by GetFloatValueIfPossible.
func c05RankParser(c *core.Ctx, r *core.Report) {
	rank := c.Fn(pkgProcessor, "getRank")
	conv := c.Fn(pkgSutils, "CValueEnclosure.GetFloatValueIfPossible")
	parsers := func(fn *ssa.Function) map[string]bool {
		out := map[string]bool{}
		for _, ci := range core.CallsIn(fn) {
			f := core.CalleeFunc(ci)
			if f == nil || f.Pkg() == nil {
				continue
			}
			if strings.Contains(f.Name(), "ParseFloat") || strings.Contains(f.Name(), "ParseInt") || strings.Contains(f.Name(), "ParseUint") {
				out[f.Pkg().Path()+"."+f.Name()] = true
			}
		}
		return out
	}
	a, b := parsers(rank), parsers(conv)
	r.Floor("SIBLING", "number parsers called by getRank", len(a), 1)
	var missing []string
	for p := range a {
		if !b[p] {
			missing = append(missing, p)
		}
	}
	sort.Strings(missing)
	r.Check(len(missing) == 0, "SIBLING", "processor.getRank:ranks-with-the-parser-the-comparison-converts-with", c.Pos(rank.Pos()),
		"every number parser that decides the rank is the parser the conversion uses",
		"getRank decides that a string is numeric with "+strings.Join(missing, ", ")+", which CValueEnclosure.GetFloatValueIfPossible does not use: strings the two parsers disagree on (\"-\", \".\", \"1e999\") are ranked numeric but cannot be converted, so the comparator orders them inconsistently and ignores the later sort keys for them")
}

// c05AllKeys — (8) (shared with C06): rows are ordered by ALL sort keys, the later ones breaking ties of the earlier.
// Every call of compareValues in the processor package therefore sits inside a whole loop over the sort elements
// (p.options.SortEles) and takes its direction and mode from the loop's element: a decision (skipping a batch, cutting
// at the limit) taken on one key alone treats rows that tie on that key as equal.
func c05AllKeys(c *core.Ctx, r *core.Report) {
	cv := c.Obj(pkgProcessor, "compareValues")
	elesF := c.Field(pkgStructs, "SortExpr.SortEles")
	n := 0
	for _, fn := range c.RepoFunctions() {
		if core.FnPkgPath(fn) != core.ModPath+"/"+pkgProcessor {
			continue
		}
		calls := callsTo(fn, cv)
		if len(calls) == 0 {
			continue
		}
		loops := wholeLoops(fn, elesF)
		for i, call := range calls {
			n++
			in := false
			for _, lp := range loops {
				if lp.Body[call.Block()] {
					in = true
				}
			}
			r.Check(in, "ORDER", fmt.Sprintf("%s:compareValues#%d-inside-the-loop-over-all-sort-keys", shortFn(fn), i+1), c.Pos(call.Pos()),
				"the comparison is one step of a loop over every sort element",
				"rows are compared on a single sort key outside the loop over all sort elements: rows that tie on that key are treated as equal although a later key orders them, so a decision built on this comparison (skipping a batch, cutting at the limit) drops rows that belong to the result")
		}
	}
	r.Floor("ORDER", "compareValues call sites", n, 2)
}

// c05LimitConversion — (9): a row limit is an unsigned 64-bit number and "no limit" is its maximum (the SPL parser
// turns `sort 0` into math.MaxUint64).  Converted to a signed int without a clamp it becomes -1; handed on as a count
// it selects the "few rows" code path with a negative size (a nil dereference in the query goroutine, or an empty
// result).  In the processor package every conversion of a SortExpr.Limit to a signed integer whose result is passed to
// a function lies where the limit is known to fit (a dominating comparison with a constant that is at most MaxInt64).
func c05LimitConversion(c *core.Ctx, r *core.Report) {
	limitF := c.Field(pkgStructs, "SortExpr.Limit")
	n := 0
	for _, fn := range c.RepoFunctions() {
		if core.FnPkgPath(fn) != core.ModPath+"/"+pkgProcessor {
			continue
		}
		k := 0
		for _, b := range fn.Blocks {
			for _, in := range b.Instrs {
				cv, ok := in.(*ssa.Convert)
				if !ok {
					continue
				}
				tb, ok := cv.Type().Underlying().(*types.Basic)
				if !ok || tb.Info()&types.IsInteger == 0 || tb.Info()&types.IsUnsigned != 0 {
					continue
				}
				ld, ok := cv.X.(*ssa.UnOp)
				if !ok {
					continue
				}
				fa, ok := ld.X.(*ssa.FieldAddr)
				if !ok || core.FieldOfAddr(fa) != limitF {
					continue
				}
				// passed on as a count?
				passed := false
				if cv.Referrers() != nil {
					for _, u := range *cv.Referrers() {
						if ci, ok := u.(ssa.CallInstruction); ok {
							if _, isB := ci.Common().Value.(*ssa.Builtin); !isB {
								passed = true
							}
						}
						if _, ok := u.(*ssa.Phi); ok {
							passed = true
						}
					}
				}
				if !passed {
					continue
				}
				n++
				k++
				clamped := false
				for _, b2 := range fn.Blocks {
					for _, in2 := range b2.Instrs {
						cmp, ok := in2.(*ssa.BinOp)
						if !ok {
							continue
						}
						l2, ok := cmp.X.(*ssa.UnOp)
						if !ok {
							continue
						}
						fa2, ok := l2.X.(*ssa.FieldAddr)
						if !ok || core.FieldOfAddr(fa2) != limitF {
							continue
						}
						if _, isK := cmp.Y.(*ssa.Const); !isK {
							if _, isCv := cmp.Y.(*ssa.Convert); !isCv {
								continue
							}
						}
						known := core.BoolKnownAt(cmp, b)
						switch cmp.Op {
						case token.LSS, token.LEQ:
							clamped = clamped || known == core.Yes
						case token.GTR, token.GEQ:
							clamped = clamped || known == core.No
						}
					}
				}
				r.Check(clamped, "BOUND", fmt.Sprintf("%s:row-limit-to-int#%d-is-clamped", shortFn(fn), k), c.Pos(cv.Pos()),
					"the limit is known to fit in a signed integer where it is converted",
					"an unsigned row limit is converted to a signed integer and handed on as a count without a clamp: `sort 0` (no limit) is stored as the maximum unsigned value and becomes -1, which selects the small-result path with a negative size (the query goroutine dereferences nil and takes the server down)")
			}
		}
	}
	r.Floor("BOUND", "row limits converted to a signed count in the processors", n, 1)
}
