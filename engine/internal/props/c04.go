package props

import (
	"fmt"
	"go/token"
	"go/types"
	"strings"

	"golang.org/x/tools/go/ssa"

	"verif/engine/internal/core"
)

func init() { register("C04", checkC04) }

// accessPath renders the address expression of a field access rooted at a
// parameter / local: "ss.Sum", "other.Sum" (used to tell two union values apart).
func accessPath(v ssa.Value) string {
	switch x := v.(type) {
	case *ssa.Parameter:
		return x.Name()
	case *ssa.FieldAddr:
		if f := core.FieldOfAddr(x); f != nil {
			if b := accessPath(x.X); b != "" {
				return b + "." + f.Name()
			}
		}
	case *ssa.UnOp:
		return accessPath(x.X)
	case *ssa.Alloc:
		if x.Comment != "" {
			return x.Comment
		}
		return x.Name()
	case *ssa.Phi:
		if x.Comment != "" {
			return x.Comment
		}
	case *ssa.IndexAddr:
		if b := accessPath(x.X); b != "" {
			return b + "[]"
		}
	case *ssa.Extract:
		return "<" + x.Type().String() + ">"
	case *ssa.Call:
		return "<" + x.Type().String() + ">"
	}
	return ""
}

func checkC04(c *core.Ctx, r *core.Report) {
	r.Explanation = "[ACCUM — every min/max fold into a struct field reads the field it writes (a running extreme is not recomputed from another field)] C04 (aggregations equal the mathematical aggregate), tables and gates only: " +
		"(1) TAGUNION — sutils.NumTypeEnclosure is a tagged union (Ntype, IntgrVal, FloatVal): in every function that tests the tag of a union value, each read of a member of that same value lies where the tag is known to select that member (FloatVal under Ntype == float, IntgrVal where Ntype is known not to be float): a running sum/min/max is never taken from the member that does not hold it; " +
		"(2) DEPENDS — the pre-computed segment statistics (SST) fast path is gated on match-all ∧ segment fully enclosed ∧ no eval/values()/list()/non-ingest statistic (shared with C03); " +
		"(3) TABLE — the statistics file writer (writeSstToBuf) and reader agree on the version byte they write/accept; " +
		"(7) DCBYTES — the bytes hashed into a numeric column's distinct-count sketch at ingest are the 8 value bytes of the number's encoding, the same bytes the query-time recomputation hashes; (5) FLOORSNAP — a signed integer snap of a difference to a multiple of the span lies where the difference is known non-negative; (6) USAGEJOIN — the fold of a stats command's measures into per-column usage modes never lowers an entry; " +
		"(4) SCRATCH — the scratch map that PopulateFieldToValueFromMeasureResults fills for an eval aggregate holds exactly the measure's fields at every success return (an abstract interpretation over the facts keys ⊆ fields and fields ⊆ keys): its callers reuse the map across measures and records and take the number of result slots from len(map); (8) TAGSTORE — between a store of the float tag into a union value and the store of its FloatVal, the value is not handed to a function that selects the member by the tag and its FloatVal is not read (payload first, tag second: an integer running sum widened to float is not read as 0)."
	r.NotCovered = "any numeric result, bucket boundaries, group-key uniqueness, sparse/mixed-type group-by behaviour, sketch error, the bookkeeping of per-measure result slots beyond the scratch-map clause"

	checkRunningExtremes(c, r)
	c04PerBucketAccumulator(c, r)

	c04FloorSnap(c, r)
	c04UsageLattice(c, r)
	c04DistinctCountBytes(c, r)
	c04TagStore(c, r)

	nte := c.NamedType(pkgSutils, "NumTypeEnclosure")
	st := nte.Underlying().(*types.Struct)
	var fTag, fInt, fFloat *types.Var
	for i := 0; i < st.NumFields(); i++ {
		switch st.Field(i).Name() {
		case "Ntype":
			fTag = st.Field(i)
		case "IntgrVal":
			fInt = st.Field(i)
		case "FloatVal":
			fFloat = st.Field(i)
		}
	}
	if fTag == nil || fInt == nil || fFloat == nil {
		panic(core.AnchorError{What: "NumTypeEnclosure fields"})
	}
	floatTag := c.ConstVal(pkgSutils, "SS_DT_FLOAT")

	nFns, nReads := 0, 0
	for _, fn := range c.RepoFunctions() {
		// tag tests: `<path>.Ntype == K` / `!= K`
		type test struct {
			path    string
			isFloat bool // K is the float tag
			eq      bool
		}
		tests := map[*ssa.BasicBlock]test{}
		tested := map[string]bool{}
		for _, b := range fn.Blocks {
			ifi, ok := core.LastIf(b)
			if !ok {
				continue
			}
			bo, ok := ifi.Cond.(*ssa.BinOp)
			if !ok || (bo.Op != token.EQL && bo.Op != token.NEQ) {
				continue
			}
			k, ok := core.ConstIntValue(bo.Y)
			if !ok {
				continue
			}
			ld, ok := bo.X.(*ssa.UnOp)
			if !ok {
				continue
			}
			fa, ok := ld.X.(*ssa.FieldAddr)
			if !ok || core.FieldOfAddr(fa) != fTag {
				continue
			}
			if p := accessPath(fa.X); p != "" {
				tests[b] = test{p, k == floatTag, bo.Op == token.EQL}
				tested[p] = true
			}
		}
		if len(tested) == 0 {
			continue
		}
		nFns++
		name := shortFn(fn)
		// forward dataflow of tag knowledge per path: 1 = float, 2 = not float, 3 = unknown, 0 = unreached
		know := map[string]map[*ssa.BasicBlock]int{}
		for p := range tested {
			st := map[*ssa.BasicBlock]int{fn.Blocks[0]: 3}
			for changed := true; changed; {
				changed = false
				for _, b := range fn.Blocks {
					if b == fn.Blocks[0] {
						continue
					}
					acc := 0
					for _, pred := range b.Preds {
						pv := st[pred]
						if pv == 0 {
							continue
						}
						ev := pv
						if t, ok := tests[pred]; ok && t.path == p && len(pred.Succs) == 2 && pred.Succs[0] != pred.Succs[1] {
							onTrue := pred.Succs[0] == b
							equal := onTrue == t.eq // on this edge tag == K holds
							switch {
							case equal && t.isFloat:
								ev = 1
							case equal && !t.isFloat:
								ev = 2
							case !equal && t.isFloat:
								ev = 2
							}
						}
						if acc == 0 {
							acc = ev
						} else if acc != ev {
							acc = 3
						}
					}
					if acc != 0 && st[b] != acc {
						st[b] = acc
						changed = true
					}
				}
			}
			know[p] = st
		}
		counter := map[string]int{}
		for _, b := range fn.Blocks {
			for idx, in := range b.Instrs {
				ld, ok := in.(*ssa.UnOp)
				if !ok || ld.Op != token.MUL {
					continue
				}
				fa, ok := ld.X.(*ssa.FieldAddr)
				if !ok {
					continue
				}
				f := core.FieldOfAddr(fa)
				if f != fInt && f != fFloat {
					continue
				}
				p := accessPath(fa.X)
				if !tested[p] {
					continue
				}
				// reading back what this block just stored into the same member is not a use of old contents
				justStored := false
				for j := idx - 1; j >= 0; j-- {
					if st, ok := b.Instrs[j].(*ssa.Store); ok {
						if sfa, ok := st.Addr.(*ssa.FieldAddr); ok && core.FieldOfAddr(sfa) == f && accessPath(sfa.X) == p {
							justStored = true
							break
						}
					}
				}
				if justStored {
					continue
				}
				nReads++
				member, wantFloat := "IntgrVal", false
				if f == fFloat {
					member, wantFloat = "FloatVal", true
				}
				counter[p+"."+member]++
				construct := fmt.Sprintf("%s:read(%s.%s)#%d-under-matching-tag", name, p, member, counter[p+"."+member])
				switch kn := know[p][b]; {
				case kn == 3 || kn == 0:
					r.Violation("TAGUNION", construct, c.Pos(ld.Pos()), fmt.Sprintf("%s.%s is read where the tag %s.Ntype is not known: when the value is held in the other member (e.g. an integer sum being merged with a float sum) the accumulated part is silently dropped", p, member, p))
				case (kn == 1) != wantFloat:
					r.Violation("TAGUNION", construct, c.Pos(ld.Pos()), fmt.Sprintf("%s.%s is read where the tag says the value is held in the other member", p, member))
				default:
					r.OK("TAGUNION", construct, c.Pos(ld.Pos()), "read under the matching tag test")
				}
			}
		}
	}
	r.Count("functions_testing_a_union_tag", nFns)
	r.Floor("TAGUNION", "member reads of tag-tested unions", nReads, 6)

	// (2) SST gate
	checkGate(c, r, pkgQuery, "canUseSSTForStats", nil, map[string]bool{
		"searchType==structs.MatchAllQuery": true, "segmentFullyEnclosed": true,
		"aggs.HasValueColRequest()": false, "aggs.HasValuesFunc()": false, "aggs.HasListFunc()": false, "aggs.HasNonIngestStats()": false,
	})

	// (3) SST version byte
	{
		w := c.Fn(pkgWriter, "writeSstToBuf")
		ver := c.Global(pkgSutils, "VERSION_SEGSTATS_BUF_V4")
		uses := false
		for _, b := range w.Blocks {
			for _, in := range b.Instrs {
				for _, op := range in.Operands(nil) {
					if *op == ssa.Value(ver) {
						uses = true
					}
				}
			}
		}
		rd := c.TryFn("pkg/segment/reader/segread", "readSingleSst")
		readerUses := false
		if rd != nil {
			for _, b := range rd.Blocks {
				for _, in := range b.Instrs {
					for _, op := range in.Operands(nil) {
						if *op == ssa.Value(ver) {
							readerUses = true
						}
					}
				}
			}
		}
		r.Check(uses && readerUses, "TABLE", "segstats-version-byte(writer=reader)", c.Pos(w.Pos()), "writer emits and reader accepts VERSION_SEGSTATS_BUF_V4", "the statistics writer and reader no longer agree on the version byte")
	}

	// (4) the reused scratch map of an eval aggregate holds exactly the measure's fields
	checkScratchMapKeys(c, r)
}

// checkScratchMapKeys: abstract interpretation of PopulateFieldToValueFromMeasureResults over the two facts
// SUB (keys(map) ⊆ fields) and SUP (fields ⊆ keys(map)).  The callers (AddEvalResultsFor*) take the number of
// running-stat slots an eval aggregate occupies from len(map), and the map is reused across measures and
// records, so both facts must hold at every success return.
func checkScratchMapKeys(c *core.Ctx, r *core.Report) {
	fn := c.Fn("pkg/segment/results/blockresults", "PopulateFieldToValueFromMeasureResults")
	name := "blockresults.PopulateFieldToValueFromMeasureResults"
	if len(fn.Params) < 2 {
		r.Undecided("SCRATCH", name, c.Pos(fn.Pos()), "unexpected signature")
		return
	}
	mp, fields := fn.Params[0], fn.Params[1]
	// the map: the parameter, a fresh map made for it, and phis of those
	isMap := map[ssa.Value]bool{mp: true}
	for changed := true; changed; {
		changed = false
		for _, b := range fn.Blocks {
			for _, in := range b.Instrs {
				phi, ok := in.(*ssa.Phi)
				if !ok || isMap[phi] {
					continue
				}
				all := true
				for _, e := range phi.Edges {
					if _, mk := e.(*ssa.MakeMap); !mk && !isMap[e] {
						all = false
					}
				}
				if all {
					isMap[phi] = true
					changed = true
				}
			}
		}
	}
	isFieldsLen := func(v ssa.Value) bool {
		call, ok := v.(*ssa.Call)
		if !ok {
			return false
		}
		bi, ok := call.Call.Value.(*ssa.Builtin)
		return ok && bi.Name() == "len" && call.Call.Args[0] == ssa.Value(fields)
	}
	isMapLen := func(v ssa.Value) bool {
		call, ok := v.(*ssa.Call)
		if !ok {
			return false
		}
		bi, ok := call.Call.Value.(*ssa.Builtin)
		return ok && bi.Name() == "len" && isMap[call.Call.Args[0]]
	}
	isFieldElem := func(v ssa.Value) bool {
		ld, ok := v.(*ssa.UnOp)
		if !ok {
			return false
		}
		ia, ok := ld.X.(*ssa.IndexAddr)
		return ok && ia.X == ssa.Value(fields)
	}
	loops := core.Loops(fn)
	// fill loops: index loops bounded by len(fields) whose every complete iteration stores map[fields[i]]
	fillExit := map[[2]*ssa.BasicBlock]bool{}
	pruneExit := map[[2]*ssa.BasicBlock]bool{}
	for _, l := range loops {
		ifi, ok := core.LastIf(l.Header)
		if !ok {
			continue
		}
		if bo, ok := ifi.Cond.(*ssa.BinOp); ok && bo.Op == token.LSS && isFieldsLen(bo.Y) {
			// a MapUpdate(map, fields[i]) that dominates every latch
			var upd *ssa.MapUpdate
			for b := range l.Body {
				for _, in := range b.Instrs {
					if mu, ok := in.(*ssa.MapUpdate); ok && isMap[mu.Map] && isFieldElem(mu.Key) {
						upd = mu
					}
				}
			}
			if upd != nil {
				okAll := true
				for _, p := range l.Header.Preds {
					if l.Body[p] && !upd.Block().Dominates(p) {
						okAll = false
					}
				}
				if okAll {
					for _, s := range l.Header.Succs {
						if !l.Body[s] {
							fillExit[[2]*ssa.BasicBlock{l.Header, s}] = true
						}
					}
				}
			}
		}
		// prune loops: range over the map; a key not in fields is deleted
		for _, in := range l.Header.Instrs {
			nx, ok := in.(*ssa.Next)
			if !ok {
				continue
			}
			rg, ok := nx.Iter.(*ssa.Range)
			if !ok || !isMap[rg.X] {
				continue
			}
			prunes := false
			for b := range l.Body {
				bi, ok := core.LastIf(b)
				if !ok {
					continue
				}
				call, ok := bi.Cond.(*ssa.Call)
				if !ok {
					continue
				}
				f := core.CalleeFunc(call)
				if f == nil || f.Name() != "SliceHas" || len(call.Call.Args) != 2 || call.Call.Args[0] != ssa.Value(fields) {
					continue
				}
				key := call.Call.Args[1]
				for _, x := range b.Succs[1].Instrs {
					if dc, ok := x.(*ssa.Call); ok {
						if dbi, ok := dc.Call.Value.(*ssa.Builtin); ok && dbi.Name() == "delete" && isMap[dc.Call.Args[0]] && dc.Call.Args[1] == key && len(b.Succs[1].Preds) == 1 {
							prunes = true
						}
					}
				}
			}
			if prunes {
				for _, s := range l.Header.Succs {
					if !l.Body[s] {
						pruneExit[[2]*ssa.BasicBlock{l.Header, s}] = true
					}
				}
			}
		}
	}
	type st struct{ sub, sup, reached bool }
	in := map[*ssa.BasicBlock]st{fn.Blocks[0]: {false, false, true}}
	guardedDelete := func(dc *ssa.Call) bool {
		// delete(map, k) on the false edge of SliceHas(fields, k)
		b := dc.Block()
		if len(b.Preds) != 1 {
			return false
		}
		p := b.Preds[0]
		ifi, ok := core.LastIf(p)
		if !ok || p.Succs[1] != b {
			return false
		}
		call, ok := ifi.Cond.(*ssa.Call)
		if !ok {
			return false
		}
		f := core.CalleeFunc(call)
		return f != nil && f.Name() == "SliceHas" && len(call.Call.Args) == 2 && call.Call.Args[0] == ssa.Value(fields) && call.Call.Args[1] == dc.Call.Args[1]
	}
	transfer := func(b *ssa.BasicBlock, s st) st {
		for _, x := range b.Instrs {
			switch y := x.(type) {
			case *ssa.MapUpdate:
				if isMap[y.Map] && !isFieldElem(y.Key) {
					s.sub = false
				}
			case *ssa.Call:
				if bi, ok := y.Call.Value.(*ssa.Builtin); ok {
					switch bi.Name() {
					case "clear":
						if isMap[y.Call.Args[0]] {
							s.sub, s.sup = true, false
						}
					case "delete":
						if isMap[y.Call.Args[0]] && !guardedDelete(y) {
							s.sup = false
						}
					}
				}
			}
		}
		return s
	}
	for changed := true; changed; {
		changed = false
		for _, b := range fn.DomPreorder() {
			if b == fn.Blocks[0] {
				continue
			}
			acc := st{true, true, false}
			for _, p := range b.Preds {
				ps, ok := in[p]
				if !ok || !ps.reached {
					continue
				}
				out := transfer(p, ps)
				// a phi that selects a fresh map on this edge: the fresh map is empty
				for _, x := range b.Instrs {
					phi, ok := x.(*ssa.Phi)
					if !ok {
						break
					}
					if isMap[phi] {
						for i, e := range phi.Edges {
							if b.Preds[i] == p {
								if _, mk := e.(*ssa.MakeMap); mk {
									out.sub, out.sup = true, false
								}
							}
						}
					}
				}
				e := [2]*ssa.BasicBlock{p, b}
				if fillExit[e] {
					out.sup = true
				}
				if pruneExit[e] {
					out.sub = true
				}
				if ifi, ok := core.LastIf(p); ok && len(p.Succs) == 2 && p.Succs[0] != p.Succs[1] {
					if bo, ok := ifi.Cond.(*ssa.BinOp); ok && (bo.Op == token.NEQ || bo.Op == token.EQL) {
						if (isMapLen(bo.X) && isFieldsLen(bo.Y)) || (isMapLen(bo.Y) && isFieldsLen(bo.X)) {
							equalEdge := p.Succs[1]
							if bo.Op == token.EQL {
								equalEdge = p.Succs[0]
							}
							if b == equalEdge {
								// equal sizes and one inclusion give equality
								if out.sup {
									out.sub = true
								} else if out.sub {
									out.sup = true
								}
							}
						}
					}
				}
				acc.sub = acc.sub && out.sub
				acc.sup = acc.sup && out.sup
				acc.reached = true
			}
			if acc.reached && in[b] != acc {
				in[b] = acc
				changed = true
			}
		}
	}
	n := 0
	for _, ret := range core.Returns(fn) {
		if core.ReturnSuccess(ret) == core.No {
			continue
		}
		n++
		s := transfer(ret.Block(), in[ret.Block()])
		construct := fmt.Sprintf("%s:success-return#%d-map-keys-equal-the-measure's-fields", name, n)
		switch {
		case !s.sup:
			r.Violation("SCRATCH", construct, c.Pos(ret.Pos()), "the scratch map can be returned without every field of the measure in it")
		case !s.sub:
			r.Violation("SCRATCH", construct, c.Pos(ret.Pos()), "the scratch map can be returned with keys left over from the previous measure or record (it is reused by the callers): the AddEvalResultsFor* functions take the number of running-stat slots of an eval aggregate from len(map), so with a stale key the step is one too large and the aggregate that follows two adjacent eval aggregates is never fed")
		default:
			r.OK("SCRATCH", construct, c.Pos(ret.Pos()), "keys(map) = fields is established on every path (fill loop over fields; stale keys cleared or pruned)")
		}
	}
	r.Floor("SCRATCH", "success returns of the scratch map filler", n, 1)
	// the consumers really use len(map) as the slot count (the reason the clause matters)
	nUse := 0
	for _, f := range c.RepoFunctions() {
		if core.FnPkgPath(f) != core.ModPath+"/pkg/segment/results/blockresults" || !strings.HasPrefix(f.Name(), "AddEvalResultsFor") {
			continue
		}
		nUse++
	}
	r.Count("AddEvalResultsFor* consumers of len(map)", nUse)
}
