package props

import (
	"fmt"
	"go/token"
	"go/types"
	
	"golang.org/x/tools/go/ssa"

	"verif/engine/internal/core"
)

func init() { register("C04", checkC04) }

// accessPath renders the address expression of a field access rooted at a
// parameter / local: "ss.Sum", "other.Sum" (used to tell two union values apart).
func accessPath(v ssa.Value) string {
	switch x := v.(type) {
	case *ssa.Parameter:
		return x.Name()
	case *ssa.FieldAddr:
		if f := core.FieldOfAddr(x); f != nil {
			if b := accessPath(x.X); b != "" {
				return b + "." + f.Name()
			}
		}
	case *ssa.UnOp:
		return accessPath(x.X)
	case *ssa.Alloc:
		if x.Comment != "" {
			return x.Comment
		}
		return x.Name()
	case *ssa.Phi:
		if x.Comment != "" {
			return x.Comment
		}
	case *ssa.IndexAddr:
		if b := accessPath(x.X); b != "" {
			return b + "[]"
		}
	case *ssa.Extract:
		return "<" + x.Type().String() + ">"
	case *ssa.Call:
		return "<" + x.Type().String() + ">"
	}
	return ""
}

func checkC04(c *core.Ctx, r *core.Report) {
	r.Explanation = "C04 (aggregations equal the mathematical aggregate), tables and gates only: " +
		"(1) TAGUNION — sutils.NumTypeEnclosure is a tagged union (Ntype, IntgrVal, FloatVal): in every function that tests the tag of a union value, each read of a member of that same value lies where the tag is known to select that member (FloatVal under Ntype == float, IntgrVal where Ntype is known not to be float): a running sum/min/max is never taken from the member that does not hold it; " +
		"(2) DEPENDS — the pre-computed segment statistics (SST) fast path is gated on match-all ∧ segment fully enclosed ∧ no eval/values()/list()/non-ingest statistic (shared with C03); " +
		"(3) TABLE — the statistics file writer (writeSstToBuf) and reader agree on the version byte they write/accept."
	r.NotCovered = "any numeric result, bucket boundaries, group-key uniqueness, sparse/mixed-type group-by behaviour, sketch error, the bookkeeping of per-measure result slots"

	nte := c.NamedType(pkgSutils, "NumTypeEnclosure")
	st := nte.Underlying().(*types.Struct)
	var fTag, fInt, fFloat *types.Var
	for i := 0; i < st.NumFields(); i++ {
		switch st.Field(i).Name() {
		case "Ntype":
			fTag = st.Field(i)
		case "IntgrVal":
			fInt = st.Field(i)
		case "FloatVal":
			fFloat = st.Field(i)
		}
	}
	if fTag == nil || fInt == nil || fFloat == nil {
		panic(core.AnchorError{What: "NumTypeEnclosure fields"})
	}
	floatTag := c.ConstVal(pkgSutils, "SS_DT_FLOAT")

	nFns, nReads := 0, 0
	for _, fn := range c.RepoFunctions() {
		// tag tests: `<path>.Ntype == K` / `!= K`
		type test struct {
			path    string
			isFloat bool // K is the float tag
			eq      bool
		}
		tests := map[*ssa.BasicBlock]test{}
		tested := map[string]bool{}
		for _, b := range fn.Blocks {
			ifi, ok := core.LastIf(b)
			if !ok {
				continue
			}
			bo, ok := ifi.Cond.(*ssa.BinOp)
			if !ok || (bo.Op != token.EQL && bo.Op != token.NEQ) {
				continue
			}
			k, ok := core.ConstIntValue(bo.Y)
			if !ok {
				continue
			}
			ld, ok := bo.X.(*ssa.UnOp)
			if !ok {
				continue
			}
			fa, ok := ld.X.(*ssa.FieldAddr)
			if !ok || core.FieldOfAddr(fa) != fTag {
				continue
			}
			if p := accessPath(fa.X); p != "" {
				tests[b] = test{p, k == floatTag, bo.Op == token.EQL}
				tested[p] = true
			}
		}
		if len(tested) == 0 {
			continue
		}
		nFns++
		name := shortFn(fn)
		// forward dataflow of tag knowledge per path: 1 = float, 2 = not float, 3 = unknown, 0 = unreached
		know := map[string]map[*ssa.BasicBlock]int{}
		for p := range tested {
			st := map[*ssa.BasicBlock]int{fn.Blocks[0]: 3}
			for changed := true; changed; {
				changed = false
				for _, b := range fn.Blocks {
					if b == fn.Blocks[0] {
						continue
					}
					acc := 0
					for _, pred := range b.Preds {
						pv := st[pred]
						if pv == 0 {
							continue
						}
						ev := pv
						if t, ok := tests[pred]; ok && t.path == p && len(pred.Succs) == 2 && pred.Succs[0] != pred.Succs[1] {
							onTrue := pred.Succs[0] == b
							equal := onTrue == t.eq // on this edge tag == K holds
							switch {
							case equal && t.isFloat:
								ev = 1
							case equal && !t.isFloat:
								ev = 2
							case !equal && t.isFloat:
								ev = 2
							}
						}
						if acc == 0 {
							acc = ev
						} else if acc != ev {
							acc = 3
						}
					}
					if acc != 0 && st[b] != acc {
						st[b] = acc
						changed = true
					}
				}
			}
			know[p] = st
		}
		counter := map[string]int{}
		for _, b := range fn.Blocks {
			for idx, in := range b.Instrs {
				ld, ok := in.(*ssa.UnOp)
				if !ok || ld.Op != token.MUL {
					continue
				}
				fa, ok := ld.X.(*ssa.FieldAddr)
				if !ok {
					continue
				}
				f := core.FieldOfAddr(fa)
				if f != fInt && f != fFloat {
					continue
				}
				p := accessPath(fa.X)
				if !tested[p] {
					continue
				}
				// reading back what this block just stored into the same member is not a use of old contents
				justStored := false
				for j := idx - 1; j >= 0; j-- {
					if st, ok := b.Instrs[j].(*ssa.Store); ok {
						if sfa, ok := st.Addr.(*ssa.FieldAddr); ok && core.FieldOfAddr(sfa) == f && accessPath(sfa.X) == p {
							justStored = true
							break
						}
					}
				}
				if justStored {
					continue
				}
				nReads++
				member, wantFloat := "IntgrVal", false
				if f == fFloat {
					member, wantFloat = "FloatVal", true
				}
				counter[p+"."+member]++
				construct := fmt.Sprintf("%s:read(%s.%s)#%d-under-matching-tag", name, p, member, counter[p+"."+member])
				switch kn := know[p][b]; {
				case kn == 3 || kn == 0:
					r.Violation("TAGUNION", construct, c.Pos(ld.Pos()), fmt.Sprintf("%s.%s is read where the tag %s.Ntype is not known: when the value is held in the other member (e.g. an integer sum being merged with a float sum) the accumulated part is silently dropped", p, member, p))
				case (kn == 1) != wantFloat:
					r.Violation("TAGUNION", construct, c.Pos(ld.Pos()), fmt.Sprintf("%s.%s is read where the tag says the value is held in the other member", p, member))
				default:
					r.OK("TAGUNION", construct, c.Pos(ld.Pos()), "read under the matching tag test")
				}
			}
		}
	}
	r.Count("functions_testing_a_union_tag", nFns)
	r.Floor("TAGUNION", "member reads of tag-tested unions", nReads, 6)

	// (2) SST gate
	checkGate(c, r, pkgQuery, "canUseSSTForStats", nil, map[string]bool{
		"searchType==structs.MatchAllQuery": true, "segmentFullyEnclosed": true,
		"aggs.HasValueColRequest()": false, "aggs.HasValuesFunc()": false, "aggs.HasListFunc()": false, "aggs.HasNonIngestStats()": false,
	})

	// (3) SST version byte
	{
		w := c.Fn(pkgWriter, "writeSstToBuf")
		ver := c.Global(pkgSutils, "VERSION_SEGSTATS_BUF_V4")
		uses := false
		for _, b := range w.Blocks {
			for _, in := range b.Instrs {
				for _, op := range in.Operands(nil) {
					if *op == ssa.Value(ver) {
						uses = true
					}
				}
			}
		}
		rd := c.TryFn("pkg/segment/reader/segread", "readSingleSst")
		readerUses := false
		if rd != nil {
			for _, b := range rd.Blocks {
				for _, in := range b.Instrs {
					for _, op := range in.Operands(nil) {
						if *op == ssa.Value(ver) {
							readerUses = true
						}
					}
				}
			}
		}
		r.Check(uses && readerUses, "TABLE", "segstats-version-byte(writer=reader)", c.Pos(w.Pos()), "writer emits and reader accepts VERSION_SEGSTATS_BUF_V4", "the statistics writer and reader no longer agree on the version byte")
	}
}
