// Package props holds the per-property tables and rule instantiations.
package props

import (
	"sort"

	"verif/engine/internal/core"
)

// CheckFunc evaluates one property on a loaded program.
type CheckFunc func(c *core.Ctx, r *core.Report)

var registry = map[string]CheckFunc{}

func register(id string, f CheckFunc) { registry[id] = f }

// Get returns the checker of a property.
func Get(id string) CheckFunc { return registry[id] }

// IDs lists the registered properties.
func IDs() []string {
	var out []string
	for k := range registry {
		out = append(out, k)
	}
	sort.Strings(out)
	return out
}
