package props

import (
	"fmt"
	"go/ast"
	"go/token"
	"go/types"
	"sort"
	"strings"

	"golang.org/x/tools/go/ssa"

	"verif/engine/internal/core"
)

func init() {
	register("C02", checkC02)
	register("C03", checkC03)
}

const (
	pkgSutils   = "pkg/segment/utils"
	pkgDtu      = "pkg/common/dtypeutils"
	pkgMetaUtl  = "pkg/segment/query/metadata/metautils"
	pkgSegread2 = "pkg/segment/reader/segread"
)

var sixOps = []string{"Equals", "NotEquals", "LessThan", "LessThanOrEqualTo", "GreaterThan", "GreaterThanOrEqualTo"}

// specRecordCompare: the exact meaning of `rec <op> query`.
func specRecordCompare(op string, rank map[string]int, rec, q string) bool {
	a, b := rank[rec], rank[q]
	switch op {
	case "Equals":
		return a == b
	case "NotEquals":
		return a != b
	case "LessThan":
		return a < b
	case "LessThanOrEqualTo":
		return a <= b
	case "GreaterThan":
		return a > b
	case "GreaterThanOrEqualTo":
		return a >= b
	}
	return false
}

// funcDeclOf returns the syntax of a source function.
func funcDeclOf(fn *ssa.Function) *ast.FuncDecl {
	if fd, ok := fn.Syntax().(*ast.FuncDecl); ok {
		return fd
	}
	return nil
}

func isNamedType(pkgSuffix, name string) func(t types.Type) bool {
	return func(t types.Type) bool {
		n, ok := t.(*types.Named)
		return ok && n.Obj().Name() == name && n.Obj().Pkg() != nil && strings.HasSuffix(n.Obj().Pkg().Path(), pkgSuffix)
	}
}

func checkC02(c *core.Ctx, r *core.Report) {
	r.Explanation = "C02 (search filters select exactly the satisfying events), comparison tables only — each predicate below is reduced from its syntax to a boolean formula over order atoms of its operands and compared with its specification on every weak ordering of those operands (a finite, exhaustive truth table; no code is executed): " +
		"(1) ORDERTABLE — every arm of compareNumberDte (float / unsigned / signed × the six operators) means exactly `record <op> query`; " +
		"(2) EXHAUST — each of those switches has all six comparison operators; fopOnString and fopOnBool handle Equals and NotEquals; " +
		"(3) the time-range predicates TimeRange/MetricsTimeRange.CheckInRange mean start <= t <= end and CheckRangeOverLap means the closed intervals intersect; " +
		"(5) block range-index pruning is sound for every operator (an event whose block is pruned can never be in the result); " +
		"(6) where the literal is a float and the stored value an integer, fopOnNumber sets the value's type to float and computes its float view from the member its tag selects, before compareNumberDte (which otherwise compares with the literal's truncated integer view); " +
		"(7) the range-index check prunes a block for an unparsable literal only after the float parse failed too; " +
		"(8) both branches of SegmentSearchRequest.JoinRequest (AND, OR) add the other operand's per-block set of columns that passed the index checks to the joined request; " +
		"(9) the record-level pass of filterRecordsFromSearchQuery, which is where a negated term is inverted, is forced to run for a negated match filter (it is otherwise skipped when every column was searched through its dictionary); " +
		"(10) REWRITE — the query-tree simplifier replaces an AND node by one operand only where the other operand is known to be match-all, and an OR node by an operand only where that operand itself is known to be match-all; " +
		"(11) BLOOMTWIN — every piece of a string value that ingest adds to the block bloom in its original spelling is also added lower-cased when the value has an upper-case letter (the bloom is probed with the lower-cased literal); " +
		"(13) FLOATVIEW — wherever the float view of a typed literal (DtypeEnclosure) is filled next to its tag, it is computed from the member the tag selects and through no sign-changing conversion; " +
		"(12) NEGDICT — under a negated match filter the record-level pass adds a record as a hit only where the dictionary pass's mark for it (DoesRecordMatch) is known to be absent; " +
		"(4) the dictionary-encoded block search examines every dictionary word (the scan loops of dechecker.go have no exit other than exhaustion or an error return), since several distinct words can satisfy one filter (case-insensitive match, 5 vs 5.0)."
	r.NotCovered = "whether literal typing, wildcard/regex translation and case folding are right, AND/OR/NOT composition beyond the join of per-block column sets, agreement of the search clause with the `where` stage (different representation), the 1e-4 tolerance of float equality (treated as an equality atom)"

	c02Rewrite(c, r)
	c02BloomTwin(c, r)
	c02NegationAndDictionaryPass(c, r)
	c02FloatView(c, r)
	c02ConvertedOnlyOnSuccess(c, r)

	eq := core.EqualityCalls{"dtu.AlmostEquals": true, "dtypeutils.AlmostEquals": true}
	isFop := isNamedType(pkgSutils, "FilterOperator")

	// ---------------------------------------------------------------- (1),(2) compareNumberDte
	cmpFn := c.Fn(pkgWriter, "compareNumberDte")
	fd := funcDeclOf(cmpFn)
	info := c.Pkg(pkgWriter).TypesInfo
	if fd == nil {
		r.Undecided("ORDERTABLE", "writer.compareNumberDte", c.Pos(cmpFn.Pos()), "no syntax")
		return
	}
	recName, qName := fd.Type.Params.List[0].Names[0].Name, ""
	if len(fd.Type.Params.List[0].Names) > 1 {
		qName = fd.Type.Params.List[0].Names[1].Name
	} else {
		qName = fd.Type.Params.List[1].Names[0].Name
	}
	switches := core.SwitchArms(info, fd.Body, isFop)
	r.Floor("ORDERTABLE", "operator switches in compareNumberDte", len(switches), 3)
	for si, arms := range switches {
		for _, op := range sixOps {
			construct := fmt.Sprintf("writer.compareNumberDte:switch#%d:%s", si+1, op)
			stmts, ok := arms[op]
			if !ok {
				r.Violation("EXHAUST", construct, c.Pos(cmpFn.Pos()), "this comparison operator has no case: the filter silently fails for one numeric representation")
				continue
			}
			f, err := core.FormulaOfStmts(stmts, eq)
			if err != nil {
				r.Undecided("ORDERTABLE", construct, c.Pos(stmts[0].Pos()), "arm is not a plain comparison: "+err.Error())
				continue
			}
			ops := core.Operands(f)
			var rec, q string
			for _, o := range ops {
				if strings.HasPrefix(o, recName+".") {
					rec = o
				}
				if strings.HasPrefix(o, qName+".") {
					q = o
				}
			}
			if rec == "" || q == "" || len(ops) != 2 {
				r.Violation("ORDERTABLE", construct, c.Pos(stmts[0].Pos()), fmt.Sprintf("the arm does not compare a field of the record value with a field of the query value (operands %v)", ops))
				continue
			}
			// same representation on both sides
			if rec[strings.Index(rec, "."):] != q[strings.Index(q, "."):] {
				r.Violation("ORDERTABLE", construct, c.Pos(stmts[0].Pos()), fmt.Sprintf("record field %s is compared with query field %s (different representations)", rec, q))
				continue
			}
			bad := ""
			for _, rank := range core.Orderings(ops, nil) {
				if core.Eval(f, rank) != specRecordCompare(op, rank, rec, q) {
					bad = core.RankString(rank)
					break
				}
			}
			if bad != "" {
				r.Violation("ORDERTABLE", construct, c.Pos(stmts[0].Pos()), fmt.Sprintf("the arm does not mean `record %s query`: for the ordering %s it answers the opposite", op, bad))
			} else {
				r.OK("ORDERTABLE", construct, c.Pos(stmts[0].Pos()), "formula equals `record <op> query` on every ordering")
			}
		}
	}
	// every switch on the filter operator in the writer package that handles Equals also handles NotEquals
	// (today: fopOnString, fopOnBool, the absent-column arms of filterOpOnDataType and the six-operator
	// switches of compareNumberDte) — wherever the switch lives, so inlining fopOnBool into its caller or
	// extracting an arm into a helper does not change the verdict
	{
		nEq := 0
		wp := c.Pkg(pkgWriter)
		for _, f := range wp.Syntax {
			if strings.HasSuffix(c.Fset.Position(f.Pos()).Filename, "_test.go") {
				continue
			}
			for _, d := range f.Decls {
				fd, ok := d.(*ast.FuncDecl)
				if !ok || fd.Body == nil {
					continue
				}
				k := 0
				for _, a := range core.SwitchArms(wp.TypesInfo, fd.Body, isFop) {
					if _, e := a["Equals"]; !e {
						continue
					}
					k++
					nEq++
					_, n := a["NotEquals"]
					key := fmt.Sprintf("writer.%s:Equals+NotEquals", fd.Name.Name)
					if k > 1 {
						key = fmt.Sprintf("writer.%s:switch#%d:Equals+NotEquals", fd.Name.Name, k)
					}
					r.Check(n, "EXHAUST", key, c.Pos(fd.Pos()), "both operators handled", "Equals is handled but NotEquals is not for this value kind")
				}
			}
		}
		r.Floor("EXHAUST", "operator switches with an Equals arm in the writer package", nEq, 5)
	}

	// ---------------------------------------------------------------- (3) time ranges
	checkTimePredicates(c, r, eq, true)

	// ---------------------------------------------------------------- (5) range-index pruning (shared with C03)
	checkRangeFilterTables(c, r)

	// ---------------------------------------------------------------- (4) dictionary scans (shared with C03)
	checkDictionaryScans(c, r)

	// ---------------------------------------------------------------- (6) integer value vs fractional literal
	checkWidening(c, r)
	// ---------------------------------------------------------------- (7) an unparsable literal prunes only if it is not a number
	checkPruneParse(c, r)
	// ---------------------------------------------------------------- (8) AND / OR joins merge the per-block column sets
	checkJoinMerge(c, r)
	// ---------------------------------------------------------------- (9) a negated term is applied whatever the block's encoding
	checkNegationApplied(c, r)
}

// involvesNegate: v is computed from a load of MatchFilter.NegateMatch (through &&-phis, !, comparisons).
func involvesNegate(v ssa.Value, negF *types.Var, depth int) bool {
	if v == nil || depth > 6 {
		return false
	}
	switch x := v.(type) {
	case *ssa.UnOp:
		if fa, ok := x.X.(*ssa.FieldAddr); ok && core.FieldOfAddr(fa) == negF {
			return true
		}
		return involvesNegate(x.X, negF, depth+1)
	case *ssa.BinOp:
		return involvesNegate(x.X, negF, depth+1) || involvesNegate(x.Y, negF, depth+1)
	case *ssa.Phi:
		for _, e := range x.Edges {
			if involvesNegate(e, negF, depth+1) {
				return true
			}
		}
	}
	return false
}

// negateKnownTrue: block b is reached only where a NegateMatch test succeeded.
func negateKnownTrue(b *ssa.BasicBlock, negF *types.Var) bool {
	for d := b; d != nil && d.Idom() != nil; d = d.Idom() {
		idom := d.Idom()
		ifi, ok := core.LastIf(idom)
		if !ok || len(d.Preds) != 1 || idom.Succs[0] != d {
			continue
		}
		if involvesNegate(ifi.Cond, negF, 0) {
			return true
		}
	}
	return false
}

func checkNegationApplied(c *core.Ctx, r *core.Report) {
	fn := c.Fn("pkg/segment/search", "filterRecordsFromSearchQuery")
	negF := c.Field("pkg/segment/structs", "MatchFilter.NegateMatch")
	name := "search.filterRecordsFromSearchQuery"
	// the inversion site: a NegateMatch test inside a loop
	var site *ssa.BasicBlock
	loops := core.Loops(fn)
	for _, b := range fn.Blocks {
		ifi, ok := core.LastIf(b)
		if !ok || !involvesNegate(ifi.Cond, negF, 0) {
			continue
		}
		if core.InnermostLoop(loops, b) != nil {
			site = b
		}
	}
	if site == nil {
		r.Violation("GUARD", name+":negated-term-is-inverted-per-record", c.Pos(fn.Pos()), "no per-record inversion of a negated match filter is left in the record-level pass")
		return
	}
	r.OK("GUARD", name+":negated-term-is-inverted-per-record", c.Pos(site.Instrs[len(site.Instrs)-1].Pos()), "the record-level pass inverts the match of a negated filter")
	// the guard of the record-level pass: the outermost dominating If on a boolean phi outside the loop
	var guard *ssa.If
	for d := site; d != nil && d.Idom() != nil; d = d.Idom() {
		idom := d.Idom()
		ifi, ok := core.LastIf(idom)
		if !ok || core.InnermostLoop(loops, idom) != nil {
			continue
		}
		if _, isPhi := ifi.Cond.(*ssa.Phi); isPhi && idom.Succs[0].Dominates(site) {
			guard = ifi
		}
	}
	if guard == nil {
		// the pass is unconditional
		r.OK("GUARD", name+":record-level-pass-runs-for-a-negated-term", c.Pos(site.Instrs[0].Pos()), "the record-level pass is not conditional")
		return
	}
	// some incoming `true` of the guard variable comes from a block reached only when the filter is negated
	forced := false
	var walk func(v ssa.Value, seen map[ssa.Value]bool)
	walk = func(v ssa.Value, seen map[ssa.Value]bool) {
		phi, ok := v.(*ssa.Phi)
		if !ok || seen[v] {
			return
		}
		seen[v] = true
		for i, e := range phi.Edges {
			if k, ok := e.(*ssa.Const); ok && k.Value != nil && k.Value.String() == "true" {
				if negateKnownTrue(phi.Block().Preds[i], negF) {
					forced = true
				}
			}
			walk(e, seen)
		}
	}
	walk(guard.Cond, map[ssa.Value]bool{})
	r.Check(forced, "GUARD", name+":record-level-pass-runs-for-a-negated-term", c.Pos(guard.Pos()),
		"the variable that guards the record-level pass is set to true where the match filter is negated",
		"the record-level pass, which is where a negated term (NOT word) is inverted, can be skipped for a negated filter — it is when every searched column of the block was already searched through its dictionary — so NOT word returns the events that contain the word, depending on the block's encoding")
}

// checkBloomGate (C03): every bloom check of the block pruning stage is skipped for a negated match filter.
func checkBloomGate(c *core.Ctx, r *core.Report) {
	negF := c.Field("pkg/segment/structs", "MatchFilter.NegateMatch")
	n := 0
	for _, fn := range c.RepoFunctions() {
		for _, ci := range core.CallsIn(fn) {
			f := core.CalleeFunc(ci)
			if f == nil || !strings.HasPrefix(f.Name(), "doBloomCheck") {
				continue
			}
			if strings.HasPrefix(fn.Name(), "doBloomCheck") {
				continue // helpers calling each other
			}
			n++
			// dominated by the false side of a condition that involves NegateMatch: directly, or through a
			// boolean variable that is set to true only under a NegateMatch test
			gated := false
			for d := ci.Block(); d != nil && d.Idom() != nil; d = d.Idom() {
				idom := d.Idom()
				ifi, ok := core.LastIf(idom)
				if !ok || len(d.Preds) != 1 {
					continue
				}
				cond := ifi.Cond
				if involvesNegate(cond, negF, 0) {
					gated = true
				}
				var viaFlag func(v ssa.Value, depth int) bool
				viaFlag = func(v ssa.Value, depth int) bool {
					if depth > 4 {
						return false
					}
					switch x := v.(type) {
					case *ssa.UnOp:
						return viaFlag(x.X, depth+1)
					case *ssa.Phi:
						for i, e := range x.Edges {
							if k, ok := e.(*ssa.Const); ok && k.Value != nil && k.Value.String() == "true" && negateKnownTrue(x.Block().Preds[i], negF) {
								return true
							}
							if viaFlag(e, depth+1) {
								return true
							}
						}
					}
					return false
				}
				if viaFlag(cond, 0) {
					gated = true
				}
			}
			r.Check(gated, "SIBLING", shortFn(fn)+":"+f.Name()+"-skipped-for-a-negated-term", c.Pos(ci.Pos()),
				"the bloom check is conditional on the match filter not being negated",
				"a bloom check prunes blocks for a negated match filter: a block whose bloom lacks the word holds only matches of NOT word, so pruning it loses them (the other pruning path skips the check: the answer changes when the segment rotates)")
		}
	}
	r.Floor("SIBLING", "bloom checks in the block pruning stage", n, 3)
}

func checkJoinMerge(c *core.Ctx, r *core.Report) {
	fn := c.Fn("pkg/segment/structs", "SegmentSearchRequest.JoinRequest")
	cmiF := c.Field("pkg/segment/structs", "SegmentSearchRequest.CmiPassedCnames")
	andK := c.ConstVal(pkgSutils, "And")
	self, other := fn.Params[0], fn.Params[1]
	// the operator test
	var test *ssa.BasicBlock
	for _, b := range fn.Blocks {
		if ifi, ok := core.LastIf(b); ok {
			if bo, ok := ifi.Cond.(*ssa.BinOp); ok && bo.Op == token.EQL {
				if k, ok := core.ConstIntValue(bo.Y); ok && k == andK {
					if _, isP := bo.X.(*ssa.Parameter); isP {
						test = b
					}
				}
			}
		}
	}
	if test == nil {
		r.Undecided("SIBLING", "structs.SegmentSearchRequest.JoinRequest:operator-test", c.Pos(fn.Pos()), "no `op == And` test found")
		return
	}
	fromField := func(v ssa.Value, p *ssa.Parameter) bool {
		// v is <p>.CmiPassedCnames[...] (a Lookup, possibly comma-ok) or the field's map itself
		for i := 0; v != nil && i < 5; i++ {
			switch x := v.(type) {
			case *ssa.Lookup:
				v = x.X
			case *ssa.Extract:
				v = x.Tuple
			case *ssa.UnOp:
				if fa, ok := x.X.(*ssa.FieldAddr); ok && core.FieldOfAddr(fa) == cmiF && fa.X == ssa.Value(p) {
					return true
				}
				return false
			default:
				return false
			}
		}
		return false
	}
	loops := core.Loops(fn)
	for bi, branch := range []*ssa.BasicBlock{test.Succs[0], test.Succs[1]} {
		label := map[int]string{0: "AND", 1: "OR"}[bi]
		merged := false
		for _, b := range fn.Blocks {
			if !branch.Dominates(b) {
				continue
			}
			for _, in := range b.Instrs {
				mu, ok := in.(*ssa.MapUpdate)
				if !ok || !fromField(mu.Map, self) {
					continue
				}
				if _, isLookup := mu.Map.(*ssa.Lookup); !isLookup {
					if _, isEx := mu.Map.(*ssa.Extract); !isEx {
						continue // an update of the outer map (creating the block's set), not of a block's set
					}
				}
				// inside a loop ranging over other.CmiPassedCnames[blk]
				for _, l := range loops {
					if !l.Body[b] {
						continue
					}
					for _, hi := range l.Header.Instrs {
						if nx, ok := hi.(*ssa.Next); ok {
							if rg, ok := nx.Iter.(*ssa.Range); ok && fromField(rg.X, other) {
								if _, isLookup := rg.X.(*ssa.Lookup); isLookup {
									merged = true
								}
							}
						}
					}
				}
			}
		}
		r.Check(merged, "SIBLING", "structs.SegmentSearchRequest.JoinRequest:"+label+"-join-merges-the-columns-that-passed-the-index-checks", c.Pos(branch.Instrs[0].Pos()),
			"for a surviving block the other operand's passed-column set is added to this request's set",
			"the "+label+" join keeps the block but not the other operand's set of columns that passed the index checks: an all-columns term of the later operand is then searched only in the earlier operand's columns, so `status=ok AND 404` returns nothing while `404 AND status=ok` is right")
	}
}

// dtypeTests: what the dominating tests of `<param>.Dtype` against constants say in block b.
// Returns for the given parameter the set of constants the tag is known to equal (eq) / differ from (ne).
func dtypeKnowledge(b *ssa.BasicBlock, p *ssa.Parameter, tagF *types.Var) (eq map[int64]bool, ne map[int64]bool) {
	eq, ne = map[int64]bool{}, map[int64]bool{}
	for d := b; d != nil && d.Idom() != nil; d = d.Idom() {
		idom := d.Idom()
		ifi, ok := core.LastIf(idom)
		if !ok || len(d.Preds) != 1 {
			continue
		}
		bo, ok := ifi.Cond.(*ssa.BinOp)
		if !ok || (bo.Op != token.EQL && bo.Op != token.NEQ) {
			continue
		}
		k, ok := core.ConstIntValue(bo.Y)
		if !ok {
			continue
		}
		ld, ok := bo.X.(*ssa.UnOp)
		if !ok {
			continue
		}
		fa, ok := ld.X.(*ssa.FieldAddr)
		if !ok || core.FieldOfAddr(fa) != tagF || fa.X != ssa.Value(p) {
			continue
		}
		onTrue := idom.Succs[0] == d
		if (bo.Op == token.EQL) == onTrue {
			eq[k] = true
		} else {
			ne[k] = true
		}
	}
	return
}

func checkWidening(c *core.Ctx, r *core.Report) {
	fn := c.Fn(pkgWriter, "fopOnNumber")
	cmp := c.Obj(pkgWriter, "compareNumberDte")
	tagF := c.Field(pkgSutils, "DtypeEnclosure.Dtype")
	fltF := c.Field(pkgSutils, "DtypeEnclosure.FloatVal")
	sgnF := c.Field(pkgSutils, "DtypeEnclosure.SignedVal")
	unsF := c.Field(pkgSutils, "DtypeEnclosure.UnsignedVal")
	kFloat, kSigned, kUnsigned := c.ConstVal(pkgSutils, "SS_DT_FLOAT"), c.ConstVal(pkgSutils, "SS_DT_SIGNED_NUM"), c.ConstVal(pkgSutils, "SS_DT_UNSIGNED_NUM")
	name := "writer.fopOnNumber"
	calls := callsTo(fn, cmp)
	if len(calls) != 1 {
		r.Undecided("TAGUNION", name+":compares-through-compareNumberDte", c.Pos(fn.Pos()), "expected exactly one call of compareNumberDte")
		return
	}
	call := calls[0]
	rec, okr := call.Call.Args[0].(*ssa.Parameter)
	q, okq := call.Call.Args[1].(*ssa.Parameter)
	if !okr || !okq {
		r.Undecided("TAGUNION", name+":compares-through-compareNumberDte", c.Pos(call.Pos()), "the compared enclosures are not the function's parameters")
		return
	}
	// the region where the literal is a float and the stored value is not: in fopOnNumber before the call, or
	// at the head of compareNumberDte before it dispatches on the value's tag (the guard moved into the callee)
	regionOf := func(h *ssa.Function, rec, q *ssa.Parameter) []*ssa.BasicBlock {
		var region []*ssa.BasicBlock
		for _, b := range h.DomPreorder() {
			qe, _ := dtypeKnowledge(b, q, tagF)
			_, rn := dtypeKnowledge(b, rec, tagF)
			if qe[kFloat] && rn[kFloat] {
				region = append(region, b)
			}
		}
		return region
	}
	host := fn
	region := regionOf(fn, rec, q)
	inRegion := map[*ssa.BasicBlock]bool{}
	isEndpoint := func(x ssa.Instruction) bool { return x == ssa.Instruction(call) }
	if len(region) == 0 {
		if callee := call.Call.StaticCallee(); callee != nil && len(callee.Params) >= 2 {
			if rg := regionOf(callee, callee.Params[0], callee.Params[1]); len(rg) > 0 {
				host, region = callee, rg
				var hrec ssa.Value = callee.Params[0]
				rec, q = callee.Params[0], callee.Params[1]
				// the endpoint is the dispatch: a read of the value's tag outside the region
				isEndpoint = func(x ssa.Instruction) bool {
					ld, ok := x.(*ssa.UnOp)
					if !ok || ld.Op != token.MUL || inRegion[x.Block()] {
						return false
					}
					fa, ok := ld.X.(*ssa.FieldAddr)
					return ok && core.FieldOfAddr(fa) == tagF && fa.X == hrec
				}
			}
		}
	}
	if len(region) == 0 {
		r.Violation("TAGUNION", name+":integer-value-widened-for-a-float-literal", c.Pos(call.Pos()), "no code handles `literal is a float and the stored value is not`: compareNumberDte then compares the stored integer with the literal's truncated integer view, so latency=8.5 matches 8 and latency<8.5 misses it")
		return
	}
	for _, b := range region {
		inRegion[b] = true
	}
	// (i) the value's type becomes float before the comparison
	leak := false
	core.WalkForward(host, region[0].Instrs[0], func(x ssa.Instruction) bool {
		if st, ok := x.(*ssa.Store); ok {
			if fa, ok := st.Addr.(*ssa.FieldAddr); ok && core.FieldOfAddr(fa) == tagF && fa.X == ssa.Value(rec) {
				if k, ok := core.ConstIntValue(st.Val); ok && k == kFloat {
					return false
				}
			}
		}
		if isEndpoint(x) {
			leak = true
		}
		return true
	})
	// the first instruction itself
	r.Check(!leak, "TAGUNION", name+":integer-value-widened-for-a-float-literal", c.Pos(call.Pos()),
		"where the literal is a float and the stored value is not, the value's type is set to float before compareNumberDte",
		"where the literal is a float and the stored value is an integer, compareNumberDte is reached with the value still typed as an integer: it is compared with the literal's truncated integer view (latency=8.5 matches 8, latency<8.5 misses it)")
	// (ii) the float view is computed from the member the value's tag selects
	okS, okU := false, false
	bad := ""
	for _, b := range region {
		for _, in := range b.Instrs {
			ld, ok := in.(*ssa.UnOp)
			if !ok || ld.Op != token.MUL {
				continue
			}
			fa, ok := ld.X.(*ssa.FieldAddr)
			if !ok || fa.X != ssa.Value(rec) {
				continue
			}
			f := core.FieldOfAddr(fa)
			if f != sgnF && f != unsF {
				continue
			}
			eq, ne := dtypeKnowledge(b, rec, tagF)
			switch f {
			case sgnF:
				if eq[kSigned] || (ne[kFloat] && ne[kUnsigned]) {
					okS = true
				} else {
					bad = "SignedVal"
				}
			case unsF:
				if eq[kUnsigned] || (ne[kFloat] && ne[kSigned]) {
					okU = true
				} else {
					bad = "UnsignedVal"
				}
			}
		}
	}
	hasFloatStore := false
	for _, b := range region {
		for _, in := range b.Instrs {
			if st, ok := in.(*ssa.Store); ok {
				if fa, ok := st.Addr.(*ssa.FieldAddr); ok && core.FieldOfAddr(fa) == fltF && fa.X == ssa.Value(rec) {
					hasFloatStore = true
				}
			}
		}
	}
	switch {
	case bad != "":
		r.Violation("TAGUNION", name+":float-view-taken-from-the-member-the-tag-selects", c.Pos(call.Pos()), fmt.Sprintf("the stored value's %s is read where its tag is not known to select that member: a signed value is widened from the unsigned member (0 after Reset) or vice versa", bad))
	case !(okS && okU && hasFloatStore):
		r.Violation("TAGUNION", name+":float-view-taken-from-the-member-the-tag-selects", c.Pos(call.Pos()), "the float view of the stored value is not computed from both integer members under their tags")
	default:
		r.OK("TAGUNION", name+":float-view-taken-from-the-member-the-tag-selects", c.Pos(call.Pos()), "FloatVal is computed from SignedVal under the signed tag and from UnsignedVal under the unsigned tag")
	}
}

func checkPruneParse(c *core.Ctx, r *core.Report) {
	fn := c.Fn("pkg/segment/query/metadata/metautils", "checkRangeIndexHelper")
	n := 0
	for _, ret := range core.Returns(fn) {
		k, ok := core.RetResult(ret, 0).(*ssa.Const)
		if !ok || k.Value == nil || k.Value.String() != "false" {
			continue
		}
		// conversion failures that dominate this return
		failed := map[string]bool{}
		for d := ret.Block(); d != nil && d.Idom() != nil; d = d.Idom() {
			idom := d.Idom()
			ifi, ok := core.LastIf(idom)
			if !ok || idom.Succs[0] != d || len(d.Preds) != 1 {
				continue
			}
			bo, ok := ifi.Cond.(*ssa.BinOp)
			if !ok || bo.Op != token.NEQ || !core.IsNilConst(bo.Y) {
				continue
			}
			ex, ok := bo.X.(*ssa.Extract)
			if !ok {
				continue
			}
			call, ok := ex.Tuple.(*ssa.Call)
			if !ok {
				continue
			}
			if f := core.CalleeFunc(call); f != nil && strings.HasPrefix(f.Name(), "ConvertTo") {
				failed[f.Name()] = true
			} else if h := call.Call.StaticCallee(); h != nil && h.Blocks != nil && core.IsRepoPkg(core.FnPkgPath(h)) {
				// an accessor around the conversion (a memoising `asFloat()` of a parsed-literal object): the
				// conversions it makes are the ones that failed
				for _, cj := range core.CallsIn(h) {
					if g := core.CalleeFunc(cj); g != nil && strings.HasPrefix(g.Name(), "ConvertTo") {
						failed[g.Name()] = true
					}
				}
			}
		}
		if len(failed) == 0 {
			continue
		}
		n++
		var names []string
		for f := range failed {
			names = append(names, f)
		}
		sort.Strings(names)
		construct := fmt.Sprintf("metautils.checkRangeIndexHelper:prune-on-unparsable-literal#%d-only-after-float-parse-failed", n)
		r.Check(failed["ConvertToFloat"], "GUARD", construct, c.Pos(ret.Pos()),
			"the block is pruned for an unparsable literal only after the float parse failed too (the literal is not a number)",
			fmt.Sprintf("the block is pruned because %s failed, without trying to read the literal as a float: a fractional literal (8.5, 30.0) against an integer-typed range index prunes every block, so the search returns nothing although events match", strings.Join(names, ", ")))
	}
	r.Floor("GUARD", "prune-on-parse-failure exits of the range index check", n, 3)
}

func firstPos(in ssa.Instruction, fallback ssa.Instruction) token.Pos {
	if in.Pos().IsValid() {
		return in.Pos()
	}
	for _, x := range in.Block().Instrs {
		if x.Pos().IsValid() {
			return x.Pos()
		}
	}
	return fallback.Pos()
}

func usesInHeaderOrBody(l *core.Loop, v ssa.Value) bool {
	refs := v.Referrers()
	if refs == nil {
		return false
	}
	seen := map[ssa.Value]bool{}
	var rec func(x ssa.Value, d int) bool
	rec = func(x ssa.Value, d int) bool {
		if seen[x] || d > 3 {
			return false
		}
		seen[x] = true
		rs := x.Referrers()
		if rs == nil {
			return false
		}
		for _, u := range *rs {
			if l.Body[u.Block()] {
				return true
			}
			if uv, ok := u.(ssa.Value); ok && rec(uv, d+1) {
				return true
			}
		}
		return false
	}
	return rec(v, 0)
}

// checkTimePredicates: CheckInRange / CheckRangeOverLap / AreTimesFullyEnclosed
// against their interval specifications.  inRangeAndOverlap selects the C02
// subset, otherwise the C03 subset (full enclosure).
func checkTimePredicates(c *core.Ctx, r *core.Report, eq core.EqualityCalls, inRangeAndOverlap bool) {
	type pred struct {
		typ, method  string
		spec         func(rank map[string]int, recv string, params []string) bool
		constraint   func(rank map[string]int, recv string, params []string) bool
		startF, endF string
	}
	inRange := func(rank map[string]int, s, e string, ps []string) bool {
		return rank[s] <= rank[ps[0]] && rank[ps[0]] <= rank[e]
	}
	overlap := func(rank map[string]int, s, e string, ps []string) bool {
		return rank[ps[0]] <= rank[e] && rank[ps[1]] >= rank[s]
	}
	enclosed := func(rank map[string]int, s, e string, ps []string) bool {
		return rank[s] <= rank[ps[0]] && rank[ps[1]] <= rank[e]
	}
	var list []struct {
		typ, method, sf, ef string
		nparams             int
		spec                func(map[string]int, string, string, []string) bool
	}
	if inRangeAndOverlap {
		list = append(list,
			struct {
				typ, method, sf, ef string
				nparams             int
				spec                func(map[string]int, string, string, []string) bool
			}{"TimeRange", "CheckInRange", "StartEpochMs", "EndEpochMs", 1, inRange},
			struct {
				typ, method, sf, ef string
				nparams             int
				spec                func(map[string]int, string, string, []string) bool
			}{"MetricsTimeRange", "CheckInRange", "StartEpochSec", "EndEpochSec", 1, inRange},
			struct {
				typ, method, sf, ef string
				nparams             int
				spec                func(map[string]int, string, string, []string) bool
			}{"TimeRange", "CheckRangeOverLap", "StartEpochMs", "EndEpochMs", 2, overlap},
			struct {
				typ, method, sf, ef string
				nparams             int
				spec                func(map[string]int, string, string, []string) bool
			}{"MetricsTimeRange", "CheckRangeOverLap", "StartEpochSec", "EndEpochSec", 2, overlap},
		)
	} else {
		list = append(list, struct {
			typ, method, sf, ef string
			nparams             int
			spec                func(map[string]int, string, string, []string) bool
		}{"TimeRange", "AreTimesFullyEnclosed", "StartEpochMs", "EndEpochMs", 2, enclosed})
	}
	for _, p := range list {
		fn := c.Fn(pkgDtu, p.typ+"."+p.method)
		construct := fmt.Sprintf("dtypeutils.%s.%s", p.typ, p.method)
		fd := funcDeclOf(fn)
		if fd == nil || fd.Recv == nil || len(fd.Recv.List[0].Names) == 0 {
			r.Undecided("ORDERTABLE", construct, c.Pos(fn.Pos()), "no syntax / unnamed receiver")
			continue
		}
		recv := fd.Recv.List[0].Names[0].Name
		var params []string
		for _, fl := range fd.Type.Params.List {
			for _, n := range fl.Names {
				params = append(params, n.Name)
			}
		}
		if len(params) != p.nparams {
			r.Undecided("ORDERTABLE", construct, c.Pos(fn.Pos()), "parameter list changed")
			continue
		}
		f, err := core.FormulaOfStmts(fd.Body.List, eq)
		if err != nil {
			r.Undecided("ORDERTABLE", construct, c.Pos(fn.Pos()), "body is not a plain order predicate: "+err.Error())
			continue
		}
		s, e := recv+"."+p.sf, recv+"."+p.ef
		ops := append([]string{s, e}, params...)
		sort.Strings(ops)
		bad := ""
		n := 0
		for _, rank := range core.Orderings(ops, func(rank map[string]int) bool {
			if rank[s] > rank[e] {
				return false
			}
			if len(params) == 2 && rank[params[0]] > rank[params[1]] {
				return false
			}
			return true
		}) {
			n++
			if core.Eval(f, rank) != p.spec(rank, s, e, params) {
				bad = core.RankString(rank)
				break
			}
		}
		if bad != "" {
			r.Violation("ORDERTABLE", construct, c.Pos(fn.Pos()), fmt.Sprintf("the predicate disagrees with its interval meaning for the ordering %s (closed intervals: boundary instants belong to the range)", bad))
		} else {
			r.OK("ORDERTABLE", construct, c.Pos(fn.Pos()), fmt.Sprintf("equals its interval specification on all %d orderings", n))
		}
	}
	_, _, _ = inRange, overlap, enclosed
	_ = pred{}
}

// ---------------------------------------------------------------------------
// C03

func checkC03(c *core.Ctx, r *core.Report) {
	r.Explanation = "C03 (answers do not depend on physical layout or acceleration path), gates and pruning tables only — predicates are reduced from their syntax to boolean formulas and compared with their specification on every ordering / valuation of their operands (finite truth tables; no code is executed): " +
		"(1) ORDERTABLE soundness of block range-index pruning — for every function of the micro-index checker that switches on the filter operator over (value, block-min, block-max), each arm accepts the block whenever some x in [min,max] satisfies `x <op> value` (an accelerator may only skip blocks that cannot match); " +
		"(2) TimeRange.AreTimesFullyEnclosed means start <= low and high <= end; " +
		"(3) DEPENDS fast-path gates — canUseSSTForStats implies match-all ∧ segment fully enclosed ∧ no eval / values() / list() / non-ingest statistic, and the agile-tree gate implies segment fully enclosed ∧ match-all ∧ no time aggregation; the `fully enclosed` arguments are results of AreTimesFullyEnclosed on the query range; " +
		"(4) ORDER (shared with C11) — the rotation hand-over and snapshot order; " +
		"(6) SIBLING — every bloom check of the block pruning stage (rotated and open segments) is skipped for a negated match filter; " +
		"(8) every value-appending arm of doLogEventFilling registers the record with the column's dictionary, so a dictionary-encoded block answers like a plain one (shared with C01); " +
		"(7) LIVE — the per-segment flag that a persistent query matched something accumulates over the blocks of the segment (it decides whether the segment is skipped for that query after rotation); " +
		"(9) LOADEVICT — every field of the lazily loaded metadata holders (micro indices, search metadata) that the loader writes is re-assigned by the holder's evictor; " +
		"(10) PQMRWHOLE — a persistent-query result file is back-filled after a raw search only where a predicate that walks the segment's complete block-summary list found every block enclosed by the query window; " +
		"(11) OPENRANGE — both bounds of the open segment's recorded time range can move on every flush (a store that is not a first-time initialisation carries the flush's earliest / latest time into the start / end bound); " +
		"(12) SSTNUMERIC — every string value recorded in the ingest-time segment statistics is first offered to the float parser (as the record-level statistics do), so both sides agree on which strings are numbers; " +
		"(13) STALEREF — a container that the open segment replaces wholesale at rotation (WipBlock.colWips and the like) is not copied into an object that outlives the call (the ingest-time evaluation of persistent queries would keep reading the previous segment's reset buffers); " +
		"(14) BLOOMTWIN (shared with C02) — every piece of a string value added to the block bloom in its original spelling is also added lower-cased; " +
		"(5) RECSTART — the ingest-time matcher of persistent queries reads a column's last record as cbuf[cstartidx:cbufidx]: every per-record start of a column value (initAndBackFillColumn for present columns, the absent-column loop for the others) stores cstartidx = cbufidx before the record's bytes are appended, so the matcher never sees the previous record's value."
	r.NotCovered = "equality of results across layouts, bloom contents vs probes, persistent-query bitsets vs raw search beyond the record-start clause, agile-tree/rollup contents, parallel-chain merge"
	eq := core.EqualityCalls{}

	checkRangeFilterTables(c, r)
	c02BloomTwin(c, r)
	checkDictionaryScans(c, r)

	// ---------------------------------------------------------------- (2)
	checkTimePredicates(c, r, eq, false)

	// ---------------------------------------------------------------- (3) gates
	checkGate(c, r, pkgQuery, "canUseSSTForStats", nil, map[string]bool{
		"searchType==structs.MatchAllQuery": true, "segmentFullyEnclosed": true,
		"aggs.HasValueColRequest()": false, "aggs.HasValuesFunc()": false, "aggs.HasListFunc()": false, "aggs.HasNonIngestStats()": false,
	})
	canDo := c.Obj("pkg/segment/search", "CanDoStarTree")
	checkGate(c, r, pkgQuery, "canUseAgileTree", canDo, map[string]bool{
		"segReq.queryRange.AreTimesFullyEnclosed()": true, "queryInfo.sNodeType==structs.MatchAllQuery": true, "queryInfo.qType==structs.GroupByCmd": true,
	})
	// the enclosure argument at the SST gate's call sites
	gate := c.Obj(pkgQuery, "canUseSSTForStats")
	encl := c.Obj(pkgDtu, "TimeRange.AreTimesFullyEnclosed")
	n := 0
	for _, fn := range c.RepoFunctions() {
		for _, call := range callsTo(fn, gate) {
			n++
			ok := false
			for _, o := range c.Origins(call.Call.Args[1], 0) {
				if o.Kind == "call" && o.Obj == encl {
					ok = true
				}
			}
			r.Check(ok, "DEPENDS", shortFn(fn)+":SST-gate-enclosure-argument", c.Pos(call.Pos()), "the `fully enclosed` argument is the result of AreTimesFullyEnclosed", "the `segment fully enclosed` argument of the SST fast-path gate is not computed by AreTimesFullyEnclosed: statistics of partially covered segments would be used")
		}
	}
	r.Floor("DEPENDS", "call sites of canUseSSTForStats", n, 1)

	// ---------------------------------------------------------------- (4)
	checkHandOver(c, r)

	// ---------------------------------------------------------------- (5)
	checkRecordStart(c, r)

	// ---------------------------------------------------------------- (6)
	checkBloomGate(c, r)

	// ---------------------------------------------------------------- (7) a persistent query's "matched something in this segment" flag accumulates over blocks
	{
		// every store into the flag map, in whichever function of the repository it is made (the flush
		// path or a helper extracted from it)
		c.Fn(pkgWriter, "SegStore.AppendWipToSegfile")
		flagF := c.Field(pkgWriter, "SegStore.pqNonEmptyResults")
		isFlagMap := func(v ssa.Value) bool {
			ld, ok := v.(*ssa.UnOp)
			if !ok {
				return false
			}
			fa, ok := ld.X.(*ssa.FieldAddr)
			return ok && core.FieldOfAddr(fa) == flagF
		}
		n := 0
		perFn := map[string]int{}
		for _, fn := range c.RepoFunctions() {
			for _, b := range fn.Blocks {
				for _, in := range b.Instrs {
					mu, ok := in.(*ssa.MapUpdate)
					if !ok || !isFlagMap(mu.Map) {
						continue
					}
					n++
					perFn[core.FnName(fn)]++
					// the stored value is true, or depends on the entry's previous value
					var dependsOnPrev func(v ssa.Value, depth int) bool
					dependsOnPrev = func(v ssa.Value, depth int) bool {
						if depth > 5 || v == nil {
							return false
						}
						switch x := v.(type) {
						case *ssa.Const:
							return x.Value != nil && x.Value.String() == "true" && depth == 0
						case *ssa.Lookup:
							return isFlagMap(x.X)
						case *ssa.Extract:
							return dependsOnPrev(x.Tuple, depth+1)
						case *ssa.BinOp:
							return dependsOnPrev(x.X, depth+1) || dependsOnPrev(x.Y, depth+1)
						case *ssa.Phi:
							// a || b : phi [true (where a held), b]; the branch is on a
							for _, p := range x.Block().Preds {
								if ifi, ok := core.LastIf(p); ok && dependsOnPrev(ifi.Cond, depth+1) {
									return true
								}
							}
							for _, e := range x.Edges {
								if _, isK := e.(*ssa.Const); !isK && dependsOnPrev(e, depth+1) {
									return true
								}
							}
						}
						return false
					}
					r.Check(dependsOnPrev(mu.Value, 0), "LIVE", fmt.Sprintf("%s:pqNonEmptyResults-update#%d-accumulates-over-blocks", core.FnName(fn), perFn[core.FnName(fn)]), c.Pos(mu.Pos()),
						"the flag is or-ed with its previous value (or set to true)",
						"the per-segment flag `this persistent query matched something` is overwritten with the result of the block being flushed: a segment whose last block has no match is recorded as empty for the query, its result file is deleted at rotation, and the aggregation path skips the segment although earlier blocks matched")
				}
			}
		}
		r.Floor("LIVE", "updates of the persistent-query non-empty flag", n, 1)
	}

	// ---------------------------------------------------------------- (8) dictionary blocks list every record (shared with C01)
	checkDictionaryOffer(c, r, nil)

	c03LoadEvict(c, r)
	c03PqmrWhole(c, r)
	c03OpenRange(c, r)
	c03StaleRef(c, r)
	c03SstNumeric(c, r)
}

// checkRecordStart: cstartidx is set to cbufidx at the start of every record's value in a column.
func checkRecordStart(c *core.Ctx, r *core.Report) {
	cstart, cidx := c.Field(pkgWriter, "ColWip.cstartidx"), c.Field(pkgWriter, "ColWip.cbufidx")
	colsInBlock := c.Field(pkgWriter, "WipBlock.columnsInBlock")
	// a store `X.cstartidx = X.cbufidx`; returns X
	recStart := func(in ssa.Instruction) ssa.Value {
		st, ok := in.(*ssa.Store)
		if !ok {
			return nil
		}
		fa, ok := st.Addr.(*ssa.FieldAddr)
		if !ok || core.FieldOfAddr(fa) != cstart {
			return nil
		}
		ld, ok := st.Val.(*ssa.UnOp)
		if !ok {
			return nil
		}
		fb, ok := ld.X.(*ssa.FieldAddr)
		if !ok || core.FieldOfAddr(fb) != cidx || fb.X != fa.X {
			return nil
		}
		return fa.X
	}
	// (a) initAndBackFillColumn: on every path to a return, after the last append
	init := c.Fn(pkgWriter, "SegStore.initAndBackFillColumn")
	okInit := true
	nRet := 0
	for _, ret := range core.Returns(init) {
		nRet++
		// the returned ColWip
		cw := core.RetResult(ret, 0)
		found := false
		for _, b := range init.Blocks {
			for _, in := range b.Instrs {
				if x := recStart(in); x != nil && x == cw && core.InstrDominates(in, ret) {
					// no call that may append lies between the store and the return
					clean := true
					core.WalkForward(init, in, func(y ssa.Instruction) bool {
						if ci, ok := y.(ssa.CallInstruction); ok {
							if callee := ci.Common().StaticCallee(); callee != nil && c.BaseName(callee.Object()) == "backFillPastRecords" {
								clean = false
							}
						}
						return true
					})
					if clean {
						found = true
					}
				}
			}
		}
		if !found {
			okInit = false
		}
	}
	r.Check(okInit && nRet > 0, "RECSTART", "writer.SegStore.initAndBackFillColumn:record-start-marked", c.Pos(init.Pos()), "cstartidx = cbufidx is stored for the returned column after any backfill of past records", "initAndBackFillColumn can return a column whose cstartidx does not mark the end of the previous record: the ingest-time matcher of persistent queries evaluates the previous record's bytes")
	// (b) every per-record loop over the block's columns that appends a backfill byte marks the record start first
	n := 0
	for _, fn := range c.RepoFunctions() {
		if core.FnPkgPath(fn) != core.ModPath+"/"+pkgWriter {
			continue
		}
		for _, l := range core.Loops(fn) {
			isCols := false
			for _, in := range l.Header.Instrs {
				if nx, ok := in.(*ssa.Next); ok {
					if rg, ok := nx.Iter.(*ssa.Range); ok {
						if ld, ok := rg.X.(*ssa.UnOp); ok {
							if fa, ok := ld.X.(*ssa.FieldAddr); ok && core.FieldOfAddr(fa) == colsInBlock {
								isCols = true
							}
						}
					}
				}
			}
			if !isCols {
				continue
			}
			for b := range l.Body {
				for _, in := range b.Instrs {
					call, ok := in.(*ssa.Call)
					if !ok {
						continue
					}
					f := core.CalleeFunc(call)
					if f == nil || f.Name() != "Append" || len(call.Call.Args) != 2 {
						continue
					}
					// receiver: load of X.cbuf
					ld, ok := call.Call.Args[0].(*ssa.UnOp)
					if !ok {
						continue
					}
					fa, ok := ld.X.(*ssa.FieldAddr)
					if !ok || core.FieldOfAddr(fa) == nil || core.FieldOfAddr(fa).Name() != "cbuf" {
						continue
					}
					n++
					x := fa.X
					marked := false
					for bb := range l.Body {
						for _, in2 := range bb.Instrs {
							if y := recStart(in2); y != nil && y == x && core.InstrDominates(in2, in) {
								marked = true
							}
						}
					}
					r.Check(marked, "RECSTART", shortFn(fn)+":absent-column-record-start-marked", c.Pos(call.Pos()), "cstartidx = cbufidx is stored in the iteration before the backfill byte is appended", "the backfill byte of an absent column is appended without marking the record start: getLastRecord() returns the previous record's value followed by the backfill byte, so a tracked persistent query is evaluated on a value the event does not have and the persistent-query answer differs from the raw search")
				}
			}
		}
	}
	r.Floor("RECSTART", "backfill appends in per-record loops over the block's columns", n, 1)
}

// checkGate: the function's result (or, when guarded != nil, the condition
// under which `guarded` is called) implies each required proposition value.
// Local boolean variables are replaced by the calls that define them.
func checkGate(c *core.Ctx, r *core.Report, pkg, name string, guarded types.Object, required map[string]bool) {
	fn := c.Fn(pkg, name)
	fd := funcDeclOf(fn)
	construct := shortFn(fn) + ":gate"
	if fd == nil {
		r.Undecided("DEPENDS", construct, c.Pos(fn.Pos()), "no syntax")
		return
	}
	core.PropMode = true
	defer func() { core.PropMode = false }()
	// definitions of local booleans: x := <call>
	defs := map[string]string{}
	var formula core.Formula
	var ferr error
	for i, st := range fd.Body.List {
		switch s := st.(type) {
		case *ast.AssignStmt:
			if len(s.Lhs) == len(s.Rhs) {
				for j := range s.Lhs {
					if id, ok := s.Lhs[j].(*ast.Ident); ok {
						if call, ok := s.Rhs[j].(*ast.CallExpr); ok {
							defs[id.Name] = core.ExprName(call.Fun) + "()"
						}
					}
				}
			} else if len(s.Rhs) == 1 {
				if call, ok := s.Rhs[0].(*ast.CallExpr); ok {
					for j, l := range s.Lhs {
						if id, ok := l.(*ast.Ident); ok && id.Name != "_" {
							defs[id.Name] = fmt.Sprintf("%s()#%d", core.ExprName(call.Fun), j)
						}
					}
				}
			}
		case *ast.ReturnStmt:
			if guarded == nil && len(s.Results) > 0 {
				formula, ferr = core.FormulaOfExpr(s.Results[0], nil)
			}
		case *ast.IfStmt:
			if guarded != nil {
				// the if whose body calls the guarded function
				calls := false
				ast.Inspect(s.Body, func(n ast.Node) bool {
					if ce, ok := n.(*ast.CallExpr); ok {
						if sel, ok := ce.Fun.(*ast.SelectorExpr); ok && sel.Sel.Name == guarded.Name() {
							calls = true
						}
						if id, ok := ce.Fun.(*ast.Ident); ok && id.Name == guarded.Name() {
							calls = true
						}
					}
					return true
				})
				if calls {
					formula, ferr = core.FormulaOfExpr(s.Cond, nil)
				}
			}
		}
		_ = i
	}
	if formula == nil || ferr != nil {
		r.Undecided("DEPENDS", construct, c.Pos(fn.Pos()), fmt.Sprintf("gate expression not found or not a boolean combination (%v)", ferr))
		return
	}
	// substitute definitions
	var subst func(f core.Formula) core.Formula
	subst = func(f core.Formula) core.Formula {
		switch x := f.(type) {
		case core.Prop:
			if d, ok := defs[x.Name]; ok {
				return core.Prop{Name: d}
			}
			return x
		case core.And:
			return core.And{X: subst(x.X), Y: subst(x.Y)}
		case core.Or:
			return core.Or{X: subst(x.X), Y: subst(x.Y)}
		case core.Not:
			return core.Not{X: subst(x.X)}
		}
		return f
	}
	formula = subst(formula)
	props := core.Operands(formula)
	var reqNames []string
	for k := range required {
		reqNames = append(reqNames, k)
	}
	sort.Strings(reqNames)
	for _, rq := range reqNames {
		want := required[rq]
		k := fmt.Sprintf("%s:implies(%s=%v)", construct, rq, want)
		found := false
		for _, p := range props {
			if p == rq {
				found = true
			}
		}
		if !found {
			r.Violation("DEPENDS", k, c.Pos(fn.Pos()), "the fast-path gate does not depend on this condition any more: the accelerated path is taken where its answer differs from the raw computation")
			continue
		}
		// all boolean valuations
		okImp := true
		nv := 1 << uint(len(props))
		for m := 0; m < nv; m++ {
			val := map[string]int{}
			for i, p := range props {
				if m&(1<<uint(i)) != 0 {
					val[p] = 1
				}
			}
			if core.Eval(formula, val) && (val[rq] != 0) != want {
				okImp = false
				break
			}
		}
		if okImp {
			r.OK("DEPENDS", k, c.Pos(fn.Pos()), "the gate can only be true when this condition has the required value")
		} else {
			r.Violation("DEPENDS", k, c.Pos(fn.Pos()), "the fast-path gate can be true although this condition does not hold")
		}
	}
}

// checkRangeFilterTables: soundness of block range-index pruning (shared by C02 and C03).
func checkRangeFilterTables(c *core.Ctx, r *core.Report) {
	eq := core.EqualityCalls{}
	isFop := isNamedType(pkgSutils, "FilterOperator")
	info := c.Pkg(pkgMetaUtl).TypesInfo
	nFilters := 0
	for _, fn := range c.RepoFunctions() {
		if core.FnPkgPath(fn) != core.ModPath+"/"+pkgMetaUtl || fn.Parent() != nil {
			continue
		}
		base := fn
		if o := fn.Origin(); o != nil {
			base = o
		}
		fd := funcDeclOf(base)
		if fd == nil || fn != base && fn.Origin() != nil && fn.Origin() != fn {
			continue
		}
		for _, arms := range core.SwitchArms(info, fd.Body, isFop) {
			// candidate: arms are order predicates over exactly three operands
			fm := map[string]core.Formula{}
			opsSet := map[string]bool{}
			shapeOK := true
			for _, op := range sixOps {
				stmts, ok := arms[op]
				if !ok {
					continue
				}
				f, err := core.FormulaOfStmts(stmts, eq)
				if err != nil {
					shapeOK = false
					break
				}
				fm[op] = f
				for _, o := range core.Operands(f) {
					opsSet[o] = true
				}
			}
			if !shapeOK || len(opsSet) != 3 || len(fm) < 4 {
				continue
			}
			nFilters++
			name := shortFn(base)
			// identify value / min / max from the parameter order (value, min, max follow the operator)
			var vals []string
			for _, fl := range fd.Type.Params.List {
				for _, n := range fl.Names {
					if opsSet[n.Name] {
						vals = append(vals, n.Name)
					}
				}
			}
			if len(vals) != 3 {
				r.Undecided("ORDERTABLE", name+":range-filter", c.Pos(base.Pos()), "the three operands are not the function's parameters")
				continue
			}
			// the Equals arm tells which two parameters bound the value: it must mean lo <= v <= hi for exactly one role assignment
			v, lo, hi := "", "", ""
			perms := [][3]string{{vals[0], vals[1], vals[2]}, {vals[0], vals[2], vals[1]}, {vals[1], vals[0], vals[2]}, {vals[1], vals[2], vals[0]}, {vals[2], vals[0], vals[1]}, {vals[2], vals[1], vals[0]}}
			if eqF, ok := fm["Equals"]; ok {
				for _, p := range perms {
					good := true
					for _, rank := range core.Orderings(vals, func(rk map[string]int) bool { return rk[p[1]] <= rk[p[2]] }) {
						if core.Eval(eqF, rank) != (rank[p[1]] <= rank[p[0]] && rank[p[0]] <= rank[p[2]]) {
							good = false
							break
						}
					}
					if good {
						v, lo, hi = p[0], p[1], p[2]
						break
					}
				}
			}
			if v == "" {
				r.Violation("ORDERTABLE", name+":range-filter:Equals", c.Pos(base.Pos()), "the Equals arm does not mean min <= value <= max for any assignment of its three operands: blocks containing the value can be pruned")
				continue
			}
			must := func(op string, rk map[string]int) bool {
				L, m, M := rk[v], rk[lo], rk[hi]
				switch op {
				case "Equals":
					return m <= L && L <= M
				case "NotEquals":
					return !(m == M && M == L)
				case "GreaterThan":
					return M > L
				case "GreaterThanOrEqualTo":
					return M >= L
				case "LessThan":
					return m < L
				case "LessThanOrEqualTo":
					return m <= L
				}
				return true
			}
			// the call sites hand the block's range and the literal over in those roles: the argument in the
			// min role comes from a Min_* field of the range entry, the one in the max role from a Max_* field,
			// the value from neither (three arguments of one type are easily exchanged)
			{
				idx := map[string]int{}
				k := 0
				for _, fl := range fd.Type.Params.List {
					for _, n := range fl.Names {
						idx[n.Name] = k
						k++
					}
					if len(fl.Names) == 0 {
						k++
					}
				}
				boundOf := func(a ssa.Value) string {
					for i := 0; i < 4; i++ {
						if cv, ok := a.(*ssa.Convert); ok {
							a = cv.X
						}
					}
					if ld, ok := a.(*ssa.UnOp); ok {
						if fa, ok := ld.X.(*ssa.FieldAddr); ok {
							if f := core.FieldOfAddr(fa); f != nil {
								switch {
								case strings.HasPrefix(f.Name(), "Min_"):
									return "min"
								case strings.HasPrefix(f.Name(), "Max_"):
									return "max"
								}
							}
						}
					}
					return ""
				}
				nSites := 0
				for _, caller := range c.RepoFunctions() {
					for _, ci := range core.CallsIn(caller) {
						callee := ci.Common().StaticCallee()
						if callee == nil || (callee != base && callee.Origin() != base) {
							continue
						}
						args := ci.Common().Args
						if idx[lo] >= len(args) || idx[hi] >= len(args) || idx[v] >= len(args) {
							continue
						}
						nSites++
						okRoles := boundOf(args[idx[lo]]) == "min" && boundOf(args[idx[hi]]) == "max" && boundOf(args[idx[v]]) == ""
						r.Check(okRoles, "ORDERTABLE", fmt.Sprintf("%s:call#%d-in-%s-passes(value,min,max)-in-their-roles", name, nSites, shortFn(caller)), c.Pos(ci.Pos()),
							"the block minimum and maximum are handed over in the min and max roles, the literal as the value",
							"the range predicate is called with the block's minimum, maximum and the literal in the wrong roles (arguments of one type exchanged): pruning is inverted for some operators and blocks that contain matching events are skipped")
					}
				}
				r.Floor("ORDERTABLE", "call sites of the range predicate "+name, nSites, 1)
			}
			for _, op := range sixOps {
				construct := fmt.Sprintf("%s:range-filter:%s", name, op)
				f, ok := fm[op]
				if !ok {
					// a missing arm falls to the default: acceptable only if the default accepts
					if d, okd := arms["default"]; okd {
						if df, err := core.FormulaOfStmts(d, eq); err == nil {
							if k, isC := df.(core.Const); isC && k.V {
								r.OK("ORDERTABLE", construct, c.Pos(base.Pos()), "no arm; the default accepts the block")
								continue
							}
						}
					}
					r.Violation("ORDERTABLE", construct, c.Pos(base.Pos()), "no arm for this operator and the default does not accept the block")
					continue
				}
				bad := ""
				for _, rank := range core.Orderings(vals, func(rk map[string]int) bool { return rk[lo] <= rk[hi] }) {
					if must(op, rank) && !core.Eval(f, rank) {
						bad = core.RankString(rank)
						break
					}
				}
				if bad != "" {
					r.Violation("ORDERTABLE", construct, c.Pos(base.Pos()), fmt.Sprintf("range-index pruning is unsound for `column %s value`: with %s the block contains a matching value but is skipped — the answer then depends on how events were cut into blocks", op, bad))
				} else {
					r.OK("ORDERTABLE", construct, c.Pos(base.Pos()), "accepts every block that can contain a match")
				}
			}
		}
	}
	r.Floor("ORDERTABLE", "range-index filter tables", nFilters, 1)

}

// c02ConvertedOnlyOnSuccess — clause (11).  The `where` stage compares through dtypeutils.ConvertToSameType (= and !=)
// and dtypeutils.CompareValues (the ordered operators).  The conversion helpers of that package hand back the zero
// value next to an error; a comparison that goes on with that zero compares 0 instead of the value: `where x=0` then
// holds for every x that could not be converted (7.5 against the integer literal 0).  In both functions every value
// obtained from a (value, error) conversion of the package is used only where that error is known nil.
func c02ConvertedOnlyOnSuccess(c *core.Ctx, r *core.Report) {
	const pkg = "pkg/common/dtypeutils"
	n := 0
	for _, name := range []string{"ConvertToSameType", "CompareValues"} {
		fn := c.Fn(pkg, name)
		k := 0
		for _, ci := range core.CallsIn(fn) {
			call, ok := ci.(*ssa.Call)
			if !ok {
				continue
			}
			h := call.Call.StaticCallee()
			if h == nil || core.FnPkgPath(h) != core.FnPkgPath(fn) || !strings.HasPrefix(h.Name(), "Convert") {
				continue
			}
			if errv, others := errResultOf(call); errv == nil || len(others) == 0 {
				continue
			}
			n++
			k++
			checkErrGuardedUse(c, r, "GUARD", call, fmt.Sprintf("%s#%d", h.Name(), k), "the conversion returns the zero value next to an error, and the comparison then holds for the literal 0 (or \"0\") whatever the stored value is: the `where` stage and the search clause disagree on a numeric field")
		}
	}
	r.Floor("GUARD", "conversions feeding the comparisons of the where stage", n, 3)

	// clause (12): the two functions (and the helpers of the package they call, other than the error-checked
	// converters) never narrow a floating-point operand to an integer type: int64(7.5) == 7 makes `where x=7` hold
	// for 7.5.  (The checked converters refuse a value with a fraction instead.)
	seen := map[*ssa.Function]bool{}
	var fns []*ssa.Function
	for _, name := range []string{"ConvertToSameType", "CompareValues"} {
		fn := c.Fn(pkg, name)
		if !seen[fn] {
			seen[fn] = true
			fns = append(fns, fn)
		}
		for _, ci := range core.CallsIn(fn) {
			if h := ci.Common().StaticCallee(); h != nil && h.Blocks != nil && !seen[h] && core.FnPkgPath(h) == core.FnPkgPath(fn) && !strings.HasPrefix(h.Name(), "Convert") {
				seen[h] = true
				fns = append(fns, h)
			}
		}
	}
	bad := ""
	for _, fn := range fns {
		for _, b := range fn.Blocks {
			for _, in := range b.Instrs {
				cv, ok := in.(*ssa.Convert)
				if !ok {
					continue
				}
				from, ok1 := cv.X.Type().Underlying().(*types.Basic)
				to, ok2 := cv.Type().Underlying().(*types.Basic)
				if ok1 && ok2 && from.Info()&types.IsFloat != 0 && to.Info()&types.IsInteger != 0 && bad == "" {
					bad = c.Pos(cv.Pos())
				}
			}
		}
	}
	r.Check(bad == "", "GUARD", "dtypeutils.where-comparison:no-float-operand-narrowed-to-an-integer", bad, fmt.Sprintf("%d functions behind the = / != / ordered comparisons of the where stage, no float -> integer conversion", len(fns)),
		"a floating-point operand of a where-stage comparison is converted to an integer type: the fraction is dropped, so `where x=7` holds for a stored 7.5 and `x!=7` does not, while the search clause compares by value")
}

// checkDictionaryScans — C02 clause (4), shared with C03 (a filter's answer does not depend on the block's encoding):
// the search of a dictionary-encoded block examines every dictionary word; the scan loops have no exit other than
// exhaustion or an error return, since several distinct words can satisfy one filter.
func checkDictionaryScans(c *core.Ctx, r *core.Report) {
	getDeTlv := c.Obj(pkgSegreader, "SegmentFileReader.GetDeTlv")
	nScan := 0
	for _, fn := range c.RepoFunctions() {
		if core.FnPkgPath(fn) != core.ModPath+"/"+pkgSegread2 {
			continue
		}
		calls := callsTo(fn, getDeTlv)
		if len(calls) == 0 {
			continue
		}
		loops := core.Loops(fn)
		for _, call := range calls {
			// the loop ranging over the result
			var loop *core.Loop
			for _, l := range loops {
				for _, in := range l.Header.Instrs {
					_ = in
				}
				if usesInHeaderOrBody(l, call) && (loop == nil || len(l.Body) > len(loop.Body)) {
					loop = l
				}
			}
			if loop == nil {
				continue
			}
			nScan++
			construct := shortFn(fn) + ":dictionary-scan-examines-every-word"
			var bad ssa.Instruction
			for _, e := range loop.ExitEdges() {
				if e[0] == loop.Header {
					continue
				}
				last := e[0].Instrs[len(e[0].Instrs)-1]
				if ret, ok := last.(*ssa.Return); ok && core.ReturnSuccess(ret) == core.No {
					continue // error propagation
				}
				if e[1] != nil {
					// exit to a block that immediately returns an error?
					if ret, ok := e[1].Instrs[len(e[1].Instrs)-1].(*ssa.Return); ok && core.ReturnSuccess(ret) == core.No {
						continue
					}
				}
				bad = last
			}
			if bad != nil {
				r.Violation("GUARD", construct, c.Pos(firstPos(bad, call)), "the scan over the block's dictionary words can stop early: distinct words can satisfy the same filter (ERROR/error under case-insensitive match, 5 and 5.0 for a numeric literal), so the records of the remaining matching words are lost on dictionary-encoded blocks only")
			} else {
				r.OK("GUARD", construct, c.Pos(call.Pos()), "the only exits of the scan are exhaustion and error returns")
			}
		}
	}
	r.Floor("GUARD", "dictionary scan loops", nScan, 2)

}
