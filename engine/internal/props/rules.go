package props

import (
	"fmt"
	"go/types"
	"sort"
	"strings"

	"golang.org/x/tools/go/ssa"

	"verif/engine/internal/core"
)

// ---------------------------------------------------------------------------
// call predicates

// callPred decides whether a call-like instruction is an instance of a rule
// slot.
type callPred func(ci ssa.CallInstruction) bool

// objSet is a set of function objects.
type objSet map[types.Object]bool

func objs(os ...types.Object) objSet {
	s := objSet{}
	for _, o := range os {
		if f, ok := o.(*types.Func); ok {
			s[f.Origin()] = true
		} else {
			s[o] = true
		}
	}
	return s
}

func (s objSet) hasCallee(ci ssa.CallInstruction) bool {
	f := core.CalleeFunc(ci)
	return f != nil && s[f.Origin()]
}

// summaries caches interprocedural facts for one run.
type summaries struct {
	c        *core.Ctx
	must     map[string]map[*ssa.Function]int // 0 unknown,1 computing,2 yes,3 no
	mayReach map[string]map[*ssa.Function]bool
}

func newSummaries(c *core.Ctx) *summaries {
	return &summaries{c: c, must: map[string]map[*ssa.Function]int{}, mayReach: map[string]map[*ssa.Function]bool{}}
}

func setKey(s objSet) string {
	var ks []string
	for o := range s {
		ks = append(ks, core.ObjName(o))
	}
	sort.Strings(ks)
	return strings.Join(ks, "|")
}

// mustCall reports whether every path from fn's entry to a normal return
// executes a synchronous call (or registers a defer) of a function in set,
// directly or through a static callee that itself must call it.
func (s *summaries) mustCall(fn *ssa.Function, set objSet) bool {
	key := setKey(set)
	m := s.must[key]
	if m == nil {
		m = map[*ssa.Function]int{}
		s.must[key] = m
	}
	return s.mustCallRec(fn, set, m)
}

func (s *summaries) mustCallRec(fn *ssa.Function, set objSet, m map[*ssa.Function]int) bool {
	if fn == nil || fn.Blocks == nil {
		return false
	}
	switch m[fn] {
	case 1:
		return false // recursion: assume no
	case 2:
		return true
	case 3:
		return false
	}
	m[fn] = 1
	escaped := false
	core.WalkForward(fn, nil, func(in ssa.Instruction) bool {
		switch x := in.(type) {
		case *ssa.Call, *ssa.Defer:
			ci := x.(ssa.CallInstruction)
			if set.hasCallee(ci) {
				return false
			}
			if callee := ci.Common().StaticCallee(); callee != nil && core.IsRepoPkg(core.FnPkgPath(callee)) {
				if s.mustCallRec(callee, set, m) {
					return false
				}
			}
		case *ssa.Return:
			escaped = true
		}
		return true
	})
	if escaped {
		m[fn] = 3
		return false
	}
	m[fn] = 2
	return true
}

// mustPred returns a predicate matching synchronous calls that certainly
// execute a function of set (directly or via must-call summaries).
func (s *summaries) mustPred(set objSet) callPred {
	return func(ci ssa.CallInstruction) bool {
		if _, isGo := ci.(*ssa.Go); isGo {
			return false
		}
		if set.hasCallee(ci) {
			return true
		}
		if callee := ci.Common().StaticCallee(); callee != nil && core.IsRepoPkg(core.FnPkgPath(callee)) {
			return s.mustCall(callee, set)
		}
		return false
	}
}

// successMust reports whether every return of fn that may report success is reached only through a
// synchronous call of a function in set, made directly or through a static repository callee for which
// the same holds.  Unlike mustCall it ignores the early error returns of fn and of the helpers: it is
// the summary for "the helper did X whenever it reports success", which survives inlining the helper
// into its caller and extracting it again.
func (s *summaries) successMust(fn *ssa.Function, set objSet, m map[*ssa.Function]int) bool {
	if fn == nil || fn.Blocks == nil {
		return false
	}
	switch m[fn] {
	case 1, 3:
		return false
	case 2:
		return true
	}
	m[fn] = 1
	escaped := false
	nSuccess := 0
	for _, ret := range core.Returns(fn) {
		if core.ReturnSuccess(ret) != core.No {
			nSuccess++
		}
	}
	core.WalkForward(fn, nil, func(in ssa.Instruction) bool {
		switch x := in.(type) {
		case *ssa.Call:
			if set.hasCallee(x) {
				return false
			}
			if callee := x.Common().StaticCallee(); callee != nil && core.IsRepoPkg(core.FnPkgPath(callee)) {
				if s.successMust(callee, set, m) {
					return false
				}
			}
		case *ssa.Return:
			if core.ReturnSuccess(x) != core.No {
				escaped = true
			}
		}
		return true
	})
	if escaped || nSuccess == 0 {
		m[fn] = 3
		return false
	}
	m[fn] = 2
	return true
}

// successMustPred matches synchronous calls that have executed a function of set whenever they report
// success (directly, or through successMust summaries of repository callees).
func (s *summaries) successMustPred(set objSet) callPred {
	memo := map[*ssa.Function]int{}
	return func(ci ssa.CallInstruction) bool {
		call, ok := ci.(*ssa.Call)
		if !ok {
			return false
		}
		if set.hasCallee(call) {
			return true
		}
		if callee := call.Common().StaticCallee(); callee != nil && core.IsRepoPkg(core.FnPkgPath(callee)) {
			return s.successMust(callee, set, memo)
		}
		return false
	}
}

// staticMayReach returns the set of repository functions from which a
// function of set is reachable over static call edges (calls, go, defer,
// and creation of closures).
func (s *summaries) staticMayReach(set objSet) map[*ssa.Function]bool {
	return s.staticMayReachAvoid(set, nil)
}

// staticMayReachAvoid is staticMayReach on the call graph with the functions
// in stop removed (paths through them do not count).
func (s *summaries) staticMayReachAvoid(set objSet, stop map[*ssa.Function]bool) map[*ssa.Function]bool {
	key := setKey(set)
	if len(stop) > 0 {
		var ks []string
		for f := range stop {
			ks = append(ks, f.String())
		}
		sort.Strings(ks)
		key += "//" + strings.Join(ks, "|")
	}
	if r, ok := s.mayReach[key]; ok {
		return r
	}
	fns := s.c.RepoFunctions()
	// reverse edges
	rev := map[*ssa.Function][]*ssa.Function{}
	direct := map[*ssa.Function]bool{}
	for _, fn := range fns {
		top := fn
		for top.Parent() != nil {
			top = top.Parent()
		}
		if stop[top] {
			continue
		}
		for _, b := range fn.Blocks {
			for _, in := range b.Instrs {
				switch x := in.(type) {
				case ssa.CallInstruction:
					if set.hasCallee(x) {
						direct[fn] = true
					}
					if callee := x.Common().StaticCallee(); callee != nil {
						rev[callee] = append(rev[callee], fn)
					}
					// function values passed as arguments are assumed callable
					for _, a := range x.Common().Args {
						if mc, ok := a.(*ssa.MakeClosure); ok {
							rev[mc.Fn.(*ssa.Function)] = append(rev[mc.Fn.(*ssa.Function)], fn)
						} else if f, ok := a.(*ssa.Function); ok {
							rev[f] = append(rev[f], fn)
						}
					}
				case *ssa.MakeClosure:
					rev[x.Fn.(*ssa.Function)] = append(rev[x.Fn.(*ssa.Function)], fn)
				}
			}
		}
	}
	res := map[*ssa.Function]bool{}
	var work []*ssa.Function
	for f := range direct {
		res[f] = true
		work = append(work, f)
	}
	for len(work) > 0 {
		f := work[len(work)-1]
		work = work[:len(work)-1]
		for _, p := range rev[f] {
			if !res[p] {
				res[p] = true
				work = append(work, p)
			}
		}
	}
	s.mayReach[key] = res
	return res
}

// mayPred matches call-like instructions that call a function of set directly
// or call/spawn a function from which one is statically reachable.
func (s *summaries) mayPred(set objSet) callPred {
	return s.mayPredAvoid(set, nil)
}

func (s *summaries) mayPredAvoid(set objSet, stop map[*ssa.Function]bool) callPred {
	reach := s.staticMayReachAvoid(set, stop)
	return func(ci ssa.CallInstruction) bool {
		if set.hasCallee(ci) {
			return true
		}
		if callee := ci.Common().StaticCallee(); callee != nil && reach[callee] {
			return true
		}
		if mc, ok := ci.Common().Value.(*ssa.MakeClosure); ok && reach[mc.Fn.(*ssa.Function)] {
			return true
		}
		return false
	}
}

// directPred matches direct calls of the objects.
func directPred(set objSet) callPred {
	return func(ci ssa.CallInstruction) bool { return set.hasCallee(ci) }
}

// ---------------------------------------------------------------------------
// ORDER

// orderResult describes one B site.
type orderSite struct {
	Site ssa.CallInstruction
	OK   bool
}

// mustPrecede: every call-like instruction of fn matching isB is reached only
// through an instruction matching isA (a set of A's may jointly cover the
// paths).  Returns all B sites with their verdicts.
func mustPrecede(fn *ssa.Function, isA, isB callPred) []orderSite {
	var sites []orderSite
	unguarded := map[ssa.Instruction]bool{}
	core.WalkForward(fn, nil, func(in ssa.Instruction) bool {
		if ci, ok := in.(ssa.CallInstruction); ok {
			if isB(ci) {
				unguarded[in] = true
			}
			if isA(ci) {
				if _, isDefer := ci.(*ssa.Defer); !isDefer { // a deferred A runs at exit, after B
					return false
				}
			}
		}
		return true
	})
	for _, ci := range core.CallsIn(fn) {
		if isB(ci) {
			sites = append(sites, orderSite{ci, !unguarded[ci]})
		}
	}
	return sites
}

// checkOrder instantiates ORDER for one function and reports per B site.
// minB is the floor on B sites.
func checkOrder(c *core.Ctx, r *core.Report, fn *ssa.Function, aName string, isA callPred, bName string, isB callPred, minB int, why string) {
	sites := mustPrecede(fn, isA, isB)
	construct := fmt.Sprintf("%s:%s<%s", core.FnName(fn), aName, bName)
	if len(sites) < minB {
		r.Undecided("ORDER", construct, c.Pos(fn.Pos()), fmt.Sprintf("found %d call sites of %s in %s, expected at least %d; the ordering clause cannot be decided (%s)", len(sites), bName, core.FnName(fn), minB, why))
		return
	}
	for i, s := range sites {
		k := construct
		if len(sites) > 1 {
			k = fmt.Sprintf("%s@%d", construct, i)
		}
		if s.OK {
			r.OK("ORDER", k, c.Pos(s.Site.Pos()), "every path from entry to this "+bName+" passes "+aName)
		} else {
			r.Violation("ORDER", k, c.Pos(s.Site.Pos()), fmt.Sprintf("%s is reachable from the entry of %s without passing %s — %s", bName, core.FnName(fn), aName, why))
		}
	}
}

// ---------------------------------------------------------------------------
// success-return must be preceded by A

// checkBeforeSuccessReturn: every return of fn that may report success is
// reached only through A.
func checkBeforeSuccessReturn(c *core.Ctx, r *core.Report, fn *ssa.Function, aName string, isA callPred, why string) {
	bad := map[*ssa.Return]bool{}
	core.WalkForward(fn, nil, func(in ssa.Instruction) bool {
		if ci, ok := in.(ssa.CallInstruction); ok && isA(ci) {
			return false
		}
		if ret, ok := in.(*ssa.Return); ok && core.ReturnSuccess(ret) != core.No {
			bad[ret] = true
		}
		return true
	})
	construct := fmt.Sprintf("%s:%s<success-return", core.FnName(fn), aName)
	n := 0
	for _, ret := range core.Returns(fn) {
		if core.ReturnSuccess(ret) == core.No {
			continue
		}
		n++
		if bad[ret] {
			r.Violation("ORDER", construct, c.Pos(ret.Pos()), fmt.Sprintf("a return that may report success is reachable without %s — %s", aName, why))
			return
		}
	}
	if n == 0 {
		r.Undecided("ORDER", construct, c.Pos(fn.Pos()), "no success return found")
		return
	}
	r.OK("ORDER", construct, c.Pos(fn.Pos()), fmt.Sprintf("%d success return(s), all preceded by %s", n, aName))
}

// ---------------------------------------------------------------------------
// error-checked use

// errResultOf returns the Extract of the error result of a tuple-returning
// call (or the call itself when it returns just an error), and the extracts of
// the other results.
func errResultOf(call *ssa.Call) (errv ssa.Value, others []ssa.Value) {
	sig := call.Call.Signature()
	n := sig.Results().Len()
	if n == 0 {
		return nil, nil
	}
	isErr := func(t types.Type) bool { return types.Identical(t, types.Universe.Lookup("error").Type()) }
	if n == 1 {
		if isErr(sig.Results().At(0).Type()) {
			return call, nil
		}
		return nil, []ssa.Value{call}
	}
	if refs := call.Referrers(); refs != nil {
		for _, ref := range *refs {
			if ex, ok := ref.(*ssa.Extract); ok {
				if ex.Index == n-1 && isErr(sig.Results().At(n-1).Type()) {
					errv = ex
				} else {
					others = append(others, ex)
				}
			}
		}
	}
	return
}

// checkErrGuardedUse: every use of the non-error results of call lies in a
// block where the call's error is known to be nil.
func checkErrGuardedUse(c *core.Ctx, r *core.Report, rule string, call *ssa.Call, what, why string) {
	fn := call.Parent()
	construct := fmt.Sprintf("%s:use-of(%s)-guarded-by-err", core.FnName(fn), what)
	errv, others := errResultOf(call)
	if errv == nil {
		r.Violation(rule, construct, c.Pos(call.Pos()), "the error result of "+what+" is discarded — "+why)
		return
	}
	// guarded(v, e): every use of v lies where e is known nil.  A phi uses v on the edges it arrives by
	// (`if err == nil { x = v }` merges v in only from the block where the error is known nil); and where v and e
	// are merged side by side (`x, xerr = fast(); if !ok { x, xerr = convert() }` gives a phi of the values and a
	// phi of the errors over the same edges) the uses of the merged value are judged against the merged error.
	var guarded func(v, e ssa.Value, depth int) ssa.Instruction
	guarded = func(v, e ssa.Value, depth int) ssa.Instruction {
		refs := v.Referrers()
		if refs == nil || depth > 3 {
			return nil
		}
		for _, u := range *refs {
			if _, isDbg := u.(*ssa.DebugRef); isDbg {
				continue
			}
			if phi, isPhi := u.(*ssa.Phi); isPhi {
				okAll := true
				for i, ed := range phi.Edges {
					if ed != v {
						continue
					}
					if core.NilnessAt(e, phi.Block().Preds[i]) == core.Yes {
						continue
					}
					// a sibling phi carrying the error over the same edge
					var pe *ssa.Phi
					for _, in := range phi.Block().Instrs {
						q, isQ := in.(*ssa.Phi)
						if !isQ {
							break
						}
						if q != phi && i < len(q.Edges) && q.Edges[i] == e {
							pe = q
						}
					}
					if pe == nil || guarded(phi, pe, depth+1) != nil {
						okAll = false
					}
				}
				if okAll {
					continue
				}
			}
			if core.NilnessAt(e, u.Block()) != core.Yes {
				return u
			}
		}
		return nil
	}
	for _, o := range others {
		if u := guarded(o, errv, 0); u != nil {
			r.Violation(rule, construct, c.Pos(u.Pos()), fmt.Sprintf("result of %s is used where its error is not known to be nil — %s", what, why))
			return
		}
	}
	r.OK(rule, construct, c.Pos(call.Pos()), "all uses dominated by the err == nil edge")
}

// checkErrPropagated: after call, every return that may report success lies
// where the call's error is known nil (the failure is not swallowed).
func checkErrPropagated(c *core.Ctx, r *core.Report, rule string, call *ssa.Call, what, why string) {
	fn := call.Parent()
	construct := fmt.Sprintf("%s:error-of(%s)-propagated", core.FnName(fn), what)
	errv, _ := errResultOf(call)
	if errv == nil {
		r.Violation(rule, construct, c.Pos(call.Pos()), "the error result of "+what+" is discarded — "+why)
		return
	}
	var bad *ssa.Return
	core.WalkForward(fn, call, func(in ssa.Instruction) bool {
		if ret, ok := in.(*ssa.Return); ok {
			if core.ReturnSuccess(ret) != core.No && core.NilnessAt(errv, ret.Block()) != core.Yes {
				// returning the error value itself is propagation
				idx := core.ErrResultIndex(fn)
				if idx >= 0 && core.RetResult(ret, idx) == errv {
					return true
				}
				bad = ret
			}
		}
		return true
	})
	if bad != nil {
		r.Violation(rule, construct, c.Pos(bad.Pos()), fmt.Sprintf("a return that may report success is reachable although %s failed — %s", what, why))
		return
	}
	r.OK(rule, construct, c.Pos(call.Pos()), "failure reaches only error returns")
}

// callsTo lists the *ssa.Call instructions of fn that directly call o.
func callsTo(fn *ssa.Function, o types.Object) []*ssa.Call {
	var out []*ssa.Call
	for _, ci := range core.CallsIn(fn) {
		if call, ok := ci.(*ssa.Call); ok && core.IsCallTo(ci, o) {
			out = append(out, call)
		}
	}
	return out
}

func posOf(c *core.Ctx, in ssa.Instruction) string { return c.Pos(in.Pos()) }

// appendSitesOf returns the builtin append calls of fn that append value v
// (directly or through the variadic backing array).
func appendSitesOf(v ssa.Value) []ssa.Instruction {
	var out []ssa.Instruction
	seen := map[ssa.Value]bool{}
	var rec func(x ssa.Value)
	rec = func(x ssa.Value) {
		if x == nil || seen[x] {
			return
		}
		seen[x] = true
		refs := x.Referrers()
		if refs == nil {
			return
		}
		for _, in := range *refs {
			switch y := in.(type) {
			case *ssa.Store:
				if y.Val == x {
					if ia, ok := y.Addr.(*ssa.IndexAddr); ok {
						rec(ia.X)
					}
				}
			case *ssa.Slice:
				rec(y)
			case *ssa.Call:
				if bi, ok := y.Call.Value.(*ssa.Builtin); ok && bi.Name() == "append" {
					out = append(out, y)
				}
			}
		}
	}
	rec(v)
	return out
}

// derivedAppendSites: the append calls that add v, or a value computed from v inside the same function (a field
// of it, a copy through a local, the result of a function it is handed to), to a slice.  It is what "the result
// is adopted" means when the populate step is done in place: ReadSfm's result -> its SegMeta ->
// ProcessSegmetaInfo -> the appended micro index.
func derivedAppendSites(v ssa.Value) []ssa.Instruction {
	var out []ssa.Instruction
	seen := map[ssa.Value]bool{}
	var rec func(x ssa.Value)
	rec = func(x ssa.Value) {
		if x == nil || seen[x] {
			return
		}
		seen[x] = true
		refs := x.Referrers()
		if refs == nil {
			return
		}
		for _, in := range *refs {
			switch y := in.(type) {
			case *ssa.Store:
				if y.Val != x {
					continue
				}
				switch a := y.Addr.(type) {
				case *ssa.IndexAddr:
					rec(a.X)
				case *ssa.Alloc:
					rec(a)
				case *ssa.FieldAddr:
					rec(a.X)
				}
			case *ssa.Call:
				if bi, ok := y.Call.Value.(*ssa.Builtin); ok {
					if bi.Name() == "append" {
						out = append(out, y)
					}
					continue
				}
				rec(y)
			case *ssa.Slice, *ssa.FieldAddr, *ssa.UnOp, *ssa.Extract, *ssa.MakeInterface, *ssa.ChangeType, *ssa.Convert, *ssa.Phi, *ssa.IndexAddr:
				rec(y.(ssa.Value))
			}
		}
	}
	rec(v)
	return out
}

// checkAdoptedOnSuccess: once call succeeded (err == nil edge), every path
// reaches an append of its result before the next iteration / a return: no
// condition on the data may skip the adoption.
func checkAdoptedOnSuccess(c *core.Ctx, r *core.Report, rule string, call *ssa.Call, what, why string) {
	fn := call.Parent()
	construct := fmt.Sprintf("%s:result-of(%s)-adopted-on-success", core.FnName(fn), what)
	errv, others := errResultOf(call)
	if errv == nil || len(others) == 0 {
		r.Undecided(rule, construct, c.Pos(call.Pos()), "call shape changed")
		return
	}
	adopt := map[ssa.Instruction]bool{}
	for _, o := range others {
		for _, a := range derivedAppendSites(o) {
			if a.Parent() == fn {
				adopt[a] = true
			}
		}
	}
	if len(adopt) == 0 {
		r.Violation(rule, construct, c.Pos(call.Pos()), "the result is never appended to the adopted set — "+why)
		return
	}
	var bad ssa.Instruction
	core.WalkForward(fn, call, func(in ssa.Instruction) bool {
		if adopt[in] {
			return false
		}
		if core.NilnessAt(errv, in.Block()) == core.No {
			return false // failure edge
		}
		if in == ssa.Instruction(call) {
			bad = in
			return false
		}
		if ret, ok := in.(*ssa.Return); ok {
			bad = ret
		}
		return true
	})
	if bad != nil {
		r.Violation(rule, construct, c.Pos(call.Pos()), "after "+what+" succeeded there is a path to the next iteration / a return that skips the adoption — "+why)
		return
	}
	r.OK(rule, construct, c.Pos(call.Pos()), "every path from the err == nil edge reaches the append")
}

// assertGuarded: an unchecked type assertion x.(T) is safe when it is
// dominated by the success edge of a comma-ok assertion (or type-switch arm)
// of the same value to the same type.
func assertGuarded(ta *ssa.TypeAssert) bool {
	// candidates: comma-ok assertions of the same value, or of another load of the same field address
	var cands []*ssa.TypeAssert
	sameCellLoad := func(a, b ssa.Value) bool {
		ua, ok1 := a.(*ssa.UnOp)
		ub, ok2 := b.(*ssa.UnOp)
		if !ok1 || !ok2 {
			return false
		}
		fa, ok1 := ua.X.(*ssa.FieldAddr)
		fb, ok2 := ub.X.(*ssa.FieldAddr)
		return ok1 && ok2 && fa.X == fb.X && fa.Field == fb.Field
	}
	for _, b := range ta.Parent().Blocks {
		for _, in := range b.Instrs {
			if o, ok := in.(*ssa.TypeAssert); ok && o.CommaOk && o != ta && (o.X == ta.X || sameCellLoad(o.X, ta.X)) {
				cands = append(cands, o)
			}
		}
	}
	for _, other := range cands {
		if !types.Identical(other.AssertedType, ta.AssertedType) {
			continue
		}
		// find the ok extract and the If on it
		orefs := other.Referrers()
		if orefs == nil {
			continue
		}
		for _, or := range *orefs {
			ex, ok := or.(*ssa.Extract)
			if !ok || ex.Index != 1 {
				continue
			}
			erefs := ex.Referrers()
			if erefs == nil {
				continue
			}
			for _, er := range *erefs {
				ifi, ok := er.(*ssa.If)
				if !ok {
					continue
				}
				succ := ifi.Block().Succs[0]
				if len(succ.Preds) == 1 && succ.Dominates(ta.Block()) {
					return true
				}
			}
		}
	}
	return false
}

// typeKnownAt: at block `at`, value v is known to have dynamic type t: a comma-ok assertion (or type-switch
// arm) of v to t succeeded on an edge that dominates `at`.
func typeKnownAt(v ssa.Value, t types.Type, at *ssa.BasicBlock) bool {
	refs := v.Referrers()
	if refs == nil {
		return false
	}
	for _, rf := range *refs {
		other, ok := rf.(*ssa.TypeAssert)
		if !ok || !other.CommaOk || other.X != v || !types.Identical(other.AssertedType, t) {
			continue
		}
		orefs := other.Referrers()
		if orefs == nil {
			continue
		}
		for _, or := range *orefs {
			ex, ok := or.(*ssa.Extract)
			if !ok || ex.Index != 1 {
				continue
			}
			erefs := ex.Referrers()
			if erefs == nil {
				continue
			}
			for _, er := range *erefs {
				ifi, ok := er.(*ssa.If)
				if !ok {
					continue
				}
				succ := ifi.Block().Succs[0]
				if len(succ.Preds) == 1 && succ.Dominates(at) {
					return true
				}
			}
		}
	}
	return false
}
