package props

import (
	"fmt"
	"go/token"
	"go/types"

	"golang.org/x/tools/go/ssa"

	"verif/engine/internal/core"
)

// c20EveryColumn — C20 clause EVERYCOL (added after seeded change C20-m13).  An alert on a records-shaped result
// compares the value of *every* measure column of every row with the threshold.  The columns are looked up in a row by
// name; the names come from the response's MeasureAggregationCols, possibly renamed.  Necessary condition, read off the
// SSA form of each evaluator: the []string whose elements key the row look-ups that feed evaluateConditions is the
// response's column list itself or a copy of it that a building loop extends on every iteration.  A building loop with
// an iteration path that appends nothing (`if renamed { cols = append(cols, new) }`) is a filter: a measure column that
// is not renamed is never compared, so its alert never fires.  Slices of other origins are not judged.
func c20EveryColumn(c *core.Ctx, r *core.Report) {
	n := 0
	for _, name := range []string{"evaluateRecordsMeasureAggsAlertCondition", "evaluateMeasureResultsAlertCondition", "evaluateMetricsQueryConditions"} {
		fn := c.TryFn(pkgAlertsH, name)
		if fn == nil {
			continue
		}
		fns := append([]*ssa.Function{fn}, core.Closures(fn)...)
		k := 0
		for _, f := range fns {
			for _, b := range f.Blocks {
				for _, in := range b.Instrs {
					lk, ok := in.(*ssa.Lookup)
					if !ok {
						continue
					}
					if _, isMap := lk.X.Type().Underlying().(*types.Map); !isMap {
						continue
					}
					ld, ok := lk.Index.(*ssa.UnOp)
					if !ok || ld.Op != token.MUL {
						continue
					}
					ia, ok := ld.X.(*ssa.IndexAddr)
					if !ok {
						continue
					}
					if _, isSlice := ia.X.Type().Underlying().(*types.Slice); !isSlice {
						continue
					}
					n++
					k++
					construct := fmt.Sprintf("alertsHandler.%s:row-lookup#%d-keys-cover-every-measure-column", name, k)
					if at, why := conditionalAppendIn(ia.X, map[ssa.Value]bool{}, 0); at != nil {
						r.Violation("EVERYCOL", construct, c.Pos(at.Pos()), "the column names the rows are looked up by are a filtered copy of the result's measure columns: "+why+" — a measure column dropped here is never compared with the threshold, so the alert stays Normal while its value is over the threshold (e.g. a query that renames only the group-by column)")
					} else {
						r.OK("EVERYCOL", construct, c.Pos(lk.Pos()), "the key list is the result's column list or an unconditional copy of it")
					}
				}
			}
		}
	}
	r.Floor("EVERYCOL", "row look-ups keyed by a column list in the alert evaluators", n, 1)
}

// conditionalAppendIn resolves a slice value through phis, appends, re-slices and (two levels of) repository helpers
// and returns the phi at which a loop-carried slice can come round unchanged while another path of the same loop
// appends to it.
func conditionalAppendIn(v ssa.Value, seen map[ssa.Value]bool, depth int) (ssa.Instruction, string) {
	if v == nil || seen[v] || depth > 12 {
		return nil, ""
	}
	seen[v] = true
	switch x := v.(type) {
	case *ssa.Phi:
		// x is a loop-header phi when one of its edges is (through join phis) x itself or an append to x
		appendsToX, carriesX := false, false
		var walk func(e ssa.Value, top bool, s map[ssa.Value]bool)
		walk = func(e ssa.Value, top bool, s map[ssa.Value]bool) {
			if s[e] {
				return
			}
			s[e] = true
			switch y := e.(type) {
			case *ssa.Phi:
				if y == x {
					carriesX = true
					return
				}
				for _, ee := range y.Edges {
					walk(ee, false, s)
				}
			case *ssa.Call:
				if b, ok := y.Call.Value.(*ssa.Builtin); ok && b.Name() == "append" && len(y.Call.Args) > 0 {
					if sliceReaches(y.Call.Args[0], x, map[ssa.Value]bool{}) {
						appendsToX = true
					}
				}
			}
		}
		for _, e := range x.Edges {
			if p, ok := e.(*ssa.Phi); ok && p != x {
				// a join phi inside the loop body
				s := map[ssa.Value]bool{}
				for _, ee := range p.Edges {
					walk(ee, false, s)
				}
			} else {
				walk(e, true, map[ssa.Value]bool{})
			}
		}
		if appendsToX && carriesX {
			return x, "the loop that builds the copy appends on one path and adds nothing on another"
		}
		for _, e := range x.Edges {
			if at, why := conditionalAppendIn(e, seen, depth+1); at != nil {
				return at, why
			}
		}
	case *ssa.Call:
		if b, ok := x.Call.Value.(*ssa.Builtin); ok && b.Name() == "append" && len(x.Call.Args) > 0 {
			return conditionalAppendIn(x.Call.Args[0], seen, depth+1)
		}
		if callee := x.Call.StaticCallee(); callee != nil && callee.Blocks != nil && core.IsRepoPkg(core.FnPkgPath(callee)) && depth < 6 {
			for _, ret := range core.Returns(callee) {
				for _, res := range ret.Results {
					if _, ok := res.Type().Underlying().(*types.Slice); ok {
						if at, why := conditionalAppendIn(res, seen, depth+3); at != nil {
							return at, why
						}
					}
				}
			}
		}
	case *ssa.Slice:
		return conditionalAppendIn(x.X, seen, depth+1)
	case *ssa.Extract:
		if call, ok := x.Tuple.(*ssa.Call); ok {
			if callee := call.Call.StaticCallee(); callee != nil && callee.Blocks != nil && core.IsRepoPkg(core.FnPkgPath(callee)) && depth < 6 {
				for _, ret := range core.Returns(callee) {
					if x.Index < len(ret.Results) {
						if at, why := conditionalAppendIn(ret.Results[x.Index], seen, depth+3); at != nil {
							return at, why
						}
					}
				}
			}
		}
	}
	return nil, ""
}

func sliceReaches(v, target ssa.Value, seen map[ssa.Value]bool) bool {
	if v == target {
		return true
	}
	if seen[v] {
		return false
	}
	seen[v] = true
	switch y := v.(type) {
	case *ssa.Phi:
		for _, e := range y.Edges {
			if sliceReaches(e, target, seen) {
				return true
			}
		}
	case *ssa.Slice:
		return sliceReaches(y.X, target, seen)
	case *ssa.Call:
		if b, ok := y.Call.Value.(*ssa.Builtin); ok && b.Name() == "append" && len(y.Call.Args) > 0 {
			return sliceReaches(y.Call.Args[0], target, seen)
		}
	}
	return false
}
