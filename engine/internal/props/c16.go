package props

import (
	"fmt"
	"go/constant"
	"go/token"
	"go/types"
	"strings"

	"golang.org/x/tools/go/ssa"

	"verif/engine/internal/core"
)

func init() { register("C16", checkC16) }

func checkC16(c *core.Ctx, r *core.Report) {
	r.Explanation = "[the extraction with the index-specific timestamp key runs for every event of a batch in ProcessIndexRequestPle] [FLATTEN — in the per-key callback of the JSON flattener every successful return is preceded by the hand-over of the value to a value handler (no key is dropped early)] [NUMBERS — a handler that decodes a document into map[string]interface{} and encodes it again for storage decodes with UseNumber] [POOL — an event object taken from writer.plePool carries no field value of its previous use when it is handed out: reset-on-get (Reset after Get and every other field assigned unconditionally) or reset-on-put (every Put preceded by Reset)] C16 (all ingest protocols preserve event content and time), timestamp flow only: " +
		"(1) fallback discipline — every ParsedLogEvent.SetTimestamp in a function that extracts a timestamp from the document either stores the extracted value where it is known non-zero, or stores something else only where the extracted value (or the event's current timestamp) is known to be zero: a time the event already carries is never overwritten by a fallback; " +
		"(2) the OTLP log handler sets the event time from the record's time_unix_nano; " +
		"(3) the timestamp argument of every metrics.EncodeDatapoint call depends on the payload and on no current-time source; " +
		"(4) per-item attributes in the OTLP ingest loops are not carried over from the previous resource/scope (no string variable declared outside the per-resource loop and conditionally assigned inside it); " +
		"(5) every protocol handler that builds an event goes through GetNewPLE with the configured timestamp key; " +
		"(7) OWN — no byte slice that may still share a fasthttp request body buffer (followed through re-slicing, jsonparser callbacks, parameters, returns, fields and containers, and cut at every copying operation) is stored into the metrics tags tree, which outlives the request; " +
		"(6) the JSON-number branch of ExtractTimeStamp gives up (returns 0, which every caller replaces by the arrival time) only after a float-capable parser has been tried on the raw value: fractional and exponent spellings of an epoch are valid JSON numbers."
	r.NotCovered = "field/attribute completeness, unit detection (seconds/millis/nanos) of a timestamp, string timestamp formats, identifier encodings, the Splunk HEC `time` field (ignored by the handler: needs protocol knowledge, not code shape)"

	checkPooledEvent(c, r)
	checkGenericDocumentNumbers(c, r)
	checkFlattenerDispatch(c, r)
	checkIndexTimestampKey(c, r)

	setTs := c.Obj(pkgWriter, "ParsedLogEvent.SetTimestamp")
	getTs := c.Obj(pkgWriter, "ParsedLogEvent.GetTimestamp")
	extract := c.Obj(pkgUtils, "ExtractTimeStamp")

	// ---------------------------------------------------------------- (1)
	nSet := 0
	for _, fn := range c.RepoFunctions() {
		sets := callsTo(fn, setTs)
		if len(sets) == 0 {
			continue
		}
		exts := callsTo(fn, extract)
		if len(exts) == 0 {
			continue
		}
		isExt := map[ssa.Value]bool{}
		for _, e := range exts {
			isExt[e] = true
		}
		name := shortFn(fn)
		for i, s := range sets {
			nSet++
			construct := fmt.Sprintf("%s:SetTimestamp#%d-never-overwrites-an-event-time-with-a-fallback", name, i+1)
			v := s.Call.Args[1]
			okSite, detail := checkTimestampStore(fn, s, v, isExt, getTs)
			if okSite {
				r.OK("LIVE", construct, c.Pos(s.Pos()), detail)
			} else {
				r.Violation("LIVE", construct, c.Pos(s.Pos()), detail)
			}
		}
	}
	r.Floor("LIVE", "SetTimestamp sites next to a timestamp extraction", nSet, 2)

	// ---------------------------------------------------------------- (2)
	{
		ingestLogs := c.Fn("pkg/otlp", "ingestLogs")
		tun := c.Field("pkg/otlp", "recordInfo.TimeUnixNano")
		found := false
		for _, s := range callsTo(ingestLogs, setTs) {
			for _, o := range c.Origins(s.Call.Args[1], 0) {
				if o.Kind == "field" && o.Obj == types.Object(tun) {
					found = true
				}
			}
		}
		r.Check(found, "DEPENDS", "otlp.ingestLogs:event-time-from-time_unix_nano", c.Pos(ingestLogs.Pos()), "the handler sets the event time from the record's TimeUnixNano", "the OTLP log handler no longer sets the event time from the record's time_unix_nano: records are stored with the arrival time")
	}

	// ---------------------------------------------------------------- (3)
	encode := c.Obj(pkgMetrics, "EncodeDatapoint")
	nEnc := 0
	for _, fn := range c.RepoFunctions() {
		for i, call := range callsTo(fn, encode) {
			nEnc++
			construct := fmt.Sprintf("%s:EncodeDatapoint#%d-timestamp-from-payload", shortFn(fn), i+1)
			now, payload := false, false
			for _, o := range c.Origins(call.Call.Args[3], 2) {
				switch o.Kind {
				case "call":
					if o.Obj != nil && isNowSource(o.Obj) {
						now = true
					} else if o.Obj != nil {
						payload = true
					} else if call2, ok := o.Val.(*ssa.Call); ok {
						// a call through a function value (the extractor picked per signal type): the
						// functions it can be are what matters
						targets := funcValues(call2.Call.Value)
						for _, t := range targets {
							if t.Object() != nil && isNowSource(t.Object()) {
								now = true
							}
						}
						if len(targets) > 0 {
							payload = true
						}
					}
				case "field", "param":
					payload = true
				}
			}
			switch {
			case now:
				r.Violation("DEPENDS", construct, c.Pos(call.Pos()), "the datapoint's timestamp depends on the current time: datapoints are stored with the arrival time instead of the time they carried")
			case !payload:
				r.Violation("DEPENDS", construct, c.Pos(call.Pos()), "the datapoint's timestamp does not depend on the payload")
			default:
				r.OK("DEPENDS", construct, c.Pos(call.Pos()), "timestamp derives from the payload and from no current-time source")
			}
		}
	}
	r.Floor("DEPENDS", "EncodeDatapoint call sites", nEnc, 3)

	// ---------------------------------------------------------------- (4)
	nLoops := 0
	for _, fname := range []string{"ProcessTraceIngest", "ingestLogs"} {
		fn := c.Fn("pkg/otlp", fname)
		loops := core.Loops(fn)
		for _, l := range loops {
			// item loops: the ones whose body builds events (contains the GetNewPLE call); inner loops that merely
			// search the attributes of one item legitimately accumulate into a variable
			isItemLoop := false
			for b := range l.Body {
				for _, in := range b.Instrs {
					if ci, ok := in.(ssa.CallInstruction); ok && core.IsCallTo(ci, c.Obj(pkgWriter, "GetNewPLE")) {
						isItemLoop = true
					}
				}
			}
			if !isItemLoop {
				continue
			}
			nLoops++
			for _, in := range l.Header.Instrs {
				p, ok := in.(*ssa.Phi)
				if !ok {
					break
				}
				b, isBasic := p.Type().Underlying().(*types.Basic)
				if !isBasic || b.Info()&types.IsString == 0 {
					continue
				}
				// carried over unchanged on some path? (an edge from inside the loop brings the phi itself back)
				carried := false
				for i, e := range p.Edges {
					if l.Body[l.Header.Preds[i]] && reaches(e, p, map[ssa.Value]bool{}) {
						carried = true
					}
				}
				vn := p.Comment
				if vn == "" {
					vn = "string"
				}
				construct := fmt.Sprintf("otlp.%s:per-item-attribute(%s)-not-carried-across-items", fname, vn)
				if carried {
					r.Violation("LIVE", construct, c.Pos(p.Pos()), "a string variable declared outside this ingest loop keeps its value from the previous resource/scope/record when the current one does not set it: the item is stored with an attribute it never carried")
				} else {
					r.OK("LIVE", construct, c.Pos(p.Pos()), "re-assigned on every path of the iteration")
				}
			}
		}
	}
	r.Floor("LIVE", "OTLP item loops examined", nLoops, 4)

	// ---------------------------------------------------------------- (5)
	getPLE := c.Obj(pkgWriter, "GetNewPLE")
	tsKeyFn := c.Obj(pkgConfig, "GetTimeStampKey")
	nPle := 0
	for _, fn := range c.RepoFunctions() {
		p := strings.TrimPrefix(core.FnPkgPath(fn), core.ModPath+"/")
		if !(strings.HasPrefix(p, "pkg/otlp") || strings.HasPrefix(p, "pkg/integrations") || strings.HasPrefix(p, "pkg/es/writer")) {
			continue
		}
		for i, call := range callsTo(fn, getPLE) {
			nPle++
			construct := fmt.Sprintf("%s:GetNewPLE#%d-uses-configured-timestamp-key", shortFn(fn), i+1)
			ok := false
			for _, o := range c.Origins(call.Call.Args[3], 3) {
				if o.Kind == "call" && o.Obj == tsKeyFn {
					ok = true
				}
				if o.Kind == "param" {
					ok = true // forwarded from a caller; callers are checked at their own sites
				}
			}
			// &local where local = config.GetTimeStampKey()
			if al, isAlloc := call.Call.Args[3].(*ssa.Alloc); isAlloc && !ok {
				if refs := al.Referrers(); refs != nil {
					for _, rf := range *refs {
						if st, isSt := rf.(*ssa.Store); isSt && st.Addr == ssa.Value(al) {
							for _, o := range c.Origins(st.Val, 2) {
								if o.Kind == "call" && o.Obj == tsKeyFn {
									ok = true
								}
							}
						}
					}
				}
			}
			r.Check(ok, "DEPENDS", construct, c.Pos(call.Pos()), "the timestamp key passed is config.GetTimeStampKey()", "the event is parsed with a timestamp key other than the configured one: its own time field is not recognised")
		}
	}
	r.Floor("DEPENDS", "protocol handler GetNewPLE sites", nPle, 4)

	// ---------------------------------------------------------------- (6)
	{
		fn := c.Fn(pkgUtils, "ExtractTimeStamp")
		numK := c.ExtObj("github.com/buger/jsonparser", "Number")
		var numVal int64 = -1
		if k, ok := numK.(*types.Const); ok {
			if v, ok := constInt64(k); ok {
				numVal = v
			}
		}
		// blocks of the number arm: the blocks in which the JSON value type is known to be Number. The
		// knowledge comes from the comparisons of the type value with constants on the way (a small forward
		// data-flow over the finite set {each constant compared with, anything else}): the true edge of `==`
		// keeps that constant, its false edge removes it, joins take the union. This reads the switch form,
		// the early-return form (`if dType != jp.Number { return 0 }`) and guard clauses that exclude the
		// other types one after the other alike.
		var arm *ssa.BasicBlock
		inArm := map[*ssa.BasicBlock]bool{}
		{
			type cmp struct {
				k      int64
				eqTrue bool // the true edge is the `equal` edge
			}
			cmps := map[*ssa.BasicBlock]cmp{}
			var tv ssa.Value
			bits := map[int64]uint64{}
			for _, b := range fn.Blocks {
				ifi, ok := core.LastIf(b)
				if !ok {
					continue
				}
				bo, ok := ifi.Cond.(*ssa.BinOp)
				if !ok || (bo.Op != token.EQL && bo.Op != token.NEQ) {
					continue
				}
				x, y := bo.X, bo.Y
				if _, isK := x.(*ssa.Const); isK {
					x, y = y, x
				}
				k, ok := core.ConstIntValue(y)
				if !ok {
					continue
				}
				if _, isParam := x.(*ssa.Parameter); isParam {
					continue
				}
				if n, ok := x.Type().(*types.Named); !ok || n.Obj().Name() != "ValueType" {
					continue
				}
				if tv == nil {
					tv = x
				}
				if tv != x {
					continue
				}
				if _, seen := bits[k]; !seen {
					bits[k] = 1 << uint(len(bits)+1)
				}
				cmps[b] = cmp{k, bo.Op == token.EQL}
			}
			if nb, ok := bits[numVal]; ok && numVal >= 0 && len(fn.Blocks) > 0 {
				var all uint64 = 1 // bit 0: any value not compared with
				for _, v := range bits {
					all |= v
				}
				fact := map[*ssa.BasicBlock]uint64{fn.Blocks[0]: all}
				for changed := true; changed; {
					changed = false
					for _, b := range fn.Blocks {
						f := fact[b]
						if f == 0 {
							continue
						}
						for i, s := range b.Succs {
							out := f
							if cm, ok := cmps[b]; ok {
								if (i == 0) == cm.eqTrue {
									out = f & bits[cm.k]
								} else {
									out = f &^ bits[cm.k]
								}
							}
							if fact[s]|out != fact[s] {
								fact[s] |= out
								changed = true
							}
						}
					}
				}
				for _, b := range fn.Blocks {
					if fact[b] == nb {
						inArm[b] = true
						if arm == nil {
							arm = b
						}
					}
				}
			}
		}
		construct := "utils.ExtractTimeStamp:number-branch-tries-a-float-parser-before-giving-up"
		if arm == nil {
			r.Undecided("DEPENDS", construct, c.Pos(fn.Pos()), "no branch on the JSON value type Number found")
		} else {
			floatCapable := func(ci ssa.CallInstruction) bool {
				var rec func(f *ssa.Function, depth int) bool
				name := func(ci ssa.CallInstruction) string {
					if f := core.CalleeFunc(ci); f != nil {
						return f.Name()
					}
					return ""
				}
				if n := name(ci); n == "ParseFloat" || n == "Float64" {
					return true
				}
				seen := map[*ssa.Function]bool{}
				rec = func(f *ssa.Function, depth int) bool {
					if f == nil || depth > 2 || seen[f] || !core.IsRepoPkg(core.FnPkgPath(f)) {
						return false
					}
					seen[f] = true
					for _, cj := range core.CallsIn(f) {
						if n := name(cj); n == "ParseFloat" || n == "Float64" {
							return true
						}
						if rec(cj.Common().StaticCallee(), depth+1) {
							return true
						}
					}
					return false
				}
				return rec(ci.Common().StaticCallee(), 0)
			}
			var parsers []ssa.Instruction
			for _, b := range fn.Blocks {
				if !inArm[b] {
					continue
				}
				for _, in := range b.Instrs {
					if ci, ok := in.(ssa.CallInstruction); ok && floatCapable(ci) {
						parsers = append(parsers, in)
					}
				}
			}
			bad := ""
			nZero := 0
			for _, ret := range core.Returns(fn) {
				if !inArm[ret.Block()] {
					continue
				}
				k, isK := core.ConstIntValue(ret.Results[0])
				if !isK || k != 0 {
					continue
				}
				nZero++
				ok := false
				for _, p := range parsers {
					if core.InstrDominates(p, ret) {
						ok = true
					}
				}
				if !ok {
					bad = c.Pos(ret.Pos())
				}
			}
			switch {
			case bad != "":
				r.Violation("DEPENDS", construct, bad, "a JSON-number timestamp is given up (0 is returned, callers then store the arrival time) without trying a float-capable parser: an event whose time is written with a fraction or an exponent (1700000000.5, 1.7e12) loses its own time")
			case len(parsers) == 0 && nZero == 0:
				// no give-up path and no float parser: every number must still be convertible
				r.Violation("DEPENDS", construct, c.Pos(arm.Instrs[0].Pos()), "the JSON-number branch never tries a float-capable parser")
			default:
				r.OK("DEPENDS", construct, c.Pos(arm.Instrs[0].Pos()), fmt.Sprintf("%d give-up return(s), each dominated by a float-capable parse of the value", nZero))
			}
		}
	}

	// ---------------------------------------------------------------- (7)
	checkRequestBufferOwnership(c, r)
	checkResetEachIteration(c, r)
}

// checkRequestBufferOwnership (clause 7): fasthttp reuses the request body buffer for the next request, so a
// byte slice that still shares that buffer must not be kept in a structure that outlives the request.
func checkRequestBufferOwnership(c *core.Ctx, r *core.Report) {
	al := &core.Alias{C: c}
	nSrc := 0
	for _, fn := range c.RepoFunctions() {
		for _, ci := range core.CallsIn(fn) {
			f := core.CalleeFunc(ci)
			if f == nil || f.Pkg() == nil || f.Pkg().Path() != "github.com/valyala/fasthttp" {
				continue
			}
			if f.Name() == "PostBody" || f.Name() == "Body" {
				if v := ci.Value(); v != nil {
					nSrc++
					al.Add(v, nil)
				}
			}
		}
	}
	al.Run()
	r.Floor("OWN", "request body buffers (fasthttp PostBody / Body) followed", nSrc, 10)
	// long-lived byte-slice fields of the metrics tags tree
	sinks := []*types.Var{c.Field(pkgMetrics, "tagInfo.tagValue")}
	n := 0
	for _, fn := range c.RepoFunctions() {
		for _, b := range fn.Blocks {
			for _, in := range b.Instrs {
				st, ok := in.(*ssa.Store)
				if !ok {
					continue
				}
				fa, ok := st.Addr.(*ssa.FieldAddr)
				if !ok {
					continue
				}
				f := core.FieldOfAddr(fa)
				isSink := false
				for _, sf := range sinks {
					if f == sf {
						isSink = true
					}
				}
				if !isSink {
					continue
				}
				n++
				construct := fmt.Sprintf("%s:store(%s)#%d-does-not-share-the-request-buffer", shortFn(fn), f.Name(), n)
				if al.Has(st.Val) {
					var path []string
					for _, pv := range al.Path(st.Val) {
						if pv.Pos().IsValid() {
							path = append(path, c.Pos(pv.Pos()))
						}
					}
					r.Violation("OWN", construct, c.Pos(st.Pos()), "a byte slice that may still share the HTTP request body buffer is kept in the tags tree: fasthttp reuses that buffer for the next request, which overwrites the stored tag value in place (the series keeps the later request's bytes for good)", path...)
				} else {
					r.OK("OWN", construct, c.Pos(st.Pos()), "the stored slice is freshly allocated or copied on every flow from a request body")
				}
			}
		}
	}
	r.Floor("OWN", "stores into the tags tree's value field", n, 1)
}

func constInt64(k *types.Const) (int64, bool) {
	v, ok := constant.Int64Val(constant.ToInt(k.Val()))
	return v, ok
}

func isNowSource(o types.Object) bool {
	if o.Pkg() == nil {
		return false
	}
	switch o.Pkg().Path() + "." + o.Name() {
	case "time.Now", core.ModPath + "/pkg/utils.GetCurrentTimeInMs", core.ModPath + "/pkg/segment/utils.GetCurrentTimeMillis":
		return true
	}
	return false
}

// reaches: value v is, through phis only, the phi target itself.
func reaches(v ssa.Value, target *ssa.Phi, seen map[ssa.Value]bool) bool {
	if v == ssa.Value(target) {
		return true
	}
	if seen[v] {
		return false
	}
	seen[v] = true
	if p, ok := v.(*ssa.Phi); ok {
		for _, e := range p.Edges {
			if reaches(e, target, seen) {
				return true
			}
		}
	}
	return false
}

// zeroKnown: block b is dominated by the edge on which value x is known ==0
// (want=true) or !=0 (want=false).  x may be compared directly or via a
// fresh call of the same getter on the same receiver.
func zeroKnown(match func(v ssa.Value) bool, b *ssa.BasicBlock, want bool) bool {
	for x := b; x != nil; x = x.Idom() {
		idom := x.Idom()
		if idom == nil {
			break
		}
		ifi, ok := core.LastIf(idom)
		if !ok {
			continue
		}
		onTrue := idom.Succs[0] == x && len(x.Preds) == 1
		onFalse := idom.Succs[1] == x && len(x.Preds) == 1
		if onTrue == onFalse {
			continue
		}
		bo, ok := ifi.Cond.(*ssa.BinOp)
		if !ok {
			continue
		}
		k, isK := core.ConstIntValue(bo.Y)
		if !isK || k != 0 || !match(bo.X) {
			continue
		}
		var isZero bool
		switch bo.Op {
		case token.EQL:
			isZero = onTrue
		case token.NEQ, token.GTR:
			isZero = onFalse
		default:
			continue
		}
		if isZero == want {
			return true
		}
	}
	return false
}

// checkTimestampStore decides obligation (1) for one SetTimestamp(v).
func checkTimestampStore(fn *ssa.Function, s *ssa.Call, v ssa.Value, isExt map[ssa.Value]bool, getTs types.Object) (bool, string) {
	isGet := func(x ssa.Value) bool {
		if call, ok := x.(*ssa.Call); ok && core.IsCallTo(call, getTs) {
			return true
		}
		return false
	}
	matchExt := func(x ssa.Value) bool { return isExt[x] }
	switch x := v.(type) {
	case *ssa.Phi:
		hasExt := false
		for _, e := range x.Edges {
			if isExt[e] {
				hasExt = true
			}
		}
		if hasExt {
			for i, e := range x.Edges {
				if isExt[e] {
					continue
				}
				pred := x.Block().Preds[i]
				if !zeroKnown(matchExt, pred, true) {
					return false, "the fallback operand of the stored timestamp can be chosen although the extracted timestamp is not known to be zero"
				}
			}
			return true, "the stored value is the extracted timestamp, or the fallback on the edge where the extraction returned zero"
		}
	}
	if isExt[v] {
		if zeroKnown(matchExt, s.Block(), false) {
			return true, "the extracted timestamp is stored only where it is known non-zero"
		}
		return false, "the extracted timestamp is stored unconditionally: when the document has no timestamp field the zero overwrites a time the caller already set from the protocol (e.g. OTLP time_unix_nano), and the following fallback stores the arrival time"
	}
	// some other value (fallback): only where the event has no time yet
	if zeroKnown(matchExt, s.Block(), true) || zeroKnown(isGet, s.Block(), true) {
		return true, "a non-extracted value is stored only where the extracted / current timestamp is known to be zero"
	}
	return false, "a value that is not the extracted timestamp is stored where the event may already carry a time"
}

// checkResetEachIteration — clause RESETEACH.  A protocol handler that works through the series / events of one request
// with one reusable object (a tags holder, a scratch event) defined before the loop and emptied with Reset inside it
// must empty it for every element: either the Reset precedes every other use of the object in the loop body, or every
// path around the loop passes it.  A Reset at the bottom of the body that a `continue` (a rejected element) jumps over
// leaves the rejected element's tags in the object, and the next element is stored with them — another identity for
// the same series than the one the other protocols give it.
func checkResetEachIteration(c *core.Ctx, r *core.Report) {
	scope := []string{"pkg/integrations", "pkg/otlp", "pkg/es/writer", "pkg/server/ingest", "pkg/influx"}
	n := 0
	for _, fn := range c.RepoFunctions() {
		in := false
		for _, p := range scope {
			if strings.HasPrefix(core.FnPkgPath(fn), core.ModPath+"/"+p) {
				in = true
			}
		}
		if !in || fn.Blocks == nil {
			continue
		}
		loops := core.Loops(fn)
		if len(loops) == 0 {
			continue
		}
		k := 0
		for _, ci := range core.CallsIn(fn) {
			call, ok := ci.(*ssa.Call)
			if !ok || len(call.Call.Args) == 0 {
				continue
			}
			f := core.CalleeFunc(call)
			if f == nil || !(f.Name() == "Reset" || f.Name() == "reset" || f.Name() == "Clear") {
				continue
			}
			sig, _ := f.Type().(*types.Signature)
			if sig == nil || sig.Recv() == nil {
				continue
			}
			obj := call.Call.Args[0]
			l := core.InnermostLoop(loops, call.Block())
			if l == nil {
				continue
			}
			// the object is defined outside the loop
			if oi, ok := obj.(ssa.Instruction); ok && l.Body[oi.Block()] {
				continue
			}
			// other uses of the object inside the loop
			var uses []ssa.Instruction
			if refs := obj.Referrers(); refs != nil {
				for _, u := range *refs {
					if u == ssa.Instruction(call) || !l.Body[u.Block()] {
						continue
					}
					if _, dbg := u.(*ssa.DebugRef); dbg {
						continue
					}
					uses = append(uses, u)
				}
			}
			if len(uses) == 0 {
				continue
			}
			n++
			k++
			construct := fmt.Sprintf("%s:reused-object#%d-emptied-for-every-element", shortFn(fn), k)
			before := true
			for _, u := range uses {
				if !core.InstrDominates(call, u) {
					before = false
				}
			}
			if before {
				r.OK("PAIR", construct, c.Pos(call.Pos()), "emptied before it is used for the element")
				continue
			}
			// every trip from a use around to the loop header passes the Reset
			var skipped ssa.Instruction
			for _, u := range uses {
				core.WalkForward(fn, u, func(x ssa.Instruction) bool {
					if x == ssa.Instruction(call) {
						return false
					}
					if x.Block() == l.Header && x == l.Header.Instrs[0] && skipped == nil {
						skipped = u
						return false
					}
					if !l.Body[x.Block()] {
						return false // left the loop
					}
					return true
				})
			}
			if skipped != nil {
				r.Violation("PAIR", construct, c.Pos(call.Pos()), "an object reused for every element of the request is filled for an element and the loop can go on to the next element without emptying it (the Reset is jumped over by a `continue`): the next element is stored with what the skipped one left behind — tags it never carried, another series identity")
			} else {
				r.OK("PAIR", construct, c.Pos(call.Pos()), "every trip around the loop passes the Reset")
			}
		}
	}
	r.Count("reused_objects_reset_inside_a_request_loop", n)
}
