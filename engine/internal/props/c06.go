package props

import (
	"fmt"
	"go/token"
	"go/types"
	"os"
	"sort"
	"strings"

	"golang.org/x/tools/go/ssa"

	"verif/engine/internal/core"
)

func init() { register("C06", checkC06) }

// fieldAccess collects the struct fields (of the receiver and of objects
// reachable from it through pointer fields) that a method cone writes / reads.
type fieldAccess struct {
	writes map[*types.Var]ssa.Instruction
	reads  map[*types.Var]ssa.Instruction
	// constWrites: fields only ever written with constants in this cone
	nonConstWrite map[*types.Var]bool
}

func newFieldAccess() *fieldAccess {
	return &fieldAccess{writes: map[*types.Var]ssa.Instruction{}, reads: map[*types.Var]ssa.Instruction{}, nonConstWrite: map[*types.Var]bool{}}
}

// collectAccess walks fn (receiver-derived values start from `roots`) and its
// static callees that receive a derived value as receiver/argument.
func collectAccess(fn *ssa.Function, roots []ssa.Value, acc *fieldAccess, seen map[*ssa.Function]bool, depth int) {
	if fn == nil || fn.Blocks == nil || depth > 4 {
		return
	}
	key := fn
	if seen[key] {
		return
	}
	seen[key] = true
	if os.Getenv("VERIF_DBG_C06") != "" {
		fmt.Fprintf(os.Stderr, "DBG visit %s depth=%d\n", fn.String(), depth)
	}
	derived := map[ssa.Value]bool{}
	for _, r := range roots {
		derived[r] = true
	}
	// fixpoint: values derived from the receiver (field addresses, loads of pointer fields, phis)
	for changed := true; changed; {
		changed = false
		for _, b := range fn.Blocks {
			for _, in := range b.Instrs {
				v, ok := in.(ssa.Value)
				if !ok || derived[v] {
					continue
				}
				switch x := in.(type) {
				case *ssa.FieldAddr:
					if derived[x.X] {
						derived[v] = true
						changed = true
					}
				case *ssa.UnOp:
					if derived[x.X] {
						// load of a pointer-typed field: the pointee is part of the processor's state
						if _, isPtr := x.Type().Underlying().(*types.Pointer); isPtr {
							derived[v] = true
							changed = true
						}
					} else if al, ok := x.X.(*ssa.Alloc); ok && al.Referrers() != nil {
						// the receiver spilled into a cell because a closure captures it: a load of the cell is the receiver
						for _, u := range *al.Referrers() {
							if st, ok := u.(*ssa.Store); ok && st.Addr == ssa.Value(al) && derived[st.Val] {
								derived[v] = true
								changed = true
							}
						}
					}
				case *ssa.Phi:
					for _, e := range x.Edges {
						if derived[e] {
							derived[v] = true
							changed = true
						}
					}
				}
			}
		}
	}
	for _, b := range fn.Blocks {
		for _, in := range b.Instrs {
			switch x := in.(type) {
			case *ssa.Store:
				if fa, ok := x.Addr.(*ssa.FieldAddr); ok && derived[fa.X] {
					if f := core.FieldOfAddr(fa); f != nil {
						if _, ok := acc.writes[f]; !ok {
							acc.writes[f] = in
						}
						if _, isConst := x.Val.(*ssa.Const); !isConst {
							acc.nonConstWrite[f] = true
						}
					}
				}
			case *ssa.UnOp:
				if fa, ok := x.X.(*ssa.FieldAddr); ok && derived[fa.X] {
					if f := core.FieldOfAddr(fa); f != nil {
						if _, ok := acc.reads[f]; !ok {
							acc.reads[f] = in
						}
					}
				}
			case *ssa.MapUpdate:
				// p.m[k] = v : a write of the map-typed field
				if ld, ok := x.Map.(*ssa.UnOp); ok {
					if fa, ok := ld.X.(*ssa.FieldAddr); ok && derived[fa.X] {
						if f := core.FieldOfAddr(fa); f != nil {
							if _, ok := acc.writes[f]; !ok {
								acc.writes[f] = in
							}
							acc.nonConstWrite[f] = true
						}
					}
				}
			case ssa.CallInstruction:
				callee := x.Common().StaticCallee()
				if callee == nil || !core.IsRepoPkg(core.FnPkgPath(callee)) {
					continue
				}
				var sub []ssa.Value
				for i, a := range x.Common().Args {
					if derived[a] && i < len(callee.Params) {
						sub = append(sub, callee.Params[i])
					}
				}
				if len(sub) > 0 {
					collectAccess(callee, sub, acc, seen, depth+1)
				}
			}
		}
	}
}

func checkC06(c *core.Ctx, r *core.Report) {
	r.Explanation = "[(8) DEADSTATE — a numeric processor field that is advanced from its own value (a running counter such as the position in the stream) is read by code other than its own update] [(7) BATCHSTART — a processor field that the per-row loop of Process carries from row to row is not re-initialised to a fixed value at the start of Process] [ORDER (shared with C05) — every compareValues call sits inside a whole loop over the sort elements] [ACCUM — every min/max fold into a struct field reads the field it writes (a running extreme is not recomputed from another field)] C06 (pipeline commands mean the same however the stream is chunked), replay precondition only: when a two-pass command finishes its first pass every upstream processor is rewound and must start from its initial state. " +
		"(1) REWIND — for every type implementing the package's `processor` interface, each field of the processor (or of the options object it points to) that the Process cone both writes and reads (cross-batch state) is re-assigned in the Rewind cone, unless the type is cached-final (GetFinalResultIfExists can return true: it replays its stored result) or a two-pass accumulator (Rewind sets a flag that Process reads), or the field is a memo whose stored value does not depend on the input batch (compiled regular expressions); " +
		"(4) the same for the DataProcessor wrapper itself (its merge counters are value fields of the wrapper: they must be reset on the wrapper's own copy); " +
		"(5) in the head command every comparison or subtraction that involves the configured row limit also involves the count of rows already sent; " +
		"(3) a CachedStream that is handed leftover rows back is marked not exhausted on every path (exhausted streams are skipped by the fetch loop); " +
		"(2) flag consistency of the DataProcessor constructors: isTwoPassCmd is false or equals isBottleneckCmd; ignoresInputOrder implies !inputOrderMatters; every literal sets a processor and a processorLock."
	r.NotCovered = "everything else in the statement: batch-size independence, several upstream streams (CachedStream exhaustion/hand-back), merge of parallel chains, the commands' semantics"

	checkRunningExtremes(c, r)
	c05AllKeys(c, r)

	pkg := c.Pkg(pkgProcessor)
	if pkg == nil {
		panic(core.AnchorError{What: pkgProcessor})
	}
	ifaceObj := pkg.Types.Scope().Lookup("processor")
	if ifaceObj == nil {
		panic(core.AnchorError{What: "processor interface"})
	}
	iface := ifaceObj.Type().Underlying().(*types.Interface)
	var impls []*types.Named
	for _, n := range pkg.Types.Scope().Names() {
		tn, ok := pkg.Types.Scope().Lookup(n).(*types.TypeName)
		if !ok {
			continue
		}
		named, ok := tn.Type().(*types.Named)
		if !ok {
			continue
		}
		if _, isIface := named.Underlying().(*types.Interface); isIface {
			continue
		}
		if types.Implements(types.NewPointer(named), iface) {
			impls = append(impls, named)
		}
	}
	sort.Slice(impls, func(i, j int) bool { return impls[i].Obj().Name() < impls[j].Obj().Name() })
	r.Floor("REWIND", "types implementing processor", len(impls), 20)

	exceptions := map[string]string{
		"scrollProcessor.scrollFrom": "the scroller is appended as the last DataProcessor of a chain and is never upstream of a rewinding two-pass command",
		"inputlookupProcessor.qid":   "per-query constant: the query id of the batches flowing through; the same on every pass",
		"inputlookupProcessor.limit": "per-query constant: a default that is filled in once and never changes afterwards",
		"gentimesProcessor.qid":      "per-query constant",
		"gentimesProcessor.limit":    "per-query constant",
	}
	memoOK := func(f *types.Var) bool {
		// memo fields: compiled regular expressions and similar caches keyed by the query text, not by the data
		t := f.Type().String()
		return strings.Contains(t, "regexp.Regexp") || strings.Contains(t, "regexp2.Regexp")
	}
	method := func(named *types.Named, name string) *ssa.Function {
		o, _, _ := types.LookupFieldOrMethod(types.NewPointer(named), true, pkg.Types, name)
		fo, ok := o.(*types.Func)
		if !ok {
			return nil
		}
		return c.Prog.FuncValue(fo)
	}
	for _, named := range impls {
		tname := named.Obj().Name()
		process, rewind, final := method(named, "Process"), method(named, "Rewind"), method(named, "GetFinalResultIfExists")
		if process == nil || rewind == nil || final == nil || process.Blocks == nil {
			r.Undecided("REWIND", tname+":methods", "-", "Process/Rewind/GetFinalResultIfExists not resolvable")
			continue
		}
		pa := newFieldAccess()
		collectAccess(process, []ssa.Value{process.Params[0]}, pa, map[*ssa.Function]bool{}, 0)
		ra := newFieldAccess()
		collectAccess(rewind, []ssa.Value{rewind.Params[0]}, ra, map[*ssa.Function]bool{}, 0)
		// cached-final: some return of GetFinalResultIfExists has a second result that is not the constant false
		cachedFinal := false
		for _, ret := range core.Returns(final) {
			v := core.RetResult(ret, 1)
			if k, ok := v.(*ssa.Const); !ok || (k.Value != nil && k.Value.String() != "false") {
				cachedFinal = true
			}
		}
		// ... and the exemption holds only while Rewind leaves the flag that gates the stored result alone:
		// a Rewind that clears it makes the next pass accumulate on top of the first pass's state
		clearedFlag := ""
		if cachedFinal {
			for f, ld := range finalGuardFields(final) {
				if w, ok := ra.writes[f]; ok {
					cachedFinal = false
					clearedFlag = fmt.Sprintf(" (Rewind writes %s at %s, which gates the stored result of GetFinalResultIfExists at %s, so the stored result is not replayed and the next pass accumulates on top of the first)", f.Name(), c.Pos(w.Pos()), c.Pos(ld.Pos()))
				}
			}
		}
		// ... and a cached-final command that DECLINES to replay although its final flag is set (its stored result was
		// changed by a command further down) falls back to processing the rewound input; it must then start from an
		// empty state, so on that return every cross-batch field of its own is re-assigned first
		if cachedFinal {
			guards := finalGuardFields(final)
			for _, ret := range core.Returns(final) {
				k, isK := core.RetResult(ret, 1).(*ssa.Const)
				if !isK || k.Value == nil || k.Value.String() != "false" {
					continue
				}
				flagSet := false
				for _, ld := range guards {
					if v, ok := ld.(ssa.Value); ok && core.BoolKnownAt(v, ret.Block()) == core.Yes {
						flagSet = true
					}
				}
				if !flagSet {
					continue
				}
				// declining because the extraction of the stored result FAILED is an error path, not a replay decision
				onError := false
				for _, b := range final.Blocks {
					for _, in := range b.Instrs {
						if v, ok := in.(ssa.Value); ok && v.Type().String() == "error" && core.NilnessAt(v, ret.Block()) == core.No {
							onError = true
						}
					}
				}
				if onError {
					r.OK("REWIND", fmt.Sprintf("%s:declined-replay-starts-over", tname), c.Pos(ret.Pos()), "the stored result is declined only where its extraction returned an error")
					continue
				}
				// fields written on the way to this return (stores in blocks dominating it)
				reset := map[*types.Var]bool{}
				for _, b := range final.Blocks {
					for _, in := range b.Instrs {
						if st, ok := in.(*ssa.Store); ok && core.InstrDominates(st, ret) {
							if fad, ok := st.Addr.(*ssa.FieldAddr); ok {
								reset[core.FieldOfAddr(fad)] = true
							}
						}
					}
				}
				var missing []string
				for f := range pa.writes {
					if _, rd := pa.reads[f]; !rd {
						continue
					}
					if _, own := named.Underlying().(*types.Struct); !own {
						continue
					}
					isOwn := false
					st := named.Underlying().(*types.Struct)
					for i := 0; i < st.NumFields(); i++ {
						if st.Field(i) == f {
							isOwn = true
						}
					}
					if !isOwn || reset[f] {
						continue
					}
					// only fields that hold accumulated rows / buckets (pointers, slices, maps)
					switch f.Type().Underlying().(type) {
					case *types.Pointer, *types.Slice, *types.Map:
					default:
						continue
					}
					// counters that only describe the stored result (compared in the guard) need no reset
					if _, isGuard := guards[f]; isGuard {
						continue
					}
					missing = append(missing, f.Name())
				}
				sort.Strings(missing)
				construct := fmt.Sprintf("%s:declined-replay-starts-over", tname)
				if len(missing) > 0 {
					r.Violation("REWIND", construct, c.Pos(ret.Pos()), fmt.Sprintf("%s.GetFinalResultIfExists can answer `no stored result` although its final flag is set, without re-assigning %s: the rewound input is then processed on top of the state the first pass left, so rows come out twice", tname, strings.Join(missing, ", ")))
				} else {
					r.OK("REWIND", construct, c.Pos(ret.Pos()), "where the stored result is not replayed although the final flag is set, the cross-batch fields are re-assigned first")
				}
			}
		}
		// two-pass accumulator: Rewind writes a field that Process reads
		twoPass := false
		for f := range ra.writes {
			if _, ok := pa.reads[f]; ok {
				if _, alsoW := pa.writes[f]; !alsoW {
					twoPass = true
				}
			}
		}
		// only fields of the processor itself and of the options object it points to are processor state;
		// fields of other objects reached in the cone (IQRs, expression evaluators with their own memo caches) are not
		own := map[*types.Var]bool{}
		if st, ok := named.Underlying().(*types.Struct); ok {
			for i := 0; i < st.NumFields(); i++ {
				own[st.Field(i)] = true
				if c.BaseName(st.Field(i)) == "options" {
					if pt, ok := st.Field(i).Type().Underlying().(*types.Pointer); ok {
						if ost, ok := pt.Elem().Underlying().(*types.Struct); ok {
							for j := 0; j < ost.NumFields(); j++ {
								own[ost.Field(j)] = true
							}
						}
					}
				}
			}
		}
		var state []*types.Var
		for f := range pa.writes {
			if _, ok := pa.reads[f]; ok && own[f] {
				state = append(state, f)
			}
		}
		sort.Slice(state, func(i, j int) bool { return state[i].Name() < state[j].Name() })
		if len(state) == 0 {
			r.OK("REWIND", tname+":stateless", c.Pos(process.Pos()), "Process keeps no cross-batch state")
			continue
		}
		for _, f := range state {
			construct := fmt.Sprintf("%s:field(%s)-reset-by-Rewind", tname, f.Name())
			_, reset := ra.writes[f]
			switch {
			case reset:
				r.OK("REWIND", construct, c.Pos(pa.writes[f].Pos()), "assigned in the Rewind cone")
			case cachedFinal:
				r.OK("REWIND", construct, c.Pos(pa.writes[f].Pos()), "cached-final command: after the first pass it replays its stored result")
			case twoPass:
				r.OK("REWIND", construct, c.Pos(pa.writes[f].Pos()), "two-pass accumulator: Rewind switches Process to the second pass, which consumes the accumulated state")
			case memoOK(f):
				r.OK("REWIND", construct, c.Pos(pa.writes[f].Pos()), "memo of a compiled pattern (independent of the input batch)")
			case exceptions[tname+"."+f.Name()] != "":
				r.Assume("REWIND", construct, c.Pos(pa.writes[f].Pos()), "exception: "+exceptions[tname+"."+f.Name()])
			default:
				r.Violation("REWIND", construct, c.Pos(pa.writes[f].Pos()), fmt.Sprintf("%s keeps cross-batch state in field %s (written and read by Process) that Rewind does not re-assign: when a later two-pass command (fillnull without field list, bin without span) replays the input, this command continues from where the first pass ended and the second pass sees different rows%s", tname, f.Name(), clearedFlag))
			}
		}
	}

	c06BatchStart(c, r, impls, method)
	c06DeadState(c, r, impls)

	// ---------------------------------------------------------------- (6) where the parallel section of a chain ends
	{
		cps := c.Fn(pkgProcessor, "CanParallelSearch")
		dpT := c.NamedType(pkgProcessor, "DataProcessor")
		loops := core.Loops(cps)
		type pred struct {
			name      string
			mustFalse bool // the scan ends with "cannot split"
			why       string
		}
		preds := []pred{
			{"DoesInputOrderMatter", true, "a command whose result depends on the order of its input sits in the cloned part of the chain: each clone sees an arbitrary share of the blocks"},
			{"GeneratesData", true, "a generating command would be cloned and generate its rows once per chain"},
			{"IsBottleneckCmd", false, "a command that must see its whole input before it answers (sort, stats, tail, and the two-pass commands on their first pass) is cloned into every parallel chain and answers from that chain's share of the blocks only"},
		}
		n := 0
		for _, pd := range preds {
			m := method(dpT, pd.name)
			if m == nil {
				panic(core.AnchorError{What: "DataProcessor." + pd.name})
			}
			for _, ci := range core.CallsIn(cps) {
				if ci.Common().StaticCallee() != m {
					continue
				}
				call, ok := ci.(*ssa.Call)
				if !ok {
					continue
				}
				n++
				construct := fmt.Sprintf("%s:%s-ends-the-parallel-section", shortFn(cps), pd.name)
				lp := core.InnermostLoop(loops, call.Block())
				if lp == nil {
					r.Undecided("GUARD", construct, c.Pos(call.Pos()), "the predicate is not evaluated inside the scan loop")
					continue
				}
				// from every edge on which the predicate is true the scan must end (no way back to the loop header)
				var leak *ssa.BasicBlock
				var wrongRet *ssa.Return
				decided := false
				for _, b := range cps.Blocks {
					ifi, ok := core.LastIf(b)
					if !ok {
						continue
					}
					cond, neg := ifi.Cond, false
					if u, ok := cond.(*ssa.UnOp); ok && u.Op == token.NOT {
						cond, neg = u.X, true
					}
					if cond != ssa.Value(call) {
						continue
					}
					decided = true
					start := b.Succs[0]
					if neg {
						start = b.Succs[1]
					}
					seen := map[*ssa.BasicBlock]bool{start: true}
					work := []*ssa.BasicBlock{start}
					for len(work) > 0 {
						x := work[len(work)-1]
						work = work[:len(work)-1]
						if x == lp.Header {
							if leak == nil {
								leak = x
							}
							continue
						}
						if len(x.Instrs) > 0 {
							if ret, ok := x.Instrs[len(x.Instrs)-1].(*ssa.Return); ok && pd.mustFalse {
								if k, ok := core.RetResult(ret, 0).(*ssa.Const); !ok || k.Value == nil || k.Value.String() != "false" {
									wrongRet = ret
								}
							}
						}
						for _, sc := range x.Succs {
							if !seen[sc] {
								seen[sc] = true
								work = append(work, sc)
							}
						}
					}
				}
				// ... and the region where it is true must exist and cover the true edge of the test
				switch {
				case !decided:
					r.Violation("GUARD", construct, c.Pos(call.Pos()), "the result of "+pd.name+"() does not decide whether the scan ends: "+pd.why)
				case leak != nil:
					r.Violation("GUARD", construct, c.Pos(call.Pos()), "the scan can continue past a command for which "+pd.name+"() is true: "+pd.why)
				case wrongRet != nil:
					r.Violation("GUARD", construct, c.Pos(wrongRet.Pos()), "the scan ends at a command for which "+pd.name+"() is true with an answer other than `cannot split`: "+pd.why)
				default:
					r.OK("GUARD", construct, c.Pos(call.Pos()), "no path on which "+pd.name+"() is true returns to the loop header")
				}
			}
		}
		r.Floor("GUARD", "planner predicates tested in CanParallelSearch", n, 3)
		// the answer `can split` needs an order-insensitive command in the cloned part
		ign := method(dpT, "IgnoresInputOrder")
		for _, ret := range core.Returns(cps) {
			if _, isConst := core.RetResult(ret, 0).(*ssa.Const); isConst {
				if k := core.RetResult(ret, 0).(*ssa.Const); k.Value != nil && k.Value.String() == "true" {
					r.Violation("GUARD", shortFn(cps)+":split-needs-an-order-insensitive-command", c.Pos(ret.Pos()), "CanParallelSearch answers `can split` unconditionally")
				}
				continue
			}
			ok := true
			seen := map[ssa.Value]bool{}
			var walk func(v ssa.Value, from *ssa.BasicBlock)
			walk = func(v ssa.Value, from *ssa.BasicBlock) {
				if seen[v] {
					return
				}
				seen[v] = true
				switch x := v.(type) {
				case *ssa.Phi:
					for i, e := range x.Edges {
						walk(e, x.Block().Preds[i])
					}
				case *ssa.Const:
					if x.Value != nil && x.Value.String() == "true" {
						guarded := false
						for _, ci := range core.CallsIn(cps) {
							if call, isCall := ci.(*ssa.Call); isCall && ci.Common().StaticCallee() == ign && from != nil && core.BoolKnownAt(call, from) == core.Yes {
								guarded = true
							}
						}
						if !guarded {
							ok = false
						}
					}
				default:
					ok = false
				}
			}
			walk(ret.Results[0], nil)
			r.Check(ok, "GUARD", shortFn(cps)+":split-needs-an-order-insensitive-command", c.Pos(ret.Pos()),
				"the answer is true only where IgnoresInputOrder() was true for a command of the cloned part",
				"CanParallelSearch can answer `can split` although no command of the cloned part ignores the order of its input: the merged output of the parallel chains is in a different order than the single chain's")
		}
	}

	// ---------------------------------------------------------------- (4) the DataProcessor wrapper itself
	{
		dpT := c.NamedType(pkgProcessor, "DataProcessor")
		fetch, rewind := method(dpT, "Fetch"), method(dpT, "Rewind")
		if fetch == nil || rewind == nil {
			r.Undecided("REWIND", "DataProcessor:methods", "-", "Fetch/Rewind not resolvable")
		} else {
			fa := newFieldAccess()
			// Fetch calls Rewind itself at the end of the first pass: keep Rewind's own writes out of the Fetch cone
			collectAccess(fetch, []ssa.Value{fetch.Params[0]}, fa, map[*ssa.Function]bool{rewind: true}, 0)
			ra := newFieldAccess()
			collectAccess(rewind, []ssa.Value{rewind.Params[0]}, ra, map[*ssa.Function]bool{}, 0)
			own := map[*types.Var]bool{}
			var addOwn func(st *types.Struct, depth int)
			addOwn = func(st *types.Struct, depth int) {
				for i := 0; i < st.NumFields(); i++ {
					own[st.Field(i)] = true
					if inner, ok := st.Field(i).Type().Underlying().(*types.Struct); ok && depth < 2 {
						addOwn(inner, depth+1) // nested struct values (mergeSettings) are part of the wrapper
					}
				}
			}
			addOwn(dpT.Underlying().(*types.Struct), 0)
			dpExceptions := map[string]string{
				"finishedFirstPass": "remembers that the first pass is over; it is what makes the rewind happen once and must survive it",
			}
			if os.Getenv("VERIF_DBG_C06") != "" {
				for f, in := range fa.writes {
					_, rd := fa.reads[f]
					fmt.Fprintf(os.Stderr, "DBG wrapper write %s at %s read=%v own=%v\n", f.Name(), c.Pos(in.Pos()), rd, own[f])
				}
			}
			var state []*types.Var
			for f := range fa.writes {
				if _, isChan := f.Type().Underlying().(*types.Chan); isChan {
					continue // a channel field is plumbing between the fetch goroutines, created once: its identity is not replay state
				}
				if _, ok := fa.reads[f]; ok && own[f] {
					state = append(state, f)
				}
			}
			sort.Slice(state, func(i, j int) bool { return state[i].Name() < state[j].Name() })
			for _, f := range state {
				construct := fmt.Sprintf("DataProcessor:field(%s)-reset-by-Rewind", f.Name())
				_, reset := ra.writes[f]
				switch {
				case reset:
					r.OK("REWIND", construct, c.Pos(fa.writes[f].Pos()), "assigned in the Rewind cone of the wrapper")
				case dpExceptions[c.BaseName(f)] != "":
					r.Assume("REWIND", construct, c.Pos(fa.writes[f].Pos()), "exception: "+dpExceptions[c.BaseName(f)])
				default:
					r.Violation("REWIND", construct, c.Pos(fa.writes[f].Pos()), fmt.Sprintf("the DataProcessor wrapper keeps cross-batch state in field %s (written and read while fetching) that DataProcessor.Rewind does not re-assign on its own copy: on the second pass of a downstream two-pass command this stage continues from where the first pass ended (e.g. a merge limit already counted as reached returns no rows)", f.Name()))
				}
			}
			r.Floor("REWIND", "cross-batch fields of the DataProcessor wrapper", len(state), 1)
		}
	}

	// (5) a row limit is compared with the cumulative count (shared with C05)
	c06RowLimit(c, r, method)

	// ---------------------------------------------------------------- (3) CachedStream invariant
	{
		unused := c.Field(pkgProcessor, "CachedStream.unusedDataFromLastFetch")
		exhausted := c.Field(pkgProcessor, "CachedStream.isExhausted")
		n := 0
		for _, fn := range c.RepoFunctions() {
			if core.FnPkgPath(fn) != core.ModPath+"/"+pkgProcessor {
				continue
			}
			for _, b := range fn.Blocks {
				for _, in := range b.Instrs {
					st, ok := in.(*ssa.Store)
					if !ok || !isFieldAddrOf(st.Addr, unused) || core.IsNilConst(st.Val) {
						continue
					}
					n++
					construct := shortFn(fn) + ":rows-handed-back-imply-not-exhausted"
					var leak ssa.Instruction
					core.WalkForwardEdges(fn, st, func(x ssa.Instruction) bool {
						if s2, ok := x.(*ssa.Store); ok && isFieldAddrOf(s2.Addr, exhausted) {
							if k, ok := s2.Val.(*ssa.Const); ok && k.Value != nil && k.Value.String() == "false" {
								return false
							}
						}
						if core.NilnessAt(st.Val, x.Block()) == core.Yes {
							return false
						}
						if ret, ok := x.(*ssa.Return); ok {
							leak = ret
						}
						return true
					}, func(from, to *ssa.BasicBlock) bool {
						// do not follow the edge on which the stored value is nil
						if ifi, ok := core.LastIf(from); ok {
							if bo, ok := ifi.Cond.(*ssa.BinOp); ok && (bo.X == st.Val || bo.Y == st.Val) {
								other := bo.Y
								if bo.Y == st.Val {
									other = bo.X
								}
								if core.IsNilConst(other) {
									nilEdge := from.Succs[1]
									if bo.Op.String() == "==" {
										nilEdge = from.Succs[0]
									}
									if to == nilEdge && from.Succs[0] != from.Succs[1] {
										return false
									}
								}
							}
						}
						return true
					})
					if leak != nil {
						r.Violation("PAIR", construct, c.Pos(st.Pos()), "rows can be handed back to a cached stream that stays marked exhausted: DataProcessor skips exhausted streams, so the rows of a stream that delivered its data together with EOF are silently dropped when several upstream chains are merged")
					} else {
						r.OK("PAIR", construct, c.Pos(st.Pos()), "every path that stores non-nil leftover rows clears isExhausted")
					}
				}
			}
		}
		r.Floor("PAIR", "stores of leftover rows into a CachedStream", n, 1)
	}

	// ---------------------------------------------------------------- (2) constructors
	dpType := c.NamedType(pkgProcessor, "DataProcessor")
	dst := dpType.Underlying().(*types.Struct)
	fieldIdx := map[string]int{}
	for i := 0; i < dst.NumFields(); i++ {
		fieldIdx[dst.Field(i).Name()] = i
	}
	nLit := 0
	for _, fn := range c.RepoFunctions() {
		if core.FnPkgPath(fn) != core.ModPath+"/"+pkgProcessor || !strings.HasPrefix(fn.Name(), "New") || !strings.HasSuffix(fn.Name(), "DP") {
			continue
		}
		// stores into a freshly allocated DataProcessor
		vals := map[string]ssa.Value{}
		var at ssa.Instruction
		for _, b := range fn.Blocks {
			for _, in := range b.Instrs {
				st, ok := in.(*ssa.Store)
				if !ok {
					continue
				}
				fa, ok := st.Addr.(*ssa.FieldAddr)
				if !ok {
					continue
				}
				al, ok := fa.X.(*ssa.Alloc)
				if !ok || !types.Identical(al.Type().(*types.Pointer).Elem(), dpType) {
					continue
				}
				vals[dst.Field(fa.Field).Name()] = st.Val
				at = in
			}
		}
		if at == nil {
			continue
		}
		nLit++
		name := shortFn(fn)
		isFalse := func(v ssa.Value) bool {
			if v == nil {
				return true // zero value
			}
			k, ok := v.(*ssa.Const)
			return ok && k.Value != nil && k.Value.String() == "false"
		}
		isTrue := func(v ssa.Value) bool {
			k, ok := v.(*ssa.Const)
			return ok && k.Value != nil && k.Value.String() == "true"
		}
		two, bott := vals["isTwoPassCmd"], vals["isBottleneckCmd"]
		okTwo := isFalse(two) || two == bott || (isTrue(two) && isTrue(bott)) || sameExpr(two, bott, 0)
		r.Check(okTwo, "TABLE", name+":isTwoPassCmd-implies-isBottleneckCmd", c.Pos(at.Pos()), "two-pass is false or equals bottleneck", "a command constructed as two-pass but not as bottleneck releases first-pass rows downstream before the second pass")
		ign, ord := vals["ignoresInputOrder"], vals["inputOrderMatters"]
		r.Check(!(isTrue(ign) && isTrue(ord)), "TABLE", name+":order-flags-consistent", c.Pos(at.Pos()), "ignoresInputOrder and inputOrderMatters are not both true", "a command is declared both order-insensitive and order-dependent")
		_, hasProc := vals["processor"]
		r.Check(hasProc, "TABLE", name+":processor-set", c.Pos(at.Pos()), "processor field is set", "the DataProcessor is built without a processor")
	}
	r.Floor("TABLE", "DataProcessor constructors", nLit, 20)
}

// sameExpr: structural equality of two SSA expressions (same operators over
// the same loads / parameters / constants).
func sameExpr(a, b ssa.Value, depth int) bool {
	if a == b {
		return true
	}
	if a == nil || b == nil || depth > 4 {
		return false
	}
	switch x := a.(type) {
	case *ssa.Const:
		y, ok := b.(*ssa.Const)
		return ok && x.Value != nil && y.Value != nil && x.Value.String() == y.Value.String()
	case *ssa.BinOp:
		y, ok := b.(*ssa.BinOp)
		return ok && x.Op == y.Op && sameExpr(x.X, y.X, depth+1) && sameExpr(x.Y, y.Y, depth+1)
	case *ssa.UnOp:
		y, ok := b.(*ssa.UnOp)
		return ok && x.Op == y.Op && sameExpr(x.X, y.X, depth+1)
	case *ssa.FieldAddr:
		y, ok := b.(*ssa.FieldAddr)
		return ok && x.Field == y.Field && sameExpr(x.X, y.X, depth+1)
	case *ssa.Call:
		y, ok := b.(*ssa.Call)
		if !ok || len(x.Call.Args) != len(y.Call.Args) {
			return false
		}
		if bx, ok := x.Call.Value.(*ssa.Builtin); ok {
			by, ok2 := y.Call.Value.(*ssa.Builtin)
			if !ok2 || bx.Name() != by.Name() {
				return false
			}
		} else if x.Call.StaticCallee() == nil || x.Call.StaticCallee() != y.Call.StaticCallee() {
			return false
		}
		for i := range x.Call.Args {
			if !sameExpr(x.Call.Args[i], y.Call.Args[i], depth+1) {
				return false
			}
		}
		return true
	case *ssa.Convert:
		y, ok := b.(*ssa.Convert)
		return ok && sameExpr(x.X, y.X, depth+1)
	}
	return false
}

// finalGuardFields: receiver fields whose loaded value reaches a branch condition of fn.
func finalGuardFields(fn *ssa.Function) map[*types.Var]ssa.Instruction {
	out := map[*types.Var]ssa.Instruction{}
	if fn == nil {
		return out
	}
	var feeds func(v ssa.Value, depth int) bool
	feeds = func(v ssa.Value, depth int) bool {
		if depth > 4 {
			return false
		}
		refs := v.Referrers()
		if refs == nil {
			return false
		}
		for _, u := range *refs {
			switch x := u.(type) {
			case *ssa.If:
				return true
			case *ssa.BinOp:
				if feeds(x, depth+1) {
					return true
				}
			case *ssa.UnOp:
				if x.Op == token.NOT && feeds(x, depth+1) {
					return true
				}
			case *ssa.Phi:
				if feeds(x, depth+1) {
					return true
				}
			}
		}
		return false
	}
	for _, b := range fn.Blocks {
		for _, in := range b.Instrs {
			ld, ok := in.(*ssa.UnOp)
			if !ok || ld.Op != token.MUL {
				continue
			}
			fa, ok := ld.X.(*ssa.FieldAddr)
			if !ok {
				continue
			}
			if f := core.FieldOfAddr(fa); f != nil && feeds(ld, 0) {
				out[f] = ld
			}
		}
	}
	return out
}

// c06BatchStart — (7) BATCHSTART: a processor is called once per batch, and a value it carries from row to row (a
// field that the per-row loop of Process both reads and writes) is carried from the last row of one batch to the first
// row of the next as well.  Re-initialising such a field at the start of Process — an unconditional store of a
// constant that dominates the row loop — makes the batch boundary visible: the same rows give different output when
// they arrive cut differently.  (Initial values belong in the constructor or in Rewind.)
func c06BatchStart(c *core.Ctx, r *core.Report, impls []*types.Named, method func(named *types.Named, name string) *ssa.Function) {
	n := 0
	for _, named := range impls {
		process := method(named, "Process")
		if process == nil || process.Blocks == nil {
			continue
		}
		recv := ssa.Value(process.Params[0])
		loops := core.Loops(process)
		// fields of the receiver read and written inside some loop
		type acc struct{ r, w bool }
		carried := map[*types.Var]*acc{}
		fieldOf := func(addr ssa.Value) *types.Var {
			fa, ok := addr.(*ssa.FieldAddr)
			if !ok || fa.X != recv {
				return nil
			}
			return core.FieldOfAddr(fa)
		}
		for _, b := range process.Blocks {
			if core.InnermostLoop(loops, b) == nil {
				continue
			}
			for _, in := range b.Instrs {
				switch x := in.(type) {
				case *ssa.Store:
					if f := fieldOf(x.Addr); f != nil {
						if carried[f] == nil {
							carried[f] = &acc{}
						}
						carried[f].w = true
					}
				case *ssa.UnOp:
					if f := fieldOf(x.X); f != nil {
						if carried[f] == nil {
							carried[f] = &acc{}
						}
						carried[f].r = true
					}
				}
			}
		}
		var fields []*types.Var
		for f, a := range carried {
			if a.r && a.w {
				fields = append(fields, f)
			}
		}
		sort.Slice(fields, func(i, j int) bool { return fields[i].Name() < fields[j].Name() })
		for _, f := range fields {
			n++
			construct := fmt.Sprintf("%s:row-carried(%s)-not-reinitialised-per-batch", named.Obj().Name(), f.Name())
			var bad *ssa.Store
			for _, b := range process.Blocks {
				if core.InnermostLoop(loops, b) != nil {
					continue
				}
				for _, in := range b.Instrs {
					st, ok := in.(*ssa.Store)
					if !ok || fieldOf(st.Addr) != f {
						continue
					}
					if _, isK := st.Val.(*ssa.Const); !isK {
						// a value computed from the field itself or from the batch is not a re-initialisation to a fixed start
						if _, isPhi := st.Val.(*ssa.Phi); !isPhi {
							continue
						}
						allConst := true
						for _, e := range st.Val.(*ssa.Phi).Edges {
							if _, k := e.(*ssa.Const); !k {
								allConst = false
							}
						}
						if !allConst {
							continue
						}
					}
					// unconditional: the store's block dominates the header of a loop that carries the field
					for _, lp := range loops {
						if b.Dominates(lp.Header) && b != lp.Header {
							bad = st
						}
					}
				}
			}
			if bad != nil {
				r.Violation("LIVE", construct, c.Pos(bad.Pos()), fmt.Sprintf("%s.Process sets %s to a fixed value at the start of every batch although the per-row loop carries it from row to row: the value the last row of one batch left is lost for the first row of the next, so the command's output depends on where the stream was cut into batches", named.Obj().Name(), f.Name()))
			} else {
				r.OK("LIVE", construct, c.Pos(process.Pos()), "not assigned a fixed value on the way into the row loop")
			}
		}
	}
	r.Floor("LIVE", "row-carried processor fields", n, 3)
}

// c06DeadState — (8) DEADSTATE: a counter that a pipeline command advances from row to row (a field of the processor
// updated from its own previous value, like streamstats' position in the stream) exists to be consulted: it is what
// makes the second batch continue where the first one stopped.  If no code reads it any more except its own update,
// the command has started to use something else in its place — typically the position inside the current batch —
// and its output depends on where the stream was cut.  For every field of a processor type that some method
// updates from its own value, there is a read of it, somewhere in the repository, that is not part of such an
// update.
func c06DeadState(c *core.Ctx, r *core.Report, impls []*types.Named) {
	isImpl := map[*types.Named]bool{}
	for _, n := range impls {
		isImpl[n] = true
	}
	type info struct {
		owner      *types.Named
		selfUpdate ssa.Instruction
		consulted  bool
	}
	fields := map[*types.Var]*info{}
	ownerOf := func(fa *ssa.FieldAddr) *types.Named {
		pt, ok := fa.X.Type().Underlying().(*types.Pointer)
		if !ok {
			return nil
		}
		n, _ := pt.Elem().(*types.Named)
		if n == nil || !isImpl[n] {
			return nil
		}
		return n
	}
	// feedsOnlyOwnStore: every use of the loaded value ends in a store to the same field (through arithmetic)
	var feedsOnlyOwnStore func(v ssa.Value, f *types.Var, depth int) bool
	feedsOnlyOwnStore = func(v ssa.Value, f *types.Var, depth int) bool {
		refs := v.Referrers()
		if refs == nil || len(*refs) == 0 || depth > 3 {
			return depth <= 3
		}
		for _, u := range *refs {
			switch x := u.(type) {
			case *ssa.DebugRef:
			case *ssa.BinOp:
				if !feedsOnlyOwnStore(x, f, depth+1) {
					return false
				}
			case *ssa.Convert:
				if !feedsOnlyOwnStore(x, f, depth+1) {
					return false
				}
			case *ssa.Store:
				fa, ok := x.Addr.(*ssa.FieldAddr)
				if !ok || core.FieldOfAddr(fa) != f || x.Val != v {
					return false
				}
			default:
				return false
			}
		}
		return true
	}
	for _, fn := range c.RepoFunctions() {
		for _, b := range fn.Blocks {
			for _, in := range b.Instrs {
				ld, ok := in.(*ssa.UnOp)
				if !ok || ld.Op != token.MUL {
					continue
				}
				fa, ok := ld.X.(*ssa.FieldAddr)
				if !ok {
					continue
				}
				owner := ownerOf(fa)
				if owner == nil {
					continue
				}
				f := core.FieldOfAddr(fa)
				if b, ok := f.Type().Underlying().(*types.Basic); !ok || b.Info()&types.IsNumeric == 0 {
					continue
				}
				if fields[f] == nil {
					fields[f] = &info{owner: owner}
				}
				if feedsOnlyOwnStore(ld, f, 0) {
					if refs := ld.Referrers(); refs != nil && len(*refs) > 0 && fields[f].selfUpdate == nil {
						fields[f].selfUpdate = ld
					}
				} else {
					fields[f].consulted = true
				}
			}
		}
	}
	var list []*types.Var
	for f, i := range fields {
		if i.selfUpdate != nil {
			list = append(list, f)
		}
	}
	sort.Slice(list, func(i, j int) bool {
		if fields[list[i]].owner.Obj().Name() != fields[list[j]].owner.Obj().Name() {
			return fields[list[i]].owner.Obj().Name() < fields[list[j]].owner.Obj().Name()
		}
		return list[i].Name() < list[j].Name()
	})
	for _, f := range list {
		i := fields[f]
		construct := fmt.Sprintf("%s:running-counter(%s)-is-consulted", i.owner.Obj().Name(), f.Name())
		if c.BaseName(i.owner.Obj()) == "inputlookupProcessor" && c.BaseName(f) == "numprocessed" && !i.consulted {
			// one named exception: inputlookup is a generating command, not one of the transforming commands C06
			// quantifies over.  (The counter IS dead on the pinned tree, with a visible effect that no property
			// covers: `inputlookup max=N` compares N with the rows read in the current call, so with N above the
			// 100-row fetch size every fetch returns another 100 rows until the file ends — DESIGN.md §5.4.)
			r.Assume("LIVE", construct, c.Pos(i.selfUpdate.Pos()), "inputlookup is a generating command outside C06's list of transforming commands; its dead row counter is recorded as an observation (max=N is compared with the per-fetch count), not judged here")
			continue
		}
		r.Check(i.consulted, "LIVE", construct, c.Pos(i.selfUpdate.Pos()), "the counter is read by code other than its own update",
			fmt.Sprintf("%s.%s is advanced from its own value but nothing reads it any more: whatever replaced it (the position inside the current batch, a per-call value) starts again at every batch, so the command's output depends on where the stream was cut into batches", i.owner.Obj().Name(), f.Name()))
	}
	r.Floor("LIVE", "running counters of pipeline processors", len(list), 2)
}

// c06RowLimit — (5) (shared with C05: `head n` lets through exactly n rows however the stream is chunked).
func c06RowLimit(c *core.Ctx, r *core.Report, method func(named *types.Named, name string) *ssa.Function) {
	type limitSpec struct{ typ, limitOwner, limitField, counterField string }
	for _, sp := range []limitSpec{{"headProcessor", "HeadExpr", "MaxRows", "numRecordsSent"}} {
		named := c.NamedType(pkgProcessor, sp.typ)
		limitF := c.Field("pkg/segment/structs", sp.limitOwner+"."+sp.limitField)
		counterF := c.Field(pkgProcessor, sp.typ+"."+sp.counterField)
		process := method(named, "Process")
		cone := map[*ssa.Function]bool{process: true}
		work := []*ssa.Function{process}
		for len(work) > 0 {
			f := work[len(work)-1]
			work = work[:len(work)-1]
			for _, ci := range core.CallsIn(f) {
				if callee := ci.Common().StaticCallee(); callee != nil && !cone[callee] && callee.Signature.Recv() != nil && core.FnPkgPath(callee) == core.ModPath+"/"+pkgProcessor {
					if rt, ok := callee.Signature.Recv().Type().(*types.Pointer); ok && types.Identical(rt.Elem(), named) {
						cone[callee] = true
						work = append(work, callee)
					}
				}
			}
		}
		var fromField func(v ssa.Value, f *types.Var, depth int) bool
		fromField = func(v ssa.Value, f *types.Var, depth int) bool {
			if depth > 6 || v == nil {
				return false
			}
			switch x := v.(type) {
			case *ssa.UnOp:
				if a, ok := x.X.(*ssa.FieldAddr); ok && core.FieldOfAddr(a) == f {
					return true
				}
				return fromField(x.X, f, depth+1)
			case *ssa.BinOp:
				return fromField(x.X, f, depth+1) || fromField(x.Y, f, depth+1)
			case *ssa.Convert:
				return fromField(x.X, f, depth+1)
			case *ssa.Phi:
				for _, e := range x.Edges {
					if fromField(e, f, depth+1) {
						return true
					}
				}
			}
			return false
		}
		n := 0
		var coneFns []*ssa.Function
		for fn := range cone {
			coneFns = append(coneFns, fn)
		}
		sort.Slice(coneFns, func(i, j int) bool { return coneFns[i].Name() < coneFns[j].Name() })
		for _, fn := range coneFns {
			k := 0
			for _, b := range fn.Blocks {
				for _, in := range b.Instrs {
					bo, ok := in.(*ssa.BinOp)
					if !ok {
						continue
					}
					switch bo.Op {
					case token.LSS, token.LEQ, token.GTR, token.GEQ, token.EQL, token.NEQ, token.SUB:
					default:
						continue
					}
					lx, ly := fromField(bo.X, limitF, 0), fromField(bo.Y, limitF, 0)
					if !lx && !ly {
						continue
					}
					// comparisons with constants (e.g. limit == 0) say nothing about the stream
					if _, isK := bo.X.(*ssa.Const); isK {
						continue
					}
					if _, isK := bo.Y.(*ssa.Const); isK {
						continue
					}
					n++
					k++
					okc := fromField(bo.X, counterF, 0) || fromField(bo.Y, counterF, 0)
					r.Check(okc, "LIVE", fmt.Sprintf("%s:%s#%d-row-limit-is-measured-against-the-cumulative-count", sp.typ, fn.Name(), k), c.Pos(bo.Pos()),
						fmt.Sprintf("%s is combined with the rows already sent (%s)", sp.limitField, sp.counterField),
						fmt.Sprintf("the configured row limit %s is compared with a quantity of the current batch only, not with the rows already sent (%s): how many rows the command lets through depends on how the input is chunked", sp.limitField, sp.counterField))
				}
			}
		}
		r.Floor("LIVE", "uses of the row limit in "+sp.typ, n, 3)
	}
}
