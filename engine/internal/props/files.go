package props

import (
	"go/constant"
	"go/types"
	"strings"

	"golang.org/x/tools/go/ssa"

	"verif/engine/internal/core"
)

// openSite is one call that opens/creates/overwrites a file by path.
type openSite struct {
	Call     ssa.CallInstruction
	Fn       *ssa.Function
	API      string // os.OpenFile, os.Create, os.WriteFile, ...
	Path     ssa.Value
	Trunc    core.Tri // truncates existing content in place
	Append   bool
	ReadOnly bool
}

func osConst(c *core.Ctx, name string) int64 {
	o := c.ExtObj("os", name).(*types.Const)
	v, _ := constant.Int64Val(constant.ToInt(o.Val()))
	return v
}

// fileOpenSites enumerates, over all repository functions, the calls that open
// a file for writing or overwrite it.
func fileOpenSites(c *core.Ctx) []openSite {
	oTrunc, oAppend := osConst(c, "O_TRUNC"), osConst(c, "O_APPEND")
	oWronly, oRdwr := osConst(c, "O_WRONLY"), osConst(c, "O_RDWR")
	var out []openSite
	for _, fn := range c.RepoFunctions() {
		for _, ci := range core.CallsIn(fn) {
			f := core.CalleeFunc(ci)
			if f == nil || f.Pkg() == nil {
				continue
			}
			args := ci.Common().Args
			switch f.Pkg().Path() + "." + f.Name() {
			case "os.OpenFile":
				s := openSite{Call: ci, Fn: fn, API: "os.OpenFile", Path: args[0]}
				if fl, ok := core.ConstIntValue(args[1]); ok {
					s.Append = fl&oAppend != 0
					if fl&oTrunc != 0 && !s.Append {
						s.Trunc = core.Yes
					}
					s.ReadOnly = fl&(oWronly|oRdwr) == 0
				} else {
					s.Trunc = core.Maybe
				}
				out = append(out, s)
			case "os.Create":
				out = append(out, openSite{Call: ci, Fn: fn, API: "os.Create", Path: args[0], Trunc: core.Yes})
			case "os.WriteFile", "io/ioutil.WriteFile":
				out = append(out, openSite{Call: ci, Fn: fn, API: "os.WriteFile", Path: args[0], Trunc: core.Yes})
			case "os.Truncate":
				out = append(out, openSite{Call: ci, Fn: fn, API: "os.Truncate", Path: args[0], Trunc: core.Yes})
			}
		}
	}
	return out
}

// pathClass classifies a path value by its origins.
type pathClass struct {
	Classes map[string]bool // recovery-critical classes the path may denote
	Tmp     bool            // built with a ".tmp"-like suffix constant
	Origins []core.Origin
}

// classTable maps origins to recovery-critical file classes.
type classTable struct {
	Funcs   map[types.Object]string // call results
	Globals map[types.Object]string // package-level variables
	Consts  map[string]string       // substring of a string constant -> class
}

func classifyPath(c *core.Ctx, v ssa.Value, t *classTable, depth int) pathClass {
	pc := pathClass{Classes: map[string]bool{}}
	pc.Origins = c.Origins(v, depth)
	for _, o := range pc.Origins {
		switch o.Kind {
		case "const":
			if strings.HasSuffix(o.Str, ".tmp") || strings.Contains(o.Str, ".tmp") || strings.HasSuffix(o.Str, ".bak") {
				pc.Tmp = true
			}
			for sub, cl := range t.Consts {
				if strings.Contains(o.Str, sub) {
					pc.Classes[cl] = true
				}
			}
		case "call":
			if o.Obj != nil {
				if f, ok := o.Obj.(*types.Func); ok {
					if cl, ok := t.Funcs[f.Origin()]; ok {
						pc.Classes[cl] = true
					}
				}
			}
		case "global":
			if cl, ok := t.Globals[o.Obj]; ok {
				pc.Classes[cl] = true
			}
		}
	}
	return pc
}

func classNames(m map[string]bool) string {
	var ks []string
	for k := range m {
		ks = append(ks, k)
	}
	sortStrings(ks)
	return strings.Join(ks, ",")
}
