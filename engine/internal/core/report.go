package core

import (
	"crypto/sha1"
	"encoding/hex"
	"encoding/json"
	"fmt"
	"os"
	"path/filepath"
	"sort"
	"strings"
)

// Status of an obligation.
const (
	StOK         = "discharged"
	StViolation  = "violation"
	StUndecided  = "undecided"
	StAssumption = "assumption"
)

// Obl is one proof obligation of a rule instance.  Key identifies rule +
// construct and never contains line numbers, so known findings and replays
// survive unrelated edits.
type Obl struct {
	Key       string   `json:"key"`
	Rule      string   `json:"rule"`
	Construct string   `json:"construct"`
	Pos       string   `json:"pos"`
	Status    string   `json:"status"`
	Detail    string   `json:"detail,omitempty"`
	Path      []string `json:"path,omitempty"`
}

// Report collects the obligations of one property run.
type Report struct {
	Prop        string
	Obls        []Obl
	Counts      map[string]int
	Assumptions []string
	Explanation string
	NotCovered  string
	keys        map[string]bool
}

func NewReport(prop string) *Report {
	return &Report{Prop: prop, Counts: map[string]int{}, keys: map[string]bool{}}
}

func (r *Report) add(o Obl) {
	if o.Key == "" {
		o.Key = o.Rule + ":" + o.Construct
	}
	if r.keys[o.Key] {
		// keep keys unique but deterministic
		for i := 2; ; i++ {
			k := fmt.Sprintf("%s#%d", o.Key, i)
			if !r.keys[k] {
				o.Key = k
				break
			}
		}
	}
	r.keys[o.Key] = true
	r.Obls = append(r.Obls, o)
}

// OK records a discharged obligation.
func (r *Report) OK(rule, construct, pos, detail string) {
	r.add(Obl{Rule: rule, Construct: construct, Pos: pos, Status: StOK, Detail: detail})
}

// Violation records a violated obligation.
func (r *Report) Violation(rule, construct, pos, detail string, path ...string) {
	r.add(Obl{Rule: rule, Construct: construct, Pos: pos, Status: StViolation, Detail: detail, Path: path})
}

// Undecided records an obligation the rule could not decide (fails the check).
func (r *Report) Undecided(rule, construct, pos, detail string) {
	r.add(Obl{Rule: rule, Construct: construct, Pos: pos, Status: StUndecided, Detail: detail})
}

// Assume records a named assumption (listed, not counted as discharged).
func (r *Report) Assume(rule, construct, pos, detail string) {
	r.add(Obl{Rule: rule, Construct: construct, Pos: pos, Status: StAssumption, Detail: detail})
	r.Assumptions = append(r.Assumptions, construct+": "+detail)
}

// Check is OK when cond holds, Violation otherwise.
func (r *Report) Check(cond bool, rule, construct, pos, okDetail, badDetail string) bool {
	if cond {
		r.OK(rule, construct, pos, okDetail)
	} else {
		r.Violation(rule, construct, pos, badDetail)
	}
	return cond
}

// Floor fails when fewer instances than confirmed by hand were found, so a
// rule cannot pass vacuously.
//
// The argument is the count confirmed by hand when the rule was written.  The check fails below 60% of it (never
// below 1): the instances that exist are each judged by the rule itself, the floor only guards against a rule that
// has lost its subject, and a refactoring that merges two call sites or two arms must not make the check fail.
func (r *Report) Floor(rule, what string, got, confirmed int) {
	r.Counts[what] = got
	min := confirmed * 6 / 10
	if min < 1 && confirmed > 0 {
		min = 1
	}
	if got < min {
		r.Undecided("FLOOR", rule+":"+what, "-", fmt.Sprintf("found %d instances, expected at least %d: the rule would pass vacuously; re-confirm the instance table", got, min))
	} else {
		r.OK("FLOOR", rule+":"+what, "-", fmt.Sprintf("%d instances (confirmed %d, floor %d)", got, confirmed, min))
	}
}

// Count adds n to a named measured counter.
func (r *Report) Count(name string, n int) { r.Counts[name] += n }

// Known finding file entry.
type Known struct {
	Property string `json:"property"`
	Key      string `json:"key"`
	What     string `json:"what"`
	Status   string `json:"status"` // open | fixed
	Commit   string `json:"commit,omitempty"`
}

func LoadKnown(path string) ([]Known, error) {
	b, err := os.ReadFile(path)
	if err != nil {
		if os.IsNotExist(err) {
			return nil, nil
		}
		return nil, err
	}
	var ks []Known
	if err := json.Unmarshal(b, &ks); err != nil {
		return nil, err
	}
	return ks, nil
}

// Outcome of finishing a report.
type Outcome struct {
	Violations  []Obl
	KnownHits   []Known
	Discharged  int
	Obligations int
}

// Finish sorts obligations, matches known findings, writes the evidence file
// and violation files, prints the verdict lines and returns the outcome.
func (r *Report) Finish(c *Ctx, tier string, seed int64, wall float64, verifDir string, known []Known, evidencePath string) Outcome {
	sort.SliceStable(r.Obls, func(i, j int) bool { return r.Obls[i].Key < r.Obls[j].Key })
	openKnown := map[string]Known{}
	for _, k := range known {
		if k.Property == r.Prop && k.Status == "open" {
			openKnown[k.Key] = k
		}
	}
	var out Outcome
	var knownObls []Obl
	for _, o := range r.Obls {
		switch o.Status {
		case StOK:
			out.Discharged++
			out.Obligations++
		case StAssumption:
			out.Obligations++
		case StViolation, StUndecided:
			out.Obligations++
			k, ok := openKnown[o.Key]
			if !ok && c != nil {
				// the construct may carry the new name of a renamed function: recorded findings use the baseline name
				k, ok = openKnown[baselineKey(o.Key, c.OldShortNames())]
			}
			if ok && o.Status == StViolation {
				out.KnownHits = append(out.KnownHits, k)
				knownObls = append(knownObls, o)
			} else {
				out.Violations = append(out.Violations, o)
			}
		}
	}
	// evidence
	samples := []interface{}{}
	perRule := map[string]int{}
	for _, o := range r.Obls {
		if o.Status != StOK {
			continue
		}
		if perRule[o.Rule] >= 4 || len(samples) >= 40 {
			continue
		}
		perRule[o.Rule]++
		samples = append(samples, o)
	}
	for _, o := range out.Violations {
		samples = append(samples, o)
	}
	for _, o := range knownObls {
		samples = append(samples, o)
	}
	if len(samples) == 0 {
		samples = append(samples, map[string]string{"note": "no obligations generated"})
	}
	rules := map[string]int{}
	for _, o := range r.Obls {
		rules[o.Rule]++
	}
	counts := map[string]int{}
	for k, v := range r.Counts {
		counts[k] = v
	}
	var kf []string
	for _, k := range out.KnownHits {
		kf = append(kf, k.Key+": "+k.What)
	}
	var all []string
	for _, o := range r.Obls {
		all = append(all, fmt.Sprintf("%s %s:%s @%s", o.Status, o.Rule, o.Construct, o.Pos))
	}
	if os.Getenv("VERIF_DUMP") != "" {
		for _, o := range r.Obls {
			fmt.Fprintf(os.Stderr, "%s %s:%s @%s | %s\n", o.Status, o.Rule, o.Construct, o.Pos, o.Detail)
		}
	}
	cov := map[string]interface{}{
		"all_obligations":     all,
		"explanation":         r.Explanation,
		"not_covered":         r.NotCovered,
		"obligations":         out.Obligations,
		"discharged":          out.Discharged,
		"evaluations":         out.Obligations,
		"distinct_nontrivial": len(r.keys),
		"rule":                "one obligation per rule instance found in the loaded program (keyed rule:construct, distinct by key); an obligation is non-trivial because it is generated only for a construct that exists in the current source",
		"samples":             samples,
		"exhaustive":          true,
		"obligations_by_rule": rules,
		"measured":            counts,
		"known_findings":      kf,
		"checker_cmd":         fmt.Sprintf("bin/check %s %s", r.Prop, tier),
		"trusted_base":        []string{"go/types and go/ssa of golang.org/x/tools v0.29.0", "VTA call graph as over-approximation of dynamic dispatch", "frozen tables in engine/internal/props (anchors, idioms, exceptions)"},
		"program": map[string]interface{}{
			"root_packages": c.NumRoot, "packages": c.NumPkgs, "ssa_functions": c.NumFuncs, "load_s": c.LoadSeconds,
		},
	}
	ev := map[string]interface{}{
		"property_id": r.Prop,
		"tier":        tier,
		"seed":        seed,
		"level":       "other",
		"coverage":    cov,
		"assumptions": append([]string{"static analysis of the source only: decides the structural clauses named in coverage.explanation, not the behaviour"}, r.Assumptions...),
		"wall_s":      wall,
		"violations":  len(out.Violations),
	}
	if evidencePath != "" {
		os.MkdirAll(filepath.Dir(evidencePath), 0o755)
		b, _ := json.MarshalIndent(ev, "", " ")
		os.WriteFile(evidencePath, b, 0o644)
	}
	// verdict
	for _, k := range out.KnownHits {
		fmt.Printf("KNOWN-FINDING: property=%s %s — %s\n", r.Prop, k.Key, k.What)
	}
	vdir := filepath.Join(verifDir, "violations")
	for _, o := range out.Violations {
		os.MkdirAll(vdir, 0o755)
		h := sha1.Sum([]byte(o.Key))
		p := filepath.Join(vdir, fmt.Sprintf("%s-%s.json", r.Prop, hex.EncodeToString(h[:6])))
		kind := "violation"
		if o.Status == StUndecided {
			kind = "checker-cannot-decide"
		}
		b, _ := json.MarshalIndent(map[string]interface{}{"property": r.Prop, "kind": kind, "obligation": o}, "", " ")
		os.WriteFile(p, b, 0o644)
		fmt.Printf("  %s [%s] %s at %s: %s\n", strings.ToUpper(kind), o.Rule, o.Construct, o.Pos, o.Detail)
		for _, s := range o.Path {
			fmt.Printf("      %s\n", s)
		}
		fmt.Printf("VIOLATION property=%s replay=%s\n", r.Prop, p)
	}
	if len(out.Violations) == 0 {
		fmt.Printf("OK property=%s tier=%s obligations=%d discharged=%d known_findings=%d\n", r.Prop, tier, out.Obligations, out.Discharged, len(out.KnownHits))
	}
	return out
}

// baselineKey rewrites every identifier of key that is the new name of a renamed symbol to its baseline name.
func baselineKey(key string, old map[string]string) string {
	if len(old) == 0 {
		return key
	}
	isId := func(b byte) bool {
		return b == '_' || (b >= '0' && b <= '9') || (b >= 'a' && b <= 'z') || (b >= 'A' && b <= 'Z')
	}
	var sb strings.Builder
	for i := 0; i < len(key); {
		if !isId(key[i]) {
			sb.WriteByte(key[i])
			i++
			continue
		}
		j := i
		for j < len(key) && isId(key[j]) {
			j++
		}
		w := key[i:j]
		if o, ok := old[w]; ok {
			w = o
		}
		sb.WriteString(w)
		i = j
	}
	return sb.String()
}
